#!/bin/bash
# MANIFEST.setup_cmd: offline; compiles every harness package once (warms the Go build cache).
cd "$(dirname "$0")"
export GOFLAGS=-mod=mod GOPROXY=off GOSUMDB=off GOTOOLCHAIN=local
mkdir -p build evidence replays
python3 tools/vrun.py --build-all
