#!/usr/bin/env python3
"""Regenerates MANIFEST.json from tools/props.json (single source of truth)."""
import json, os, subprocess
V = os.path.dirname(os.path.dirname(os.path.abspath(__file__)))
conf = {f[:-5]: json.load(open(os.path.join(V, "tools", "props.d", f))) for f in sorted(os.listdir(os.path.join(V, "tools", "props.d"))) if f.endswith(".json")}
# known_findings.json = concatenation of known_findings.d/*.json (edited by hand, never at run time)
kf = []
kd = os.path.join(V, "known_findings.d")
for f in sorted(os.listdir(kd)):
    if f.endswith(".json"):
        kf += json.load(open(os.path.join(kd, f)))
fixsubj = {l.split()[0]: l for l in subprocess.run(["git", "-C", "/repo", "log", "--format=%h %s"], capture_output=True, text=True).stdout.splitlines() if l.strip()}
for f in kf:
    if f["status"] == "fixed":
        c = f.get("commit", "")
        if c not in fixsubj or " fix:" not in fixsubj[c]:
            print("WARNING: fixed finding %s names commit %r which is not a fix: commit of /repo" % (f["key"], c))
for f in kf:
    # the one-line form the interface names: "fixed: property=<id> <commit> <what failed>" / the KNOWN-FINDING line the check prints
    what = " ".join(f["what"].split())
    f["line"] = ("fixed: property=%s %s %s [%s]" % (f["property"], f.get("commit", ""), what, f["key"]) if f["status"] == "fixed"
                 else "KNOWN-FINDING: property=%s %s [%s]" % (f["property"], what, f["key"]))
json.dump({"comment": "known: genuine defect recorded, its trigger class is excluded from generation and the probe prints KNOWN-FINDING; fixed: repaired by the named fix: commit in /repo, suppresses nothing (the probe is an ordinary assertion)", "findings": kf}, open(os.path.join(V, "known_findings.json"), "w"), indent=1)
ready = set(open(os.path.join(V, "tools", "ready.txt")).read().split())
conf = {k: v for k, v in conf.items() if k in ready}
allp = [json.loads(l)["id"] for l in open(os.path.join(V, "properties.jsonl"))]
try:
    hooks = subprocess.run(["git", "-C", "/repo", "log", "--format=%H %s", "--grep=^verif hook"], capture_output=True, text=True).stdout.split("\n")
    hooks = [h.split()[0] for h in hooks if h.strip()]
except Exception:
    hooks = []
na_reasons = json.load(open(os.path.join(V, "tools", "not_applicable.json"))) if os.path.exists(os.path.join(V, "tools", "not_applicable.json")) else {}
m = {
 "version": 1,
 "setup_cmd": "./setup.sh",
 "hooks": {
  "guard": "verif",
  "enable": "go test -c -tags verif,without_dashboard -vet=off [-overlay build/overlay-<ID>/overlay.all.json] ./<pkg> in the harness module /verif/harness (replace github.com/tikv/pd => /repo); the overlay (only for C01 C02 C03 C05) is regenerated from /repo's working tree by harness/tools/mkoverlay and redirects time.Now/Since/Sleep of server/tso and server/election to a settable clock",
  "baseline_off_cmd": "cd /repo && go test -mod=mod -vet=off -count=1 -timeout 25m ./...",
  "source_commits": hooks,
  "add_only": True,
 },
 "engines": [{"name": "pdverif", "path": "harness", "serves_properties": sorted(conf.keys()),
              "kind_free_text": "Go property-based testing harness (pgregory.net/rapid v1.3.0): generated cases/histories/schedules/fault points vs explicit oracles; driver tools/vrun.py shards, merges evidence, maps exit codes"}],
 "checks": [],
 "not_applicable": [],
 "notes": "All checks are property-based tests (rapid) with explicit oracles; see DESIGN.md. exit 2 = inconclusive (build failure, timeout).",
}
for pid in allp:
    if pid in conf:
        c = conf[pid]
        m["checks"].append({
            "property_id": pid,
            "quick_cmd": "./check %s quick" % pid,
            "thorough_cmd": "./check %s thorough" % pid,
            "evidence_file": "evidence/%s.json" % pid,
            "replay_cmd_template": "./check %s --replay {path}" % pid,
            "engine": "pdverif",
            "level_claimed": {"category": c["level"], "text": c["level_text"], "design_ref": "DESIGN.md §4 " + pid + " (design) and §11.2 " + pid + " (as built)"},
            "level_note": c["level_note"],
            "technique": c["technique"],
        })
    else:
        m["not_applicable"].append({"property_id": pid, "reason": na_reasons.get(pid, "no check committed yet for this property (work in progress; the design in DESIGN.md §4 applies)")})
json.dump(m, open(os.path.join(V, "MANIFEST.json"), "w"), indent=1)
print("MANIFEST.json: %d checks, %d not_applicable" % (len(m["checks"]), len(m["not_applicable"])))
