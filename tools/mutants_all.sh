#!/bin/bash
# tools/mutants_all.sh <ID>... : run every sensitivity mutant and seeded break of the given properties
cd "$(dirname "$0")/.."; mkdir -p build
for id in "$@"; do
  for m in mutants/$id/*.diff; do [ -f "$m" ] && tools/mutant.sh $id $m | tail -1; done
  for s in seeded/$id-*/patch.diff; do [ -f "$s" ] && echo "$(tools/mutant.sh $id $s | tail -1) [$(basename $(dirname $s))]"; done
  ./check $id quick > /dev/null 2>&1 || echo "WARNING: $id quick rc=$? after mutants"
done
