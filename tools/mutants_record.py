#!/usr/bin/env python3
"""Runs every sensitivity mutant (mutants/<ID>/*.diff) and seeded break (seeded/<ID>-*/patch.diff)
through tools/mutant.sh (build overlay, /repo untouched) and records the outcome in
mutants/RESULTS.json. Properties run in parallel (default 4), patches of one property sequentially.
Usage: tools/mutants_record.py [-j N] [ID ...]"""
import glob, json, os, subprocess, sys, time
from concurrent.futures import ThreadPoolExecutor
V = os.path.dirname(os.path.dirname(os.path.abspath(__file__)))
os.chdir(V)
args = sys.argv[1:]
j = 4
if args[:1] == ["-j"]:
    j = int(args[1]); args = args[2:]
ids = args or open("tools/ready.txt").read().split()
out_path = os.path.join(V, "mutants", "RESULTS.json")
res = json.load(open(out_path)) if os.path.exists(out_path) else {}

def one(pid):
    r = {}
    items = [(os.path.basename(p)[:-5], p) for p in sorted(glob.glob("mutants/%s/*.diff" % pid))]
    items += [("seeded:" + os.path.basename(os.path.dirname(p)), p) for p in sorted(glob.glob("seeded/%s-*/patch.diff" % pid))]
    for name, p in items:
        t0 = time.time()
        o = subprocess.run(["tools/mutant.sh", pid, p], capture_output=True, text=True).stdout.strip().splitlines()
        last = o[-1] if o else "?"
        r[name] = {"result": last.split()[0] if last else "?", "wall_s": round(time.time() - t0, 1)}
        print(pid, name, r[name], flush=True)
    # leave fresh quick evidence behind
    subprocess.run(["./check", pid, "quick"], capture_output=True)
    return pid, r

with ThreadPoolExecutor(max_workers=j) as ex:
    for pid, r in ex.map(one, ids):
        res[pid] = r
        json.dump(res, open(out_path, "w"), indent=1, sort_keys=True)
print("written", out_path)
