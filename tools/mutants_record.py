#!/usr/bin/env python3
"""Runs every sensitivity mutant (mutants/<ID>/*.diff) and seeded break (seeded/<ID>-*/patch.diff)
through tools/mutant.sh (build overlay, /repo untouched) and records the outcome in
mutants/RESULTS.json. Patches run in parallel (default 4); every run is isolated (own binary, overlay, statistics, replays) and never writes evidence/.
Usage: tools/mutants_record.py [-j N] [ID ...]"""
import glob, json, os, subprocess, sys, time
from concurrent.futures import ThreadPoolExecutor
V = os.path.dirname(os.path.dirname(os.path.abspath(__file__)))
os.chdir(V)
args = sys.argv[1:]
j = 4
if args[:1] == ["-j"]:
    j = int(args[1]); args = args[2:]
ids = args or open("tools/ready.txt").read().split()
out_path = os.path.join(V, "mutants", "RESULTS.json")
res = json.load(open(out_path)) if os.path.exists(out_path) else {}

def items_of(pid):
    items = [(os.path.basename(p)[:-5], p) for p in sorted(glob.glob("mutants/%s/*.diff" % pid))]
    items += [("seeded:" + os.path.basename(os.path.dirname(p)), p) for p in sorted(glob.glob("seeded/%s-*/patch.diff" % pid))]
    return items

def one(job):
    pid, name, p = job
    t0 = time.time()
    o = subprocess.run(["tools/mutant.sh", pid, p], capture_output=True, text=True).stdout.strip().splitlines()
    last = o[-1] if o else "?"
    r = {"result": last.split()[0] if last else "?", "wall_s": round(time.time() - t0, 1)}
    print(pid, name, r, flush=True)
    return pid, name, r

jobs = [(pid, name, p) for pid in ids for name, p in items_of(pid)]
for pid in ids:
    res[pid] = {}
with ThreadPoolExecutor(max_workers=j) as ex:
    for pid, name, r in ex.map(one, jobs):
        res[pid][name] = r
        json.dump(res, open(out_path, "w"), indent=1, sort_keys=True)
print("written", out_path)
