#!/bin/bash
# tools/mutant.sh <ID> <patch.diff> [tier]: run a check against /repo + patch WITHOUT touching /repo
# (patched copies of the affected files are supplied through a build overlay).
# prints MUTANT-CAUGHT / MUTANT-MISSED / MUTANT-INCONCLUSIVE
id=$1; patch=$(readlink -f "$2"); tier=${3:-quick}
cd "$(dirname "$0")/.."; mkdir -p build
tmp=$(mktemp -d /tmp/pdmut.XXXXXX)
trap 'rm -rf $tmp' EXIT
python3 - "$patch" "$tmp" <<'PY' || { echo "MUTANT-INCONCLUSIVE $id $(basename $patch) (cannot prepare overlay)"; exit 3; }
import sys, os, re, shutil, json, subprocess
patch, tmp = sys.argv[1], sys.argv[2]
files = []
for line in open(patch):
    m = re.match(r'^\+\+\+ (?:b/)?(\S+)', line)
    if m and m.group(1) != '/dev/null':
        f = m.group(1)
        f = re.sub(r'^/repo/', '', f)
        files.append(f)
repl = {}
for f in files:
    dst = os.path.join(tmp, 'src', f)
    os.makedirs(os.path.dirname(dst), exist_ok=True)
    if os.path.exists(os.path.join('/repo', f)):
        shutil.copy(os.path.join('/repo', f), dst)
    repl[os.path.join('/repo', f)] = dst
r = subprocess.run(['patch', '-p1', '-s', '-d', os.path.join(tmp, 'src'), '-i', patch])
if r.returncode != 0:
    sys.exit(1)
json.dump({'Replace': repl}, open(os.path.join(tmp, 'ov.json'), 'w'))
PY
VERIF_EXTRA_OVERLAY=$tmp/ov.json ./check "$id" "$tier" > build/mutant.$id.$$.out 2>&1; rc=$?
tail -5 build/mutant.$id.$$.out; rm -f build/mutant.$id.$$.out
case $rc in
 1) echo "MUTANT-CAUGHT $id $(basename $patch)";;
 0) echo "MUTANT-MISSED $id $(basename $patch)";;
 *) echo "MUTANT-INCONCLUSIVE $id $(basename $patch) rc=$rc";;
esac
