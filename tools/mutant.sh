#!/bin/bash
# tools/mutant.sh <ID> <patch.diff> [tier]: apply a patch to /repo, run the check, always revert.
# prints MUTANT-CAUGHT / MUTANT-MISSED / MUTANT-INCONCLUSIVE
id=$1; patch=$(readlink -f "$2"); tier=${3:-quick}
cd "$(dirname "$0")/.."
if ! git -C /repo diff --quiet; then echo "/repo is dirty, refusing"; exit 3; fi
git -C /repo apply "$patch" || { echo "patch does not apply"; exit 3; }
trap 'git -C /repo checkout -- . ; git -C /repo clean -fdq -- server pkg client tests 2>/dev/null' EXIT
./check "$id" "$tier" > build/mutant.out 2>&1; rc=$?
tail -5 build/mutant.out
case $rc in
 1) echo "MUTANT-CAUGHT $id $(basename $patch)";;
 0) echo "MUTANT-MISSED $id $(basename $patch)";;
 *) echo "MUTANT-INCONCLUSIVE $id $(basename $patch) rc=$rc";;
esac
