#!/bin/bash
# tools/seed_eval.sh <PROP_ID> <worktree> <seed-name> : verify a seeded break and run our check against it.
# 1. demo fails with the patch, passes without (run in the scratch worktree)
# 2. ./check <ID> quick against /repo + patch (applied, then reverted)
id=$1; wt=$2; name=$3
export GOFLAGS=-mod=mod GOPROXY=off GOSUMDB=off GOTOOLCHAIN=local
V=/verif; out=$V/seeded/$name; mkdir -p $out
cp $wt/seed/patch.diff $out/patch.diff
cp $wt/seed/demo_test.go.txt $out/demo_test.go.txt
cp $wt/seed/notes.md $out/notes.md
demo_cmd=$(head -5 $out/demo_test.go.txt | grep -o 'go test[^`"]*' | head -1)
echo "demo command: $demo_cmd"
cd $wt
# state: patch + demo applied (as left by the author)
( eval "$demo_cmd" ) > $out/demo_with_patch.log 2>&1; rc_with=$?
git apply -R seed/patch.diff || { echo "cannot revert patch in worktree"; }
( eval "$demo_cmd" ) > $out/demo_without_patch.log 2>&1; rc_without=$?
git apply seed/patch.diff
echo "demo with patch rc=$rc_with (want !=0), without rc=$rc_without (want 0)"
cd $V
tools/mutant.sh $id $out/patch.diff > $out/check.log 2>&1
res=$(tail -1 $out/check.log)
echo "$res"
python3 - "$id" "$name" "$rc_with" "$rc_without" "$res" "$demo_cmd" <<'PY'
import json,sys
id,name,rw,rwo,res,cmd=sys.argv[1:7]
meta={"property":id,"seed":name,"demo_cmd":cmd,"demo_fails_with_patch":int(rw)!=0,"demo_passes_without_patch":int(rwo)==0,
      "check_cmd":"tools/mutant.sh %s seeded/%s/patch.diff (patched copies through a build overlay, ./check %s quick); equivalent to git -C /repo apply + ./check + git checkout"%(id,name,id),
      "check_result":res.split()[0] if res else "?", "needs":"see notes.md"}
json.dump(meta,open('/verif/seeded/%s/meta.json'%name,'w'),indent=1)
print(json.dumps(meta))
PY
