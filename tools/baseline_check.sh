#!/bin/bash
# Runs pd's own test suite (the packages of the pinned baseline, guard off) on
# /repo's current tree and compares with the 47 stable tests of BASELINE.json.
# Output under build/baseline/ (not /tmp); prints the stable tests that did not pass.
set -u
export GOFLAGS=-mod=mod GOPROXY=off GOSUMDB=off GOTOOLCHAIN=local
OUT=/verif/build/baseline; rm -rf "$OUT"; mkdir -p "$OUT"
export TMPDIR="$OUT/tmp"; mkdir -p "$TMPDIR"
PKGS=$(python3 - <<'PY'
import json,ast
b=json.load(open('/root/.vp/BASELINE.json'))
sp=b['stable_pass']; sp=ast.literal_eval(sp) if isinstance(sp,str) else sp
print(' '.join(sorted({s.split('::')[0] for s in sp})))
PY
)
(cd /repo && go test -json -vet=off -count=1 -timeout 25m -p 8 $PKGS) > "$OUT/run.json" 2> "$OUT/run.err"
rm -rf "$TMPDIR"
python3 - <<'PY'
import json,ast
b=json.load(open('/root/.vp/BASELINE.json'))
sp=b['stable_pass']; sp=ast.literal_eval(sp) if isinstance(sp,str) else sp
res={}
for l in open('/verif/build/baseline/run.json'):
    try: d=json.loads(l)
    except Exception: continue
    if d.get('Test') and '/' not in d['Test'] and d.get('Action') in('pass','fail'):
        res[d['Package']+'::'+d['Test']]=d['Action']
bad=[s for s in sp if res.get(s)!='pass']
print('stable tests: %d, passed now: %d'%(len(sp),len(sp)-len(bad)))
for s in bad: print('NOT-PASSED',s,res.get(s))
PY
git -C /repo status --short | head
