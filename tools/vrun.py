#!/usr/bin/env python3
"""Driver of the pdverif checks.

  vrun.py <ID> quick|thorough        run the check of one property
  vrun.py <ID> --replay <file>       re-execute a saved failing case (no rapid)
  vrun.py --build-all                compile every harness package (setup)

Exit codes: 0 held (KNOWN-FINDING lines allowed), 1 VIOLATION, 2 inconclusive.
"""
import array, atexit, json, os, shutil, subprocess, sys, time

VERIF = os.path.dirname(os.path.dirname(os.path.abspath(__file__)))
HARNESS = os.path.join(VERIF, "harness")
BUILD = os.path.join(VERIF, "build")
# runs against a candidate patch (tools/mutant.sh) use their own binary, overlay, statistics, logs, replay and evidence locations
MUT = (".mut%d" % os.getpid()) if os.environ.get("VERIF_EXTRA_OVERLAY") else ""
REPO = "/repo"

ENV = dict(os.environ)
ENV.update({
    "GOFLAGS": "-mod=mod", "GOPROXY": "off", "GOSUMDB": "off", "GOTOOLCHAIN": "local",
    "GOFLAGS_VERIF": "1",
})

def load_conf():
    d = os.path.join(VERIF, "tools", "props.d")
    out = {}
    for f in sorted(os.listdir(d)):
        if f.endswith(".json"):
            out[f[:-5]] = json.load(open(os.path.join(d, f)))
    return out


CONF = load_conf()


def log(*a):
    print(*a, flush=True)


def sh(cmd, **kw):
    return subprocess.run(cmd, env=ENV, **kw)


def ensure_gosum_old():
    # harness go.sum = repo go.sum + rapid lines (kept in harness/go.sum.extra)
    src = open(os.path.join(REPO, "go.sum")).read()
    extra_p = os.path.join(HARNESS, "go.sum.extra")
    extra = open(extra_p).read() if os.path.exists(extra_p) else ""
    want = src + extra
    dst = os.path.join(HARNESS, "go.sum")
    if not os.path.exists(dst) or open(dst).read() != want:
        open(dst, "w").write(want)


def ensure_gosum():
    dst = os.path.join(HARNESS, "go.sum")
    if not os.path.exists(dst):
        shutil.copy(os.path.join(REPO, "go.sum"), dst)


def build(pid, conf):
    os.makedirs(os.path.join(BUILD, "bin"), exist_ok=True)
    ensure_gosum()
    overlay = []
    repl = {}
    ov = os.path.join(BUILD, "overlay-" + pid + MUT)
    extra = os.environ.get("VERIF_EXTRA_OVERLAY")
    if MUT:
        atexit.register(shutil.rmtree, ov, True)
    if conf.get("overlay"):
        pk = conf.get("overlay_pkgs")
        r = sh(["go", "run", "./tools/mkoverlay", "-repo", REPO, "-out", ov] + (["-extra", extra] if extra else []) + (["-pkgs", ",".join(pk)] if pk else []), cwd=HARNESS,
               stdout=subprocess.PIPE, stderr=subprocess.STDOUT, text=True)
        if r.returncode != 0:
            log("INCONCLUSIVE: overlay generation failed\n" + r.stdout[-3000:])
            return None
        repl.update(json.load(open(os.path.join(ov, "overlay.json")))["Replace"])
    if extra:
        # development aid only (never used by registered commands): try a candidate patch without touching /repo.
        # Files that the clock overlay rewrites keep the rewritten copy (which was generated FROM the extra source).
        for k, v in json.load(open(extra))["Replace"].items():
            repl.setdefault(k, v)
    if repl:
        os.makedirs(ov, exist_ok=True)
        json.dump({"Replace": repl}, open(os.path.join(ov, "overlay.all.json"), "w"), indent=1)
        overlay = ["-overlay", os.path.join(ov, "overlay.all.json")]
    out = os.path.join(BUILD, "bin", pid.lower() + MUT + ".test")
    if MUT:
        atexit.register(lambda: os.path.exists(out) and os.remove(out))
    cmd = ["go", "test", "-c", "-tags", "verif,without_dashboard", "-vet=off"] + overlay + \
          ["-o", out, "./" + conf["pkg"]]
    t0 = time.time()
    r = sh(cmd, cwd=HARNESS, stdout=subprocess.PIPE, stderr=subprocess.STDOUT, text=True)
    if r.returncode != 0:
        log("INCONCLUSIVE: harness for %s does not build against the current tree (exit 2)\n%s" % (pid, r.stdout[-6000:]))
        return None
    log("built %s in %.1fs" % (out, time.time() - t0))
    return out


# pd's test helpers create their data directories under a hard-coded /tmp (test_pd*, test_etcd*, ...), not under
# TMPDIR. Where the kernel allows it every test process therefore runs in its own mount namespace with the run's
# scratch directory bound over /tmp: nothing is left behind in /tmp, and nothing that tidies /tmp up while a run is
# under way can pull the directories away from it. Without that permission (or with VERIF_NO_NS=1) processes run plainly.
_NS = None


def ns_prefix():
    global _NS
    if _NS is None:
        _NS = False
        if not os.environ.get("VERIF_NO_NS") and shutil.which("unshare") and "TMPDIR" in ENV:
            try:
                r = subprocess.run(["unshare", "-m", "bash", "-c", "mount --bind %s /tmp" % ENV["TMPDIR"]],
                                   stdout=subprocess.DEVNULL, stderr=subprocess.DEVNULL, timeout=20)
                _NS = r.returncode == 0
            except Exception:
                _NS = False
    if _NS:
        return "mount --bind %s /tmp && " % ENV["TMPDIR"]
    return ""


def ns_argv(shell_cmd):
    pre = ns_prefix()
    if pre:
        return ["unshare", "-m", "bash", "-c", pre + shell_cmd]
    return ["bash", "-c", shell_cmd]


def sh_quote(a):
    return "'" + a.replace("'", "'\\''") + "'"


def run_bin(binp, args, extra_env, timeout, logpath):
    env = dict(ENV)
    env.update(extra_env)
    with open(logpath, "w") as lf:
        try:
            p = subprocess.run(ns_argv("exec " + " ".join(sh_quote(a) for a in [binp] + args)), env=env, stdout=lf,
                               stderr=subprocess.STDOUT,
                               timeout=timeout, cwd=os.path.join(BUILD, "run"))
            return p.returncode
        except subprocess.TimeoutExpired:
            return -9


def known_keys():
    p = os.path.join(VERIF, "known_findings.json")
    if not os.path.exists(p):
        return ""
    return ",".join(f["key"] for f in json.load(open(p))["findings"] if f["status"] == "known")


ENV["VERIF_KNOWN"] = known_keys()


def pick_samples(samples):
    # up to 2 samples per registered property, at most 8 in total, smallest first
    by = {}
    for sm in sorted(samples, key=lambda x: len(json.dumps(x))):
        by.setdefault(sm.get("prop", ""), [])
        if len(by[sm.get("prop", "")]) < 2:
            by[sm.get("prop", "")].append(sm)
    out = []
    for k in sorted(by):
        out += by[k]
    return out[:8]


def findings_for(pid):
    p = os.path.join(VERIF, "known_findings.json")
    if not os.path.exists(p):
        return []
    return [f for f in json.load(open(p))["findings"] if f["property"] == pid]


def main():
    if len(sys.argv) >= 2 and sys.argv[1] == "--build-all":
        rc = 0
        ready = set(open(os.path.join(VERIF, "tools", "ready.txt")).read().split())
        for pid, conf in CONF.items():
            if pid not in ready:
                continue
            if build(pid, conf) is None:
                rc = 2
        sys.exit(rc)
    if len(sys.argv) < 3:
        log(__doc__)
        sys.exit(2)
    pid = sys.argv[1].upper()
    if pid not in CONF:
        log("unknown property", pid)
        sys.exit(2)
    conf = CONF[pid]
    os.makedirs(os.path.join(BUILD, "run"), exist_ok=True)
    # Scratch directories of the code under test (embedded etcd, leveldb, test clusters) live under a per-run
    # directory that is removed when the run ends, also when a shard was killed or exited at its first violation.
    scratch = os.path.join(BUILD, "tmp", "%s-%d" % (pid, os.getpid()))
    os.makedirs(scratch, exist_ok=True)
    ENV["TMPDIR"] = scratch
    atexit.register(shutil.rmtree, scratch, True)
    os.makedirs(os.path.join(BUILD, "stats"), exist_ok=True)
    os.makedirs(os.path.join(BUILD, "logs"), exist_ok=True)
    replay_dir = os.path.join(VERIF, "replays", pid) if not MUT else os.path.join(BUILD, "mutant-replays", pid)
    os.makedirs(replay_dir, exist_ok=True)

    if sys.argv[2] == "--replay":
        path = os.path.abspath(sys.argv[3])
        binp = build(pid, conf)
        if binp is None:
            sys.exit(2)
        lp = os.path.join(BUILD, "logs", "%s.replay.log" % pid)
        rc = run_bin(binp, ["-test.run", "^TestReplay$", "-test.v", "-test.timeout", "20m"],
                     {"VERIF_REPLAY": path, "VERIF_REPLAY_REPEAT": str(conf.get("replay_repeat", 1)),
                      "VERIF_TIER": "quick"}, 1300, lp)
        out = open(lp).read()
        if "VERIF-REPLAY-FAIL" in out:
            log(out[-4000:])
            log("VIOLATION property=%s replay=%s" % (pid, path))
            sys.exit(1)
        if "VERIF-REPLAY-PASS" in out and rc == 0:
            log("replay passes: property %s held on %s" % (pid, path))
            sys.exit(0)
        log(out[-4000:])
        log("INCONCLUSIVE: replay did not complete (rc=%s)" % rc)
        sys.exit(2)

    tier = sys.argv[2]
    if tier not in ("quick", "thorough"):
        log("tier must be quick or thorough")
        sys.exit(2)
    seed = int(os.environ.get("VERIF_SEED", "1") or "1")
    t0 = time.time()
    binp = build(pid, conf)
    if binp is None:
        sys.exit(2)

    violations = []   # (replay path)
    inconclusive = []
    known_lines = []

    # 1. known-finding probes
    fnd = findings_for(pid)
    probe_out = ""
    if fnd:
        lp = os.path.join(BUILD, "logs", "%s%s.findings.log" % (pid, MUT))
        rc = run_bin(binp, ["-test.run", "^TestFinding", "-test.v", "-test.timeout", "10m"],
                     {"VERIF_TIER": tier, "VERIF_SEED": str(seed)}, 700, lp)
        probe_out = open(lp).read()
        seen = {}
        for line in probe_out.splitlines():
            if line.startswith("VERIF-FINDING "):
                kv = dict(x.split("=", 1) for x in line.split(" ", 3)[1:3])
                seen[kv["key"]] = (kv["reproduced"] == "true", line.split("detail=", 1)[-1])
        for f in fnd:
            if f["key"] not in seen:
                inconclusive.append("finding probe %s did not report (rc=%s)" % (f["key"], rc))
                continue
            rep, detail = seen[f["key"]]
            if f["status"] == "known":
                if rep:
                    known_lines.append("KNOWN-FINDING: property=%s %s [%s]" % (pid, f["what"], f["key"]))
            elif f["status"] == "fixed":
                if rep:
                    rp = os.path.join(replay_dir, "finding-%s.json" % f["key"].replace("/", "_"))
                    json.dump({"property": pid, "finding": f, "detail": detail}, open(rp, "w"), indent=1)
                    violations.append(rp)

    # 2. generated properties, sharded
    shards = conf.get("shards", {}).get(tier, 4 if tier == "quick" else 16)
    timeout = conf.get("timeout", {}).get(tier, 600 if tier == "quick" else 3600)
    procs = []
    for k in range(shards):
        pfx = os.path.join(BUILD, "stats", "%s%s.%d" % (pid, MUT, k))
        for ext in (".json", ".nt"):
            if os.path.exists(pfx + ext):
                os.remove(pfx + ext)
        env = dict(ENV)
        env.update({"VERIF_TIER": tier, "VERIF_SEED": str(seed), "VERIF_SHARD": str(k),
                    "VERIF_SHARDS": str(shards), "VERIF_STATS": pfx, "VERIF_REPLAY_DIR": replay_dir})
        lp = os.path.join(BUILD, "logs", "%s%s.%d.log" % (pid, MUT, k))
        lf = open(lp, "w")
        mem_kb = conf.get("mem_gb", 6) * 1024 * 1024
        cmd = "ulimit -v %d; exec %s -test.run '^TestProp' -test.timeout %ds" % (mem_kb * 4, binp, timeout)
        p = subprocess.Popen(ns_argv(cmd), env=env, stdout=lf, stderr=subprocess.STDOUT,
                             cwd=os.path.join(BUILD, "run"))
        procs.append((k, p, lp, pfx))
    deadline = time.time() + timeout + 60
    merged = {"evaluations": 0, "requested": 0, "inconclusive": 0, "classes": {}, "excluded_known": {},
              "samples": [], "per_prop": {}, "seeds": []}
    hashes = set()
    for k, p, lp, pfx in procs:
        try:
            rc = p.wait(timeout=max(1, deadline - time.time()))
        except subprocess.TimeoutExpired:
            p.kill()
            rc = -9
        out = open(lp).read()
        s = None
        if os.path.exists(pfx + ".json"):
            s = json.load(open(pfx + ".json"))
            merged["evaluations"] += s["evaluations"]
            merged["requested"] += s["requested"]
            merged["inconclusive"] += s["inconclusive"]
            for kk, v in (s.get("classes") or {}).items():
                merged["classes"][kk] = merged["classes"].get(kk, 0) + v
            for kk, v in (s.get("excluded_known") or {}).items():
                merged["excluded_known"][kk] = merged["excluded_known"].get(kk, 0) + v
            for kk, v in (s.get("per_prop") or {}).items():
                merged["per_prop"][kk] = merged["per_prop"].get(kk, 0) + v
            merged["seeds"] += s.get("seeds") or []
            merged["samples"] += (s.get("samples") or [])
            a = array.array("Q")
            with open(pfx + ".nt", "rb") as f:
                a.frombytes(f.read())
            hashes.update(a)
        if rc == 0:
            continue
        fails = (s or {}).get("failures") or []
        if not fails:
            # the process died (a fixture's fatal exit, a panic in the code under test) after a property had already
            # reported a violation and written its replay file, but before the statistics were written: the
            # violation stands
            import re
            for m in re.finditer(r"property \S+ violated: .*?\(replay (\S+?\.json)\)", out):
                if os.path.exists(m.group(1)) and m.group(1) not in fails:
                    fails.append(m.group(1))
        if fails:
            for fp in fails:
                violations.append(fp)
            log("--- shard %d failed; tail of %s:" % (k, lp))
            log(out[-3000:])
        else:
            why = "timeout" if rc == -9 or "panic: test timed out" in out else "exit %s without a failing case" % rc
            inconclusive.append("shard %d: %s (see %s)" % (k, why, lp))
            log("--- shard %d inconclusive; tail of %s:" % (k, lp))
            log(out[-2000:])

    wall = time.time() - t0
    ev = {
        "property_id": pid, "tier": tier, "seed": seed, "level": conf["level"],
        "coverage": {
            "evaluations": merged["evaluations"],
            "distinct_nontrivial": len(hashes),
            "rule": conf["rule"],
            "samples": pick_samples(merged["samples"]),
            "requested": merged["requested"],
            "inconclusive_cases": merged["inconclusive"],
            "classes": dict(sorted(merged["classes"].items())),
            "excluded_known": merged["excluded_known"],
            "per_prop": merged["per_prop"],
            "rapid_seeds": merged["seeds"],
            "shards": shards,
            "known_findings_reported": known_lines,
        },
        "assumptions": conf.get("assumptions", []),
        "wall_s": round(wall, 2),
        "violations": len(violations),
    }
    # a run against a candidate patch (development aid, VERIF_EXTRA_OVERLAY) never writes the evidence directory
    evdir = os.path.join(VERIF, "evidence") if not MUT else os.path.join(BUILD, "mutant-evidence")
    os.makedirs(evdir, exist_ok=True)
    json.dump(ev, open(os.path.join(evdir, "%s.json" % pid), "w"), indent=1)
    if MUT:
        for k in range(shards):
            for ext in (".json", ".nt"):
                f = os.path.join(BUILD, "stats", "%s%s.%d%s" % (pid, MUT, k, ext))
                if os.path.exists(f):
                    os.remove(f)

    for l in known_lines:
        log(l)
    log("%s %s: %d cases (%d requested), %d distinct non-trivial, %d inconclusive cases, %.1fs" % (
        pid, tier, merged["evaluations"], merged["requested"], len(hashes), merged["inconclusive"], wall))
    if violations:
        for v in violations:
            log("VIOLATION property=%s replay=%s" % (pid, v))
        sys.exit(1)
    if inconclusive:
        for i in inconclusive:
            log("INCONCLUSIVE: " + i)
        sys.exit(2)
    if merged["requested"] and merged["evaluations"] * 2 < merged["requested"]:
        log("INCONCLUSIVE: fewer than half of the requested cases ran")
        sys.exit(2)
    if len(hashes) < 2:
        log("INCONCLUSIVE: fewer than 2 non-trivial cases")
        sys.exit(2)
    sys.exit(0)


if __name__ == "__main__":
    main()
