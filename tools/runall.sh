#!/bin/bash
# tools/runall.sh [tier] : run every ready check once, print one line per check
tier=${1:-quick}
cd "$(dirname "$0")/.."; mkdir -p build
for id in $(cat tools/ready.txt); do
  s=$(date +%s)
  ./check $id $tier > build/runall.$id.out 2>&1; rc=$?
  e=$(date +%s)
  echo "$id rc=$rc $((e-s))s $(grep -c '^KNOWN-FINDING' build/runall.$id.out) known $(grep -c '^VIOLATION' build/runall.$id.out) viol | $(tail -1 build/runall.$id.out | cut -c1-150)"
done
