// C19 — DR auto-sync only declares 'sync' when every region is in sync.
//
// Stateful property: a generated history of store up/down events per data
// centre, region reports (complete, with gaps, with stale state ids, more regions
// than one scan batch), configuration switches and storage / file-replication
// failures is applied to the real replication.ModeManager over a mockcluster.
// Every status the manager offers to the members, persists or serves is judged by
// legality predicates that are computed from the harness's own model of stores
// and regions (never from the manager's scan cursor or counters):
//
//	-> async          only if a dc has failed stores >= its replica count, a majority of all
//	                  replicas can still be up and the wait-async timeout has passed
//	                  (documented exception: the operator changed the label key)
//	async -> sync_recover only if both dcs have failed stores < replicas
//	                  (documented exception: the mode was switched majority -> dr-auto-sync)
//	sync_recover -> sync  only if the union of the ranges of the regions that were seen, at a
//	                  tick since sync_recover was entered, with INTEGRITY_OVER_LABEL under the
//	                  current state id covers the whole key space
//	every new state id is fresh; a status is offered to the members, then saved, then served;
//	a failed save leaves the served status and the stored status unchanged.
package c19

import (
	"context"
	"encoding/json"
	"errors"
	"fmt"
	"sort"
	"testing"
	"time"

	"github.com/pingcap/kvproto/pkg/metapb"
	"github.com/pingcap/kvproto/pkg/pdpb"
	pb "github.com/pingcap/kvproto/pkg/replication_modepb"
	"github.com/tikv/pd/pkg/mock/mockcluster"
	"github.com/tikv/pd/pkg/typeutil"
	"github.com/tikv/pd/server/config"
	"github.com/tikv/pd/server/core"
	"github.com/tikv/pd/server/kv"
	"github.com/tikv/pd/server/replication"
	"pdverif/vkit"
	"pdverif/vkit/faultkv"
	"pgregory.net/rapid"
)

func TestMain(m *testing.M) {
	vkit.SilenceLog() // the manager warns about every gap it meets
	vkit.Main(m, "C19")
}
func TestProp(t *testing.T)   { vkit.RunAll(t) }
func TestReplay(t *testing.T) { vkit.RunReplay(t) }

func init() {
	vkit.Register("drsync", vkit.N{Quick: 2000, Thorough: 40000}, genCase, runCase)
}

// ---------------------------------------------------------------- case data

// Cfg is the replication mode configuration in small integers.
type Cfg struct {
	DR      bool `json:"dr"`           // dr-auto-sync (else majority)
	Key     int  `json:"key"`          // index of the label key: 0 "zone", 1 "dc"
	P       int  `json:"p"`            // primary replicas
	D       int  `json:"d"`            // dr replicas
	StoreTO int  `json:"sto"`          // wait-store-timeout: 0 = 0s, 1 = 1h
	Sp      int  `json:"sp,omitempty"` // spelling of the mode name (every one passes config.NormalizeReplicationMode), 0 = canonical
	AsyncTO int  `json:"ato"`          // wait-async-timeout: 0 = 0s, 1 = 1ns, 2 = 1h, 3 = 100ms (real time can be below and above)
}

// StoreSpec gives, per label key, which value the store carries:
// 0 no such label, 1 the primary dc's value, 2 the dr dc's value, 3 a third value.
type StoreSpec struct {
	L [2]int `json:"l"`
}

// Op is one step; arguments are small indices resolved against the live state.
//
//	store   A=store index, B=liveness: 0 heartbeats now | 1 lagging (30 min) | 2 dead (2 h) | 3 = mstate bury
//	mstate  A=store index, B=membership: 0 back Up (only from Offline, not physically destroyed) | 1 Offline
//	        (store delete) | 2 Offline + physically destroyed | 3 bury (Offline -> Tombstone; an Up store cannot be buried)
//	dcstate like mstate for the stores of dc A (0 all | 1 primary | 2 dr | 3 neither), C=how many (0 all)
//	dc      A=0 all stores | 1 primary dc | 2 dr dc | 3 neither (by the current label key), B as above (0..2), C=how many (0 all)
//	report  regions [A,B) in permille of the sorted region list except Skip picks report St (0 unknown, 1 simple
//	        majority, 2 integrity over label) with state id ID (0 current, 1 stale = served earlier (pick C), 2 zero)
//	split   A=region pick, B=split point in quarters 1..3, C=0 children carry no status | 1 both inherit | 2 left inherits
//	merge   A=region pick (merged with its right neighbour if adjacent), C=0 no status | 1 inherits the left one's
//	drop    A=region pick (leaves a gap)
//	heal    A=0 first gap | 1 every gap is filled by a new region without status
//	tick    A+1 ticks; P = number of GetReplicationStatus calls made from another goroutine each time the manager
//	        is inside the file replication or the storage save of a transition (also for config)
//	config  A=0 toggle mode | 1 toggle label key | 2 replicas B,C | 3 store timeout B | 4 async timeout B | 5 same config again
//	        Sp = spelling of the mode name the update carries (0 canonical; "dr_auto_sync", "DR-AUTO-SYNC", "MAJORITY", ...)
//	racetick            one tick; right after its region scan (the manager holds its read lock) a config update (A,B,C,Sp
//	                    as for config) is started on another goroutine and gets the manager's lock before the tick can switch
//	failsave            the next storage write fails
//	failrepl A=n        the next n file replications fail
//	member  A=member id (UpdateMemberWaitAsyncTime: the pd member reports that it is in sync with the leader now)
//	sleep   A=milliseconds of real time (member reports and the manager grow older)
//	restart A=0|1       a new manager over the same storage and cluster (leader change); A=1: every storage read
//	                    fails during the first construction, which is then retried without fault (as the leader
//	                    campaign would)
type Op struct {
	K    string `json:"k"`
	A    int    `json:"a,omitempty"`
	B    int    `json:"b,omitempty"`
	C    int    `json:"c,omitempty"`
	St   int    `json:"st,omitempty"`
	ID   int    `json:"id,omitempty"`
	Skip []int  `json:"skip,omitempty"`
	P    int    `json:"p,omitempty"`
	Sp   int    `json:"sp,omitempty"`
}

// Case is one generated history.
type Case struct {
	Stores  []StoreSpec `json:"stores"`
	Regions int         `json:"regions"`
	Batch   int         `json:"batch"`
	Sample  int         `json:"sample"`
	Init    Cfg         `json:"init"`
	Ops     []Op        `json:"ops"`
}

var (
	keyNames = [2]string{"zone", "dc"}
	priVal   = [2]string{"z1", "d1"}
	drVal    = [2]string{"z2", "d2"}
	othVal   = [2]string{"z3", "d3"}
)

const maxB = 1000000 // the key space is [0,maxB); 0 and maxB are the unbounded keys

// ---------------------------------------------------------------- generator

// w picks an alternative by weight. rapid's integers are biased towards small values
// (good for picks, bad for weights), so the draw is spread by a fixed mixing function
// that keeps 0 at 0: shrinking still moves towards the first alternative.
func w(t *rapid.T, label string, weights ...int) int {
	total := 0
	for _, x := range weights {
		total += x
	}
	u := rapid.Uint64().Draw(t, label)
	u *= 0x9E3779B97F4A7C15
	u ^= u >> 31
	u *= 0xBF58476D1CE4E5B9
	u ^= u >> 29
	v := int((u >> 20) % uint64(total))
	for i, x := range weights {
		if v < x {
			return i
		}
		v -= x
	}
	return len(weights) - 1
}

func genCfg(t *rapid.T) Cfg {
	var c Cfg
	c.DR = w(t, "mode", 5, 95) == 1
	c.Key = w(t, "key", 85, 15)
	pd := [][2]int{{2, 1}, {3, 1}, {3, 2}, {1, 2}, {1, 3}, {1, 1}, {2, 2}}
	x := pd[w(t, "replicas", 40, 15, 17, 12, 6, 5, 5)]
	c.P, c.D = x[0], x[1]
	c.StoreTO = w(t, "storeTO", 5, 95)
	c.AsyncTO = w(t, "asyncTO", 84, 6, 8, 2)
	c.Sp = w(t, "spelling", 91, 3, 3, 3)
	return c
}

func pickOp(t *rapid.T, k string) Op {
	return Op{K: k, A: rapid.IntRange(0, 4000).Draw(t, "pick")}
}

func genSkips(t *rapid.T) []int {
	n := w(t, "nskip", 45, 30, 15, 10)
	var s []int
	for i := 0; i < n; i++ {
		s = append(s, rapid.IntRange(0, 4000).Draw(t, "skip"))
	}
	return s
}

func genStoreOp(t *rapid.T) Op {
	return Op{K: "store", A: rapid.IntRange(0, 9).Draw(t, "store"), B: w(t, "sstate", 35, 15, 50)}
}

func genMemberStateOp(t *rapid.T) Op {
	return Op{K: "mstate", A: rapid.IntRange(0, 9).Draw(t, "store"), B: w(t, "mstate", 25, 40, 15, 20)}
}

func genConfigOp(t *rapid.T) Op {
	op := Op{K: "config", A: w(t, "ckind", 25, 25, 20, 10, 15, 5)}
	switch op.A {
	case 2:
		op.B, op.C = rapid.IntRange(1, 3).Draw(t, "p"), rapid.IntRange(1, 3).Draw(t, "d")
	case 3:
		op.B = rapid.IntRange(0, 1).Draw(t, "sto")
	case 4:
		op.B = rapid.IntRange(0, 3).Draw(t, "ato")
	}
	op.P = w(t, "probes", 40, 35, 15, 10)
	op.Sp = w(t, "spelling", 76, 8, 8, 8)
	return op
}

func genRaceTick(t *rapid.T) Op {
	op := genConfigOp(t)
	op.K, op.P = "racetick", 0
	op.A = w(t, "rkind", 15, 45, 15, 5, 10, 10) // mostly the label key
	return op
}

func genRestart(t *rapid.T) Op { return Op{K: "restart", A: w(t, "loadFault", 55, 45)} }

func genTick(t *rapid.T) Op {
	return Op{K: "tick", A: w(t, "nticks", 80, 15, 5), P: w(t, "probes", 45, 30, 15, 10)}
}

// flap phase: stores of a dc go down (and come back), ticks in between
func genFlap(t *rapid.T, losing int) []Op {
	switch w(t, "flap", 36, 20, 9, 12, 6, 4, 2, 3, 2, 2, 2, 2, 2, 4, 4, 5, 8) {
	case 0:
		// mostly: the dc with fewer replicas loses all its stores (the other one keeps a majority)
		op := Op{K: "dc", A: losing, B: 2, C: w(t, "howmany", 75, 15, 10)}
		if w(t, "otherdc", 80, 20) == 1 {
			op.A = 3 - losing
		}
		if w(t, "thenTick", 15, 85) == 1 {
			return []Op{op, genTick(t)}
		}
		return []Op{op}
	case 1:
		return []Op{genTick(t)}
	case 2:
		return []Op{genStoreOp(t)}
	case 3:
		return []Op{genConfigOp(t)}
	case 4:
		return []Op{{K: "failsave"}, genTick(t)}
	case 5:
		return []Op{{K: "failrepl", A: rapid.IntRange(1, 3).Draw(t, "n")}}
	case 6:
		return []Op{pickOp(t, "drop")}
	case 7:
		op := pickOp(t, "split")
		op.B, op.C = rapid.IntRange(1, 3).Draw(t, "q"), rapid.IntRange(0, 2).Draw(t, "inherit")
		return []Op{op}
	case 8:
		op := pickOp(t, "merge")
		op.C = rapid.IntRange(0, 1).Draw(t, "inherit")
		return []Op{op}
	case 9:
		return []Op{{K: "member", A: rapid.IntRange(1, 3).Draw(t, "member")}}
	case 10:
		return []Op{genRestart(t)}
	case 11:
		return []Op{{K: "dc", A: w(t, "whichdc", 40, 30, 30), B: w(t, "ustate", 80, 20), C: 0}}
	case 12:
		return []Op{{K: "failsave"}, genConfigOp(t)}
	case 14:
		// the stores that belong to neither dc fail: must not count for any dc
		return []Op{{K: "dc", A: 3, B: 2, C: 0}, genTick(t)}
	case 15:
		return []Op{genMemberStateOp(t)}
	case 16:
		// the operator deletes a dead store: dead and Offline (still a failed store), then the manager looks
		st := rapid.IntRange(0, 9).Draw(t, "store")
		return []Op{{K: "store", A: st, B: 2}, {K: "mstate", A: st, B: 1 + w(t, "destroyed", 70, 30)}, genTick(t)}
	default:
		// a dead store is deleted and later buried (Tombstone: no longer a failed store)
		st := rapid.IntRange(0, 9).Draw(t, "store")
		return []Op{{K: "store", A: st, B: 2}, {K: "mstate", A: st, B: 1 + w(t, "destroyed", 70, 30)}, genTick(t),
			{K: "mstate", A: st, B: 3}, genTick(t)}
	}
}

// report phase: most regions report the current state id, ticks in between
func genReport(t *rapid.T) []Op {
	switch w(t, "report", 30, 28, 10, 5, 5, 4, 4, 6, 3, 1, 3, 2, 3, 2, 4) {
	case 0:
		return []Op{{K: "report", A: 0, B: 1000, St: 2, ID: 0, Skip: genSkips(t)}}
	case 1:
		return []Op{genTick(t)}
	case 2:
		lo := rapid.IntRange(0, 999).Draw(t, "lo")
		hi := rapid.IntRange(lo, 1000).Draw(t, "hi")
		return []Op{{K: "report", A: lo, B: hi, St: w(t, "st", 10, 25, 65), ID: w(t, "idkind", 70, 22, 8),
			C: rapid.IntRange(0, 50).Draw(t, "stalepick"), Skip: genSkips(t)}}
	case 3:
		// a few regions report integrity under an id that was served earlier
		lo := rapid.IntRange(0, 990).Draw(t, "lo")
		return []Op{{K: "report", A: lo, B: lo + rapid.IntRange(0, 60).Draw(t, "width"), St: 2, ID: 1,
			C: rapid.IntRange(0, 50).Draw(t, "stalepick")}}
	case 4:
		op := pickOp(t, "split")
		op.B, op.C = rapid.IntRange(1, 3).Draw(t, "q"), rapid.IntRange(0, 2).Draw(t, "inherit")
		return []Op{op}
	case 5:
		op := pickOp(t, "merge")
		op.C = rapid.IntRange(0, 1).Draw(t, "inherit")
		return []Op{op}
	case 6:
		return []Op{pickOp(t, "drop")}
	case 7:
		return []Op{{K: "heal", A: w(t, "healall", 40, 60)}}
	case 8:
		return []Op{{K: "failsave"}, genTick(t)}
	case 9:
		return []Op{genStoreOp(t)}
	case 10:
		return []Op{genRestart(t)}
	case 11:
		return []Op{{K: "failrepl", A: rapid.IntRange(1, 3).Draw(t, "n")}}
	case 12:
		return []Op{genConfigOp(t)}
	case 13:
		return []Op{genMemberStateOp(t)}
	default:
		return []Op{genRaceTick(t)}
	}
}

func genCase(t *rapid.T) Case {
	var c Case
	c.Init = genCfg(t)
	// usually at least as many stores per dc as replicas
	nP := c.Init.P + w(t, "extraPrimary", 35, 45, 20)
	nD := c.Init.D + w(t, "extraDR", 50, 40, 10)
	if w(t, "fewStores", 90, 10) == 1 {
		nP, nD = rapid.IntRange(1, 4).Draw(t, "nPrimary"), rapid.IntRange(1, 3).Draw(t, "nDR")
	}
	losing := 2
	if c.Init.D > c.Init.P {
		losing = 1
	}
	nO := w(t, "nOther", 70, 20, 10)
	second := []int{1, 1, 2, 2, 0, 3}
	for i := 0; i < nP+nD+nO; i++ {
		s := StoreSpec{}
		switch {
		case i < nP:
			s.L[0] = 1
		case i < nP+nD:
			s.L[0] = 2
		default:
			s.L[0] = []int{0, 3}[rapid.IntRange(0, 1).Draw(t, "otherLabel")]
		}
		s.L[1] = rapid.SampledFrom(second).Draw(t, "secondLabel")
		c.Stores = append(c.Stores, s)
	}
	switch w(t, "size", 4, 6, 50, 36, 4) {
	case 0:
		c.Regions, c.Batch, c.Sample = 0, 4, 2
	case 1:
		c.Regions, c.Batch, c.Sample = 1, 4, 2
	case 2:
		c.Regions, c.Batch, c.Sample = rapid.IntRange(2, 12).Draw(t, "n"), 4, 2
	case 3:
		c.Regions, c.Batch, c.Sample = rapid.IntRange(13, 40).Draw(t, "n"), 4, 2
	default:
		// more regions than one scan batch of the default size
		c.Regions, c.Batch, c.Sample = rapid.IntRange(1100, 2500).Draw(t, "n"), 1024, 512
	}
	add := func(ops ...Op) { c.Ops = append(c.Ops, ops...) }
	if w(t, "prelude", 30, 70) == 1 {
		// in sync state the regions report integrity under the sync state id
		add(Op{K: "report", A: 0, B: 1000, St: 2, ID: 0})
	}
	rounds := w(t, "rounds", 45, 35, 20) + 1
	for r := 0; r < rounds; r++ {
		if w(t, "memberScenario", 93, 7) == 1 {
			// a short wait-async-timeout; some pd members reported long ago (e.g. the pd in the lost site), the
			// manager is older than the timeout, others report just before the dc is lost: async must wait.
			// More stale than fresh members and several ticks: the manager walks its member map in random order.
			add(Op{K: "config", A: 4, B: 3})
			nStale := 1 + w(t, "nStale", 20, 45, 35)
			for i := 0; i < nStale; i++ {
				add(Op{K: "member", A: 1 + i})
			}
			add(Op{K: "sleep", A: rapid.IntRange(110, 130).Draw(t, "ms")})
			nFresh := w(t, "nFresh", 10, 70, 20)
			for i := 0; i < nFresh; i++ {
				add(Op{K: "member", A: 10 + i})
			}
			add(Op{K: "dc", A: losing, B: 2, C: 0}, Op{K: "tick", A: 2 + w(t, "moreTicks", 50, 50), P: w(t, "probes", 70, 30)})
			if w(t, "waitOut", 50, 50) == 1 {
				add(Op{K: "sleep", A: rapid.IntRange(110, 130).Draw(t, "ms")}, genTick(t))
			}
		} else if w(t, "outage", 20, 80) == 1 {
			add(Op{K: "dc", A: losing, B: 2, C: 0}, genTick(t))
			if w(t, "leaderChange", 85, 15) == 1 {
				// the pd leader changes while the cluster is (usually) async
				add(genRestart(t))
			}
			if w(t, "deleteDead", 60, 40) == 1 {
				// the dead stores are deleted by the operator: Offline, still dead, still failed
				add(Op{K: "dcstate", A: losing, B: 1 + w(t, "destroyed", 70, 30), C: w(t, "howmany", 70, 30)}, genTick(t))
			}
		}
		for i, n := 0, rapid.IntRange(0, 3).Draw(t, "nflap"); i < n; i++ {
			add(genFlap(t, losing)...)
		}
		if w(t, "storesBack", 15, 85) == 1 {
			if w(t, "membersBack", 50, 50) == 1 {
				add(Op{K: "dcstate", A: 0, B: 0, C: 0})
			}
			add(Op{K: "dc", A: 0, B: 0, C: 0}, genTick(t))
		}
		for i, n := 0, rapid.IntRange(1, 7).Draw(t, "nreport"); i < n; i++ {
			add(genReport(t)...)
		}
		if w(t, "closing", 25, 75) == 1 {
			if w(t, "closingHeal", 15, 85) == 1 {
				add(Op{K: "heal", A: 1})
			}
			if w(t, "closingRace", 88, 12) == 1 {
				// the tick that finds the recovery complete races a config update
				add(Op{K: "report", A: 0, B: 1000, St: 2, ID: 0}, genRaceTick(t))
			} else {
				add(Op{K: "report", A: 0, B: 1000, St: 2, ID: 0}, genTick(t))
			}
		}
	}
	return c
}

// ---------------------------------------------------------------- model

type mstore struct {
	id   uint64
	l    [2]int
	hb   int // liveness: 0 heartbeats now, 1 lagging 30 min, 2 dead for 2 h
	mem  int // membership: 0 Up, 1 Offline, 2 Offline and physically destroyed
	tomb bool
}

// setMem applies a membership change the way RaftCluster.RemoveStore/UpStore/buryStore allow it.
func (s *mstore) setMem(b int) {
	if s.tomb {
		return
	}
	switch b {
	case 0:
		if s.mem == 1 {
			s.mem = 0
		}
	case 1:
		if s.mem == 0 {
			s.mem = 1
		}
	case 2:
		s.mem = 2
	case 3:
		if s.mem != 0 {
			s.tomb = true
		}
	}
}

type mregion struct {
	id   uint64
	a, b int
	st   int    // replication state of the last report
	sid  uint64 // state id of the last report
	ver  uint64
}

type status struct {
	valid bool
	state string
	id    uint64
}

func (s status) String() string {
	if !s.valid {
		return "(none)"
	}
	return fmt.Sprintf("(%s, id %d)", s.state, s.id)
}

// iset is a set of half-open integer intervals.
type iset struct{ iv [][2]int }

func (s *iset) add(a, b int) {
	if a < b {
		s.iv = append(s.iv, [2]int{a, b})
	}
}

func (s *iset) normalise() {
	if len(s.iv) < 2 {
		return
	}
	sort.Slice(s.iv, func(i, j int) bool { return s.iv[i][0] < s.iv[j][0] })
	out := s.iv[:1]
	for _, x := range s.iv[1:] {
		last := &out[len(out)-1]
		if x[0] <= last[1] {
			if x[1] > last[1] {
				last[1] = x[1]
			}
			continue
		}
		out = append(out, x)
	}
	s.iv = out
}

// firstHole returns the first key not covered in [0,maxB), or -1.
func (s *iset) firstHole() int {
	s.normalise()
	at := 0
	for _, x := range s.iv {
		if x[0] > at {
			return at
		}
		if x[1] > at {
			at = x[1]
		}
	}
	if at < maxB {
		return at
	}
	return -1
}

func (s *iset) clone() *iset { return &iset{iv: append([][2]int(nil), s.iv...)} }

type model struct {
	cfg    Cfg
	stores []*mstore
	regs   []*mregion // sorted by a, never overlapping
	nextID uint64

	cur, stored status          // what must be served (dr mode) / what must be in storage
	seen        map[uint64]bool // every state id ever offered, saved or served
	servedHist  []uint64        // ids that were served to stores at some point, oldest first

	// real-time windows (harness clock read before / after the call) of the manager's construction and of
	// every member's last sync report; cleared by a restart
	bornBefore time.Time
	members    map[int][2]time.Time

	covID uint64 // sync_recover state id the coverage belongs to
	cov   iset   // union of ranges seen at ticks with integrity under covID
}

func (m *model) failed(c Cfg) (fp, fd int) {
	for _, s := range m.stores {
		if s.tomb {
			continue
		}
		// failed = not Tombstone and silent for at least wait-store-timeout, whatever the membership state
		// (an Offline store that is dead still holds its replicas).
		// wait-store-timeout 1 h: only a store silent for 2 h has failed; 0 s: every store has
		if c.StoreTO == 0 || s.hb == 2 {
			switch s.l[c.Key] {
			case 1:
				fp++
			case 2:
				fd++
			}
		}
	}
	return
}

// mayGoAsync: some dc lost >= its replica count, a majority of replicas can be up, timeout passed.
// end is a harness clock reading taken after the manager made its decision.
func (m *model) mayGoAsync(c Cfg, end time.Time) (bool, string) {
	fp, fd := m.failed(c)
	why := fmt.Sprintf("failed stores primary %d/%d replicas, dr %d/%d replicas, wait-async-timeout %v",
		fp, c.P, fd, c.D, asyncTimeouts[c.AsyncTO])
	if !(fp >= c.P || fd >= c.D) {
		return false, why + ": no dc has lost as many stores as it has replicas"
	}
	up := 0
	if c.P > fp {
		up += c.P - fp
	}
	if c.D > fd {
		up += c.D - fd
	}
	if up*2 <= c.P+c.D {
		return false, why + fmt.Sprintf(": at most %d of %d replicas can be up, not a majority", up, c.P+c.D)
	}
	// the timeout has passed only if the manager and EVERY reporting member are older than it. Only what is
	// certain on the harness clock is judged: the report was started at most `age` before the decision ended.
	if T := asyncTimeouts[c.AsyncTO]; T > 0 {
		if age := end.Sub(m.bornBefore); age <= T {
			return false, why + fmt.Sprintf(": the manager exists for at most %v, less than the wait-async-timeout", age)
		}
		for _, id := range m.memberIDs() {
			if age := end.Sub(m.members[id][0]); age <= T {
				return false, why + fmt.Sprintf(": pd member %d reported being in sync at most %v ago, inside the wait-async-timeout (reports: %s)", id, age, m.memberAges(end))
			}
		}
	}
	return true, why
}

func (m *model) memberIDs() []int {
	var ids []int
	for id := range m.members {
		ids = append(ids, id)
	}
	sort.Ints(ids)
	return ids
}

func (m *model) memberAges(end time.Time) string {
	s := ""
	for _, id := range m.memberIDs() {
		s += fmt.Sprintf(" member %d: %v..%v ago;", id, end.Sub(m.members[id][1]).Round(time.Millisecond), end.Sub(m.members[id][0]).Round(time.Millisecond))
	}
	return s
}

// freshness counts the members that are certainly inside / certainly outside the timeout for a decision made
// between start and end.
func (m *model) freshness(c Cfg, start, end time.Time) (fresh, stale int) {
	T := asyncTimeouts[c.AsyncTO]
	for _, w := range m.members {
		switch {
		case end.Sub(w[0]) <= T:
			fresh++
		case start.Sub(w[1]) > T:
			stale++
		}
	}
	return
}

func (m *model) maySyncRecover(c Cfg) (bool, string) {
	fp, fd := m.failed(c)
	why := fmt.Sprintf("failed stores primary %d/%d replicas, dr %d/%d replicas", fp, c.P, fd, c.D)
	return fp < c.P && fd < c.D, why
}

// snapshot adds the ranges of the regions whose last report is integrity under id.
func (m *model) snapshot(id uint64, into *iset) {
	for _, r := range m.regs {
		if r.st == int(pb.RegionReplicationState_INTEGRITY_OVER_LABEL) && r.sid == id {
			into.add(r.a, r.b)
		}
	}
}

func (m *model) hasGap() bool {
	at := 0
	for _, r := range m.regs {
		if r.a != at {
			return true
		}
		at = r.b
	}
	return at != maxB
}

func (m *model) hasStale(cur uint64) bool {
	for _, r := range m.regs {
		if r.st == int(pb.RegionReplicationState_INTEGRITY_OVER_LABEL) && r.sid != 0 && r.sid != cur {
			return true
		}
	}
	return false
}

func (m *model) allPresentReported(cur uint64) bool {
	for _, r := range m.regs {
		if !(r.st == int(pb.RegionReplicationState_INTEGRITY_OVER_LABEL) && r.sid == cur) {
			return false
		}
	}
	return len(m.regs) > 0
}

func (m *model) sortRegs() {
	sort.Slice(m.regs, func(i, j int) bool { return m.regs[i].a < m.regs[j].a })
}

// ---------------------------------------------------------------- fixture

const drKey = "replication_mode/dr-auto-sync"

type offer struct {
	pos    int // number of storage events logged before the offer
	name   string
	state  string
	id     uint64
	failed bool
}

// probeBatch is a group of GetReplicationStatus calls started on another goroutine while the manager
// was inside a transition (file replication or storage save).
type probeBatch struct {
	offerIdx int    // 1-based index, within the op, of the transition that was in flight
	where    string // offer | save
	inflight bool   // the manager's lock was free: the calls returned while the transition was still in flight
	n        int
	ch       chan obs
	got      []obs
}

// prober plays the stores that heartbeat while the manager changes state.
type prober struct {
	m        *replication.ModeManager // nil while a manager is being constructed
	n        int                      // calls per gate for the current op
	batches  []*probeBatch
	timedOut bool
}

const probeWait = 10 * time.Second

func (b *probeBatch) collect() bool {
	for len(b.got) < b.n {
		select {
		case o := <-b.ch:
			b.got = append(b.got, o)
		case <-time.After(probeWait):
			return false
		}
	}
	return true
}

// at is called on the manager's goroutine from inside the replicater / the storage wrapper.
func (p *prober) at(where string, offerIdx int) {
	if p == nil || p.m == nil || p.n == 0 {
		return
	}
	mgr, n := p.m, p.n
	b := &probeBatch{offerIdx: offerIdx, where: where, n: n, ch: make(chan obs, n)}
	go func() {
		for i := 0; i < n; i++ {
			b.ch <- toObs(mgr.GetReplicationStatus())
		}
	}()
	// If the manager holds its lock over the transition (it does on the unchanged tree) the calls wait
	// until the transition is over and are joined after the op. If the lock is free they cannot block:
	// wait for them now, they are what a store is served while the transition is in flight.
	if mgr.TryRLock() {
		mgr.RUnlock()
		b.inflight = true
		if !b.collect() {
			p.timedOut = true
		}
	}
	p.batches = append(p.batches, b)
}

func (p *prober) begin(n int) { p.n, p.batches = n, nil }

// join waits for the calls that had to wait for the manager's lock.
func (p *prober) join() []*probeBatch {
	for _, b := range p.batches {
		if !b.collect() {
			p.timedOut = true
		}
	}
	out := p.batches
	p.n, p.batches = 0, nil
	return out
}

// recRepl records every file the manager hands to the members and can refuse it.
type recRepl struct {
	kv     *faultkv.KV
	offers []offer
	failN  int
	pr     *prober
}

type persisted struct {
	State   string `json:"state"`
	StateID uint64 `json:"state_id"`
}

func (r *recRepl) ReplicateFileToAllMembers(_ context.Context, name string, data []byte) error {
	var p persisted
	_ = json.Unmarshal(data, &p)
	o := offer{pos: len(r.kv.Log), name: name, state: p.State, id: p.StateID}
	var err error
	if r.failN > 0 {
		r.failN--
		o.failed = true
		err = errors.New("verif: injected file replication failure")
	}
	r.offers = append(r.offers, o)
	r.pr.at("offer", len(r.offers))
	return err
}

type fixture struct {
	cancel context.CancelFunc
	cl     *mockcluster.Cluster
	hc     *hookCluster // what the manager sees
	kv     *faultkv.KV
	stg    *core.Storage // the manager's storage
	ostg   *core.Storage // the oracle's view of the backend
	base   kv.Base       // the backend itself (byte-level comparison of the persisted record)
	rep    *recRepl
	pr     *prober
	m      *replication.ModeManager
}

var asyncTimeouts = []time.Duration{0, time.Nanosecond, time.Hour, 100 * time.Millisecond}

func dur(d time.Duration) typeutil.Duration { return typeutil.Duration{Duration: d} }

var (
	drSpellings  = []string{"dr-auto-sync", "dr_auto_sync", "DR-AUTO-SYNC", "Dr_Auto-Sync"}
	majSpellings = []string{"majority", "MAJORITY", "Majority", "mAJORITY"}
)

// cfgFor spells the mode name as the case says - unless that trigger class is a known finding.
func (r *runner) cfgFor(c Cfg) config.ReplicationModeConfig {
	if c.Sp%4 != 0 && vkit.Known(keyModeName) {
		if !r.excludedSpelling {
			r.excludedSpelling = true
			r.info.Exclude(keyModeName)
		}
		c.Sp = 0
	}
	if c.Sp%4 != 0 {
		r.class("mode-name-in-another-spelling")
	}
	return toConfig(c)
}

func toConfig(c Cfg) config.ReplicationModeConfig {
	mode := majSpellings[((c.Sp%4)+4)%4]
	if c.DR {
		mode = drSpellings[((c.Sp%4)+4)%4]
	}
	return config.ReplicationModeConfig{ReplicationMode: mode, DRAutoSync: config.DRAutoSyncReplicationConfig{
		LabelKey:         keyNames[c.Key],
		Primary:          priVal[c.Key],
		DR:               drVal[c.Key],
		PrimaryReplicas:  c.P,
		DRReplicas:       c.D,
		WaitStoreTimeout: dur([]time.Duration{0, time.Hour}[c.StoreTO]),
		WaitSyncTimeout:  dur(time.Minute),
		WaitAsyncTimeout: dur(asyncTimeouts[c.AsyncTO]),
	}}
}

func key(x int) []byte {
	if x <= 0 || x >= maxB {
		return nil
	}
	return []byte(fmt.Sprintf("%07d", x))
}

func (f *fixture) putStore(s *mstore) {
	var labels []*metapb.StoreLabel
	for k := 0; k < 2; k++ {
		switch s.l[k] {
		case 1:
			labels = append(labels, &metapb.StoreLabel{Key: keyNames[k], Value: priVal[k]})
		case 2:
			labels = append(labels, &metapb.StoreLabel{Key: keyNames[k], Value: drVal[k]})
		case 3:
			labels = append(labels, &metapb.StoreLabel{Key: keyNames[k], Value: othVal[k]})
		}
	}
	hb := time.Now().Add(-[]time.Duration{0, 30 * time.Minute, 2 * time.Hour}[s.hb])
	meta := &metapb.Store{Id: s.id, Labels: labels}
	switch {
	case s.tomb:
		meta.State = metapb.StoreState_Tombstone
		meta.PhysicallyDestroyed = s.mem == 2
	case s.mem != 0:
		meta.State = metapb.StoreState_Offline
		meta.PhysicallyDestroyed = s.mem == 2
	}
	f.cl.PutStore(core.NewStoreInfo(meta, core.SetLastHeartbeatTS(hb)))
}

// putRegion delivers the region as a heartbeat carrying its replication status.
func (f *fixture) putRegion(r *mregion, stores []*mstore) {
	meta := &metapb.Region{Id: r.id, StartKey: key(r.a), EndKey: key(r.b),
		RegionEpoch: &metapb.RegionEpoch{Version: r.ver, ConfVer: 1}}
	for i, s := range stores {
		if i == 3 {
			break
		}
		meta.Peers = append(meta.Peers, &metapb.Peer{Id: r.id*10 + uint64(i), StoreId: s.id})
	}
	hb := &pdpb.RegionHeartbeatRequest{Region: meta, Leader: meta.Peers[0]}
	if r.st != 0 || r.sid != 0 {
		hb.ReplicationStatus = &pb.RegionReplicationStatus{State: pb.RegionReplicationState(r.st), StateId: r.sid}
	}
	f.cl.PutRegion(core.RegionFromHeartbeat(hb))
}

type obs struct {
	dr    bool
	state string
	id    uint64
	label string
}

func (o obs) String() string {
	if !o.dr {
		return "(majority)"
	}
	return fmt.Sprintf("(dr-auto-sync, label key %q, %s, id %d)", o.label, o.state, o.id)
}

// toObs reduces a served status to the tuple (mode, label key, state, state id).
func toObs(s *pb.ReplicationStatus) obs {
	if s.GetMode() != pb.ReplicationMode_DR_AUTO_SYNC {
		return obs{}
	}
	d := s.GetDrAutoSync()
	o := obs{dr: true, id: d.GetStateId(), label: d.GetLabelKey(), state: "?"}
	switch d.GetState() {
	case pb.DRAutoSyncState_SYNC:
		o.state = "sync"
	case pb.DRAutoSyncState_ASYNC:
		o.state = "async"
	case pb.DRAutoSyncState_SYNC_RECOVER:
		o.state = "sync_recover"
	}
	return o
}

func (f *fixture) served() (obs, error) {
	s := f.m.GetReplicationStatus()
	h := f.m.GetReplicationStatusHTTP()
	switch s.GetMode() {
	case pb.ReplicationMode_MAJORITY:
		if s.DrAutoSync != nil || h.Mode != "majority" {
			return obs{}, fmt.Errorf("inconsistent status in majority mode: grpc %v, http mode %q", s, h.Mode)
		}
		return obs{}, nil
	case pb.ReplicationMode_DR_AUTO_SYNC:
		d := s.GetDrAutoSync()
		if d == nil {
			return obs{}, fmt.Errorf("mode dr-auto-sync served without a dr status")
		}
		o := obs{dr: true, id: d.GetStateId(), label: d.GetLabelKey()}
		switch d.GetState() {
		case pb.DRAutoSyncState_SYNC:
			o.state = "sync"
		case pb.DRAutoSyncState_ASYNC:
			o.state = "async"
		case pb.DRAutoSyncState_SYNC_RECOVER:
			o.state = "sync_recover"
		}
		if h.Mode != "dr-auto-sync" || h.DrAutoSync.StateID != o.id ||
			(h.DrAutoSync.State != o.state && !(h.DrAutoSync.State == "" && o.state == "sync")) {
			return obs{}, fmt.Errorf("GetReplicationStatus serves (%s, id %d) but the HTTP status is (%q, id %d)",
				o.state, o.id, h.DrAutoSync.State, h.DrAutoSync.StateID)
		}
		return o, nil
	}
	return obs{}, fmt.Errorf("unknown served mode %v", s.GetMode())
}

func (f *fixture) storedStatus() (status, error) {
	var p persisted
	ok, err := f.ostg.LoadReplicationStatus("dr-auto-sync", &p)
	if err != nil {
		return status{}, err
	}
	if !ok {
		return status{}, nil
	}
	return status{valid: true, state: p.State, id: p.StateID}, nil
}

// ---------------------------------------------------------------- runner

type opCtx struct {
	kind         string // init, restart, tick, config, other
	cfg          Cfg    // configuration in effect for a transition made by this op
	labelChanged bool   // config: dr -> dr with another label key
	toDR         bool   // config: majority -> dr-auto-sync
	desc         string
	end          time.Time // harness clock after the op returned
}

type attempt struct {
	state      string
	id         uint64
	offered    bool
	offerFail  bool
	saveTried  bool
	saveFailed bool
}

type runner struct {
	f     *fixture
	m     *model
	info  *vkit.Info
	batch int

	// cycle bookkeeping (sync -> async -> sync_recover -> sync)
	wasSync, sawAsync       bool
	gapOnWay, staleOnWay    bool
	recoverTicks            int
	cycles, ntCycles        int
	maxRegionsAtCompletion  int
	classes                 map[string]bool
	failedSaveAtTransition  bool
	failedReplAtTransition  bool
	refusedGap, refusedPart bool
	excludedSpelling        bool
	excludedRace            bool
}

func (r *runner) class(c string) { r.classes[c] = true }

// collect turns the storage log and the replicater log of one op into transition attempts.
func (r *runner) collect() ([]attempt, error) {
	evs := r.f.kv.TakeLog()
	offers := r.f.rep.offers
	r.f.rep.offers = nil
	var out []attempt
	oi := 0
	var pending *offer
	flush := func() {
		if pending != nil {
			out = append(out, attempt{state: pending.state, id: pending.id, offered: true, offerFail: pending.failed})
			pending = nil
		}
	}
	for i := 0; i <= len(evs); i++ {
		for oi < len(offers) && offers[oi].pos <= i {
			flush() // an offer that was never followed by a save
			pending = &offers[oi]
			oi++
		}
		if i == len(evs) {
			break
		}
		e := evs[i]
		if e.Kind != "save" && e.Kind != "remove" {
			continue
		}
		if e.Key != drKey || e.Kind == "remove" {
			return nil, fmt.Errorf("unexpected storage write %s %q", e.Kind, e.Key)
		}
		var p persisted
		if err := json.Unmarshal([]byte(e.Value), &p); err != nil {
			return nil, fmt.Errorf("unreadable status saved: %q", e.Value)
		}
		a := attempt{state: p.State, id: p.StateID, saveTried: true, saveFailed: e.Failed}
		if pending != nil {
			if pending.state != p.State || pending.id != p.StateID {
				return nil, fmt.Errorf("the status saved to storage (%s, id %d) differs from the one offered to the members just before (%s, id %d)",
					p.State, p.StateID, pending.state, pending.id)
			}
			a.offered, a.offerFail = true, pending.failed
			pending = nil
		}
		out = append(out, a)
	}
	flush()
	return out, nil
}

// judge applies the legality predicates to the attempts of one op and updates the model.
func (r *runner) judge(ctx opCtx, atts []attempt) error {
	m := r.m
	for _, a := range atts {
		from := m.cur
		what := fmt.Sprintf("%s: transition %v -> (%s, id %d)", ctx.desc, from, a.state, a.id)
		if a.saveTried && !a.offered {
			return fmt.Errorf("%s was saved to storage without having been offered to the members first", what)
		}
		if a.id == 0 || m.seen[a.id] {
			return fmt.Errorf("%s reuses a state id (ids seen so far: %v)", what, sortedIDs(m.seen))
		}
		m.seen[a.id] = true
		switch ctx.kind {
		case "tick", "config":
			if !ctx.cfg.DR {
				return fmt.Errorf("%s while the mode is majority", what)
			}
		case "init", "restart":
			if !(a.state == "sync" && !m.stored.valid) {
				return fmt.Errorf("%s: a manager start is not a transition; it may only initialise a storage that never held a status to sync (persisted before the start: %v)", what, m.stored)
			}
		default:
			return fmt.Errorf("%s: this operation must not change the replication state", what)
		}
		if ctx.kind == "tick" || ctx.kind == "config" {
			switch a.state {
			case "async":
				if ctx.labelChanged {
					r.class("async-by-label-key-change")
					break
				}
				if ok, why := m.mayGoAsync(ctx.cfg, ctx.end); !ok {
					return fmt.Errorf("%s is not allowed: %s", what, why)
				}
			case "sync_recover":
				if ctx.toDR {
					r.class("sync_recover-by-mode-switch")
					break
				}
				if !(from.valid && from.state == "async") {
					return fmt.Errorf("%s: sync_recover may only be entered from async", what)
				}
				if ok, why := m.maySyncRecover(ctx.cfg); !ok {
					return fmt.Errorf("%s is not allowed: %s", what, why)
				}
			case "sync":
				if !(from.valid && from.state == "sync_recover") {
					return fmt.Errorf("%s: sync may only be declared from sync_recover", what)
				}
				cov := &iset{}
				if m.covID == from.id {
					cov = m.cov.clone()
				}
				if ctx.kind == "tick" {
					m.snapshot(from.id, cov)
				}
				if h := cov.firstHole(); h >= 0 {
					return fmt.Errorf("%s, but no region covering key %q was ever seen at a tick with INTEGRITY_OVER_LABEL under state id %d (ranges seen so: %v; regions now: %s)",
						what, key(h), from.id, brief(cov.iv), r.regionsBrief())
				}
			default:
				return fmt.Errorf("%s: unknown state", what)
			}
		}
		if a.offerFail {
			r.failedReplAtTransition = true
		}
		if !a.saveTried {
			continue // offered only; nothing may be served
		}
		if a.saveFailed {
			r.failedSaveAtTransition = true
			continue
		}
		m.cur = status{valid: true, state: a.state, id: a.id}
		m.stored = m.cur
		r.track(from, m.cur)
	}
	return nil
}

// track keeps the cycle statistics.
func (r *runner) track(from, to status) {
	r.class("to-" + to.state)
	switch to.state {
	case "sync":
		if from.valid && from.state == "sync_recover" {
			r.class("recovered")
			if r.recoverTicks >= 2 {
				r.class("recovery-over-several-ticks")
			}
			if len(r.m.regs) > r.batch {
				r.class("recovery-more-regions-than-a-batch")
			}
			if r.wasSync && r.sawAsync {
				r.cycles++
				if r.gapOnWay || r.staleOnWay {
					r.ntCycles++
				}
				if r.gapOnWay {
					r.class("cycle-with-gap-on-the-way")
				}
				if r.staleOnWay {
					r.class("cycle-with-stale-reports-on-the-way")
				}
			}
		}
		r.wasSync, r.sawAsync, r.gapOnWay, r.staleOnWay = true, false, false, false
	case "async":
		if r.wasSync {
			r.sawAsync = true
		}
		if from.valid && from.state == "sync_recover" {
			r.class("sync_recover-back-to-async")
		}
	case "sync_recover":
		r.recoverTicks = 0
	}
}

// configTarget resolves a config op against the current configuration.
func (r *runner) configTarget(op Op, desc string) (Cfg, opCtx) {
	m := r.m
	nc := m.cfg
	switch op.A {
	case 0:
		nc.DR = !nc.DR
	case 1:
		nc.Key = 1 - nc.Key
	case 2:
		if op.B >= 1 && op.C >= 1 {
			nc.P, nc.D = op.B, op.C
		}
	case 3:
		nc.StoreTO = op.B % 2
	case 4:
		nc.AsyncTO = op.B % 4
	}
	nc.Sp = op.Sp
	return nc, opCtx{kind: "config", cfg: nc, desc: desc,
		labelChanged: m.cfg.DR && nc.DR && m.cfg.Key != nc.Key,
		toDR:         !m.cfg.DR && nc.DR}
}

// finishConfig judges what an UpdateConfig call did and installs the new configuration in the model.
func (r *runner) finishConfig(cx opCtx, nc Cfg, atts []attempt, uerr error) error {
	m := r.m
	rejected := false
	for _, a := range atts {
		if a.saveFailed {
			rejected = true
		}
	}
	if err := r.judge(cx, atts); err != nil {
		return err
	}
	if rejected != (uerr != nil) {
		return fmt.Errorf("%s: UpdateConfig returned %v although persisting the new state failed=%v", cx.desc, uerr, rejected)
	}
	if rejected {
		r.class("config-update-rejected-by-failed-save")
		return nil
	}
	m.cfg = nc
	if cx.toDR {
		ok := false
		for _, a := range atts {
			ok = ok || (a.saveTried && !a.saveFailed)
		}
		if !ok {
			return fmt.Errorf("%s: dr-auto-sync was switched on without entering a new state: the status %v left from before the majority period would be served", cx.desc, m.cur)
		}
		r.class("mode-switch-to-dr")
		r.wasSync, r.sawAsync = false, false
	}
	return nil
}

// tickBookkeeping records what a scan at this tick could have seen under the current id.
func (r *runner) tickBookkeeping() {
	m := r.m
	if m.cfg.DR && m.cur.valid && m.cur.state == "sync_recover" {
		if m.covID != m.cur.id {
			m.covID, m.cov = m.cur.id, iset{}
		}
		m.snapshot(m.cur.id, &m.cov)
		m.cov.normalise()
		r.recoverTicks++
		gap, stale := m.hasGap(), m.hasStale(m.cur.id)
		r.gapOnWay = r.gapOnWay || gap
		r.staleOnWay = r.staleOnWay || stale
		if gap && m.allPresentReported(m.cur.id) {
			r.class("sync-refused-all-reported-but-gap")
		}
		if !gap && !m.allPresentReported(m.cur.id) {
			r.class("sync-refused-reports-missing")
		}
	}
}

// installed is the tuple the model says a store must be served right now.
func (r *runner) installed() obs {
	m := r.m
	if !m.cfg.DR {
		return obs{}
	}
	return obs{dr: true, label: keyNames[m.cfg.Key], state: m.cur.state, id: m.cur.id}
}

// checkReads judges every status that was returned to a concurrent reader during the op: it must be one of
// the installed tuples - the one before the op or the one after a transition that completed successfully -
// and a read that returned while transition k was still in flight can only see what was installed before k.
func (r *runner) checkReads(desc string, before obs, atts []attempt, cfgAfter Cfg, batches []*probeBatch) error {
	inst := []obs{before}
	upto := []int{1} // upto[k] = number of tuples installed before the (k+1)-th transition of the op started
	for _, a := range atts {
		if a.saveTried && !a.saveFailed {
			inst = append(inst, obs{dr: cfgAfter.DR, label: keyNames[cfgAfter.Key], state: a.state, id: a.id})
		}
		upto = append(upto, len(inst))
	}
	for _, b := range batches {
		allowed := inst
		if b.inflight {
			r.class("reads-while-transition-in-flight")
			k := b.offerIdx - 1
			if k < 0 {
				k = 0
			}
			if k < len(upto) {
				allowed = inst[:upto[k]]
			}
		} else {
			r.class("reads-waited-for-the-transition")
		}
		for _, o := range b.got {
			ok := false
			for _, x := range allowed {
				ok = ok || o == x
			}
			if !ok {
				when := "after waiting for the manager"
				if b.inflight {
					when = "while the transition was still in flight"
				}
				return fmt.Errorf("%s: a concurrent GetReplicationStatus (started during the %s of transition %d of this op) returned %v %s; installed (persisted and offered) were only %v",
					desc, b.where, b.offerIdx, o, when, allowed)
			}
		}
	}
	return nil
}

// after compares what is served and stored with what the event history allows.
func (r *runner) after(ctx opCtx) error {
	m := r.m
	o, err := r.f.served()
	if err != nil {
		return fmt.Errorf("%s: %v", ctx.desc, err)
	}
	st, err := r.f.storedStatus()
	if err != nil {
		return fmt.Errorf("%s: cannot load the stored status: %v", ctx.desc, err)
	}
	if st != m.stored {
		return fmt.Errorf("%s: storage.LoadReplicationStatus gives %v, but the last successfully saved status is %v", ctx.desc, st, m.stored)
	}
	if o.dr != m.cfg.DR {
		return fmt.Errorf("%s: served mode dr-auto-sync=%v, expected %v (a rejected update must leave the served mode unchanged)", ctx.desc, o.dr, m.cfg.DR)
	}
	if !o.dr {
		return nil
	}
	if o.label != keyNames[m.cfg.Key] {
		return fmt.Errorf("%s: served label key %q, expected %q", ctx.desc, o.label, keyNames[m.cfg.Key])
	}
	if !m.cur.valid {
		return fmt.Errorf("%s: serves (%s, id %d) although no status was ever persisted", ctx.desc, o.state, o.id)
	}
	if o.state != m.cur.state || o.id != m.cur.id {
		return fmt.Errorf("%s: serves (%s, id %d), but the last status that was offered to the members and persisted is %v (stored now: %v)",
			ctx.desc, o.state, o.id, m.cur, st)
	}
	if len(m.servedHist) == 0 || m.servedHist[len(m.servedHist)-1] != o.id {
		m.servedHist = append(m.servedHist, o.id)
	}
	m.seen[o.id] = true
	return nil
}

func sortedIDs(s map[uint64]bool) []uint64 {
	var out []uint64
	for k := range s {
		out = append(out, k)
	}
	sort.Slice(out, func(i, j int) bool { return out[i] < out[j] })
	return out
}

func brief(iv [][2]int) string {
	s := ""
	for i, x := range iv {
		if i == 6 {
			return s + fmt.Sprintf(" ... (%d intervals)", len(iv))
		}
		s += fmt.Sprintf("[%q,%q)", key(x[0]), key(x[1]))
	}
	if s == "" {
		return "none"
	}
	return s
}

func (r *runner) regionsBrief() string {
	s := ""
	for i, g := range r.m.regs {
		if i == 8 {
			return s + fmt.Sprintf(" ... (%d regions)", len(r.m.regs))
		}
		s += fmt.Sprintf("{%d [%q,%q) state %d id %d}", g.id, key(g.a), key(g.b), g.st, g.sid)
	}
	if s == "" {
		return "none"
	}
	return s
}

func (r *runner) newManager(ctx opCtx, failLoads bool) error {
	r.f.kv.ResetCounters() // a manager start with a failing storage WRITE is not part of this property
	r.f.kv.TakeLog()
	r.f.rep.offers = nil
	before, _ := r.f.base.Load(drKey)
	r.f.kv.FailLoads = failLoads
	r.f.pr.m = nil // nobody can ask a manager that is still being constructed
	r.f.pr.begin(0)
	r.m.bornBefore, r.m.members = time.Now(), map[int][2]time.Time{}
	mgr, err := replication.NewReplicationModeManager(r.cfgFor(r.m.cfg), r.f.stg, r.f.hc, r.f.rep)
	r.f.kv.FailLoads = false
	atts, cerr := r.collect()
	if cerr != nil {
		return fmt.Errorf("%s: %v", ctx.desc, cerr)
	}
	if err != nil {
		if !failLoads {
			return fmt.Errorf("%s: NewReplicationModeManager failed without an injected fault: %v", ctx.desc, err)
		}
		// a construction that fails must have changed nothing; the old leader's manager is gone,
		// the campaign retries and the retry must find the persisted status
		now, _ := r.f.base.Load(drKey)
		if now != before {
			return fmt.Errorf("%s: the manager construction failed (%v) but changed the persisted status from %q to %q", ctx.desc, err, before, now)
		}
		for _, a := range atts {
			r.m.seen[a.id] = true
		}
		r.class("restart-read-fault-construction-failed")
		ctx.desc += " (retry after a failed read)"
		return r.newManager(ctx, false)
	}
	if failLoads {
		r.class("restart-read-fault-construction-succeeded")
	}
	r.f.m = mgr
	r.f.pr.m = mgr
	if err := r.judge(ctx, atts); err != nil {
		return err
	}
	return r.after(ctx)
}

func runCase(c Case) (vkit.Info, error) {
	var info vkit.Info
	if len(c.Stores) == 0 || c.Batch <= 0 || c.Sample <= 0 {
		return info, fmt.Errorf("malformed case")
	}
	ob, os := replication.VerifSetScanBatch(c.Batch, c.Sample)
	defer replication.VerifSetScanBatch(ob, os)

	ctx, cancel := context.WithCancel(context.Background())
	defer cancel()
	f := &fixture{cancel: cancel}
	f.cl = mockcluster.NewCluster(ctx, config.NewTestOptions())
	f.hc = &hookCluster{Cluster: f.cl}
	base := kv.NewMemoryKV()
	f.kv = faultkv.New(base)
	f.kv.KeepLog = true
	f.stg = core.NewStorage(f.kv)
	f.ostg = core.NewStorage(base)
	f.base = base
	f.pr = &prober{}
	f.rep = &recRepl{kv: f.kv, pr: f.pr}
	f.kv.SetGate(func(kind, key string) error {
		if kind == "save" && key == drKey {
			f.pr.at("save", len(f.rep.offers))
		}
		return nil
	})

	m := &model{cfg: c.Init, seen: map[uint64]bool{}, nextID: 1000}
	r := &runner{f: f, m: m, info: &info, batch: c.Batch, classes: map[string]bool{}}
	for i, s := range c.Stores {
		ms := &mstore{id: uint64(i + 1), l: s.L}
		m.stores = append(m.stores, ms)
		f.putStore(ms)
	}
	for i := 0; i < c.Regions; i++ {
		g := &mregion{id: m.nextID, a: i * maxB / c.Regions, b: (i + 1) * maxB / c.Regions, ver: 1}
		m.nextID++
		m.regs = append(m.regs, g)
		f.putRegion(g, m.stores)
	}
	if c.Regions > 1024 {
		r.class("more-regions-than-default-batch")
	}

	if err := r.newManager(opCtx{kind: "init", cfg: m.cfg, desc: "initial manager start"}, false); err != nil {
		return info, err
	}
	if m.cfg.DR {
		r.wasSync = m.cur.state == "sync"
	}

	for i, op := range c.Ops {
		desc := fmt.Sprintf("op %d %s", i, opString(op))
		switch op.K {
		case "store":
			s := m.stores[op.A%len(m.stores)]
			if s.tomb {
				continue
			}
			if op.B == 3 {
				s.setMem(3)
			} else {
				s.hb = op.B % 3
			}
			f.putStore(s)
		case "mstate":
			s := m.stores[op.A%len(m.stores)]
			s.setMem(op.B)
			f.putStore(s)
		case "dcstate":
			n := 0
			for _, s := range m.stores {
				lv := s.l[m.cfg.Key]
				if lv == 0 {
					lv = 3
				}
				if s.tomb || (op.A != 0 && lv != op.A) {
					continue
				}
				if op.C > 0 && n >= op.C {
					break
				}
				s.setMem(op.B)
				f.putStore(s)
				n++
			}
		case "dc":
			n := 0
			for _, s := range m.stores {
				lv := s.l[m.cfg.Key]
				if lv == 0 {
					lv = 3 // a store without the label is outside both dcs, like one with a third value
				}
				if s.tomb || (op.A != 0 && lv != op.A) {
					continue
				}
				if op.C > 0 && n >= op.C {
					break
				}
				s.hb = op.B % 3
				f.putStore(s)
				n++
			}
		case "report":
			n := len(m.regs)
			if n == 0 {
				continue
			}
			lo, hi := op.A*n/1000, op.B*n/1000
			if hi <= lo {
				hi = lo + 1
			}
			if hi > n {
				hi = n
			}
			if lo >= hi {
				lo = hi - 1
			}
			skip := map[int]bool{}
			for _, s := range op.Skip {
				skip[lo+s%(hi-lo)] = true
			}
			var id uint64
			switch op.ID {
			case 0:
				if m.cur.valid {
					id = m.cur.id
				}
			case 1:
				var cands []uint64
				for _, x := range m.servedHist {
					if !(m.cur.valid && x == m.cur.id) {
						cands = append(cands, x)
					}
				}
				if len(cands) > 0 {
					id = cands[len(cands)-1-op.C%len(cands)]
				}
			}
			for j := lo; j < hi; j++ {
				if skip[j] {
					continue
				}
				g := m.regs[j]
				g.st, g.sid = op.St%3, id
				f.putRegion(g, m.stores)
			}
		case "split":
			if len(m.regs) == 0 {
				continue
			}
			g := m.regs[op.A%len(m.regs)]
			if g.b-g.a < 4 {
				continue
			}
			q := op.B
			if q < 1 || q > 3 {
				q = 2
			}
			mid := g.a + (g.b-g.a)*q/4
			right := &mregion{id: m.nextID, a: mid, b: g.b, ver: g.ver + 1}
			m.nextID++
			g.b, g.ver = mid, g.ver+1
			switch op.C {
			case 1:
				right.st, right.sid = g.st, g.sid
			case 2:
			default:
				g.st, g.sid = 0, 0
			}
			f.putRegion(g, m.stores)
			f.putRegion(right, m.stores)
			m.regs = append(m.regs, right)
			m.sortRegs()
		case "merge":
			if len(m.regs) < 2 {
				continue
			}
			k := op.A % (len(m.regs) - 1)
			g, nx := m.regs[k], m.regs[k+1]
			if g.b != nx.a {
				continue
			}
			g.b = nx.b
			if nx.ver > g.ver {
				g.ver = nx.ver
			}
			g.ver++
			if op.C != 1 {
				g.st, g.sid = 0, 0
			}
			f.putRegion(g, m.stores) // the cache drops the overlapped right neighbour
			m.regs = append(m.regs[:k+1], m.regs[k+2:]...)
		case "drop":
			if len(m.regs) == 0 {
				continue
			}
			k := op.A % len(m.regs)
			if cached := f.cl.GetRegion(m.regs[k].id); cached != nil {
				f.cl.RemoveRegion(cached)
			}
			m.regs = append(m.regs[:k], m.regs[k+1:]...)
		case "heal":
			at := 0
			var add []*mregion
			for _, g := range append(append([]*mregion(nil), m.regs...), &mregion{a: maxB, b: maxB}) {
				if g.a > at {
					add = append(add, &mregion{id: m.nextID, a: at, b: g.a, ver: 1})
					m.nextID++
					if op.A == 0 {
						break
					}
				}
				at = g.b
			}
			for _, g := range add {
				f.putRegion(g, m.stores)
				m.regs = append(m.regs, g)
			}
			m.sortRegs()
		case "failsave":
			f.kv.FailNth(1)
		case "failrepl":
			f.rep.failN = op.A
		case "member":
			tb := time.Now()
			f.m.UpdateMemberWaitAsyncTime(uint64(op.A))
			m.members[op.A] = [2]time.Time{tb, time.Now()}
		case "sleep":
			ms := op.A
			if ms < 0 || ms > 250 {
				ms = 250
			}
			time.Sleep(time.Duration(ms) * time.Millisecond)
		case "restart":
			r.class("restart")
			if err := r.newManager(opCtx{kind: "restart", cfg: m.cfg, desc: desc}, op.A == 1); err != nil {
				return info, err
			}
		case "config":
			nc, cx := r.configTarget(op, desc)
			f.kv.TakeLog()
			f.rep.offers = nil
			before := r.installed()
			f.pr.begin(op.P)
			uerr := f.m.UpdateConfig(r.cfgFor(nc))
			cx.end = time.Now()
			batches := f.pr.join()
			if f.pr.timedOut {
				info.Inconclusive = true
				return info, nil
			}
			atts, err := r.collect()
			if err != nil {
				return info, fmt.Errorf("%s: %v", desc, err)
			}
			if err := r.finishConfig(cx, nc, atts, uerr); err != nil {
				return info, err
			}
			if err := r.checkReads(desc, before, atts, nc, batches); err != nil {
				return info, err
			}
			if err := r.after(cx); err != nil {
				return info, err
			}
		case "racetick":
			nc, cx := r.configTarget(op, desc)
			tcx := opCtx{kind: "tick", cfg: m.cfg, desc: desc + " (the tick)"}
			// known finding: a tick that declares sync overwrites a state-changing update that got the lock after
			// the tick's scan. Excluded: in that constellation the update is made after the tick instead.
			excluded := false
			if (cx.labelChanged || (m.cfg.DR && !nc.DR)) && vkit.Known(keySyncSwitch) &&
				m.cfg.DR && m.cur.valid && m.cur.state == "sync_recover" {
				cov := &iset{}
				if m.covID == m.cur.id {
					cov = m.cov.clone()
				}
				m.snapshot(m.cur.id, cov)
				if cov.firstHole() < 0 {
					excluded = true
					if !r.excludedRace {
						r.excludedRace = true
						info.Exclude(keySyncSwitch)
					}
				}
			}
			f.kv.TakeLog()
			f.rep.offers = nil
			f.pr.begin(0)
			var uerr error
			var done chan struct{}
			n1, n2, fired, raced := 0, 0, false, true
			f.hc.onScan = nil
			if !excluded {
				f.hc.onScan = func() {
					fired, n1 = true, len(f.rep.offers)
					done, raced = raceAfterScan(f.m, func() {
						uerr = f.m.UpdateConfig(r.cfgFor(nc))
						n2 = len(f.rep.offers)
					})
				}
			}
			f.m.VerifTickDR()
			f.hc.onScan = nil
			if fired {
				select {
				case <-done:
				case <-time.After(probeWait):
					raced = false
				}
				if !raced {
					info.Inconclusive = true
					return info, nil
				}
				r.class("config-update-raced-a-tick-after-its-scan")
			} else {
				// the tick did not scan (or the class is excluded): the update simply follows the tick
				n1 = len(f.rep.offers)
				uerr = f.m.UpdateConfig(r.cfgFor(nc))
				n2 = len(f.rep.offers)
			}
			f.pr.join()
			tcx.end, cx.end = time.Now(), time.Now()
			atts, err := r.collect()
			if err != nil {
				return info, fmt.Errorf("%s: %v", desc, err)
			}
			if n1 > len(atts) || n2 > len(atts) || n1 > n2 {
				return info, fmt.Errorf("%s: %d statuses offered to the members but %d transition attempts in the logs", desc, n2, len(atts))
			}
			if err := r.judge(tcx, atts[:n1]); err != nil {
				return info, err
			}
			if err := r.finishConfig(cx, nc, atts[n1:n2], uerr); err != nil {
				return info, err
			}
			tcx.cfg = m.cfg
			tcx.desc = desc + " (the tick, after the concurrent update got the lock)"
			if err := r.judge(tcx, atts[n2:]); err != nil {
				return info, err
			}
			if err := r.after(tcx); err != nil {
				return info, err
			}
			r.tickBookkeeping()
		case "tick":
			for k := 0; k <= op.A; k++ {
				cx := opCtx{kind: "tick", cfg: m.cfg, desc: fmt.Sprintf("%s (tick %d)", desc, k)}
				f.kv.TakeLog()
				f.rep.offers = nil
				for _, s := range m.stores {
					if lv := s.l[m.cfg.Key]; !s.tomb && s.mem != 0 && s.hb == 2 && (lv == 1 || lv == 2) {
						r.class("tick-with-dead-offline-store")
					}
					if s.tomb {
						r.class("tick-with-tombstone-store")
					}
				}
				before := r.installed()
				f.pr.begin(op.P)
				tickStart := time.Now()
				f.m.VerifTickDR()
				cx.end = time.Now()
				if m.cfg.DR && asyncTimeouts[m.cfg.AsyncTO] > 0 && m.cur.valid && m.cur.state != "async" {
					if ok, _ := m.mayGoAsync(Cfg{Key: m.cfg.Key, P: m.cfg.P, D: m.cfg.D, StoreTO: m.cfg.StoreTO}, cx.end); ok {
						// stores and majority would allow async: only the timeout decides
						fresh, stale := m.freshness(m.cfg, tickStart, cx.end)
						old := cx.end.Sub(m.bornBefore) > asyncTimeouts[m.cfg.AsyncTO]
						switch {
						case old && fresh > 0 && stale > 0:
							r.class("members-mixed-freshness")
						case old && fresh > 0:
							r.class("members-all-fresh")
						case old && stale > 0 && len(m.members) == stale:
							r.class("members-all-timed-out")
						case old && len(m.members) == 0:
							r.class("timeout-passed-no-members")
						}
					}
				}
				batches := f.pr.join()
				if f.pr.timedOut {
					info.Inconclusive = true
					return info, nil
				}
				atts, err := r.collect()
				if err != nil {
					return info, fmt.Errorf("%s: %v", cx.desc, err)
				}
				if err := r.judge(cx, atts); err != nil {
					return info, err
				}
				if err := r.checkReads(cx.desc, before, atts, m.cfg, batches); err != nil {
					return info, err
				}
				if err := r.after(cx); err != nil {
					return info, err
				}
				r.tickBookkeeping()
			}
		default:
			return info, fmt.Errorf("malformed case: op %q", op.K)
		}
	}

	for cl := range r.classes {
		info.Class(cl)
	}
	sort.Strings(info.Classes)
	info.ClassIf(r.cycles > 0, "full-cycle")
	info.ClassIf(r.cycles > 1, "two-or-more-full-cycles")
	info.ClassIf(r.failedSaveAtTransition, "failed-save-at-transition")
	info.ClassIf(r.failedReplAtTransition, "failed-replicate-at-transition")
	info.ClassIf(r.cycles == 0 && !r.classes["to-async"], "never-async")
	info.NonTrivial = r.ntCycles > 0
	return info, nil
}

func opString(op Op) string {
	b, _ := json.Marshal(op)
	return string(b)
}
