package c19

// Deterministic probes of the findings of C19 (see /verif/known_findings.d/C19.json).

import (
	"context"
	"encoding/json"
	"fmt"
	"os"
	"path/filepath"
	"testing"
	"time"

	"github.com/pingcap/kvproto/pkg/metapb"
	"github.com/pingcap/kvproto/pkg/pdpb"
	pb "github.com/pingcap/kvproto/pkg/replication_modepb"
	"github.com/tikv/pd/pkg/mock/mockcluster"
	"github.com/tikv/pd/server/config"
	"github.com/tikv/pd/server/core"
	"github.com/tikv/pd/server/kv"
	"github.com/tikv/pd/server/replication"
	"pdverif/vkit"
	"pdverif/vkit/faultkv"
)

const (
	keyModeName   = "C19/mode-name-not-normalized"
	keySyncSwitch = "C19/sync-switch-not-rechecked-under-lock"
)

// hookCluster lets a probe / a case do something right after the manager's region scan of a tick
// (the manager holds its read lock there).
type hookCluster struct {
	*mockcluster.Cluster
	onScan func()
}

func (h *hookCluster) ScanRegions(startKey, endKey []byte, limit int) []*core.RegionInfo {
	res := h.Cluster.ScanRegions(startKey, endKey, limit)
	if f := h.onScan; f != nil {
		h.onScan = nil
		f()
	}
	return res
}

// raceAfterScan starts fn on another goroutine and returns once that goroutine waits for the manager's
// write lock (fn must take it first thing, as UpdateConfig does): the caller, which holds the read lock, then
// goes on, and fn runs before the caller can take the write lock itself.
func raceAfterScan(m *replication.ModeManager, fn func()) (done chan struct{}, ok bool) {
	done = make(chan struct{})
	go func() {
		defer close(done)
		fn()
	}()
	deadline := time.Now().Add(10 * time.Second)
	for m.TryRLock() { // succeeds as long as no writer is waiting
		m.RUnlock()
		if time.Now().After(deadline) {
			return done, false
		}
		time.Sleep(20 * time.Microsecond)
	}
	return done, true
}

func probeCfg(mode, labelKey string) config.ReplicationModeConfig {
	c := toConfig(Cfg{DR: true, Key: 0, P: 2, D: 1, StoreTO: 1})
	c.ReplicationMode = mode
	c.DRAutoSync.LabelKey = labelKey
	return c
}

// majority -> "dr_auto_sync" -> "dr-auto-sync" (every spelling passes NormalizeReplicationMode, which is all
// Server.SetReplicationModeConfig and the config file check): the manager ends up serving dr-auto-sync / SYNC /
// state id 0 with nothing persisted and nothing offered to the members.
func TestFinding_ModeNameNotNormalized(t *testing.T) {
	ctx, cancel := context.WithCancel(context.Background())
	defer cancel()
	detail := ""
	reproduced := false
	for _, viaConstructor := range []bool{false, true} {
		cl := mockcluster.NewCluster(ctx, config.NewTestOptions())
		base := kv.NewMemoryKV()
		fk := faultkv.New(base)
		rep := &recRepl{kv: fk}
		first := "majority"
		if viaConstructor {
			first = "dr_auto_sync" // as a config file may say
		}
		m, err := replication.NewReplicationModeManager(probeCfg(first, "zone"), core.NewStorage(fk), cl, rep)
		if err != nil {
			vkit.Finding(t, keyModeName, false, "constructor failed: "+err.Error())
			return
		}
		servedAfterCtor := toObs(m.GetReplicationStatus())
		if !viaConstructor {
			if err := m.UpdateConfig(probeCfg("dr_auto_sync", "zone")); err != nil {
				vkit.Finding(t, keyModeName, false, "UpdateConfig failed: "+err.Error())
				return
			}
		}
		mid := toObs(m.GetReplicationStatus())
		if err := m.UpdateConfig(probeCfg("dr-auto-sync", "zone")); err != nil {
			vkit.Finding(t, keyModeName, false, "UpdateConfig failed: "+err.Error())
			return
		}
		end := toObs(m.GetReplicationStatus())
		var p persisted
		stored, _ := core.NewStorage(base).LoadReplicationStatus("dr-auto-sync", &p)
		bad := end.dr && end.state == "sync" && end.id == 0 && !stored && len(rep.offers) == 0
		reproduced = reproduced || bad
		detail += fmt.Sprintf("[constructor=%v: after start %v, after dr_auto_sync %v, after dr-auto-sync %v, persisted=%v, files offered=%d] ",
			viaConstructor, servedAfterCtor, mid, end, stored, len(rep.offers))
	}
	// the config file path keeps the spelling too
	dir, _ := os.MkdirTemp("", "c19cfg")
	defer os.RemoveAll(dir)
	file := filepath.Join(dir, "pd.toml")
	os.WriteFile(file, []byte("[replication-mode]\nreplication-mode = \"dr_auto_sync\"\n"), 0o644)
	cfg := config.NewConfig()
	if err := cfg.Parse([]string{"--config", file}); err == nil { // Parse adjusts
		detail += fmt.Sprintf("[config file replication-mode=\"dr_auto_sync\" is kept as %q]", cfg.ReplicationMode.ReplicationMode)
	} else {
		detail += "[config file not parsed: " + err.Error() + "]"
	}
	vkit.Finding(t, keyModeName, reproduced, detail)
}

// sync_recover with every region reported; a tick finds the recovery complete; before it switches, a label-key
// UpdateConfig (-> async under a fresh id) gets the lock; the tick then installs sync over it.
func TestFinding_SyncSwitchNotRechecked(t *testing.T) {
	ctx, cancel := context.WithCancel(context.Background())
	defer cancel()
	ob, os_ := replication.VerifSetScanBatch(4, 2)
	defer replication.VerifSetScanBatch(ob, os_)
	f := &fixture{}
	f.cl = mockcluster.NewCluster(ctx, config.NewTestOptions())
	hc := &hookCluster{Cluster: f.cl}
	base := kv.NewMemoryKV()
	fk := faultkv.New(base)
	rep := &recRepl{kv: fk}
	stores := []*mstore{{id: 1, l: [2]int{1, 1}}, {id: 2, l: [2]int{1, 1}}, {id: 3, l: [2]int{2, 2}}}
	for _, s := range stores {
		f.putStore(s)
	}
	m, err := replication.NewReplicationModeManager(probeCfg("majority", "zone"), core.NewStorage(fk), hc, rep)
	if err != nil {
		vkit.Finding(t, keySyncSwitch, false, "constructor failed: "+err.Error())
		return
	}
	if err := m.UpdateConfig(probeCfg("dr-auto-sync", "zone")); err != nil { // -> sync_recover
		vkit.Finding(t, keySyncSwitch, false, "UpdateConfig failed: "+err.Error())
		return
	}
	rec := toObs(m.GetReplicationStatus())
	for i := 0; i < 3; i++ {
		f.putRegion(&mregion{id: uint64(100 + i), a: i * maxB / 3, b: (i + 1) * maxB / 3, ver: 1,
			st: int(pb.RegionReplicationState_INTEGRITY_OVER_LABEL), sid: rec.id}, stores)
	}
	var done chan struct{}
	raced := false
	hc.onScan = func() {
		done, raced = raceAfterScan(m, func() { m.UpdateConfig(probeCfg("dr-auto-sync", "dc")) })
	}
	m.VerifTickDR()
	if done != nil {
		select {
		case <-done:
		case <-time.After(10 * time.Second):
			raced = false
		}
	}
	end := toObs(m.GetReplicationStatus())
	seq := ""
	for _, o := range rep.offers {
		seq += fmt.Sprintf(" (%s, id %d)", o.state, o.id)
	}
	reproduced := raced && end.dr && end.state == "sync" && end.label == "dc" &&
		len(rep.offers) >= 2 && rep.offers[len(rep.offers)-2].state == "async"
	vkit.Finding(t, keySyncSwitch, reproduced, fmt.Sprintf("raced=%v; in sync_recover %v all regions reported; statuses installed in order:%s; served at the end %v (label key dc was never scanned)", raced, rec, seq, end))
}

// TestProbe_UnknownStateString (triage of a hazard, not a finding): a persisted record whose state string is
// unknown or empty is served as SYNC (enum value 0) by GetReplicationStatus. No pd code writes such a record
// (the three switch functions write sync / async / sync_recover only), so the input is outside the property's
// domain; the only in-domain way to an empty state is the zero status of C19/mode-name-not-normalized.
func TestProbe_UnknownStateString(t *testing.T) {
	ctx, cancel := context.WithCancel(context.Background())
	defer cancel()
	for _, rec := range []string{`{"state":"sync-recover","state_id":7}`, `{"state_id":7}`} {
		base := kv.NewMemoryKV()
		base.Save(drKey, rec)
		m, err := replication.NewReplicationModeManager(probeCfg("dr-auto-sync", "zone"), core.NewStorage(base),
			mockcluster.NewCluster(ctx, config.NewTestOptions()), &recRepl{kv: faultkv.New(base)})
		if err != nil {
			t.Logf("record %s: constructor error %v", rec, err)
			continue
		}
		t.Logf("persisted record %s is served as %v", rec, toObs(m.GetReplicationStatus()))
	}
}

const keyReplicateStops = "C19/file-replication-stops-at-first-unreachable-member"

// Three pd members in dr-auto-sync mode; one follower that is listed before another member is stopped; the leader
// makes a transition (online label-key change -> async). Server.ReplicateFileToAllMembers returns at the first
// member it cannot reach and drPersistStatus drops the error, so the reachable members listed AFTER the stopped
// one are never offered the new DR_STATE although the state is persisted and served.
func TestFinding_FileReplicationStopsAtFirstUnreachableMember(t *testing.T) {
	x, why := mbStart(3)
	if x == nil {
		vkit.Finding(t, keyReplicateStops, false, "inconclusive: "+why)
		return
	}
	defer x.destroy()
	ld := x.leader(false)
	if ld == nil {
		vkit.Finding(t, keyReplicateStops, false, "inconclusive: no leader")
		return
	}
	cl, err := x.client(ld)
	if err != nil {
		vkit.Finding(t, keyReplicateStops, false, "inconclusive: "+err.Error())
		return
	}
	ctx := context.Background()
	if _, err := cl.Bootstrap(ctx, &pdpb.BootstrapRequest{Header: x.header(),
		Store:  &metapb.Store{Id: 1, Address: "127.0.0.1:1"},
		Region: &metapb.Region{Id: 2, Peers: []*metapb.Peer{{Id: 3, StoreId: 1, Role: metapb.PeerRole_Voter}}}}); err != nil {
		vkit.Finding(t, keyReplicateStops, false, "inconclusive: bootstrap: "+err.Error())
		return
	}
	if ld = x.leader(true); ld == nil {
		vkit.Finding(t, keyReplicateStops, false, "inconclusive: no running leader")
		return
	}
	members, err := ld.GetServer().GetMembers(ctx, nil)
	if err != nil || len(members.GetMembers()) != 3 {
		vkit.Finding(t, keyReplicateStops, false, fmt.Sprintf("inconclusive: member list: %v", err))
		return
	}
	// the first listed member that is not the leader is stopped; whoever is listed after it must still be offered
	var order []string
	stopIdx := -1
	for i, m := range members.GetMembers() {
		order = append(order, m.GetName())
		if stopIdx < 0 && m.GetName() != ld.GetConfig().Name {
			stopIdx = i
		}
	}
	stopped := order[stopIdx]
	if err := x.tc.GetServer(stopped).Stop(); err != nil {
		vkit.Finding(t, keyReplicateStops, false, "inconclusive: stop: "+err.Error())
		return
	}
	time.Sleep(500 * time.Millisecond)
	if ld = x.leader(true); ld == nil || ld.GetConfig().Name == stopped {
		vkit.Finding(t, keyReplicateStops, false, "inconclusive: leader lost after stopping a follower")
		return
	}
	cfg := ld.GetServer().GetReplicationModeConfig().Clone()
	cfg.DRAutoSync.LabelKey = "dc"
	if err := ld.GetServer().SetReplicationModeConfig(*cfg); err != nil {
		vkit.Finding(t, keyReplicateStops, false, "inconclusive: label key change refused: "+err.Error())
		return
	}
	served, _ := recOf(ld.GetRaftCluster().GetReplicationMode().GetReplicationStatus())
	detail := fmt.Sprintf("member list %v, leader %s, stopped %s; after the label-key change stores are served %v;", order, ld.GetConfig().Name, stopped, served)
	reproduced := false
	for i, name := range order {
		if name == stopped {
			continue
		}
		data, _ := os.ReadFile(filepath.Join(x.tc.GetServer(name).GetConfig().DataDir, "DR_STATE"))
		var rec mbRec
		json.Unmarshal(data, &rec)
		detail += fmt.Sprintf(" reachable member %s (position %d) holds %v;", name, i, rec)
		if rec != served {
			reproduced = true
		}
	}
	vkit.Finding(t, keyReplicateStops, reproduced, detail)
}
