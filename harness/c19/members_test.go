package c19

// Property "members" of C19: on a live multi-member pd cluster in dr-auto-sync mode, every state the leader
// installs is held by EVERY pd member (the DR_STATE file in its data dir, written through the real
// Server.ReplicateFileToAllMembers / persist-file handler), by etcd and is what stores are served.
//
// One tests.NewTestCluster with 2 members per executed case (quick: shard 0 only; each embedded etcd maps
// ~10 GB of address space, two fit into a shard's limit). A short generated program of transitions that are
// reachable on a live server: online label-key change (-> async), mode switch majority <-> dr-auto-sync
// (-> sync_recover), a dr store that stops heartbeating / comes back followed by a manager tick (VerifTickDR on
// the live manager: -> async / -> sync_recover), pd leader resignation (the other member becomes the replicating
// leader; the program ends with a round trip A -> B -> transition on B -> A, so a member's second term must
// start from what the other leader persisted). After every step, if dr-auto-sync is served:
//
//	the (state, state id) in a StoreHeartbeat response == ModeManager.GetReplicationStatus of the leader
//	== the record in etcd (read through the harness' own client) == the JSON in <data-dir>/DR_STATE of EVERY
//	member (all members are up here; the manager reports no replication failure, so none is excused).
//
// Real servers, real scheduler: a failing history is reported in full.

import (
	"context"
	"encoding/json"
	"fmt"
	"os"
	"path"
	"path/filepath"
	"sort"
	"strconv"
	"strings"
	"sync"
	"testing"
	"time"

	"github.com/pingcap/kvproto/pkg/metapb"
	"github.com/pingcap/kvproto/pkg/pdpb"
	pb "github.com/pingcap/kvproto/pkg/replication_modepb"
	"github.com/tikv/pd/server/config"
	"github.com/tikv/pd/tests"
	"go.etcd.io/etcd/clientv3"
	"google.golang.org/grpc"
	"pdverif/vkit"
	"pgregory.net/rapid"
)

func init() {
	// one case per shard; the case itself says whether this shard runs it (quick: shard 0 only)
	vkit.Register("members", vkit.N{Quick: 4, Thorough: 16}, genMembers, runMembers)
}

// TestPropZZMembersShutdown runs after TestProp (the driver selects ^TestProp): removes what a cluster left.
func TestPropZZMembersShutdown(t *testing.T) { mbClose() }

// MStep kinds: label (toggle the label key online), mode (toggle majority / dr-auto-sync online), outage (a new
// store of the dr dc that never heartbeats is registered, then the manager ticks), recover (the silent stores
// heartbeat, then the manager ticks), tick, resign (the pd leader resigns).
type MStep struct {
	K string `json:"k"`
}

type MCase struct {
	Skip    bool    `json:"skip,omitempty"`
	Members int     `json:"members"`
	Steps   []MStep `json:"steps"`
}

func genMembers(t *rapid.T) MCase {
	shard := 0
	if v, err := strconv.Atoi(os.Getenv("VERIF_SHARD")); err == nil {
		shard = v
	}
	c := MCase{Members: 2}
	if !vkit.Thorough() && shard != 0 {
		c.Skip = true
		return c
	}
	kinds := []string{"label", "mode", "outage", "recover", "tick", "resign"}
	c.Steps = append(c.Steps, MStep{K: kinds[w(t, "first", 60, 0, 40)]})
	n := rapid.IntRange(3, 6).Draw(t, "nsteps")
	for i := 0; i < n; i++ {
		c.Steps = append(c.Steps, MStep{K: kinds[w(t, "kind", 28, 10, 20, 20, 8, 14)]})
	}
	// another member replicates: a leader change followed by a transition
	c.Steps = append(c.Steps, MStep{K: "resign"}, MStep{K: kinds[w(t, "afterResign", 60, 0, 40)]}, MStep{K: "recover"})
	// leadership round trip: the member that led before leads again after the other one made a transition;
	// it must serve what the other one persisted, not the state of its earlier term
	c.Steps = append(c.Steps, MStep{K: "resign"}, MStep{K: kinds[w(t, "afterReturn", 50, 0, 25, 0, 25)]})
	return c
}

var (
	mbMu   sync.Mutex
	mbDirs []string
)

func mbClose() {
	mbMu.Lock()
	defer mbMu.Unlock()
	for _, d := range mbDirs {
		os.RemoveAll(d)
	}
	mbDirs = nil
}

func mbWithin(d time.Duration, f func()) bool {
	done := make(chan struct{})
	go func() {
		defer func() { recover() }()
		f()
		close(done)
	}()
	select {
	case <-done:
		return true
	case <-time.After(d):
		return false
	}
}

type mbCluster struct {
	cancel context.CancelFunc
	tc     *tests.TestCluster
	cid    uint64
	conns  map[string]*grpc.ClientConn
	etcd   *clientv3.Client
}

func (x *mbCluster) destroy() {
	for _, c := range x.conns {
		c.Close()
	}
	var dirs []string
	for _, s := range x.tc.GetServers() {
		dirs = append(dirs, s.GetConfig().DataDir)
	}
	mbWithin(30*time.Second, func() { x.tc.Destroy() })
	x.cancel()
	for _, d := range dirs {
		os.RemoveAll(d)
	}
}

func mbStart(n int) (*mbCluster, string) {
	ctx, cancel := context.WithCancel(context.Background())
	var tc *tests.TestCluster
	var err error
	ok := mbWithin(90*time.Second, func() {
		tc, err = tests.NewTestCluster(ctx, n, func(conf *config.Config, name string) {
			conf.ReplicationMode.ReplicationMode = "dr-auto-sync"
			conf.ReplicationMode.DRAutoSync.LabelKey = "zone"
			conf.ReplicationMode.DRAutoSync.Primary = "zone1"
			conf.ReplicationMode.DRAutoSync.DR = "zone2"
			conf.ReplicationMode.DRAutoSync.PrimaryReplicas = 2
			conf.ReplicationMode.DRAutoSync.DRReplicas = 1
			conf.ReplicationMode.DRAutoSync.WaitAsyncTimeout.Duration = 0 // default 2 min: async would never be reached by a tick
			conf.Log.Level = "error"
		})
		if err == nil {
			err = tc.RunInitialServers()
		}
	})
	if !ok || err != nil || tc == nil {
		cancel()
		if tc != nil && ok {
			go tc.Destroy()
		}
		return nil, fmt.Sprintf("cluster of %d members did not start: ok=%v err=%v", n, ok, err)
	}
	mbMu.Lock()
	for _, s := range tc.GetServers() {
		mbDirs = append(mbDirs, s.GetConfig().DataDir)
	}
	mbMu.Unlock()
	x := &mbCluster{cancel: cancel, tc: tc, conns: map[string]*grpc.ClientConn{}}
	if tc.WaitLeader() == "" {
		x.destroy()
		return nil, "no pd leader elected"
	}
	x.cid = tc.GetServer(tc.GetLeader()).GetClusterID()
	x.etcd = tc.GetEtcdClient()
	return x, ""
}

// leader waits for a pd leader; with running=true also for its raft cluster (bootstrapped clusters only).
func (x *mbCluster) leader(running bool) *tests.TestServer {
	deadline := time.Now().Add(40 * time.Second)
	for time.Now().Before(deadline) {
		name := x.tc.WaitLeader()
		if name != "" {
			s := x.tc.GetServer(name)
			if !running {
				return s
			}
			if rc := s.GetRaftCluster(); rc != nil && rc.IsRunning() && rc.GetReplicationMode() != nil {
				return s
			}
		}
		time.Sleep(100 * time.Millisecond)
	}
	return nil
}

func (x *mbCluster) client(s *tests.TestServer) (pdpb.PDClient, error) {
	addr := strings.TrimPrefix(s.GetAddr(), "http://")
	if c, ok := x.conns[addr]; ok {
		return pdpb.NewPDClient(c), nil
	}
	ctx, cancel := context.WithTimeout(context.Background(), 10*time.Second)
	defer cancel()
	c, err := grpc.DialContext(ctx, addr, grpc.WithInsecure(), grpc.WithBlock())
	if err != nil {
		return nil, err
	}
	x.conns[addr] = c
	return pdpb.NewPDClient(c), nil
}

func (x *mbCluster) header() *pdpb.RequestHeader { return &pdpb.RequestHeader{ClusterId: x.cid} }

type mbRec struct {
	State   string `json:"state"`
	StateID uint64 `json:"state_id"`
}

func (r mbRec) String() string { return fmt.Sprintf("(%s, id %d)", r.State, r.StateID) }

func recOf(s *pb.ReplicationStatus) (mbRec, bool) {
	if s.GetMode() != pb.ReplicationMode_DR_AUTO_SYNC {
		return mbRec{}, false
	}
	return mbRec{State: strings.ToLower(s.GetDrAutoSync().GetState().String()), StateID: s.GetDrAutoSync().GetStateId()}, true
}

// observe reads what stores are served, what etcd holds and what every member holds on disk.
func (x *mbCluster) observe(ld *tests.TestServer, hbStore uint64) (served mbRec, dr bool, problems []string, err error) {
	cl, err := x.client(ld)
	if err != nil {
		return mbRec{}, false, nil, err
	}
	ctx, cancel := context.WithTimeout(context.Background(), 10*time.Second)
	defer cancel()
	hb, err := cl.StoreHeartbeat(ctx, &pdpb.StoreHeartbeatRequest{Header: x.header(), Stats: &pdpb.StoreStats{StoreId: hbStore}})
	if err != nil {
		return mbRec{}, false, nil, err
	}
	if hb.GetHeader().GetError() != nil {
		return mbRec{}, false, nil, fmt.Errorf("store heartbeat: %v", hb.GetHeader().GetError())
	}
	served, dr = recOf(hb.GetReplicationStatus())
	direct, ddr := recOf(ld.GetRaftCluster().GetReplicationMode().GetReplicationStatus())
	if dr != ddr || served != direct {
		problems = append(problems, fmt.Sprintf("the StoreHeartbeat response carries %v (dr=%v) but the manager serves %v (dr=%v)", served, dr, direct, ddr))
	}
	if !dr {
		return served, dr, problems, nil
	}
	key := path.Join("/pd", strconv.FormatUint(x.cid, 10), "replication_mode", "dr-auto-sync")
	resp, err := x.etcd.Get(ctx, key)
	if err != nil {
		return served, dr, nil, err
	}
	if len(resp.Kvs) == 0 {
		problems = append(problems, fmt.Sprintf("stores are served %v but etcd holds no record %s", served, key))
	} else {
		var e mbRec
		if json.Unmarshal(resp.Kvs[0].Value, &e) != nil || e != served {
			problems = append(problems, fmt.Sprintf("stores are served %v but etcd holds %q", served, resp.Kvs[0].Value))
		}
	}
	var names []string
	for name := range x.tc.GetServers() {
		names = append(names, name)
	}
	sort.Strings(names)
	for _, name := range names {
		file := filepath.Join(x.tc.GetServer(name).GetConfig().DataDir, "DR_STATE")
		data, rerr := os.ReadFile(file)
		var f mbRec
		switch {
		case rerr != nil:
			problems = append(problems, fmt.Sprintf("stores are served %v but member %s has no DR_STATE file (%v)", served, name, rerr))
		case json.Unmarshal(data, &f) != nil:
			problems = append(problems, fmt.Sprintf("stores are served %v but member %s holds an unreadable DR_STATE %q", served, name, data))
		case f != served:
			problems = append(problems, fmt.Sprintf("stores are served %v but member %s holds DR_STATE %q", served, name, data))
		}
	}
	return served, dr, problems, nil
}

func runMembers(c MCase) (vkit.Info, error) {
	var info vkit.Info
	if c.Skip {
		return info, nil
	}
	inconclusive := func(why string) (vkit.Info, error) {
		fmt.Printf("C19 members: inconclusive: %s\n", why)
		info.Inconclusive = true
		return info, nil
	}
	n := c.Members
	if n < 2 || n > 3 {
		n = 2
	}
	x, why := mbStart(n)
	if x == nil {
		return inconclusive(why)
	}
	defer x.destroy()

	ld := x.leader(false)
	if ld == nil {
		return inconclusive("no leader")
	}
	cl, err := x.client(ld)
	if err != nil {
		return inconclusive(err.Error())
	}
	ctx := context.Background()
	// transition 0: the cluster is bootstrapped, the manager initialises 'sync'
	if _, err := cl.Bootstrap(ctx, &pdpb.BootstrapRequest{Header: x.header(),
		Store:  &metapb.Store{Id: 1, Address: "127.0.0.1:1"},
		Region: &metapb.Region{Id: 2, Peers: []*metapb.Peer{{Id: 3, StoreId: 1, Role: metapb.PeerRole_Voter}}}}); err != nil {
		return inconclusive("bootstrap: " + err.Error())
	}
	labels := func(z string) []*metapb.StoreLabel {
		return []*metapb.StoreLabel{{Key: "zone", Value: z}, {Key: "dc", Value: z}}
	}
	put := func(cl pdpb.PDClient, id uint64, z string, beat bool) error {
		r, err := cl.PutStore(ctx, &pdpb.PutStoreRequest{Header: x.header(),
			Store: &metapb.Store{Id: id, Address: fmt.Sprintf("127.0.0.1:%d", 1000+id), Version: "v4.1.0", Labels: labels(z)}})
		if err != nil {
			return err
		}
		if r.GetHeader().GetError() != nil {
			return fmt.Errorf("%v", r.GetHeader().GetError())
		}
		if beat {
			_, err = cl.StoreHeartbeat(ctx, &pdpb.StoreHeartbeatRequest{Header: x.header(), Stats: &pdpb.StoreStats{StoreId: id}})
		}
		return err
	}
	for _, s := range []struct {
		id uint64
		z  string
	}{{11, "zone1"}, {12, "zone1"}, {21, "zone2"}} {
		if err := put(cl, s.id, s.z, true); err != nil {
			return inconclusive("put store: " + err.Error())
		}
	}

	var history []string
	var last mbRec
	lastDR := false
	transitions, afterMove, moved := 0, 0, false
	ledBefore := map[string]int{} // member -> number of transitions installed when its last term ended
	leaderName := x.tc.GetLeader()
	classes := map[string]bool{}
	silent := []uint64{}
	nextStore := uint64(31)
	check := func(step string) error {
		ld := x.leader(true)
		if ld == nil {
			info.Inconclusive = true
			return nil
		}
		var served mbRec
		var dr bool
		var problems []string
		for attempt := 0; ; attempt++ {
			var err error
			served, dr, problems, err = x.observe(ld, 11)
			if err != nil {
				fmt.Printf("C19 members: inconclusive: observe after %s: %v\n", step, err)
				info.Inconclusive = true
				return nil
			}
			if len(problems) == 0 || attempt == 2 {
				break
			}
			time.Sleep(300 * time.Millisecond) // a background tick may be in the middle of a transition
		}
		history = append(history, fmt.Sprintf("%s -> leader %s dr=%v served %v", step, ld.GetConfig().Name, dr, served))
		if len(problems) > 0 {
			return fmt.Errorf("after %s (leader %s): %s; history: %s", step, ld.GetConfig().Name, strings.Join(problems, "; "), strings.Join(history, " | "))
		}
		if dr && (served != last || !lastDR) {
			transitions++
			classes["installed-"+served.State] = true
			if moved {
				afterMove++
			}
		}
		last, lastDR = served, dr
		return nil
	}
	if err := check("bootstrap"); err != nil || info.Inconclusive {
		return info, err
	}

	for i, st := range c.Steps {
		desc := fmt.Sprintf("step %d %s", i, st.K)
		ld := x.leader(true)
		if ld == nil {
			return inconclusive("no running leader before " + desc)
		}
		cl, err := x.client(ld)
		if err != nil {
			return inconclusive(err.Error())
		}
		mgr := ld.GetRaftCluster().GetReplicationMode()
		switch st.K {
		case "label":
			cfg := ld.GetServer().GetReplicationModeConfig().Clone()
			if cfg.DRAutoSync.LabelKey == "zone" {
				cfg.DRAutoSync.LabelKey = "dc"
			} else {
				cfg.DRAutoSync.LabelKey = "zone"
			}
			if err := ld.GetServer().SetReplicationModeConfig(*cfg); err != nil {
				history = append(history, desc+" rejected: "+err.Error())
			}
		case "mode":
			cfg := ld.GetServer().GetReplicationModeConfig().Clone()
			if cfg.ReplicationMode == "majority" {
				cfg.ReplicationMode = "dr-auto-sync"
			} else {
				cfg.ReplicationMode = "majority"
			}
			if err := ld.GetServer().SetReplicationModeConfig(*cfg); err != nil {
				history = append(history, desc+" rejected: "+err.Error())
			}
		case "outage":
			if err := put(cl, nextStore, "zone2", false); err != nil {
				return inconclusive("put store: " + err.Error())
			}
			silent = append(silent, nextStore)
			nextStore++
			mgr.VerifTickDR()
		case "recover":
			for _, id := range silent {
				if _, err := cl.StoreHeartbeat(ctx, &pdpb.StoreHeartbeatRequest{Header: x.header(), Stats: &pdpb.StoreStats{StoreId: id}}); err != nil {
					return inconclusive("heartbeat: " + err.Error())
				}
			}
			silent = nil
			mgr.VerifTickDR()
		case "tick":
			mgr.VerifTickDR()
		case "resign":
			if err := ld.ResignLeader(); err != nil {
				return inconclusive("resign: " + err.Error())
			}
			time.Sleep(200 * time.Millisecond)
			nl := x.leader(true)
			if nl == nil {
				return inconclusive("no running leader after " + desc)
			}
			if nl.GetConfig().Name != leaderName {
				ledBefore[leaderName] = transitions
				if at, ok := ledBefore[nl.GetConfig().Name]; ok && transitions > at {
					classes["member-leads-again-after-a-transition-by-another-leader"] = true
				}
				moved = true
				leaderName = nl.GetConfig().Name
				classes["leader-moved"] = true
			}
		default:
			return info, fmt.Errorf("malformed case: step %q", st.K)
		}
		if err := check(desc); err != nil || info.Inconclusive {
			return info, err
		}
	}
	var cls []string
	for k := range classes {
		cls = append(cls, k)
	}
	sort.Strings(cls)
	for _, k := range cls {
		info.Class(k)
	}
	info.ClassIf(afterMove > 0, "transition-replicated-by-another-member")
	info.NonTrivial = transitions >= 2
	info.Sample = history
	return info, nil
}
