package c10

// Probe of C10/store-counters-lag-after-leadership-change through the real
// path: a RaftCluster (the opt.Cluster the checkers get in production) on real
// storage, RaftCluster.LoadClusterInfo as RaftCluster.Start calls it, store and
// region heartbeats through the real handlers, then ReplicaChecker.Check.

import (
	"context"
	"fmt"
	"testing"

	"github.com/pingcap/kvproto/pkg/metapb"
	"github.com/pingcap/kvproto/pkg/pdpb"
	"github.com/tikv/pd/pkg/cache"
	"github.com/tikv/pd/pkg/mock/mockid"
	"github.com/tikv/pd/server/cluster"
	"github.com/tikv/pd/server/config"
	"github.com/tikv/pd/server/core"
	"github.com/tikv/pd/server/kv"
	"github.com/tikv/pd/server/schedule/checker"
	"github.com/tikv/pd/server/versioninfo"
	"pdverif/vkit"
)

const keyCounterLag = "C10/store-counters-lag-after-leadership-change"

const (
	lagGiB      = uint64(1) << 30
	lagCapacity = 4096 * lagGiB // 4 TiB
	lagFullFree = 100 * lagGiB  // 2.4 % available: far below 1 - low-space-ratio, far above the 8 GiB of the small-store exception
	lagRegions  = 40            // regions on the nearly full store (>= 30: the small-store exception does not apply)
)

func lagPeers(regionID uint64, stores ...uint64) []*metapb.Peer {
	var ps []*metapb.Peer
	for _, s := range stores {
		ps = append(ps, &metapb.Peer{Id: regionID*10 + s, StoreId: s})
	}
	return ps
}

func lagRegion(i int, stores ...uint64) *core.RegionInfo {
	id := uint64(100 + i)
	m := &metapb.Region{Id: id, StartKey: []byte(fmt.Sprintf("k%03d", i)), EndKey: []byte(fmt.Sprintf("k%03d", i+1)),
		RegionEpoch: &metapb.RegionEpoch{Version: 1, ConfVer: 1}, Peers: lagPeers(id, stores...)}
	if i == 0 {
		m.StartKey = nil
	}
	return core.NewRegionInfo(m, m.Peers[0], core.SetApproximateSize(10), core.SetApproximateKeys(1000))
}

func lagStats(store uint64, available uint64) *pdpb.StoreStats {
	return &pdpb.StoreStats{StoreId: store, Capacity: lagCapacity, Available: available, UsedSize: lagCapacity - available}
}

// lagTerm starts one leadership term of a member: RaftCluster.InitCluster +
// LoadClusterInfo on the given storage and (surviving) basic cluster, as Start does.
func lagTerm(ctx context.Context, opt *config.PersistOptions, st *core.Storage, bc *core.BasicCluster) (*cluster.RaftCluster, error) {
	rc := cluster.NewRaftCluster(ctx, "", 1, nil, nil, nil)
	rc.InitCluster(mockid.NewIDAllocator(), opt, st, bc)
	if c, err := rc.LoadClusterInfo(); err != nil || c == nil {
		return nil, fmt.Errorf("LoadClusterInfo: cluster=%v err=%v", c != nil, err)
	}
	return rc, nil
}

// lagHeartbeats: every store reports (store 3 nearly full), every region reports.
func lagHeartbeats(rc *cluster.RaftCluster, regions []*core.RegionInfo) error {
	for s := uint64(1); s <= 3; s++ {
		free := lagCapacity / 2
		if s == 3 {
			free = lagFullFree
		}
		if err := rc.HandleStoreHeartbeat(lagStats(s, free)); err != nil {
			return err
		}
	}
	for _, r := range regions {
		if err := rc.VerifProcessRegionHeartbeat(r.Clone()); err != nil {
			return err
		}
	}
	return nil
}

// TestFinding_store_counters_lag_after_leadership_change
//
// Stores 1,2,3; 40 regions on {1,2,3}; region 140 on {1,2} only (one replica
// short, max-replicas 3). Store 3 is nearly full (2.4 % available, 40 regions):
// the only candidate is low on space, the replica checker must stay silent.
//
//	term 1: load from storage, all stores and regions heartbeat -> store 3 counts 40 regions, no operator.
//	term 2: the same member starts a new leadership term on the surviving basic cluster
//	        (LoadClusterInfo puts fresh store objects), all stores heartbeat, all regions
//	        heartbeat exactly as before (nothing changed, so the cache is not touched).
//	        Store 3 now counts 0 regions and passes as "small store".
func TestFinding_store_counters_lag_after_leadership_change(t *testing.T) {
	reproduced, detail := lagProbe(t.TempDir())
	vkit.Finding(t, keyCounterLag, reproduced, detail)
}

func lagProbe(dir string) (bool, string) {
	cfg := config.NewConfig()
	if err := cfg.Adjust(nil, false); err != nil {
		return false, "harness: " + err.Error()
	}
	opt := config.NewPersistOptions(cfg)
	opt.SetClusterVersion(versioninfo.MinSupportedVersion(versioninfo.Version4_0))
	rcfg := opt.GetReplicationConfig().Clone()
	rcfg.EnablePlacementRules = false // the replica checker is in charge (the rule checker selects targets through the same strategy)
	opt.SetReplicationConfig(rcfg)
	ctx, cancel := context.WithCancel(context.Background())
	defer cancel()
	// use-region-storage is pd's default: regions live in a local store and are
	// loaded into the region cache once per process (LoadRegionsOnce)
	rs, err := core.NewRegionStorage(ctx, dir, nil)
	if err != nil {
		return false, "harness: " + err.Error()
	}
	st := core.NewStorage(kv.NewMemoryKV(), core.WithRegionStorage(rs))
	st.SwitchToRegionStorage()
	defer st.Close()
	if err := st.SaveMeta(&metapb.Cluster{Id: 1, MaxPeerCount: 3}); err != nil {
		return false, "harness: " + err.Error()
	}
	for s := uint64(1); s <= 3; s++ {
		if err := st.SaveStore(&metapb.Store{Id: s, Address: fmt.Sprintf("127.0.0.1:%d", s), State: metapb.StoreState_Up, Version: "4.0.0"}); err != nil {
			return false, "harness: " + err.Error()
		}
	}
	var regions []*core.RegionInfo
	for i := 0; i < lagRegions; i++ {
		regions = append(regions, lagRegion(i, 1, 2, 3))
	}
	short := lagRegion(lagRegions, 1, 2)
	regions = append(regions, short)
	for _, r := range regions {
		if err := st.SaveRegion(r.GetMeta()); err != nil {
			return false, "harness: " + err.Error()
		}
	}
	if err := st.Flush(); err != nil {
		return false, "harness: " + err.Error()
	}
	bc := core.NewBasicCluster()

	ask := func(rc *cluster.RaftCluster) (string, int) {
		region := rc.GetRegion(short.GetID())
		n := rc.GetStore(3).GetRegionCount()
		if op := checker.NewReplicaChecker(rc, cache.NewDefaultCache(16)).Check(region); op != nil {
			return op.String(), n
		}
		return "", n
	}

	rc1, err := lagTerm(ctx, opt, st, bc)
	if err != nil {
		return false, "harness: " + err.Error()
	}
	if err := lagHeartbeats(rc1, regions); err != nil {
		return false, "harness: term 1 heartbeats: " + err.Error()
	}
	op1, n1 := ask(rc1)
	if op1 != "" || n1 != lagRegions {
		return false, fmt.Sprintf("term 1 is not the expected baseline: store 3 counts %d regions, operator %q", n1, op1)
	}

	rc2, err := lagTerm(ctx, opt, st, bc)
	if err != nil {
		return false, "harness: " + err.Error()
	}
	if err := lagHeartbeats(rc2, regions); err != nil {
		return false, "harness: term 2 heartbeats: " + err.Error()
	}
	op2, n2 := ask(rc2)
	if op2 == "" {
		return false, fmt.Sprintf("second term: store 3 counts %d regions, no operator", n2)
	}
	return true, fmt.Sprintf("second leadership term on the same member, every store and every region has reported again: store 3 (4 TiB, 2.4%% available, %d regions in the region cache) counts %d regions, IsLowSpace=%v, and the replica checker proposes %s",
		rc2.GetStoreRegionCount(3), n2, rc2.GetStore(3).IsLowSpace(opt.GetLowSpaceRatio()), op2)
}
