// C10 — replica repair never targets bad stores nor shrinks healthy replication.
//
// A case is a generated cluster (simkit), one region, the replica-checker
// options (or 1-3 placement rules) and the way the checker is called
// (ReplicaChecker.Check / RuleChecker.Check directly, or through
// CheckerController.CheckRegion). When an operator is returned its steps are
// executed on simkit's region simulator and these predicates are evaluated on
// the case data (specs), never on pd's filters:
//
//	target   every add step names a store that exists, is Up, connected (last
//	         heartbeat at most 20 s ago), not low on space (documented
//	         small-store exception included), holds no peer of the region and
//	         - replica checker: when location labels + isolation level are set,
//	           is at another location (label values up to the isolation level)
//	           than every other peer of the region (the peer being replaced
//	           does not count);
//	         - rule checker: there is a rule that is being repaired (it has
//	           fewer peers than its count, or the replaced peer belongs to it)
//	           whose label constraints the store matches (exclusive labels
//	           included), whose role the new peer gets, and at whose isolation
//	           level the store differs from the rule's other peers;
//	healthy  the number of healthy peers (store Up, peer neither down nor
//	         pending) never falls below the initial number, and the region does
//	         not end with fewer peers than it had - except: replica checker and
//	         the region has more voters than max-replicas; rule checker, every
//	         rule satisfied and every removed peer an orphan;
//	order    an operator that adds and removes (a replacement) never has fewer
//	         peers than at the start: the replacement is added first;
//	safe     the simulated store refuses no step (no add on an occupied store,
//	         leader never removed, ...);
//	liveness (only clause that demands an operator) if the region has fewer peers
//	         than required, repair is enabled, the region has a leader, and a
//	         fresh, empty, unconstrained Up store exists, an operator is returned.
//
// pd picks among equally good stores in Go-map order, so a case that yields an
// operator is executed three times and only order-independent facts are stated.
package c10

import (
	"context"
	"fmt"
	"runtime/debug"
	"sort"
	"strings"
	"testing"

	"github.com/tikv/pd/pkg/cache"
	"github.com/tikv/pd/pkg/mock/mockcluster"
	"github.com/tikv/pd/server/core"
	"github.com/tikv/pd/server/kv"
	"github.com/tikv/pd/server/schedule"
	"github.com/tikv/pd/server/schedule/checker"
	"github.com/tikv/pd/server/schedule/operator"
	"github.com/tikv/pd/server/schedule/placement"
	"pdverif/simkit"
	"pdverif/vkit"
	"pdverif/vkit/faultkv"
	"pgregory.net/rapid"
)

func TestMain(m *testing.M)   { vkit.Quiet(); vkit.Main(m, "C10") }
func TestProp(t *testing.T)   { vkit.RunAll(t) }
func TestReplay(t *testing.T) { vkit.RunReplay(t) }

const (
	keyRoleChange = "C10/nojoint-replace-role-change-removes-first"
	keyLeaderless = "C10/rule-checker-leaderless-region-panics"
)

func init() {
	vkit.Register("replica", vkit.N{Quick: 13000, Thorough: 270000}, genReplica, runCase)
	vkit.Register("rule", vkit.N{Quick: 13000, Thorough: 270000}, genRule, runCase)
	vkit.Register("controller", vkit.N{Quick: 4000, Thorough: 60000}, genController, runCase)
}

// ---------------------------------------------------------------- case data

// Flags are the replica-checker switches of the schedule config.
type Flags struct {
	ReplaceOffline      bool `json:"replace_offline"`
	RemoveDown          bool `json:"remove_down"`
	MakeUp              bool `json:"make_up"`
	RemoveExtra         bool `json:"remove_extra"`
	LocationReplacement bool `json:"location_replacement"`
}

// ConstraintSpec is one label constraint of a rule.
type ConstraintSpec struct {
	Key    string   `json:"key"`
	Op     string   `json:"op"` // in notIn exists notExists
	Values []string `json:"values,omitempty"`
}

// RuleSpec is one placement rule of group "pd" covering the whole key space.
type RuleSpec struct {
	ID             string           `json:"id"`
	Index          int              `json:"index,omitempty"`
	Override       bool             `json:"override,omitempty"`
	Role           string           `json:"role"` // voter leader follower learner
	Count          int              `json:"count"`
	Constraints    []ConstraintSpec `json:"constraints,omitempty"`
	LocationLabels []string         `json:"location_labels,omitempty"`
	IsolationLevel string           `json:"isolation_level,omitempty"`
}

// RuleUpdate is one call on the rule manager made after the rules of the case
// were installed.
type RuleUpdate struct {
	Kind          string     `json:"kind"`            // set (SetRule) | setrules (SetRules) | delete (DeleteRule) | group (SetRuleGroup)
	Rules         []RuleSpec `json:"rules,omitempty"` // set: 1 rule, setrules: 2
	ID            string     `json:"id,omitempty"`    // delete
	GroupIndex    int        `json:"group_index,omitempty"`
	GroupOverride bool       `json:"group_override,omitempty"`
	// FailWrite: the n-th storage write of the call fails (clean failure, not
	// applied). 0 = no fault armed: the update itself is invalid.
	FailWrite int `json:"fail_write"`
}

// Case is one generated input.
type Case struct {
	Mode    string             `json:"mode"` // replica | rule
	Via     string             `json:"via"`  // direct | controller
	Cluster simkit.ClusterSpec `json:"cluster"`
	Region  simkit.RegionSpec  `json:"region"`
	Flags   Flags              `json:"flags"`
	Rules   []RuleSpec         `json:"rules,omitempty"`
	// Updates are further rule updates attempted after Rules were installed;
	// each is made to fail at a storage write or is invalid, so it is refused
	// and the served rules stay what they were (unless the update turns out to
	// be a no-op that writes nothing: then it is accepted and changes nothing).
	Updates []RuleUpdate `json:"updates,omitempty"`
	// CounterLag: stores whose status counters (region/leader count and size)
	// were reset by a leadership change of pd and not refreshed yet: pd sees 0
	// regions while the store holds the spec's RegionCount regions. Only applied
	// while the finding C10/store-counters-lag-after-leadership-change is known
	// (real pd can produce that state); the oracle always judges by the spec.
	CounterLag []uint64 `json:"counter_lag,omitempty"`
	// Constructive: the generator shaped the case towards the liveness clause
	// (informational; the runner re-derives the obligation from the data).
	Constructive bool `json:"constructive,omitempty"`
}

// ---------------------------------------------------------------- generators

func pct(t *rapid.T, p int, label string) bool { return simkit.Pct(t, p, label) }

func genFlags(t *rapid.T) Flags {
	return Flags{
		ReplaceOffline:      pct(t, 88, "replaceOffline"),
		RemoveDown:          pct(t, 88, "removeDown"),
		MakeUp:              pct(t, 88, "makeUp"),
		RemoveExtra:         pct(t, 88, "removeExtra"),
		LocationReplacement: pct(t, 88, "locationReplacement"),
	}
}

// genRegion draws the region. A peer whose store stopped sending heartbeats
// long ago is, as a rule, reported down by the leader.
func genRegion(t *rapid.T, c *simkit.ClusterSpec, jointPct, required int) simkit.RegionSpec {
	g := simkit.RegionGen{MaxPeers: 6, Joint: jointPct, LearnerPct: 15, Unhealthy: 10}
	if required >= 1 && required <= 6 && pct(t, 45, "exactCount") {
		// as many peers as required: repairs are then replacements, role fixes and moves
		g.MinPeers, g.MaxPeers = required, required
	}
	r := simkit.GenRegion(t, c.StoreIDs(), g)
	for i := range r.Peers {
		if i == r.Leader {
			continue
		}
		if s := c.Store(r.Peers[i].Store); s != nil && s.HeartbeatAgeSec >= simkit.AgeDown && pct(t, 80, "downOnDeadStore") {
			r.Peers[i].Down = true
		}
	}
	return r
}

// collidingFamilies: label values of unequal width. Different label paths can
// then read the same when their values are written one after the other
// (a/bc and ab/c, 1/12 and 11/2), unlike the fixed-width names z1/r1/h1.
var collidingFamilies = [][2][]string{
	{{"a", "ab"}, {"bc", "c", "b"}},
	{{"1", "11"}, {"12", "2", "1"}},
	{{"dc1", "dc11"}, {"12", "2"}},
}

// genClusterOptions draws the remaining options and reshapes the topology. It
// reports whether the cluster got labels of unequal width (the rule generator
// then prefers isolation levels below the first location label).
func genClusterOptions(t *rapid.T, c *simkit.ClusterSpec) (colliding bool, lagStores []uint64) {
	c.MaxStoreDownTimeSec = simkit.Pick(t, []int{0, 0, 0, 600, 3600, 3 * 3600}, "maxStoreDownTime")
	if pct(t, 15, "lowSpaceRatio") {
		c.LowSpaceRatio = simkit.Pick(t, []float64{0.7, 0.9}, "lowSpaceRatioValue")
	}
	if pct(t, 15, "unequalWidthValues") {
		// every store fully labelled, few locations, values of unequal width;
		// usually an isolation level below the first location label
		colliding = true
		fam := simkit.Pick(t, collidingFamilies, "valueFamily")
		for i := range c.Stores {
			var keep []simkit.Label
			for _, l := range c.Stores[i].Labels {
				if l.Key != "zone" && l.Key != "rack" && l.Key != "host" {
					keep = append(keep, l)
				}
			}
			c.Stores[i].Labels = append([]simkit.Label{
				{Key: "zone", Value: simkit.Pick(t, fam[0], "zoneValue")},
				{Key: "rack", Value: simkit.Pick(t, fam[1], "rackValue")},
				{Key: "host", Value: simkit.Pick(t, fam[1], "hostValue")},
			}, keep...)
		}
		c.LocationLabels = simkit.Pick(t, [][]string{{"zone", "rack"}, {"zone", "rack", "host"}, {"zone", "host"}}, "locLabelsUnequal")
		// the level drawn by simkit.GenCluster belongs to the location labels that were just
		// replaced: ReplicationConfig.Validate refuses a level that is not one of the location labels
		c.IsolationLevel = ""
		if pct(t, 80, "isolationBelowFirst") {
			c.IsolationLevel = simkit.Pick(t, c.LocationLabels[1:], "isolationLevelUnequal")
		}
	}
	if pct(t, 25, "mixedCaseKeys") {
		// pd treats store label KEYS case-insensitively (StoreInfo.GetLabelValue,
		// MergeLabels): some stores spell zone/rack/host as Zone / ZONE / Host.
		// A store never carries two keys that are equal ignoring case; keys of
		// exclusive labels ('$..', engine, exclusive) stay as they are.
		for i := range c.Stores {
			if !pct(t, 50, "mixedCaseStore") {
				continue
			}
			style := simkit.IntU(t, 0, 2, "keyStyle")
			for j := range c.Stores[i].Labels {
				k := c.Stores[i].Labels[j].Key
				if k != "zone" && k != "rack" && k != "host" {
					continue
				}
				switch style {
				case 0:
					k = strings.ToUpper(k[:1]) + k[1:]
				case 1:
					k = strings.ToUpper(k)
				default: // only the first location label of the store
					if j == 0 {
						k = strings.ToUpper(k[:1]) + k[1:]
					}
				}
				c.Stores[i].Labels[j].Key = k
			}
		}
	}
	if pct(t, 10, "tightSpace") {
		// a cluster that is running full: most stores sit around the low-space
		// threshold and around the documented small-store exception (< 30 regions
		// and more than 8 GiB of the 100 GiB still available)
		for i := range c.Stores {
			if s := &c.Stores[i]; pct(t, 75, "tightStore") {
				s.AvailableRatio = simkit.Pick(t, []float64{0.31, 0.21, 0.19, 0.09, 0.07, 0.05, 0}, "tightAvail")
				s.UsedRatio = 1 - s.AvailableRatio
				s.RegionCount = simkit.Pick(t, []int{0, 29, 30, 100}, "tightRegions")
				s.LeaderCount = 0
				s.RegionSize, s.LeaderSize = int64(s.RegionCount)*10, 0
			}
		}
	}
	if pct(t, 8, "counterLag") {
		for _, s := range c.Stores {
			if s.RegionCount > 0 && pct(t, 60, "laggingStore") {
				lagStores = append(lagStores, s.ID)
			}
		}
	}
	return colliding, lagStores
}

// freshStore is a store nothing can be said against: Up, heartbeat now, empty,
// no flags, no special labels; its location differs from every generated one.
func freshStore(id uint64, labelled bool) simkit.StoreSpec {
	s := simkit.StoreSpec{ID: id, State: simkit.StateUp, UsedRatio: 0.05, AvailableRatio: 0.95}
	if labelled {
		s.Labels = []simkit.Label{{Key: "zone", Value: "zF"}, {Key: "rack", Value: "rF"}, {Key: "host", Value: "hF"}}
	}
	return s
}

// calm removes the temporary conditions (disconnected, busy, snapshots,
// pending peers) from a store: it is then either long-term bad or plain good.
func calm(s *simkit.StoreSpec) {
	if s.HeartbeatAgeSec == simkit.AgeDisconnected {
		s.HeartbeatAgeSec = simkit.AgeFresh
	}
	s.Busy = false
	s.SendingSnap, s.ReceivingSnap, s.ApplyingSnap, s.PendingPeers = 0, 0, 0, 0
}

// makeConstructive shapes a case towards "fewer peers than required and a
// fresh empty unconstrained up store exists": one more store that is fresh,
// a region with a leader and no joint roles, short of peers, and no temporary
// store condition that could make pd wait for a better-placed store.
func makeConstructive(t *rapid.T, c *Case, required int) {
	c.Constructive = true
	cl := &c.Cluster
	cl.Stores = append(cl.Stores, freshStore(uint64(len(cl.Stores)+1), pct(t, 70, "freshLabelled")))
	for i := range cl.Stores {
		calm(&cl.Stores[i])
	}
	r := &c.Region
	for i := range r.Peers {
		if r.Peers[i].Role.Joint() {
			r.Peers[i].Role = simkit.Voter
		}
	}
	if r.Leader < 0 {
		r.Leader = 0
		r.Peers[0].Pending, r.Peers[0].Down = false, false
	}
	// keep the leader, trim to fewer peers than required
	if required < 2 {
		required = 2
	}
	if keep := simkit.IntU(t, 1, required-1, "keepPeers"); len(r.Peers) > keep {
		lead := r.Peers[r.Leader]
		var out []simkit.PeerSpec
		out = append(out, lead)
		for i, p := range r.Peers {
			if i != r.Leader && len(out) < keep {
				out = append(out, p)
			}
		}
		r.Peers, r.Leader = out, 0
	}
	c.Flags.MakeUp = true
}

func genReplicaCase(t *rapid.T) Case {
	c := Case{Mode: "replica", Via: "direct"}
	c.Cluster = simkit.GenCluster(t, simkit.ClusterGen{MinStores: 3, MaxStores: 8, HealthyBias: 60, Rules: "off"})
	_, c.CounterLag = genClusterOptions(t, &c.Cluster)
	c.Region = genRegion(t, &c.Cluster, 2, c.Cluster.MaxReplicas)
	c.Flags = genFlags(t)
	if pct(t, 12, "constructive") {
		if c.Cluster.MaxReplicas < 2 {
			c.Cluster.MaxReplicas = 3
		}
		makeConstructive(t, &c, c.Cluster.MaxReplicas)
	}
	c.Cluster.ReserveIDs(c.Region)
	return c
}

var (
	labelKeys   = []string{"zone", "rack", "host", "engine", "$dedicated", "noleader", "specialUse"}
	labelValues = map[string][]string{
		"zone": {"z1", "z2", "z3"}, "rack": {"r1", "r2"}, "host": {"h1", "h2", "h3", "h4"},
		"engine": {"tiflash"}, "$dedicated": {"a", "b"}, "noleader": {"true"}, "specialUse": {"hotRegion", "reserved"},
	}
	ruleRoles = []string{"voter", "voter", "voter", "voter", "leader", "follower", "learner", "learner"}
)

// genConstraint draws one label constraint; most are written from the labels
// of an existing store so that rules usually match some store.
func genConstraint(t *rapid.T, cl *simkit.ClusterSpec) ConstraintSpec {
	if pct(t, 70, "fromStore") {
		s := simkit.Pick(t, cl.Stores, "constraintStore")
		if len(s.Labels) > 0 {
			l := simkit.Pick(t, s.Labels, "constraintLabel")
			lk := strings.ToLower(l.Key)
			if lk == "zone" || lk == "rack" || lk == "host" {
				// the rule may spell the key as this store does or in lower case
				if !pct(t, 20, "constraintKeyAsStore") {
					l.Key = lk
				}
			} else {
				lk = l.Key
			}
			switch simkit.IntU(t, 0, 3, "constraintKind") {
			case 0, 1:
				vs := []string{l.Value}
				if pct(t, 40, "secondValue") {
					vs = append(vs, simkit.Pick(t, labelValues[lk], "otherValue"))
				}
				return ConstraintSpec{Key: l.Key, Op: "in", Values: vs}
			case 2:
				return ConstraintSpec{Key: l.Key, Op: "exists"}
			default:
				var vs []string
				for _, v := range labelValues[lk] {
					if v != l.Value {
						vs = append(vs, v)
					}
				}
				if len(vs) > 0 {
					return ConstraintSpec{Key: l.Key, Op: "notIn", Values: vs[:simkit.IntU(t, 1, len(vs), "nNotIn")]}
				}
			}
		}
	}
	k := simkit.Pick(t, labelKeys, "constraintKey")
	op := simkit.Pick(t, []string{"in", "notIn", "exists", "notExists"}, "constraintOp")
	c := ConstraintSpec{Key: k, Op: op}
	if op == "in" || op == "notIn" {
		vs := labelValues[k]
		c.Values = append(c.Values, simkit.Pick(t, vs, "constraintValue"))
		if pct(t, 30, "secondValue") {
			c.Values = append(c.Values, simkit.Pick(t, vs, "constraintValue2"))
		}
	}
	return c
}

func anyStoreMatches(cl *simkit.ClusterSpec, cs []ConstraintSpec) bool {
	for i := range cl.Stores {
		if matchConstraints(&cl.Stores[i], cs) {
			return true
		}
	}
	return false
}

func genRules(t *rapid.T, cl *simkit.ClusterSpec, unequalWidth bool) []RuleSpec {
	n := simkit.IntU(t, 1, 3, "nRules")
	var out []RuleSpec
	for i := 0; i < n; i++ {
		r := RuleSpec{ID: []string{"default", "r1", "r2"}[i], Index: simkit.IntU(t, 0, 2, "ruleIndex")}
		r.Role = simkit.Pick(t, ruleRoles, "ruleRole")
		if i == 0 && pct(t, 85, "firstVoter") {
			r.Role = "voter"
		}
		r.Count = simkit.Pick(t, []int{1, 1, 2, 3, 3, 4}, "ruleCount")
		if r.Role == "leader" {
			r.Count = 1 // adjustRule refuses "multiple leaders"
		}
		r.Override = pct(t, 4, "ruleOverride")
		for k := simkit.Pick(t, []int{0, 0, 0, 1, 1, 2}, "nConstraints"); k > 0; k-- {
			r.Constraints = append(r.Constraints, genConstraint(t, cl))
		}
		if r.Role == "learner" && pct(t, 30, "tiflashRule") {
			r.Constraints = []ConstraintSpec{{Key: "engine", Op: "in", Values: []string{"tiflash"}}}
		}
		// the rule manager refuses a rule that matches no store: drop constraints until one does
		for len(r.Constraints) > 0 && !anyStoreMatches(cl, r.Constraints) {
			r.Constraints = r.Constraints[:len(r.Constraints)-1]
		}
		switch simkit.IntU(t, 0, 4, "ruleLocLabels") {
		case 0:
		case 1:
			r.LocationLabels = []string{"zone"}
		case 2:
			r.LocationLabels = []string{"zone", "host"}
		default:
			r.LocationLabels = []string{"zone", "rack", "host"}
		}
		if len(r.LocationLabels) > 0 && pct(t, 30, "ruleIsolation") {
			r.IsolationLevel = simkit.Pick(t, r.LocationLabels, "ruleIsolationLevel")
		}
		if unequalWidth && pct(t, 75, "ruleIsolationBelowFirst") {
			r.LocationLabels = simkit.Pick(t, [][]string{{"zone", "rack"}, {"zone", "rack", "host"}, {"zone", "host"}}, "ruleLocLabelsUnequal")
			r.IsolationLevel = simkit.Pick(t, r.LocationLabels[1:], "ruleIsolationLevelUnequal")
		}
		out = append(out, r)
	}
	return out
}

func genRuleCase(t *rapid.T) Case {
	c := Case{Mode: "rule", Via: "direct"}
	c.Cluster = simkit.GenCluster(t, simkit.ClusterGen{MinStores: 3, MaxStores: 8, HealthyBias: 60, Rules: "on"})
	unequalWidth, lag := genClusterOptions(t, &c.Cluster)
	c.CounterLag = lag
	c.Rules = genRules(t, &c.Cluster, unequalWidth)
	total := 0
	for i := range c.Rules {
		total += c.Rules[i].Count
	}
	c.Region = genRegion(t, &c.Cluster, 2, total)
	c.Flags = genFlags(t) // not read by the rule checker; drawn so that it shows
	if pct(t, 12, "constructive") {
		// unconstrained rules: the fresh store is then eligible for whichever rule is short of peers
		for i := range c.Rules {
			c.Rules[i].Constraints = nil
		}
		makeConstructive(t, &c, total)
	}
	if pct(t, 30, "refusedUpdates") {
		c.Updates = genUpdates(t, &c)
	}
	c.Cluster.ReserveIDs(c.Region)
	return c
}

// mutateRule draws a changed copy of a rule (what an operator of the cluster
// would send to lower/raise a count, change the role or the constraints).
func mutateRule(t *rapid.T, cl *simkit.ClusterSpec, r RuleSpec) RuleSpec {
	r.Constraints = append([]ConstraintSpec(nil), r.Constraints...)
	switch simkit.IntU(t, 0, 5, "mutation") {
	case 0, 1, 2: // another count
		var cs []int
		for _, n := range []int{1, 2, 3, 4, 5} {
			if n != r.Count {
				cs = append(cs, n)
			}
		}
		r.Count = simkit.Pick(t, cs, "newCount")
		if r.Role == "leader" {
			r.Role = "voter"
		}
	case 3:
		r.Role = simkit.Pick(t, []string{"voter", "follower", "learner", "leader"}, "newRole")
		if r.Role == "leader" {
			r.Count = 1
		}
	case 4:
		r.Constraints = nil
		for k := simkit.IntU(t, 0, 2, "nNewConstraints"); k > 0; k-- {
			r.Constraints = append(r.Constraints, genConstraint(t, cl))
		}
		for len(r.Constraints) > 0 && !anyStoreMatches(cl, r.Constraints) {
			r.Constraints = r.Constraints[:len(r.Constraints)-1]
		}
	default:
		r.Override = !r.Override
		r.Index = simkit.IntU(t, 0, 3, "newIndex")
	}
	return r
}

// genUpdates draws 1-2 rule updates that are going to be refused: a storage
// write of the update fails, or the update is invalid.
func genUpdates(t *rapid.T, c *Case) []RuleUpdate {
	var out []RuleUpdate
	for n := simkit.IntU(t, 1, 2, "nUpdates"); n > 0; n-- {
		base := simkit.Pick(t, c.Rules, "updatedRule")
		var u RuleUpdate
		switch simkit.Pick(t, []string{"set", "set", "set", "set", "setrules", "delete", "group", "new", "invalid"}, "updateKind") {
		case "set":
			u = RuleUpdate{Kind: "set", Rules: []RuleSpec{mutateRule(t, &c.Cluster, base)}, FailWrite: 1}
		case "setrules":
			other := simkit.Pick(t, c.Rules, "updatedRule2")
			u = RuleUpdate{Kind: "setrules", Rules: []RuleSpec{mutateRule(t, &c.Cluster, base), mutateRule(t, &c.Cluster, other)},
				FailWrite: simkit.IntU(t, 1, 2, "failWrite")}
			if other.ID == base.ID {
				u.Rules = u.Rules[:1]
				u.FailWrite = 1
			}
		case "delete":
			u = RuleUpdate{Kind: "delete", ID: base.ID, FailWrite: 1}
		case "group":
			u = RuleUpdate{Kind: "group", GroupIndex: simkit.IntU(t, 0, 3, "groupIndex"), GroupOverride: rapid.Bool().Draw(t, "groupOverride"), FailWrite: 1}
		case "new":
			r := mutateRule(t, &c.Cluster, base)
			r.ID = "r9"
			u = RuleUpdate{Kind: "set", Rules: []RuleSpec{r}, FailWrite: 1}
		default: // refused by validation, no write is attempted
			r := base
			switch simkit.IntU(t, 0, 3, "invalidKind") {
			case 0:
				r.Count = 0
			case 1:
				r.Role, r.Count = "leader", 2
			case 2:
				r.Role = "witness"
			default:
				r.Constraints = []ConstraintSpec{{Key: "zone", Op: "in", Values: []string{"nowhere"}}}
			}
			u = RuleUpdate{Kind: "set", Rules: []RuleSpec{r}}
		}
		out = append(out, u)
	}
	return out
}

func genReplica(t *rapid.T) Case { return genReplicaCase(t) }
func genRule(t *rapid.T) Case    { return genRuleCase(t) }

// genController: the same inputs, offered through CheckerController.CheckRegion
// (joint-state checker, rule checker or learner + replica checker, merge checker).
func genController(t *rapid.T) Case {
	var c Case
	if rapid.Bool().Draw(t, "rules") {
		c = genRuleCase(t)
	} else {
		c = genReplicaCase(t)
	}
	c.Via = "controller"
	return c
}

// ---------------------------------------------------------------- oracle helpers (spec side)

func (r *RuleSpec) learner() bool { return r.Role == "learner" }

func isExclusiveKey(k string) bool {
	return strings.HasPrefix(k, "$") || k == "engine" || k == "exclusive"
}

// matchConstraints: the documented meaning of label constraints
// (placement/label_constraint.go): in = label set and listed, notIn = unset or
// not listed, exists / notExists; a store with an exclusive label ("$..",
// engine, exclusive) is only eligible when a constraint names that key.
func matchConstraints(s *simkit.StoreSpec, cs []ConstraintSpec) bool {
	for _, l := range s.Labels {
		if !isExclusiveKey(l.Key) {
			continue
		}
		named := false
		for _, c := range cs {
			named = named || c.Key == l.Key
		}
		if !named {
			return false
		}
	}
	for _, c := range cs {
		v := s.Label(c.Key)
		listed := false
		for _, x := range c.Values {
			listed = listed || x == v
		}
		ok := false
		switch c.Op {
		case "in":
			ok = v != "" && listed
		case "notIn":
			ok = v == "" || !listed
		case "exists":
			ok = v != ""
		case "notExists":
			ok = v == ""
		}
		if !ok {
			return false
		}
	}
	return true
}

// isoPath is the location of a store down to the isolation level: the values
// of the location labels up to and including that level.
func isoPath(s *simkit.StoreSpec, labels []string, level string) (string, bool) {
	var vs []string
	for _, l := range labels {
		vs = append(vs, s.Label(l))
		if l == level {
			return strings.Join(vs, "\x00"), true
		}
	}
	return "", false // the level is not one of the location labels
}

// sameIsolationLocation: the documented meaning of the isolation level
// (filter.NewIsolationFilter: "filter out z2 and z3 because these two zones
// already have one of the region's replicas"): the candidate shares all label
// values down to the isolation level with a store that holds another replica.
func sameIsolationLocation(cl *simkit.ClusterSpec, target *simkit.StoreSpec, others []uint64, labels []string, level string) (uint64, bool) {
	if len(labels) == 0 || level == "" {
		return 0, false
	}
	tp, ok := isoPath(target, labels, level)
	if !ok {
		return 0, false
	}
	for _, o := range others {
		os := cl.Store(o)
		if os == nil || o == target.ID {
			continue
		}
		if op, _ := isoPath(os, labels, level); op == tp {
			return o, true
		}
	}
	return 0, false
}

func (c *Case) maxSnap() int {
	if c.Cluster.MaxSnapshotCount > 0 {
		return c.Cluster.MaxSnapshotCount
	}
	return simkit.DefaultMaxSnapshotCount
}

func (c *Case) maxPending() int {
	if c.Cluster.MaxPendingPeerCount > 0 {
		return c.Cluster.MaxPendingPeerCount
	}
	return simkit.DefaultMaxPendingPeerCount
}

// hasTemporaryCondition: one of the conditions the filter table calls
// temporary (disconnected but not down, busy, too many snapshots, too many
// pending peers) holds for an Up store.
func (c *Case) hasTemporaryCondition(s *simkit.StoreSpec) bool {
	if !s.IsUp() || c.Cluster.IsDown(s) {
		return false
	}
	return !s.IsConnected() || s.Busy || s.SendingSnap > c.maxSnap() || s.ReceivingSnap > c.maxSnap() ||
		s.PendingPeers > c.maxPending()
}

// isFresh: up, heartbeat now, empty, plenty of space, no flag, no special label.
func (c *Case) isFresh(s *simkit.StoreSpec) bool {
	if !s.IsUp() || s.HeartbeatAgeSec != simkit.AgeFresh || s.Busy || s.PauseLeader {
		return false
	}
	if s.SendingSnap+s.ReceivingSnap+s.ApplyingSnap+s.PendingPeers != 0 || s.RegionCount != 0 {
		return false
	}
	if s.AvailableRatio < 0.9 || c.Cluster.IsLowSpace(s) {
		return false
	}
	for _, l := range s.Labels {
		if isExclusiveKey(l.Key) || strings.EqualFold(l.Key, "specialUse") {
			return false
		}
	}
	return true
}

func storesOf(ps []simkit.Peer) []uint64 {
	out := make([]uint64, 0, len(ps))
	for _, p := range ps {
		out = append(out, p.Store)
	}
	return out
}

func without(xs []uint64, drop []uint64) []uint64 {
	var out []uint64
	for _, x := range xs {
		d := false
		for _, y := range drop {
			d = d || x == y
		}
		if !d {
			out = append(out, x)
		}
	}
	return out
}

func (c *Case) healthy(sim *simkit.Region) int {
	n := 0
	for _, p := range sim.Peers {
		if s := c.Cluster.Store(p.Store); s != nil && s.IsUp() && !p.Down && !p.Pending {
			n++
		}
	}
	return n
}

// ruleView is what the oracle reads from a RuleFit: the rule (looked up in the
// case by id) and the stores of the peers that were assigned to it.
type ruleView struct {
	spec      *RuleSpec
	stores    []uint64
	satisfied bool
}

type fitView struct {
	rules   []ruleView
	orphans []uint64 // stores of orphan peers
}

func viewOf(rules []RuleSpec, fit *placement.RegionFit) (*fitView, error) {
	v := &fitView{}
	for _, rf := range fit.RuleFits {
		var spec *RuleSpec
		for i := range rules {
			if rules[i].ID == rf.Rule.ID {
				spec = &rules[i]
			}
		}
		if spec == nil {
			return nil, fmt.Errorf("fit names rule %s/%s which the case did not define", rf.Rule.GroupID, rf.Rule.ID)
		}
		rv := ruleView{spec: spec, satisfied: rf.IsSatisfied()}
		for _, p := range rf.Peers {
			rv.stores = append(rv.stores, p.GetStoreId())
		}
		v.rules = append(v.rules, rv)
	}
	for _, p := range fit.OrphanPeers {
		v.orphans = append(v.orphans, p.GetStoreId())
	}
	return v, nil
}

func (v *fitView) allSatisfied() bool {
	for _, r := range v.rules {
		if !r.satisfied {
			return false
		}
	}
	return len(v.rules) > 0
}

func (v *fitView) leaderRuleHasPeer() bool {
	for _, r := range v.rules {
		if r.spec.Role == "leader" && len(r.stores) > 0 {
			return true
		}
	}
	return false
}

func contains(xs []uint64, x uint64) bool {
	for _, y := range xs {
		if x == y {
			return true
		}
	}
	return false
}

// ---------------------------------------------------------------- runner

type tolerance struct {
	strict     bool // probes: tolerate nothing
	hit        bool
	leaderless bool // the trigger class of keyLeaderless was skipped
	lag        bool // a target was low on space only by its true region count (keyCounterLag)
}

func runCase(c Case) (vkit.Info, error) {
	var info vkit.Info
	tol := &tolerance{}
	built, err := runOnce(&c, &info, 0, tol)
	// pd breaks ties between equally good stores in Go-map order: look at a few orders
	for rep := 1; rep < 3 && err == nil && built; rep++ {
		_, err = runOnce(&c, &info, rep, tol)
	}
	if tol.leaderless {
		info.Exclude(keyLeaderless)
		info.Class("excluded:rule-checker-leaderless-region-panics")
	}
	if tol.lag {
		info.Exclude(keyCounterLag)
		info.Class("excluded:store-counters-lag-after-leadership-change")
		info.NonTrivial = false
	}
	if tol.hit {
		info.Exclude(keyRoleChange)
		info.Class("excluded:nojoint-replace-role-change-removes-first")
		info.NonTrivial = false
	}
	return info, err
}

// served is the oracle's account of the rules the rule manager accepted.
type served struct {
	rules         []RuleSpec
	groupIndex    int
	groupOverride bool
}

func (m *served) set(r RuleSpec) {
	for i := range m.rules {
		if m.rules[i].ID == r.ID {
			m.rules[i] = r
			return
		}
	}
	m.rules = append(m.rules, r)
}

func (m *served) has(id string) bool {
	for _, r := range m.rules {
		if r.ID == id {
			return true
		}
	}
	return false
}

// accept records an update the rule manager reported as accepted.
func (m *served) accept(u RuleUpdate) {
	switch u.Kind {
	case "set", "setrules":
		for _, r := range u.Rules {
			m.set(r)
		}
	case "delete":
		var out []RuleSpec
		for _, r := range m.rules {
			if r.ID != u.ID {
				out = append(out, r)
			}
		}
		m.rules = out
	case "group":
		m.groupIndex, m.groupOverride = u.GroupIndex, u.GroupOverride
	}
}

// attempt makes the call of one update on the rule manager.
func attempt(rm *placement.RuleManager, u RuleUpdate) error {
	switch u.Kind {
	case "set":
		return rm.SetRule(pdRules(u.Rules)[0])
	case "setrules":
		return rm.SetRules(pdRules(u.Rules))
	case "delete":
		return rm.DeleteRule("pd", u.ID)
	case "group":
		return rm.SetRuleGroup(&placement.RuleGroup{ID: "pd", Index: u.GroupIndex, Override: u.GroupOverride})
	}
	return fmt.Errorf("harness: unknown update kind %q", u.Kind)
}

// referenceFit fits the region to the ACCEPTED rules: a second rule manager on
// its own storage, never faulted, is given exactly the accepted rules. (The fit
// function and the success path of the rule manager are trusted here: C12, C13.)
func referenceFit(mc *mockcluster.Cluster, m *served, region *core.RegionInfo) (*placement.RegionFit, error) {
	ref := placement.NewRuleManager(core.NewStorage(kv.NewMemoryKV()), mc)
	rc := mc.GetReplicationConfig()
	if err := ref.Initialize(int(rc.MaxReplicas), rc.LocationLabels); err != nil {
		return nil, err
	}
	if err := ref.SetRules(pdRules(m.rules)); err != nil {
		return nil, err
	}
	if !m.has("default") {
		if err := ref.DeleteRule("pd", "default"); err != nil {
			return nil, err
		}
	}
	if m.groupIndex != 0 || m.groupOverride {
		if err := ref.SetRuleGroup(&placement.RuleGroup{ID: "pd", Index: m.groupIndex, Override: m.groupOverride}); err != nil {
			return nil, err
		}
	}
	return ref.FitRegion(mc.BasicCluster, region), nil
}

// servedDiffers compares what GetAllRules serves with the accepted rules.
func servedDiffers(rm *placement.RuleManager, m *served) string {
	got := map[string]*placement.Rule{}
	for _, r := range rm.GetAllRules() {
		got[r.ID] = r
	}
	if len(got) != len(m.rules) {
		return fmt.Sprintf("%d rules served, %d accepted", len(got), len(m.rules))
	}
	for _, w := range m.rules {
		g := got[w.ID]
		if g == nil {
			return fmt.Sprintf("accepted rule %s is not served", w.ID)
		}
		if string(g.Role) != w.Role || g.Count != w.Count || len(g.LabelConstraints) != len(w.Constraints) ||
			g.Index != w.Index || g.Override != w.Override || g.IsolationLevel != w.IsolationLevel {
			return fmt.Sprintf("rule %s is served as %s, accepted was %+v", w.ID, g, w)
		}
	}
	return ""
}

func pdRules(rules []RuleSpec) []*placement.Rule {
	var out []*placement.Rule
	for _, r := range rules {
		pr := &placement.Rule{GroupID: "pd", ID: r.ID, Index: r.Index, Override: r.Override,
			Role: placement.PeerRoleType(r.Role), Count: r.Count,
			LocationLabels: append([]string(nil), r.LocationLabels...), IsolationLevel: r.IsolationLevel}
		for _, lc := range r.Constraints {
			pr.LabelConstraints = append(pr.LabelConstraints, placement.LabelConstraint{
				Key: lc.Key, Op: placement.LabelConstraintOp(lc.Op), Values: append([]string(nil), lc.Values...)})
		}
		out = append(out, pr)
	}
	return out
}

func stepsOf(op *operator.Operator) []operator.OpStep {
	out := make([]operator.OpStep, op.Len())
	for i := range out {
		out[i] = op.Step(i)
	}
	return out
}

func describe(steps []operator.OpStep) string {
	var ss []string
	for i, s := range steps {
		ss = append(ss, fmt.Sprintf("%d:%s", i, s))
	}
	return "[" + strings.Join(ss, "; ") + "]"
}

// check calls the code under test; a panic is reported as an error.
func check(ctx context.Context, mc *mockcluster.Cluster, c *Case, region *core.RegionInfo) (ops []*operator.Operator, err error) {
	defer func() {
		if r := recover(); r != nil {
			err = fmt.Errorf("panic in the checker: %v; stack: %s", r, firstFrames(debug.Stack()))
		}
	}()
	return checkRaw(ctx, mc, c, region), nil
}

// firstFrames keeps the pd frames of a stack trace (for a one-line message).
func firstFrames(stack []byte) string {
	var out []string
	for _, l := range strings.Split(string(stack), "\n") {
		l = strings.TrimSpace(l)
		if strings.HasPrefix(l, "/repo/") {
			out = append(out, strings.Fields(l)[0])
		}
		if len(out) == 4 {
			break
		}
	}
	return strings.Join(out, " <- ")
}

func checkRaw(ctx context.Context, mc *mockcluster.Cluster, c *Case, region *core.RegionInfo) []*operator.Operator {
	if c.Via == "controller" {
		oc := schedule.NewOperatorController(ctx, mc, nil)
		return schedule.NewCheckerController(ctx, mc, mc.RuleManager, oc).CheckRegion(region)
	}
	var op *operator.Operator
	if c.Mode == "rule" {
		op = checker.NewRuleChecker(mc, mc.RuleManager, cache.NewDefaultCache(16)).Check(region)
	} else {
		op = checker.NewReplicaChecker(mc, cache.NewDefaultCache(16)).Check(region)
	}
	if op == nil {
		return nil
	}
	return []*operator.Operator{op}
}

// validLevel: "isolation-level must be one of location-labels or empty"
// (config.ReplicationConfig.Validate; assumed for a rule's level as well).
func validLevel(labels []string, level string) bool {
	if level == "" {
		return true
	}
	for _, l := range labels {
		if l == level {
			return true
		}
	}
	return false
}

func runOnce(c *Case, info *vkit.Info, rep int, tol *tolerance) (built bool, err error) {
	first := rep == 0
	// outside the input domain (pd refuses such a configuration): nothing is claimed
	ok := validLevel(c.Cluster.LocationLabels, c.Cluster.IsolationLevel)
	for _, r := range c.Rules {
		ok = ok && validLevel(r.LocationLabels, r.IsolationLevel)
	}
	if !ok {
		if first {
			info.Class("out-of-domain:isolation-level-not-a-location-label")
		}
		return false, nil
	}
	ctx, stop := context.WithCancel(context.Background())
	defer stop()
	// what pd sees: the spec, except that lagging stores show zero counters
	seen := c.Cluster
	lagging := len(c.CounterLag) > 0 && !tol.strict && vkit.Known(keyCounterLag)
	if lagging {
		seen.Stores = append([]simkit.StoreSpec(nil), c.Cluster.Stores...)
		for i := range seen.Stores {
			if contains(c.CounterLag, seen.Stores[i].ID) {
				seen.Stores[i].RegionCount, seen.Stores[i].LeaderCount, seen.Stores[i].RegionSize, seen.Stores[i].LeaderSize = 0, 0, 0, 0
			}
		}
		if first {
			info.Class("counter-lag")
		}
	}
	mc, cancel := simkit.Build(ctx, seen)
	defer cancel()
	mc.SetEnableReplaceOfflineReplica(c.Flags.ReplaceOffline)
	mc.SetEnableRemoveDownReplica(c.Flags.RemoveDown)
	mc.SetEnableMakeUpReplica(c.Flags.MakeUp)
	mc.SetEnableRemoveExtraReplica(c.Flags.RemoveExtra)
	mc.SetEnableLocationReplacement(c.Flags.LocationReplacement)

	sim := simkit.NewRegion(c.Region, simkit.NewIDAlloc(c.Cluster.AllocBase+100000))
	region := sim.ToRegionInfo()
	mc.PutRegion(region)

	var fv *fitView
	if c.Mode == "rule" {
		if mc.RuleManager == nil {
			return false, fmt.Errorf("harness: placement rules requested but the mock cluster has no rule manager")
		}
		// the rule manager under test lives on a storage whose writes can be made to fail
		fkv := faultkv.New(kv.NewMemoryKV())
		rm := placement.NewRuleManager(core.NewStorage(fkv), mc)
		if e := rm.Initialize(c.Cluster.MaxReplicas, c.Cluster.LocationLabels); e != nil {
			return false, fmt.Errorf("harness: rule manager does not initialise: %v", e)
		}
		mc.RuleManager = rm
		if e := rm.SetRules(pdRules(c.Rules)); e != nil {
			// the rule manager validates like the HTTP API does (e.g. "can not match any store")
			if first {
				info.Class("rules-rejected")
			}
			return false, nil
		}
		model := &served{rules: append([]RuleSpec(nil), c.Rules...)}
		for _, u := range c.Updates {
			if u.FailWrite > 0 {
				fkv.FailNth(u.FailWrite)
			}
			e := attempt(rm, u)
			fkv.ResetCounters()
			if e == nil {
				model.accept(u) // nothing had to be written (a no-op), or the fault was beyond the last write
			}
			if first {
				switch {
				case e == nil:
					info.Class("update-accepted")
				case strings.Contains(e.Error(), faultkv.ErrInjected.Error()):
					info.Class("update-refused:storage-failure")
				default:
					info.Class("update-refused:invalid")
				}
			}
		}
		if d := servedDiffers(rm, model); d != "" {
			return false, fmt.Errorf("after the rule updates %+v the served rules differ from the accepted ones: %s", c.Updates, d)
		}
		// the oracle's fit: the region against the rules that were accepted
		fit, e := referenceFit(mc, model, region)
		if e != nil {
			if first {
				info.Class("reference-rules-rejected")
			}
			return false, nil
		}
		if fv, err = viewOf(model.rules, fit); err != nil {
			return false, err
		}
	}

	origin := sim.String()
	obligation := c.livenessObligation(sim, fv)
	// known class: a region without leader (as loaded from storage, before its
	// first heartbeat) while a leader rule holds one of its peers
	if c.Mode == "rule" && sim.LeaderPeer() == nil && fv.leaderRuleHasPeer() && !tol.strict && vkit.Known(keyLeaderless) {
		tol.leaderless = true
		return false, nil
	}
	ops, err := check(ctx, mc, c, region)
	if err != nil {
		return false, fmt.Errorf("%v; region %s, %s", err, origin, c.optionsString())
	}
	if first {
		info.ClassIf(c.Constructive, "constructive")
		info.ClassIf(obligation != "", "liveness-obligation")
	}
	if len(ops) == 0 {
		if obligation != "" {
			return false, fmt.Errorf("no operator although %s; region %s, %s", obligation, origin, c.optionsString())
		}
		if first {
			info.Class("no-operator")
		}
		return false, nil
	}
	if len(ops) != 1 {
		return true, fmt.Errorf("%d operators returned for a single region without neighbours", len(ops))
	}
	op := ops[0]
	steps := stepsOf(op)
	plan := op.Desc() + " " + describe(steps)
	if first {
		info.NonTrivial = true
		info.Class("op:" + op.Desc())
		info.ClassIf(!(c.Cluster.JointSupported && c.Cluster.UseJoint), "op-without-joint-consensus")
		info.ClassIf(c.Region.InJoint(), "origin-joint")
	}
	where := func() string { return fmt.Sprintf("operator %s; region %s, %s", plan, origin, c.optionsString()) }

	// what the operator removes and adds (read from the steps as data)
	var removed, added []uint64
	for _, st := range steps {
		switch s := st.(type) {
		case operator.RemovePeer:
			removed = append(removed, s.FromStore)
		case operator.AddPeer:
			added = append(added, s.ToStore)
		case operator.AddLightPeer:
			added = append(added, s.ToStore)
		case operator.AddLearner:
			added = append(added, s.ToStore)
		case operator.AddLightLearner:
			added = append(added, s.ToStore)
		}
	}
	initialStores := storesOf(sim.Peers)
	initialRole := sim.RoleByStore()
	peers0, healthy0 := len(sim.Peers), c.healthy(sim)
	voters0 := 0
	for _, p := range sim.Peers {
		if p.Role != simkit.Learner {
			voters0++
		}
	}

	// the two documented reasons for ending with fewer (healthy) peers
	exempt, why := false, ""
	if c.Mode == "replica" {
		exempt = voters0 > c.Cluster.MaxReplicas
		why = fmt.Sprintf("the region has %d voters, max-replicas is %d", voters0, c.Cluster.MaxReplicas)
	} else {
		exempt = fv.allSatisfied()
		for _, s := range removed {
			exempt = exempt && contains(fv.orphans, s)
		}
		why = fmt.Sprintf("all rules satisfied: %v, orphan peers on stores %v, removed %v", fv.allSatisfied(), fv.orphans, removed)
	}

	// execute to learn the final role of each added peer (AddLearner + Promote = a voter)
	final := sim.Clone()
	for _, st := range steps {
		if e := final.ApplyStep(st); e != nil {
			break
		}
	}
	addedLearner := func(store uint64) bool {
		if p := final.PeerOnStore(store); p != nil {
			return p.Role == simkit.Learner
		}
		return true
	}

	// the known class: a replacement whose new peer has another role than the
	// replaced one, built without joint consensus
	roleChange := false
	if len(added) > 0 && len(removed) > 0 && !(c.Cluster.JointSupported && c.Cluster.UseJoint) {
		for _, rs := range removed {
			for _, as := range added {
				if r, ok := initialRole[rs]; ok && (r == simkit.Learner) != addedLearner(as) {
					roleChange = true
				}
			}
		}
	}
	tolerate := roleChange && !tol.strict && vkit.Known(keyRoleChange)

	for i, st := range steps {
		// ---- target predicates for add steps
		var target uint64
		switch s := st.(type) {
		case operator.AddPeer:
			target = s.ToStore
		case operator.AddLightPeer:
			target = s.ToStore
		case operator.AddLearner:
			target = s.ToStore
		case operator.AddLightLearner:
			target = s.ToStore
		}
		if target != 0 {
			ts := c.Cluster.Store(target)
			switch {
			case ts == nil:
				return true, fmt.Errorf("step %d adds a peer on store %d which does not exist; %s", i, target, where())
			case !ts.IsUp():
				return true, fmt.Errorf("step %d adds a peer on store %d whose state is %s; %s", i, target, ts.State, where())
			case !ts.IsConnected():
				return true, fmt.Errorf("step %d adds a peer on store %d whose last heartbeat is %d s old (disconnected after %d s); %s",
					i, target, ts.HeartbeatAgeSec, simkit.DisconnectAfterSec, where())
			case c.Cluster.IsLowSpace(ts) && lagging && contains(c.CounterLag, target) && !seen.IsLowSpace(seen.Store(target)):
				// known: low on space by the regions it really holds, "small store" by its lagging counter
				tol.lag = true
			case c.Cluster.IsLowSpace(ts):
				return true, fmt.Errorf("step %d adds a peer on store %d which is low on space (available %.2f, low-space-ratio %.2f, %d regions); %s",
					i, target, ts.AvailableRatio, c.Cluster.LowSpace(), ts.RegionCount, where())
			case sim.PeerOnStore(target) != nil:
				return true, fmt.Errorf("step %d adds a peer on store %d which already holds peer %d of the region; %s",
					i, target, sim.PeerOnStore(target).ID, where())
			}
			if c.Mode == "replica" {
				others := without(initialStores, removed)
				if o, same := sameIsolationLocation(&c.Cluster, ts, others, c.Cluster.LocationLabels, c.Cluster.IsolationLevel); same {
					return true, fmt.Errorf("step %d adds a peer on store %d (labels %v) which is at the same %q location as the peer on store %d (labels %v); %s",
						i, target, ts.Labels, c.Cluster.IsolationLevel, o, c.Cluster.Store(o).Labels, where())
				}
			} else if e := c.ruleAllows(fv, ts, addedLearner(target), removed); e != nil {
				return true, fmt.Errorf("step %d adds a peer on store %d (labels %v, final role learner=%v) that no rule under repair allows: %v; %s",
					i, target, ts.Labels, addedLearner(target), e, where())
			}
		}

		// ---- execute
		if e := sim.ApplyStep(st); e != nil {
			return true, fmt.Errorf("step %d (%s) is refused by the simulated store: %v; %s", i, st, e, where())
		}
		if e := sim.CheckInvariants(); e != nil {
			return true, fmt.Errorf("after step %d (%s): %v; %s", i, st, e, where())
		}

		// ---- replacement order, healthy replication
		if len(added) > 0 && len(removed) > 0 && len(sim.Peers) < peers0 {
			if tolerate {
				tol.hit = true
			} else {
				return true, fmt.Errorf("after step %d (%s) the region has %d peers, it had %d: the old peer is removed before its replacement is added; %s",
					i, st, len(sim.Peers), peers0, where())
			}
		}
		if h := c.healthy(sim); h < healthy0 && !exempt {
			if tolerate && len(sim.Peers) < peers0 {
				tol.hit = true
			} else {
				return true, fmt.Errorf("after step %d (%s) the region has %d healthy peers, it had %d, and neither exception applies (%s); now %s; %s",
					i, st, h, healthy0, why, sim, where())
			}
		}
	}
	if len(sim.Peers) < peers0 && !exempt {
		return true, fmt.Errorf("the region ends with %d peers, it had %d, and neither exception applies (%s); end %s; %s",
			len(sim.Peers), peers0, why, sim, where())
	}
	if first {
		info.ClassIf(len(added) > 0 && len(removed) > 0, "replacement")
		info.ClassIf(roleChange, "replacement-changes-role-without-joint")
		info.ClassIf(exempt && len(removed) > 0 && len(added) == 0, "shrink-under-exception")
	}
	return true, nil
}

// ruleAllows: some rule is under repair (short of peers, or owner of a removed
// peer), gives the new peer its role, accepts the store's labels and does not
// already have a peer at the same isolation-level location.
func (c *Case) ruleAllows(fv *fitView, ts *simkit.StoreSpec, learner bool, removed []uint64) error {
	var reasons []string
	for _, rv := range fv.rules {
		repaired := len(rv.stores) < rv.spec.Count
		for _, s := range removed {
			repaired = repaired || contains(rv.stores, s)
		}
		var no []string
		if !repaired {
			no = append(no, "not under repair")
		}
		if rv.spec.learner() != learner {
			no = append(no, "role "+rv.spec.Role)
		}
		if !matchConstraints(ts, rv.spec.Constraints) {
			no = append(no, fmt.Sprintf("label constraints %v", rv.spec.Constraints))
		}
		if o, same := sameIsolationLocation(&c.Cluster, ts, without(rv.stores, removed), rv.spec.LocationLabels, rv.spec.IsolationLevel); same {
			no = append(no, fmt.Sprintf("same %q location as its peer on store %d", rv.spec.IsolationLevel, o))
		}
		if len(no) == 0 {
			return nil
		}
		reasons = append(reasons, fmt.Sprintf("rule %s (peers on %v, count %d): %s", rv.spec.ID, rv.stores, rv.spec.Count, strings.Join(no, ", ")))
	}
	return fmt.Errorf("%s", strings.Join(reasons, "; "))
}

// livenessObligation returns a non-empty description when the liveness clause
// applies: fewer peers than required, repair enabled, a region on which an
// operator can be built (leader present, no joint state, no learner waiting to
// be promoted when the controller runs the learner checker first), a fresh
// empty store that nothing excludes, and no store with a temporary condition
// among the other candidates (pd documents that it first picks the best
// location ignoring temporary states and then waits rather than placing the
// replica worse: replica_strategy.go "two-stage fashion").
func (c *Case) livenessObligation(sim *simkit.Region, fv *fitView) string {
	if sim.InJoint() || sim.LeaderPeer() == nil || !sim.LeaderPeer().Role.CanLead() {
		return ""
	}
	regionStores := storesOf(sim.Peers)
	calmOthers := func(locationLabels []string) bool {
		if len(locationLabels) == 0 {
			return true // every candidate is equally well placed
		}
		for i := range c.Cluster.Stores {
			s := &c.Cluster.Stores[i]
			if !contains(regionStores, s.ID) && c.hasTemporaryCondition(s) {
				return false
			}
		}
		return true
	}
	freshFor := func(cs []ConstraintSpec, others []uint64, labels []string, level string) uint64 {
		for i := range c.Cluster.Stores {
			s := &c.Cluster.Stores[i]
			if contains(regionStores, s.ID) || !c.isFresh(s) || !matchConstraints(s, cs) {
				continue
			}
			if _, same := sameIsolationLocation(&c.Cluster, s, others, labels, level); same {
				continue
			}
			return s.ID
		}
		return 0
	}
	if c.Mode == "replica" {
		if !c.Flags.MakeUp || len(sim.Peers) >= c.Cluster.MaxReplicas {
			return ""
		}
		if !calmOthers(c.Cluster.LocationLabels) {
			return ""
		}
		if f := freshFor(nil, regionStores, c.Cluster.LocationLabels, c.Cluster.IsolationLevel); f != 0 {
			return fmt.Sprintf("the region has %d peers, max-replicas is %d, make-up-replica is enabled and store %d is fresh, empty and unconstrained",
				len(sim.Peers), c.Cluster.MaxReplicas, f)
		}
		return ""
	}
	for _, rv := range fv.rules {
		if len(rv.stores) >= rv.spec.Count || !calmOthers(rv.spec.LocationLabels) {
			continue
		}
		if f := freshFor(rv.spec.Constraints, rv.stores, rv.spec.LocationLabels, rv.spec.IsolationLevel); f != 0 {
			return fmt.Sprintf("rule %s has %d of %d peers and store %d is fresh, empty and allowed by the rule",
				rv.spec.ID, len(rv.stores), rv.spec.Count, f)
		}
	}
	return ""
}

func (c *Case) optionsString() string {
	var bad []string
	for i := range c.Cluster.Stores {
		s := &c.Cluster.Stores[i]
		bad = append(bad, fmt.Sprintf("%d:%s/hb%ds/avail%.2f/%v", s.ID, s.State, s.HeartbeatAgeSec, s.AvailableRatio, s.Labels))
	}
	sort.Strings(bad)
	if c.Mode == "rule" {
		return fmt.Sprintf("rules %+v, refused updates %+v, joint supported=%v used=%v, stores %v", c.Rules, c.Updates, c.Cluster.JointSupported, c.Cluster.UseJoint, bad)
	}
	return fmt.Sprintf("max-replicas %d, location labels %v, isolation level %q, flags %+v, joint supported=%v used=%v, stores %v",
		c.Cluster.MaxReplicas, c.Cluster.LocationLabels, c.Cluster.IsolationLevel, c.Flags, c.Cluster.JointSupported, c.Cluster.UseJoint, bad)
}

// ---------------------------------------------------------------- known finding probe

func upStores(n uint64) []simkit.StoreSpec {
	var out []simkit.StoreSpec
	for i := uint64(1); i <= n; i++ {
		out = append(out, simkit.StoreSpec{ID: i, State: simkit.StateUp, UsedRatio: 0.05, AvailableRatio: 0.95})
	}
	return out
}

// roleChangeProbeCase: no joint consensus; rule voter x 3; region {2:voter,
// 4:voter (leader), 5:learner on an Offline store}; store 1 and 3 are free. The
// learner is loosely matched to the voter rule, its store is Offline, the rule
// checker replaces it by a VOTER on a free store.
func roleChangeProbeCase() Case {
	c := Case{Mode: "rule", Via: "direct"}
	c.Cluster = simkit.ClusterSpec{Stores: upStores(5), MaxReplicas: 3, JointSupported: false, PlacementRules: true, AllocBase: 1000}
	c.Cluster.Stores[4].State = simkit.StateOffline
	c.Region = simkit.RegionSpec{ID: 100, Leader: 1, Version: 1, ConfVer: 1, Size: 10, Peers: []simkit.PeerSpec{
		{ID: 102, Store: 2, Role: simkit.Voter}, {ID: 104, Store: 4, Role: simkit.Voter}, {ID: 105, Store: 5, Role: simkit.Learner}}}
	c.Rules = []RuleSpec{{ID: "default", Role: "voter", Count: 3}}
	c.Flags = Flags{true, true, true, true, true}
	return c
}

// TestFinding_nojoint_replace_role_change_removes_first runs the probe case
// strictly (nothing tolerated) and reports whether the operator still removes
// the old peer before it adds the replacement.
func TestFinding_nojoint_replace_role_change_removes_first(t *testing.T) {
	c := roleChangeProbeCase()
	var info vkit.Info
	built, err := runOnce(&c, &info, 0, &tolerance{strict: true})
	reproduced := built && err != nil && strings.Contains(err.Error(), "removed before its replacement is added")
	detail := "the replacement is added before the old peer is removed"
	switch {
	case err != nil:
		detail = err.Error()
	case !built:
		detail = "no operator proposed"
	}
	vkit.Finding(t, keyRoleChange, reproduced, detail)
	if err != nil && !reproduced {
		t.Logf("the probe case fails differently: %v", err)
	}
}

// TestFinding_rule_checker_leaderless_region_panics: rules {voter x 2, leader x 1},
// region {1,2,3: voters} without leader (the state of a region loaded from
// storage after a pd restart, before its first heartbeat; the patrol offers
// such regions to the checkers): RuleChecker.Check dereferences the nil leader.
func TestFinding_rule_checker_leaderless_region_panics(t *testing.T) {
	c := Case{Mode: "rule", Via: "direct"}
	c.Cluster = simkit.ClusterSpec{Stores: upStores(3), MaxReplicas: 3, JointSupported: true, UseJoint: true, PlacementRules: true, AllocBase: 1000}
	c.Region = simkit.RegionSpec{ID: 100, Leader: -1, Version: 1, ConfVer: 1, Size: 10, Peers: []simkit.PeerSpec{
		{ID: 101, Store: 1, Role: simkit.Voter}, {ID: 102, Store: 2, Role: simkit.Voter}, {ID: 103, Store: 3, Role: simkit.Voter}}}
	c.Rules = []RuleSpec{{ID: "default", Role: "voter", Count: 2}, {ID: "r1", Role: "leader", Count: 1}}
	c.Flags = Flags{true, true, true, true, true}
	var info vkit.Info
	_, err := runOnce(&c, &info, 0, &tolerance{strict: true})
	reproduced := err != nil && strings.Contains(err.Error(), "panic in the checker")
	detail := "RuleChecker.Check returns without panic"
	if err != nil {
		detail = err.Error()
	}
	vkit.Finding(t, keyLeaderless, reproduced, detail)
}
