package c11

// Probe of C11/scatter-engine-context-map-unsynchronised. The defect is a data
// race on a Go map; when the runtime notices it the process dies with a fatal
// error that cannot be recovered, so the racing part runs in a child process
// (this test binary re-executed with C11_RACE_CHILD=1).

import (
	"fmt"
	"os"
	"os/exec"
	"strings"
	"sync"
	"testing"
	"time"

	"github.com/tikv/pd/server/schedule"
	"pdverif/simkit"
	"pdverif/vkit"
)

func raceWorld() World {
	var w World
	w.Cluster = simkit.ClusterSpec{Stores: upStores(6), MaxReplicas: 3, JointSupported: true, UseJoint: true, PlacementRules: true}
	for _, i := range []int{3, 4, 5} {
		w.Cluster.Stores[i].Labels = []simkit.Label{{Key: engineKey, Value: tiflash}}
	}
	w.TiFlashLearners = 1
	for i := 0; i < 8; i++ {
		r := voters(100+uint64(i)*100, 0, 1, 2, 3)
		r.Peers = append(r.Peers, simkit.PeerSpec{ID: r.ID + 50, Store: 4 + uint64(i%3), Role: simkit.Learner})
		if i > 0 {
			r.Start = fmt.Sprintf("k%04d", i)
		}
		if i < 7 {
			r.End = fmt.Sprintf("k%04d", i+1)
		}
		w.Regions = append(w.Regions, r)
	}
	w.Cluster.ReserveIDs(w.Regions...)
	return w
}

// TestRaceChild: 8 goroutines scatter 8 regions with a tiflash learner on a FRESH
// scatterer (its engine-context map is still empty), again and again.
func TestRaceChild(t *testing.T) {
	if os.Getenv("C11_RACE_CHILD") == "" {
		t.Skip("helper of TestFinding_scatter_engine_map_race")
	}
	w := raceWorld()
	l, err := build(&w)
	if err != nil {
		t.Fatal(err)
	}
	defer l.cancel()
	deadline := time.Now().Add(6 * time.Second)
	for time.Now().Before(deadline) {
		sc := schedule.NewRegionScatterer(l.ctx, l.mc)
		var wg sync.WaitGroup
		start := make(chan struct{})
		for _, id := range l.order {
			r := l.mc.GetRegion(id)
			wg.Add(1)
			go func() {
				defer wg.Done()
				<-start
				sc.Scatter(r, "g")
			}()
		}
		close(start)
		wg.Wait()
	}
	fmt.Println("C11-RACE-CHILD-SURVIVED")
}

func TestFinding_scatter_engine_map_race(t *testing.T) {
	cmd := exec.Command(os.Args[0], "-test.run", "^TestRaceChild$", "-test.timeout", "60s")
	cmd.Env = append(os.Environ(), "C11_RACE_CHILD=1", "VERIF_STATS=")
	out, _ := cmd.CombinedOutput()
	s := string(out)
	reproduced := strings.Contains(s, "fatal error: concurrent map")
	detail := "8 goroutines x fresh scatterer for 6 s: the runtime did not catch the unsynchronised map access this time"
	if reproduced {
		i := strings.Index(s, "fatal error: concurrent map")
		end := i + 60
		if end > len(s) {
			end = len(s)
		}
		where := ""
		if strings.Contains(s, "scatterRegion") {
			where = " in RegionScatterer.scatterRegion"
		}
		detail = "8 concurrent Scatter calls of regions with a tiflash learner on a fresh scatterer: the process dies with '" +
			strings.TrimSpace(strings.SplitN(s[i:end], "\n", 2)[0]) + "'" + where
	} else if !strings.Contains(s, "C11-RACE-CHILD-SURVIVED") {
		detail = "child ended unexpectedly: " + s[max(0, len(s)-300):]
	}
	vkit.Finding(t, keyEngineMap, reproduced, detail)
}
