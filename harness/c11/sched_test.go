package c11

import (
	"fmt"
	"math/rand"
	"os"
	"strconv"
	"strings"
	"testing"

	"github.com/tikv/pd/server/core"
	"github.com/tikv/pd/server/kv"
	"github.com/tikv/pd/server/schedule"
	"github.com/tikv/pd/server/schedule/operator"
	_ "github.com/tikv/pd/server/schedulers" // registers the built-in schedulers
	"github.com/tikv/pd/server/statistics"
	"pdverif/simkit"
	"pdverif/vkit"
	"pgregory.net/rapid"
)

// ---------------------------------------------------------------- case data

// RegionFlow is generated read or write traffic on one region (index into World.Regions).
type RegionFlow struct {
	Region int    `json:"region"`
	Kind   string `json:"kind"` // read | write
	KBps   int    `json:"kbps"`
	KeysPS int    `json:"keys_ps"`
}

// StoreFlow is the store-level traffic (store heartbeat statistics).
type StoreFlow struct {
	Store               uint64 `json:"store"`
	ReadKBps, WriteKBps int
}

// SchedCase is one scheduler on one cluster.
type SchedCase struct {
	World
	Type string `json:"type"`
	// Store: the store named in the configuration of evict-leader / grant-leader.
	Store uint64 `json:"store,omitempty"`
	// RangeFrom/RangeTo: region indices delimiting the key range given to the
	// scheduler (RangeTo < 0: the whole key space).
	RangeFrom  int          `json:"range_from"`
	RangeTo    int          `json:"range_to"`
	Rounds     int          `json:"rounds"`
	Flow       []RegionFlow `json:"flow,omitempty"`
	StoreFlows []StoreFlow  `json:"store_flows,omitempty"`
	Events     []StoreEvent `json:"events,omitempty"`
	// RegionEvents: regions change by other means between two Schedule calls of the same scheduler object
	RegionEvents []RegionEvent `json:"region_events,omitempty"`
	Seed       int64        `json:"seed"`
}

var schedTypes = []string{
	"balance-region", "balance-region", "balance-leader", "balance-leader", "hot-region", "hot-region",
	"shuffle-region", "shuffle-region", "shuffle-leader", "shuffle-hot-region", "evict-leader", "grant-leader",
	"label", "scatter-range", "scatter-range",
}

// ---------------------------------------------------------------- generator

func genSchedCase(t *rapid.T) SchedCase {
	var c SchedCase
	c.World = genWorld(t, WorldGen{HealthyBias: 80, TiFlashPct: 20, UnhealthyPeer: 3, OddRegionPct: 8, MaxRegions: 60})
	c.Seed = int64(simkit.IntU(t, 1, 1<<30, "seed"))
	c.Type = simkit.Pick(t, schedTypes, "type")
	c.Rounds = simkit.IntU(t, 1, 10, "rounds")
	c.Events = genStoreEvents(t, len(c.Cluster.Stores), c.Rounds)
	c.RangeTo = -1
	nr := len(c.Regions)
	holds := func(want func(r *simkit.RegionSpec, s uint64) bool) []uint64 {
		var out []uint64
		for _, s := range c.Cluster.StoreIDs() {
			if !c.Cluster.AcceptsLeader(s) || rejectsLeader(&c.Cluster, s) {
				continue // the generator only names stores that accept leaders at configuration time
			}
			for i := range c.Regions {
				if want(&c.Regions[i], s) {
					out = append(out, s)
					break
				}
			}
		}
		return out
	}
	switch c.Type {
	case "evict-leader":
		cand := holds(func(r *simkit.RegionSpec, s uint64) bool { return r.LeaderStore() == s })
		if len(cand) == 0 {
			c.Type = "balance-leader"
			break
		}
		c.Store = simkit.Pick(t, cand, "evictStore")
	case "grant-leader":
		cand := holds(func(r *simkit.RegionSpec, s uint64) bool {
			p := r.PeerOnStore(s)
			return p != nil && p.Role == simkit.Voter && r.LeaderStore() != s
		})
		if len(cand) == 0 {
			c.Type = "balance-leader"
			break
		}
		c.Store = simkit.Pick(t, cand, "grantStore")
	case "label":
		// make the reject-leader property bite: the property is set and 1-2 stores carry the label
		has := false
		for _, l := range c.Cluster.RejectLeader {
			has = has || (l.Key == "noleader" && l.Value == "true")
		}
		if !has {
			c.Cluster.RejectLeader = append(c.Cluster.RejectLeader, simkit.Label{Key: "noleader", Value: "true"})
		}
		n := simkit.IntU(t, 1, 2, "nNoLeader")
		for _, i := range rapid.Permutation(idx(len(c.Cluster.Stores))).Draw(t, "noLeaderStores")[:n] {
			if c.Cluster.Stores[i].Label("noleader") == "" {
				c.Cluster.Stores[i].Labels = append(c.Cluster.Stores[i].Labels, simkit.Label{Key: "noleader", Value: "true"})
			}
		}
	case "hot-region", "shuffle-hot-region":
		n := simkit.IntU(t, 2, min(nr, 12), "nHot")
		for _, i := range rapid.Permutation(idx(nr)).Draw(t, "hotRegions")[:n] {
			c.Flow = append(c.Flow, RegionFlow{Region: i, Kind: simkit.Pick(t, []string{"read", "write"}, "flowKind"),
				KBps: simkit.Pick(t, []int{64, 512, 1024, 2048, 8192}, "kbps"), KeysPS: simkit.Pick(t, []int{0, 100, 5000, 50000}, "keys")})
		}
		for _, s := range c.Cluster.StoreIDs() {
			c.StoreFlows = append(c.StoreFlows, StoreFlow{Store: s,
				ReadKBps:  simkit.Pick(t, []int{0, 100, 1024, 5000, 10000, 30000}, "storeRead"),
				WriteKBps: simkit.Pick(t, []int{0, 100, 1024, 5000, 10000, 30000}, "storeWrite")})
		}
	}
	switch c.Type {
	case "scatter-range":
		c.RangeFrom = simkit.IntU(t, 0, nr-1, "rangeFrom")
		c.RangeTo = simkit.IntU(t, c.RangeFrom, nr-1, "rangeTo")
		if simkit.Pct(t, 40, "wholeRange") {
			c.RangeFrom, c.RangeTo = 0, -1
		}
	case "balance-region", "balance-leader", "shuffle-region", "shuffle-leader", "label":
		if simkit.Pct(t, 20, "subRange") {
			c.RangeFrom = simkit.IntU(t, 0, nr-1, "rangeFrom")
			c.RangeTo = simkit.IntU(t, c.RangeFrom, nr-1, "rangeTo")
		}
	}
	c.RegionEvents = genRegionEvents(t, len(c.Cluster.Stores), nr, c.Rounds)
	// "an attractive target is busy at first": a healthy ordinary store is busy while the scheduler is used
	// for the first time(s); later it recovers and, at the same moment, peers of several regions have moved
	// onto it by other means. Then the same scheduler object runs again.
	if (c.Type == "scatter-range" && simkit.Pct(t, 60, "busyTarget")) || (c.Type != "scatter-range" && simkit.Pct(t, 8, "busyTargetAny")) {
		var cand []int
		for i := range c.Cluster.Stores {
			s := &c.Cluster.Stores[i]
			if c.Cluster.AcceptsPeer(s.ID) && !s.HasExclusiveLabel() {
				cand = append(cand, i)
			}
		}
		if len(cand) > 0 {
			ti := simkit.Pick(t, cand, "busyTargetStore")
			c.Cluster.Stores[ti].Busy = true
			if c.Rounds < 4 {
				c.Rounds = simkit.IntU(t, 4, 8, "roundsBusyTarget")
			}
			at := simkit.IntU(t, 1, c.Rounds-2, "recoverAt")
			c.Events = append(c.Events, StoreEvent{At: at, Kind: "unbusy", Stores: []int{ti}})
			k := simkit.IntU(t, 2, min(nr, 10), "movedOntoTarget")
			for _, ri := range rapid.Permutation(idx(nr)).Draw(t, "movedRegions")[:k] {
				c.RegionEvents = append(c.RegionEvents, RegionEvent{At: at, Region: ri, Kind: "move",
					Peer: simkit.IntU(t, 0, 5, "movedPeer"), Target: ti})
			}
		}
	}
	return c
}

// args builds the argument list a user would give to `scheduler add`.
func (c *SchedCase) args() []string {
	start, end := "", ""
	if c.RangeTo >= 0 {
		start, end = c.Regions[c.RangeFrom].Start, c.Regions[c.RangeTo].End
	}
	switch c.Type {
	case "evict-leader", "grant-leader":
		return []string{strconv.FormatUint(c.Store, 10)}
	case "scatter-range":
		return []string{start, end, "t"}
	case "hot-region", "shuffle-hot-region":
		return nil
	}
	return []string{start, end}
}

// ---------------------------------------------------------------- runner

type schedStats struct {
	ops, moved, leaderOnly, rounds, legacy, joint int
	handBack                                      bool
	prepareRefused                                bool
	fellSilent, regionEvents                      int
	skippedLeaderless                             bool
}

func runSchedCase(c SchedCase) (vkit.Info, error) {
	var info vkit.Info
	x := &opCtx{c: &c.Cluster, source: c.Type, tolHandBack: vkit.Known(keyHandBack)}
	if c.Type == "grant-leader" {
		x.grantStore = c.Store
	}
	var first *schedStats
	handBack := false
	for rep := 0; rep < reps; rep++ {
		st, err := runSchedOnce(&c, x, rep)
		if err == errUnsound {
			info.Inconclusive = true
			return info, nil
		}
		if err != nil {
			return info, fmt.Errorf("execution %d of %d: %v", rep+1, reps, err)
		}
		if rep == 0 {
			first = st
		}
		handBack = handBack || st.handBack
	}
	info.NonTrivial = first.ops >= 1
	info.Class("type:" + c.Type)
	info.ClassIf(first.ops > 0, "operator")
	info.ClassIf(first.ops > 0, "operator:"+c.Type)
	info.ClassIf(first.moved > 0, "operator:moves-peer")
	info.ClassIf(first.leaderOnly > 0, "operator:leader-only")
	info.ClassIf(first.ops >= 3, "operators>=3")
	info.ClassIf(first.fellSilent > 0, "store-fell-silent-after-first-use")
	info.ClassIf(len(c.Events) > 0, "store-event")
	info.ClassIf(first.regionEvents > 0, "region-changed-behind-the-scheduler")
	info.ClassIf(first.regionEvents > 0 && first.ops > 0, "region-changed-behind-the-scheduler:"+c.Type)
	info.ClassIf(first.legacy > 0, "operator:without-joint-consensus")
	info.ClassIf(first.joint > 0, "operator:joint-consensus")
	info.ClassIf(first.prepareRefused, "prepare-refused")
	info.ClassIf(c.Cluster.PlacementRules, "placement-rules")
	info.ClassIf(c.TiFlashLearners > 0, "tiflash-rule")
	info.ClassIf(c.RangeTo >= 0, "key-range")
	info.ClassIf(len(c.Cluster.RejectLeader) > 0, "reject-leader-property")
	info.ClassIf(repeatedRejectKey(&c.Cluster), "reject-leader-property:repeated-key")
	if first.skippedLeaderless {
		info.Exclude(keyHotNilLeader)
		info.Class("excluded:read-flow-on-leaderless-region")
	}
	if handBack {
		info.Exclude(keyHandBack)
		info.Class("known-symptom:leader-handed-back")
	}
	return info, nil
}

func feedFlow(l *live, f RegionFlow, id uint64) {
	r := l.sims[id].ToRegionInfo()
	kb := uint64(f.KBps) * 1024
	if f.Kind == "read" {
		iv := uint64(statistics.ReadReportInterval)
		r = r.Clone(core.SetReadBytes(kb*iv), core.SetReadKeys(uint64(f.KeysPS)*iv), core.SetReportInterval(iv))
		for i := 0; i < l.mc.HotCache.GetFilledPeriod(statistics.ReadFlow); i++ {
			for _, item := range l.mc.CheckRegionRead(r) {
				l.mc.HotCache.Update(item)
			}
		}
	} else {
		iv := uint64(statistics.WriteReportInterval)
		r = r.Clone(core.SetWrittenBytes(kb*iv), core.SetWrittenKeys(uint64(f.KeysPS)*iv), core.SetReportInterval(iv))
		for i := 0; i < l.mc.HotCache.GetFilledPeriod(statistics.WriteFlow); i++ {
			for _, item := range l.mc.CheckRegionWrite(r) {
				l.mc.HotCache.Update(item)
			}
		}
	}
	l.mc.PutRegion(r)
}

func runSchedOnce(c *SchedCase, x *opCtx, rep int) (*schedStats, error) {
	rand.Seed(c.Seed + int64(rep))
	l, err := build(&c.World)
	if err != nil {
		return nil, err
	}
	defer l.cancel()
	st := &schedStats{}
	xx := *x
	xx.c = &l.spec // the oracle follows the store events of this execution
	x = &xx
	if len(c.Flow) > 0 {
		l.mc.SetHotRegionCacheHitsThreshold(0)
		for _, sf := range c.StoreFlows {
			l.mc.UpdateStorageReadBytes(sf.Store, uint64(sf.ReadKBps)*1024*statistics.StoreHeartBeatReportInterval)
			l.mc.UpdateStorageWrittenBytes(sf.Store, uint64(sf.WriteKBps)*1024*statistics.StoreHeartBeatReportInterval)
		}
		for _, f := range c.Flow {
			r := &c.Regions[f.Region%len(c.Regions)]
			if f.Kind == "read" && r.Leader < 0 && vkit.Known(keyHotNilLeader) {
				st.skippedLeaderless = true // known: the hot scheduler dereferences the nil leader
				continue
			}
			feedFlow(l, f, r.ID)
		}
	}
	oc := schedule.NewOperatorController(l.ctx, l.mc, nil)
	s, err := schedule.CreateScheduler(c.Type, oc, core.NewStorage(kv.NewMemoryKV()), schedule.ConfigSliceDecoder(c.Type, c.args()))
	if err != nil {
		return nil, fmt.Errorf("fixture: CreateScheduler(%s, %v): %v", c.Type, c.args(), err)
	}
	if err := s.Prepare(l.mc); err != nil {
		st.prepareRefused = true
		return st, nil
	}
	defer s.Cleanup(l.mc)
	for round := 0; round < c.Rounds; round++ {
		if round >= 1 {
			st.fellSilent += l.applyEvents(c.Events, round)
			n, err := l.applyRegionEvents(c.RegionEvents, round)
			if err != nil {
				return nil, err
			}
			st.regionEvents += n
		}
		if !s.IsScheduleAllowed(l.mc) {
			break
		}
		st.rounds++
		ops := s.Schedule(l.mc)
		for _, op := range ops {
			if op == nil {
				return nil, fmt.Errorf("round %d: %s returned a nil operator", round, c.Type)
			}
			sim := l.sims[op.RegionID()]
			if sim == nil {
				return nil, fmt.Errorf("round %d: %s returned an operator for region %d which does not exist", round, c.Type, op.RegionID())
			}
			if c.Type == "evict-leader" || c.Type == "grant-leader" {
				if err := adminShape(c, sim, op); err != nil {
					return nil, fmt.Errorf("round %d: %v", round, err)
				}
			}
			f, err := execOperator(x, sim, op)
			if err != nil {
				return nil, fmt.Errorf("round %d: %v", round, err)
			}
			l.mc.PutRegion(sim.ToRegionInfo())
			st.ops++
			if len(f.added) > 0 || len(f.removed) > 0 {
				st.moved++
				if f.joint {
					st.joint++
				} else {
					st.legacy++
				}
			} else if f.leaderMoved {
				st.leaderOnly++
			}
			st.handBack = st.handBack || f.handBack
		}
	}
	return st, nil
}

// adminShape: the two administrative schedulers only move leaders, away from
// (evict-leader) or onto (grant-leader) the store named in their configuration.
func adminShape(c *SchedCase, sim *simkit.Region, op *operator.Operator) error {
	for i := 0; i < op.Len(); i++ {
		tl, ok := op.Step(i).(operator.TransferLeader)
		if !ok {
			return fmt.Errorf("%s operator %s contains a step that is not a leader transfer", c.Type, describe(op))
		}
		if c.Type == "grant-leader" && tl.ToStore != c.Store {
			return fmt.Errorf("grant-leader for store %d transfers a leader to store %d: %s", c.Store, tl.ToStore, describe(op))
		}
		if c.Type == "evict-leader" && (sim.LeaderStore() != c.Store || tl.ToStore == c.Store) {
			return fmt.Errorf("evict-leader for store %d moves the leader of region %s: %s", c.Store, sim, describe(op))
		}
	}
	return nil
}

// ---------------------------------------------------------------- known finding probe

// TestFinding_leader_handed_back: joint consensus unsupported, store 1 Offline
// and leader of the region with voters {1,2} (max-replicas 2); shuffle-region
// moves the peer on store 2 to store 3: "transfer leader 1->2, add 3, promote 3,
// transfer leader 2->1, remove 2, ...": leadership goes back to the Offline store.
func TestFinding_leader_handed_back(t *testing.T) {
	c := SchedCase{Type: "shuffle-region", Rounds: 1, RangeTo: -1, Seed: 1}
	c.Cluster = simkit.ClusterSpec{Stores: upStores(3), MaxReplicas: 2, JointSupported: false}
	c.Cluster.Stores[0].State = simkit.StateOffline
	c.Regions = []simkit.RegionSpec{voters(100, 0, 1, 2)}
	c.Cluster.ReserveIDs(c.Regions...)
	x := &opCtx{c: &c.Cluster, source: c.Type}
	reproduced, detail := false, ""
	for rep := 0; rep < 40 && !reproduced; rep++ {
		_, err := runSchedOnce(&c, x, rep)
		if err == nil {
			continue
		}
		detail = err.Error()
		reproduced = strings.Contains(detail, "transfers the leader to store 1 which does not accept leaders (offline)") &&
			strings.Contains(detail, "the leader was on store 1 when the operator was created")
	}
	if detail == "" {
		detail = "no operator handed the leader back to the Offline store in 40 executions"
	}
	vkit.Finding(t, keyHandBack, reproduced, detail)
}

// TestFinding_hot_region_nil_leader: a region without leader in pd's cache (as
// loaded from storage after a pd leader change, before its first heartbeat) is
// reported read-hot by store heartbeats; the hot-region scheduler, balancing
// read flow by moving a peer, evaluates region.GetLeader().StoreId and panics.
func TestFinding_hot_region_nil_leader(t *testing.T) {
	c := SchedCase{Type: "hot-region", Rounds: 4, RangeTo: -1, Seed: 1}
	c.Cluster = simkit.ClusterSpec{Stores: upStores(4), MaxReplicas: 3, JointSupported: true, UseJoint: true}
	for i := 0; i < 4; i++ {
		r := voters(100+uint64(i)*100, -1, 1, 2, 3)
		if i > 0 {
			r.Start = fmt.Sprintf("k%04d", i)
		}
		if i < 3 {
			r.End = fmt.Sprintf("k%04d", i+1)
		}
		c.Regions = append(c.Regions, r)
		c.Flow = append(c.Flow, RegionFlow{Region: i, Kind: "read", KBps: 2048, KeysPS: 5000})
	}
	c.StoreFlows = []StoreFlow{{Store: 1, ReadKBps: 30000}, {Store: 2, ReadKBps: 30000}, {Store: 3, ReadKBps: 30000}, {Store: 4, ReadKBps: 100}}
	c.Cluster.ReserveIDs(c.Regions...)
	x := &opCtx{c: &c.Cluster, source: c.Type}
	reproduced, detail := false, "no panic in 20 executions (the scheduler picks read or write at random)"
	for rep := 0; rep < 20 && !reproduced; rep++ {
		func() {
			defer func() {
				if r := recover(); r != nil {
					reproduced = true
					detail = fmt.Sprintf("hotScheduler.Schedule panics: %v", r)
				}
			}()
			saved := os.Getenv("VERIF_KNOWN")
			os.Setenv("VERIF_KNOWN", "")
			defer os.Setenv("VERIF_KNOWN", saved)
			if _, err := runSchedOnce(&c, x, rep); err != nil {
				detail = "fails differently: " + err.Error()
			}
		}()
	}
	vkit.Finding(t, keyHotNilLeader, reproduced, detail)
}
