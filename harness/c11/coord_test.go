package c11

// Property "coord": the pause flag that evict-leader and grant-leader share per
// store stays consistent with the set of REGISTERED schedulers under programs of
// scheduler admin operations that go through the real path
// (server.Handler.Add*Scheduler / RemoveScheduler -> RaftCluster.AddScheduler ->
// coordinator.addScheduler on a live, bootstrapped 1-member server), including
// refused requests (evict + grant for one store, unknown store, duplicate name,
// removal of an absent scheduler).
//
// Oracle after every admin operation (model = which schedulers are registered
// and which store each of evict-leader / grant-leader lists):
//
//	for every store S   rc.GetStore(S).AllowLeaderTransfer() == (no registered
//	                    evict-leader / grant-leader scheduler lists S)
//	afterwards          operators of a shuffle-leader and a balance-leader scheduler
//	                    object created over the live cluster (Schedule(rc)) never
//	                    transfer a leader to a store the model says is paused
//	                    (every store of the fixture is Up, connected and unlabelled,
//	                    so "accepts leaders" is exactly "not paused")
//
// The outcome (accepted / refused) of evict-leader / grant-leader requests is
// compared with the model as well.

import (
	"encoding/json"
	"fmt"
	"math/rand"
	"net/http"
	"net/http/httptest"
	"strconv"
	"strings"
	"sync"
	"time"

	"github.com/pingcap/kvproto/pkg/metapb"
	"github.com/pingcap/kvproto/pkg/pdpb"
	"github.com/tikv/pd/server/cluster"
	"github.com/tikv/pd/server/core"
	"github.com/tikv/pd/server/kv"
	"github.com/tikv/pd/server/schedule"
	"github.com/tikv/pd/server/schedule/operator"
	"pdverif/livesrv"
	"pdverif/simkit"
	"pdverif/vkit"
	"pgregory.net/rapid"
)

const (
	coordStores   = 6  // stores 1..6 are registered once per process
	coordRegions  = 30 // fixed key ranges, peers and leaders are set per case
	unknownStore  = 99
	evictName     = "evict-leader-scheduler"
	grantName     = "grant-leader-scheduler"
	settleTimeout = 5 * time.Second
)

func init() {
	vkit.Register("coord", vkit.N{Quick: 240, Thorough: 4000}, genCoordCase, runCoordCase)
}

// AdminOp is one scheduler admin operation.
type AdminOp struct {
	// evict | grant   Handler.AddEvictLeaderScheduler / AddGrantLeaderScheduler(Store)
	// add | remove    Handler.AddScheduler(Name type) / RemoveScheduler(Name)
	// cfgAdd | cfgDel POST /config {store_id} / DELETE /delete/{store} on the config handler of the running
	//                 Sched (evict|grant) scheduler, what the HTTP API does once the scheduler exists; cfgAdd on a
	//                 scheduler that is not running is the plain add, cfgDel is skipped then
	Op    string `json:"op"`
	Store uint64 `json:"store,omitempty"`
	Name  string `json:"name,omitempty"`
	Sched string `json:"sched,omitempty"`
	// Fail n > 0: the n-th storage write (save/remove) issued by the handler call fails (cfgAdd, cfgDel)
	Fail int `json:"fail,omitempty"`
}

// CoordCase is a program of admin operations on a cluster of Stores stores.
type CoordCase struct {
	Stores int `json:"stores"` // 3..6: the stores that hold regions and are named by the program
	// Peers[i] = the three stores (1-based) of region i, Leaders[i] = index of the leader among them
	Peers   [][3]int  `json:"peers"`
	Leaders []int     `json:"leaders"`
	Ops     []AdminOp `json:"ops"`
	Seed    int64     `json:"seed"`
}

var addTypes = []string{"shuffle-leader", "shuffle-region", "balance-leader"}
var removable = []string{evictName, grantName, "shuffle-leader-scheduler", "shuffle-region-scheduler", "balance-leader-scheduler"}

func genCoordCase(t *rapid.T) CoordCase {
	var c CoordCase
	c.Stores = simkit.IntU(t, 3, coordStores, "stores")
	c.Seed = int64(simkit.IntU(t, 1, 1<<30, "seed"))
	// leaders are skewed towards one store so that balance-leader has something to do
	heavy := simkit.IntU(t, 1, c.Stores, "heavyStore")
	for i := 0; i < coordRegions; i++ {
		perm := rapid.Permutation(idx(c.Stores)).Draw(t, "regionStores")[:3]
		p := [3]int{perm[0] + 1, perm[1] + 1, perm[2] + 1}
		l := simkit.IntU(t, 0, 2, "leader")
		for j := range p {
			if p[j] == heavy && simkit.Pct(t, 70, "heavyLeads") {
				l = j
			}
		}
		c.Peers = append(c.Peers, p)
		c.Leaders = append(c.Leaders, l)
	}
	// the program keeps coming back to one store: evict and grant for the same store is the interesting clash
	focus := uint64(simkit.IntU(t, 1, c.Stores, "focusStore"))
	store := func() uint64 {
		switch k := simkit.IntU(t, 0, 99, "storeKind"); {
		case k < 60:
			return focus
		case k < 92:
			return uint64(simkit.IntU(t, 1, c.Stores, "anyStore"))
		default:
			return unknownStore
		}
	}
	// a rough running model (every request assumed to do what it asks for) steers deletes towards stores
	// that are probably listed, so that the handlers' delete and delete-last paths are reached often
	lists := map[string]map[uint64]bool{"evict": {}, "grant": {}}
	running := func() []string {
		var out []string
		for _, k := range []string{"evict", "grant"} {
			if len(lists[k]) > 0 {
				out = append(out, k)
			}
		}
		return out
	}
	n := simkit.IntU(t, 2, 10, "nOps")
	for i := 0; i < n; i++ {
		fail := func() int {
			if simkit.Pct(t, 40, "noFault") {
				return 0
			}
			return simkit.IntU(t, 1, 3, "failNth")
		}
		switch k := simkit.IntU(t, 0, 99, "opKind"); {
		case k < 14:
			op := AdminOp{Op: "evict", Store: store()}
			if len(lists["evict"]) == 0 && op.Store != unknownStore && !lists["grant"][op.Store] {
				lists["evict"][op.Store] = true
			}
			c.Ops = append(c.Ops, op)
		case k < 28:
			op := AdminOp{Op: "grant", Store: store()}
			if len(lists["grant"]) == 0 && op.Store != unknownStore && !lists["evict"][op.Store] {
				lists["grant"][op.Store] = true
			}
			c.Ops = append(c.Ops, op)
		case k < 46:
			op := AdminOp{Op: "cfgAdd", Sched: simkit.Pick(t, []string{"evict", "grant"}, "sched"), Store: store(), Fail: fail()}
			other := "grant"
			if op.Sched == "grant" {
				other = "evict"
			}
			if op.Fail == 0 && op.Store != unknownStore && !lists[other][op.Store] {
				lists[op.Sched][op.Store] = true
			}
			c.Ops = append(c.Ops, op)
		case k < 68:
			op := AdminOp{Op: "cfgDel", Sched: simkit.Pick(t, []string{"evict", "grant"}, "sched"), Store: store(), Fail: fail()}
			if rs := running(); len(rs) > 0 && simkit.Pct(t, 85, "delListed") {
				op.Sched = simkit.Pick(t, rs, "delSched")
				var ids []uint64
				for id := uint64(1); id <= coordStores; id++ {
					if lists[op.Sched][id] {
						ids = append(ids, id)
					}
				}
				op.Store = simkit.Pick(t, ids, "delStore")
			}
			if op.Fail == 0 {
				delete(lists[op.Sched], op.Store)
			}
			c.Ops = append(c.Ops, op)
		case k < 78:
			c.Ops = append(c.Ops, AdminOp{Op: "add", Name: simkit.Pick(t, addTypes, "addType")})
		default:
			op := AdminOp{Op: "remove", Name: simkit.Pick(t, removable, "removeName")}
			switch op.Name {
			case evictName:
				lists["evict"] = map[uint64]bool{}
			case grantName:
				lists["grant"] = map[uint64]bool{}
			}
			c.Ops = append(c.Ops, op)
		}
	}
	return c
}

// ---------------------------------------------------------------- fixture

var (
	coordOnce  sync.Once
	coordEpoch uint64 = 10 // conf_ver of the next round of region heartbeats (per process, only has to grow)
	coordMovers []schedule.Scheduler
)

func coordSetup(fx *livesrv.Fixture) {
	rc := fx.Svr.GetRaftCluster()
	for id := uint64(2); id <= coordStores; id++ {
		if err := rc.PutStore(&metapb.Store{Id: id, Address: fmt.Sprintf("mock://c11-%d", id), State: metapb.StoreState_Up}); err != nil {
			livesrv.Fatal(fmt.Sprintf("C11 coord: cannot register store %d: %v", id, err))
		}
	}
}

func regionKeys(i int) (start, end []byte) {
	if i > 0 {
		start = []byte(fmt.Sprintf("c%04d", i))
	}
	if i < coordRegions-1 {
		end = []byte(fmt.Sprintf("c%04d", i+1))
	}
	return
}

// loadCluster reports fresh store heartbeats and the case's regions.
func loadCluster(rc *cluster.RaftCluster, c *CoordCase) error {
	for id := uint64(1); id <= coordStores; id++ {
		if err := rc.HandleStoreHeartbeat(&pdpb.StoreStats{StoreId: id, Capacity: 100 << 30, Available: 80 << 30, UsedSize: 10 << 30}); err != nil {
			return fmt.Errorf("store heartbeat %d: %v", id, err)
		}
	}
	coordEpoch++
	for i := 0; i < coordRegions; i++ {
		start, end := regionKeys(i)
		// region ids 1000.. ; the bootstrap region (id 2) is overlapped away by the first round
		m := &metapb.Region{Id: 1000 + uint64(i), StartKey: start, EndKey: end,
			RegionEpoch: &metapb.RegionEpoch{Version: 5, ConfVer: coordEpoch}}
		for j, s := range c.Peers[i] {
			m.Peers = append(m.Peers, &metapb.Peer{Id: 100000 + coordEpoch*1000 + uint64(i)*10 + uint64(j), StoreId: uint64(s), Role: metapb.PeerRole_Voter})
		}
		r := core.NewRegionInfo(m, m.Peers[c.Leaders[i]%3], core.SetApproximateSize(10), core.SetApproximateKeys(10000))
		if err := rc.HandleRegionHeartbeat(r); err != nil {
			return fmt.Errorf("region heartbeat %d: %v", m.Id, err)
		}
	}
	return nil
}

// model of the registered schedulers
type coordModel struct {
	registered map[string]bool
	evict      map[uint64]bool // stores listed by the registered evict-leader scheduler
	grant      map[uint64]bool
}

func (m *coordModel) paused(s uint64) bool { return m.evict[s] || m.grant[s] }

func hasScheduler(rc *cluster.RaftCluster, name string) bool {
	for _, n := range rc.GetSchedulers() {
		if n == name {
			return true
		}
	}
	return false
}

// settle waits until the pause flags agree with the model (a removed scheduler
// resumes its stores from its own goroutine). It returns a description of the
// first disagreement that is left.
func settle(rc *cluster.RaftCluster, m *coordModel, wait bool) string {
	deadline := time.Now().Add(settleTimeout)
	for {
		bad := ""
		for s := uint64(1); s <= coordStores; s++ {
			st := rc.GetStore(s)
			if st == nil {
				return fmt.Sprintf("store %d disappeared", s)
			}
			if st.AllowLeaderTransfer() == m.paused(s) {
				if m.paused(s) {
					bad = fmt.Sprintf("store %d accepts leader transfers although a registered scheduler pauses it (evict-leader lists %v, grant-leader lists %v)",
						s, sortedU64(m.evict), sortedU64(m.grant))
				} else {
					bad = fmt.Sprintf("store %d has leader transfer paused although no registered evict-leader/grant-leader scheduler lists it (evict-leader lists %v, grant-leader lists %v)",
						s, sortedU64(m.evict), sortedU64(m.grant))
				}
				break
			}
		}
		if bad == "" || !wait || time.Now().After(deadline) {
			return bad
		}
		time.Sleep(5 * time.Millisecond)
	}
}

// callHandler sends one request to a scheduler's config handler.
func callHandler(h http.Handler, method, path, body string) (int, string) {
	req := httptest.NewRequest(method, path, strings.NewReader(body))
	rec := httptest.NewRecorder()
	h.ServeHTTP(rec, req)
	return rec.Code, strings.TrimSpace(rec.Body.String())
}

// listed reads the stores a RUNNING evict-leader / grant-leader scheduler lists (GET /list of its handler).
func listed(rc *cluster.RaftCluster, name string) (bool, map[uint64]bool, error) {
	out := map[uint64]bool{}
	if !hasScheduler(rc, name) {
		return false, out, nil
	}
	h := rc.GetSchedulerHandlers()[name]
	if h == nil {
		return true, out, fmt.Errorf("%s is registered but has no handler", name)
	}
	code, body := callHandler(h, "GET", "/list", "")
	var v struct {
		Stores map[string]json.RawMessage `json:"store-id-ranges"`
	}
	if code != 200 || json.Unmarshal([]byte(body), &v) != nil {
		return true, out, fmt.Errorf("GET /list of %s answered %d %s", name, code, body)
	}
	for k := range v.Stores {
		id, err := strconv.ParseUint(k, 10, 64)
		if err != nil {
			return true, out, fmt.Errorf("GET /list of %s: bad store id %q", name, k)
		}
		out[id] = true
	}
	return true, out, nil
}

func sameSet(a, b map[uint64]bool) bool {
	if len(a) != len(b) {
		return false
	}
	for k := range a {
		if !b[k] {
			return false
		}
	}
	return true
}

func runCoordCase(c CoordCase) (vkit.Info, error) {
	var info vkit.Info
	if c.Stores < 3 || c.Stores > coordStores || len(c.Peers) != coordRegions || len(c.Leaders) != coordRegions {
		info.Inconclusive = true
		return info, nil
	}
	for _, p := range c.Peers {
		if p[0] == p[1] || p[0] == p[2] || p[1] == p[2] || p[0] < 1 || p[1] < 1 || p[2] < 1 || p[0] > c.Stores || p[1] > c.Stores || p[2] > c.Stores {
			info.Inconclusive = true
			return info, nil
		}
	}
	fx := livesrv.MustGet()
	if !fx.Healthy() {
		livesrv.Fatal("C11 coord: server lost leadership / cluster stopped")
	}
	coordOnce.Do(func() { coordSetup(fx) })
	rc := fx.Svr.GetRaftCluster()
	h := fx.Svr.GetHandler()
	rand.Seed(c.Seed)
	fx.ClusterGate(nil)
	defer fx.ClusterGate(nil)

	// ---- reset: nothing of an earlier case is left
	m := &coordModel{registered: map[string]bool{}, evict: map[uint64]bool{}, grant: map[uint64]bool{}}
	for _, n := range removable {
		if n != "balance-leader-scheduler" && hasScheduler(rc, n) {
			if err := h.RemoveScheduler(n); err != nil {
				livesrv.Fatal(fmt.Sprintf("C11 coord: cannot remove %s while resetting: %v", n, err))
			}
		}
	}
	if !hasScheduler(rc, "balance-leader-scheduler") {
		if err := h.AddBalanceLeaderScheduler(); err != nil {
			livesrv.Fatal(fmt.Sprintf("C11 coord: cannot restore balance-leader while resetting: %v", err))
		}
	}
	m.registered["balance-leader-scheduler"] = true
	if bad := settle(rc, m, true); bad != "" {
		// left over by an earlier (failed) case: the fixture is not clean, force it
		for s := uint64(1); s <= coordStores; s++ {
			rc.ResumeLeaderTransfer(s)
		}
	}
	if err := loadCluster(rc, &c); err != nil {
		livesrv.Fatal("C11 coord: " + err.Error())
	}

	// leader movers over the live cluster, with their own (empty) operator controller; once per process
	if coordMovers == nil {
		oc := schedule.NewOperatorController(fx.Svr.Context(), rc, nil)
		for _, typ := range []string{"shuffle-leader", "balance-leader"} {
			s, err := schedule.CreateScheduler(typ, oc, core.NewStorage(kv.NewMemoryKV()), schedule.ConfigSliceDecoder(typ, []string{"", ""}))
			if err != nil {
				livesrv.Fatal(fmt.Sprintf("C11 coord: CreateScheduler(%s): %v", typ, err))
			}
			coordMovers = append(coordMovers, s)
		}
	}
	movers := coordMovers

	refused, accepted, clash, transfers, faults, lastDeletes, skipped, halfRemoved := 0, 0, 0, 0, 0, 0, 0, 0
	for i, op := range c.Ops {
		var err error
		wantErr := false
		wait := false
		what := ""
		faulted := false
		if op.Op == "cfgAdd" || op.Op == "cfgDel" {
			name := evictName
			if op.Sched == "grant" {
				name = grantName
			}
			if !m.registered[name] {
				if op.Op == "cfgDel" {
					skipped++
					continue
				}
				op = AdminOp{Op: op.Sched, Store: op.Store} // the API adds the scheduler when it does not exist yet
			}
		}
		switch op.Op {
		case "cfgAdd", "cfgDel":
			name, list := evictName, m.evict
			if op.Sched == "grant" {
				name, list = grantName, m.grant
			}
			hd := rc.GetSchedulerHandlers()[name]
			if hd == nil {
				return info, fmt.Errorf("op %d: %s is registered but has no config handler", i, name)
			}
			writes, fired := 0, false
			if op.Fail > 0 {
				fx.ClusterGate(func(kind, key string) error {
					writes++
					if writes == op.Fail {
						fired = true
						return fmt.Errorf("injected: write %d (%s %s) fails", writes, kind, key)
					}
					return nil
				})
			}
			var code int
			var body string
			if op.Op == "cfgAdd" {
				what = fmt.Sprintf("POST %s/config {store_id: %d}", name, op.Store)
				code, body = callHandler(hd, "POST", "/config", fmt.Sprintf(`{"store_id": %d}`, op.Store))
			} else {
				what = fmt.Sprintf("DELETE %s/delete/%d", name, op.Store)
				code, body = callHandler(hd, "DELETE", fmt.Sprintf("/delete/%d", op.Store), "")
			}
			fx.ClusterGate(nil)
			if fired {
				if op.Op == "cfgDel" && op.Fail >= 2 {
					halfRemoved++ // the scheduler's own config was saved, the removal of the scheduler failed
				}
				faults++
				faulted = true
				what += fmt.Sprintf(" with write %d of the call failing", op.Fail)
			}
			if code != 200 {
				err = fmt.Errorf("HTTP %d %s", code, body)
			}
			if !faulted {
				known := op.Store >= 1 && op.Store <= coordStores
				wantCode := 200
				if op.Op == "cfgAdd" {
					if !(list[op.Store] || (known && !m.paused(op.Store))) {
						wantCode = 500
					} else {
						list[op.Store] = true
					}
				} else {
					if !list[op.Store] {
						wantCode = 404
					} else {
						delete(list, op.Store)
						if len(list) == 0 {
							delete(m.registered, name) // the last store: the scheduler removes itself
							lastDeletes++
						}
					}
				}
				if code != wantCode {
					return info, fmt.Errorf("op %d (%s): answered %d %s, the model expects %d (evict-leader lists %v, grant-leader lists %v)",
						i, what, code, body, wantCode, sortedU64(m.evict), sortedU64(m.grant))
				}
			}
		case "evict", "grant":
			name, list, other := evictName, m.evict, m.grant
			if op.Op == "grant" {
				name, list, other = grantName, m.grant, m.evict
			}
			what = fmt.Sprintf("add %s for store %d", name, op.Store)
			known := op.Store >= 1 && op.Store <= coordStores
			// refused: the name is registered already; the store is unknown; the store is paused by the other scheduler
			wantErr = m.registered[name] || !known || other[op.Store]
			if !m.registered[name] && known && other[op.Store] {
				clash++
			}
			if op.Op == "evict" {
				err = h.AddEvictLeaderScheduler(op.Store)
			} else {
				err = h.AddGrantLeaderScheduler(op.Store)
			}
			if !wantErr {
				m.registered[name] = true
				list[op.Store] = true
			}
			if (err != nil) != wantErr {
				return info, fmt.Errorf("op %d (%s): answered %v, the model expects refused=%v (registered %v, evict-leader lists %v, grant-leader lists %v)",
					i, what, err, wantErr, m.registered, sortedU64(m.evict), sortedU64(m.grant))
			}
		case "add":
			what = "add " + op.Name
			err = h.AddScheduler(op.Name)
			if err == nil {
				m.registered[op.Name+"-scheduler"] = true
			}
		case "remove":
			what = "remove " + op.Name
			err = h.RemoveScheduler(op.Name)
			wait = true
			if (op.Name == evictName || op.Name == grantName) && (err != nil) == m.registered[op.Name] {
				return info, fmt.Errorf("op %d (%s): answered %v, the model says registered=%v", i, what, err, m.registered[op.Name])
			}
			if err == nil {
				delete(m.registered, op.Name)
				switch op.Name {
				case evictName:
					m.evict = map[uint64]bool{}
				case grantName:
					m.grant = map[uint64]bool{}
				}
			}
		default:
			info.Inconclusive = true
			return info, nil
		}
		if err != nil {
			refused++
		} else {
			accepted++
		}
		// what is registered and which stores the two schedulers list: equal to the model after a call without
		// injected fault; after a half-failed call whatever pd ended up with is taken over (the invariants
		// below must hold in any case)
		for _, n := range []string{evictName, grantName} {
			reg, ls, e := listed(rc, n)
			if e != nil {
				return info, fmt.Errorf("op %d (%s, answered %v): %v", i, what, err, e)
			}
			ml := &m.evict
			if n == grantName {
				ml = &m.grant
			}
			if faulted {
				if reg {
					m.registered[n] = true
				} else {
					delete(m.registered, n)
				}
				*ml = ls
				continue
			}
			if reg != m.registered[n] {
				return info, fmt.Errorf("op %d (%s, answered %v): %s registered=%v, the model says %v", i, what, err, n, reg, m.registered[n])
			}
			if !sameSet(ls, *ml) {
				return info, fmt.Errorf("op %d (%s, answered %v): %s lists stores %v, the model says %v", i, what, err, n, sortedU64(ls), sortedU64(*ml))
			}
		}
		// the pause flags agree with the registered schedulers
		if bad := settle(rc, m, wait); bad != "" {
			if wait && !m.paused(firstPausedMismatch(rc, m)) {
				// a removed scheduler has not resumed its store within the deadline: cannot decide
				info.Inconclusive = true
				return info, nil
			}
			return info, fmt.Errorf("after op %d (%s, answered %v): %s", i, what, err, bad)
		}
		// leader movers never pick a paused store
		for _, mv := range movers {
			for k := 0; k < 4; k++ {
				for _, o := range mv.Schedule(rc) {
					for si := 0; si < o.Len(); si++ {
						if tl, ok := o.Step(si).(operator.TransferLeader); ok {
							transfers++
							if m.paused(tl.ToStore) {
								return info, fmt.Errorf("after op %d (%s, answered %v): %s produced %s: a leader transfer to store %d whose leader transfer is paused by a registered scheduler (evict-leader lists %v, grant-leader lists %v)",
									i, what, err, mv.GetType(), describe(o), tl.ToStore, sortedU64(m.evict), sortedU64(m.grant))
							}
						}
					}
				}
			}
		}
	}
	// leave the fixture clean
	for _, n := range []string{evictName, grantName} {
		if hasScheduler(rc, n) {
			h.RemoveScheduler(n)
		}
	}
	info.NonTrivial = refused >= 1 && (len(m.evict)+len(m.grant) > 0 || clash > 0 || accepted >= 1)
	info.ClassIf(refused > 0, "refused-request")
	info.ClassIf(clash > 0, "evict-and-grant-for-one-store")
	info.ClassIf(transfers > 0, "leader-transfer-planned")
	info.ClassIf(accepted >= 3, "accepted>=3")
	info.ClassIf(faults > 0, "storage-write-failed-in-handler")
	info.ClassIf(lastDeletes > 0, "last-store-deleted")
	info.ClassIf(halfRemoved > 0, "last-store-delete-failed-after-config-saved")
	info.ClassIf(skipped > 0, "op-skipped")
	info.Class(fmt.Sprintf("stores=%d", c.Stores))
	return info, nil
}

// firstPausedMismatch returns a store whose flag disagrees with the model (0 if none).
func firstPausedMismatch(rc *cluster.RaftCluster, m *coordModel) uint64 {
	for s := uint64(1); s <= coordStores; s++ {
		if st := rc.GetStore(s); st != nil && st.AllowLeaderTransfer() == m.paused(s) {
			return s
		}
	}
	return 0
}
