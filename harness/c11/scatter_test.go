package c11

import (
	"fmt"
	"math/rand"
	"strings"
	"sync"
	"testing"

	"github.com/tikv/pd/pkg/mock/mockcluster"
	"github.com/tikv/pd/server/core"
	"github.com/tikv/pd/server/schedule"
	"github.com/tikv/pd/server/schedule/operator"
	"github.com/tikv/pd/server/schedule/opt"
	"pdverif/simkit"
	"pdverif/vkit"
	"pgregory.net/rapid"
)

// ---------------------------------------------------------------- case data

// Call is one call on the region scatterer. Regions are indices into World.Regions.
type Call struct {
	Kind    string `json:"kind"`              // one | byID | byRange | conc (Regions scattered by one goroutine each, joined)
	Region  int    `json:"region"`            // one: the region; byRange: the first region of the range
	Regions []int  `json:"regions,omitempty"` // byID
	Span    int    `json:"span,omitempty"`    // byRange: number of adjacent regions
	Group   int    `json:"group"`
	// Loose: pass the regions as they are. Otherwise the runner drops (byID) /
	// cuts the range before (byRange) regions that Scatter would refuse (not fully
	// replicated, no leader): ScatterRegions sleeps 100 ms whenever a region fails.
	Loose bool `json:"loose,omitempty"`
	// Unknown (byID): also ask for a region id that does not exist.
	Unknown bool `json:"unknown,omitempty"`
	// Nest (one): a complete Scatter of ANOTHER region is served in the middle of this one, at the
	// Index-th call of cluster.GetStores / GetStore the outer Scatter makes (what a concurrent request
	// does, as a pure function of the case).
	Nest *Nest `json:"nest,omitempty"`
}

// Nest is a deterministic interleaving point.
type Nest struct {
	Func   string `json:"func"` // GetStores | GetStore
	Index  int    `json:"index"`
	Region int    `json:"region"`
	Group  int    `json:"group"`
}

// ScatterCase is a scatter history on one RegionScatterer.
type ScatterCase struct {
	World
	Calls  []Call       `json:"calls"`
	Events []StoreEvent `json:"events,omitempty"`
	Seed   int64        `json:"seed"`
}

var groupNames = []string{"t1", "t2", ""}

// ---------------------------------------------------------------- generator

func genScatterCase(t *rapid.T) ScatterCase {
	var c ScatterCase
	c.World = genWorld(t, WorldGen{HealthyBias: 82, TiFlashPct: 35, UnhealthyPeer: 4, OddRegionPct: 8, MaxRegions: 60})
	c.Seed = int64(simkit.IntU(t, 1, 1<<30, "seed"))
	nGroups := simkit.IntU(t, 1, 3, "nGroups")
	nCalls := simkit.IntU(t, 1, 12, "nCalls")
	if simkit.Pct(t, 40, "longHistory") {
		nCalls = simkit.IntU(t, 13, 40, "nCallsLong")
	}
	c.Events = genStoreEvents(t, len(c.Cluster.Stores), nCalls)
	nr := len(c.Regions)
	// a working set: histories that come back to the same regions
	hot := simkit.IntU(t, 1, min(nr, 8), "workingSet")
	pickRegion := func(label string) int {
		if simkit.Pct(t, 60, label+"Hot") {
			return simkit.IntU(t, 0, hot-1, label)
		}
		return simkit.IntU(t, 0, nr-1, label+"Any")
	}
	for i := 0; i < nCalls; i++ {
		call := Call{Group: simkit.IntU(t, 0, nGroups-1, "group")}
		switch k := simkit.IntU(t, 0, 99, "callKind"); {
		case k < 72:
			call.Kind = "one"
			call.Region = pickRegion("region")
			if simkit.Pct(t, 30, "nested") {
				n := &Nest{Func: "GetStores", Region: pickRegion("nestRegion"), Group: simkit.IntU(t, 0, nGroups-1, "nestGroup")}
				if simkit.Pct(t, 65, "nestAtGetStores") {
					n.Index = simkit.IntU(t, 0, 7, "nestIndex")
				} else {
					n.Func, n.Index = "GetStore", simkit.IntU(t, 0, 40, "nestIndexStore")
				}
				call.Nest = n
			}
		case k < 80:
			call.Kind = "conc"
			n := simkit.IntU(t, 2, 6, "nConc")
			for j := 0; j < n; j++ {
				call.Regions = append(call.Regions, pickRegion("concRegion"))
			}
		case k < 92:
			call.Kind = "byID"
			n := simkit.IntU(t, 1, 6, "nIDs")
			for j := 0; j < n; j++ {
				call.Regions = append(call.Regions, pickRegion("idRegion"))
			}
			call.Unknown = simkit.Pct(t, 15, "unknownID")
			call.Loose = simkit.Pct(t, 4, "loose")
		default:
			call.Kind = "byRange"
			call.Region = pickRegion("rangeStart")
			call.Span = simkit.IntU(t, 1, 5, "span")
			call.Loose = simkit.Pct(t, 4, "loose")
		}
		c.Calls = append(c.Calls, call)
	}
	return c
}

// ---------------------------------------------------------------- runner

type scatterStats struct {
	ops, moved, leaderOnly, specialMoved, refused, noop int
	perGroup                                            map[int]int
	collapse, forced, handBack                          bool
	byID, byRange, unknownReported                      bool
	nested, nestMissed, conc, serialised, fellSilent    int
}

// hookCluster is the cluster the scatterer works on: the mock cluster, plus a
// one-shot action at the n-th call of GetStores or GetStore (deterministic
// interleaving of a second request).
type hookCluster struct {
	*mockcluster.Cluster
	fn     string
	at, n  int
	action func()
}

func (h *hookCluster) tick(fn string) {
	if h.action == nil || h.fn != fn {
		return
	}
	if h.n == h.at {
		a := h.action
		h.action = nil
		a()
		return
	}
	h.n++
}

func (h *hookCluster) GetStores() []*core.StoreInfo { h.tick("GetStores"); return h.Cluster.GetStores() }
func (h *hookCluster) GetStore(id uint64) *core.StoreInfo {
	h.tick("GetStore")
	return h.Cluster.GetStore(id)
}

func runScatterCase(c ScatterCase) (vkit.Info, error) {
	var info vkit.Info
	x := &opCtx{c: &c.Cluster, source: "scatter",
		tolCollapse: vkit.Known(keyCollapse), tolForced: vkit.Known(keyForcedLeader), tolHandBack: vkit.Known(keyHandBack)}
	var first *scatterStats
	collapse, forced, handBack := false, false, false
	for rep := 0; rep < reps; rep++ {
		st, err := runScatterOnce(&c, x, rep)
		if err == errUnsound {
			info.Inconclusive = true
			return info, nil
		}
		if err != nil {
			return info, fmt.Errorf("execution %d of %d: %v", rep+1, reps, err)
		}
		if rep == 0 {
			first = st
		}
		collapse = collapse || st.collapse
		forced = forced || st.forced
		handBack = handBack || st.handBack
	}
	for g, n := range first.perGroup {
		_ = g
		if n >= 2 {
			info.NonTrivial = true
		}
	}
	info.ClassIf(first.ops > 0, "operator")
	info.ClassIf(first.moved > 0, "operator:moves-peer")
	info.ClassIf(first.leaderOnly > 0, "operator:leader-only")
	info.ClassIf(first.specialMoved > 0, "operator:moves-special-engine-peer")
	info.ClassIf(first.ops >= 5, "operators>=5")
	info.ClassIf(first.refused > 0, "scatter-refused")
	info.ClassIf(first.noop > 0, "scatter-no-change")
	info.ClassIf(first.byID, "ScatterRegionsByID")
	info.ClassIf(first.byRange, "ScatterRegionsByRange")
	info.ClassIf(first.unknownReported, "unknown-region-reported")
	info.ClassIf(first.fellSilent > 0, "store-fell-silent-after-first-use")
	info.ClassIf(len(c.Events) > 0, "store-event")
	info.ClassIf(first.nested > 0, "nested-scatter-inside-scatter")
	info.ClassIf(first.nestMissed > 0, "nest-point-not-reached")
	info.ClassIf(first.conc > 0, "concurrent-scatter-goroutines")
	if first.serialised > 0 {
		info.Exclude(keyEngineMap)
		info.Class("excluded:special-engine-region-serialised")
	}
	info.ClassIf(len(first.perGroup) >= 2, "groups>=2")
	info.ClassIf(len(c.Calls) >= 13, "calls>=13")
	info.ClassIf(c.Cluster.PlacementRules, "placement-rules")
	info.ClassIf(c.TiFlashLearners > 0, "tiflash-rule")
	info.ClassIf(!c.Cluster.JointSupported, "nojoint-support")
	info.ClassIf(len(c.Cluster.RejectLeader) > 0, "reject-leader-property")
	info.ClassIf(repeatedRejectKey(&c.Cluster), "reject-leader-property:repeated-key")
	hasFlash := false
	for i := range c.Cluster.Stores {
		hasFlash = hasFlash || isTiFlash(&c.Cluster.Stores[i])
	}
	info.ClassIf(hasFlash, "special-engine-store")
	if collapse {
		info.Exclude(keyCollapse)
		info.Class("known-symptom:scatter-collapses-peers")
	}
	if handBack {
		info.Exclude(keyHandBack)
		info.Class("known-symptom:leader-handed-back")
	}
	if forced {
		info.Exclude(keyForcedLeader)
		info.Class("known-symptom:forced-leader")
	}
	return info, nil
}

func scatterable(l *live, r *core.RegionInfo) bool {
	return r != nil && r.GetLeader() != nil && opt.IsRegionReplicated(l.mc, r)
}

func runScatterOnce(c *ScatterCase, x *opCtx, rep int) (*scatterStats, error) {
	rand.Seed(c.Seed + int64(rep))
	l, err := build(&c.World)
	if err != nil {
		return nil, err
	}
	defer l.cancel()
	st := &scatterStats{perGroup: map[int]int{}}
	xx := *x
	xx.c = &l.spec // the oracle follows the store events of this execution
	x = &xx
	hc := &hookCluster{Cluster: l.mc}
	sc := schedule.NewRegionScatterer(l.ctx, hc)
	engineMapKnown := vkit.Known(keyEngineMap)
	nr := len(c.Regions)
	rid := func(i int) uint64 { return c.Regions[((i%nr)+nr)%nr].ID }

	apply := func(ci int, op *operator.Operator, asked map[uint64]bool, done map[uint64]bool) error {
		id := op.RegionID()
		if !asked[id] {
			return fmt.Errorf("call %d: operator %s is for region %d which was not asked for", ci, describe(op), id)
		}
		if done[id] {
			return fmt.Errorf("call %d: two operators for region %d in one call", ci, id)
		}
		done[id] = true
		sim := l.sims[id]
		hadSpecial := map[uint64]bool{}
		for _, p := range sim.Peers {
			if s := c.Cluster.Store(p.Store); s != nil && isTiFlash(s) {
				hadSpecial[p.Store] = true
			}
		}
		f, err := execOperator(x, sim, op)
		if err != nil {
			return fmt.Errorf("call %d: %v", ci, err)
		}
		l.mc.PutRegion(sim.ToRegionInfo())
		st.ops++
		if len(f.added) > 0 || len(f.removed) > 0 {
			st.moved++
		} else if f.leaderMoved {
			st.leaderOnly++
		}
		for _, s := range f.removed {
			if hadSpecial[s] {
				st.specialMoved++
			}
		}
		st.collapse = st.collapse || f.collapse
		st.forced = st.forced || f.forced
		st.handBack = st.handBack || f.handBack
		return nil
	}

	for ci, call := range c.Calls {
		if ci >= 1 {
			st.fellSilent += l.applyEvents(c.Events, ci)
		}
		group := groupNames[call.Group%len(groupNames)]
		switch call.Kind {
		case "conc":
			// one goroutine per region on the same scatterer, joined before anything is judged
			asked := map[uint64]bool{}
			var par, ser []*core.RegionInfo
			for _, i := range call.Regions {
				id := rid(i)
				r := l.mc.GetRegion(id)
				if asked[id] || !scatterable(l, r) {
					continue // (a refused Scatter writes the mock cluster's unsynchronised suspect-region map)
				}
				asked[id] = true
				special := false
				for _, p := range r.GetPeers() {
					if sp := c.Cluster.Store(p.GetStoreId()); sp != nil && sp.Label(engineKey) != "" {
						special = true
					}
				}
				if special && engineMapKnown {
					ser = append(ser, r) // known: the scatterer's engine-context map is not synchronised
				} else {
					par = append(par, r)
				}
			}
			type res struct {
				op  *operator.Operator
				err error
				pan interface{}
			}
			out := make([]res, len(ser)+len(par))
			for i, r := range ser {
				out[i].op, out[i].err = sc.Scatter(r, group)
				st.serialised++
			}
			if len(par) > 0 {
				st.conc++
			}
			var wg sync.WaitGroup
			start := make(chan struct{})
			for i, r := range par {
				wg.Add(1)
				go func(i int, r *core.RegionInfo) {
					defer wg.Done()
					defer func() { out[i].pan = recover() }()
					<-start
					out[i].op, out[i].err = sc.Scatter(r, group)
				}(len(ser)+i, r)
			}
			close(start)
			wg.Wait()
			done := map[uint64]bool{}
			for _, o := range out {
				switch {
				case o.pan != nil:
					return nil, fmt.Errorf("call %d: a concurrent Scatter panicked: %v", ci, o.pan)
				case o.err != nil:
					st.refused++
				case o.op == nil:
					st.noop++
					st.perGroup[call.Group]++
				default:
					st.perGroup[call.Group]++
					if err := apply(ci, o.op, asked, done); err != nil {
						return nil, fmt.Errorf("(%d concurrent Scatter calls on one scatterer) %v", len(par), err)
					}
				}
			}
		case "one":
			id := rid(call.Region)
			region := l.mc.GetRegion(id)
			var nestedOp *operator.Operator
			nestedID := uint64(0)
			if n := call.Nest; n != nil && rid(n.Region) != id {
				nestedID = rid(n.Region)
				inner := l.mc.GetRegion(nestedID)
				ngroup := groupNames[n.Group%len(groupNames)]
				fired := false
				hc.fn, hc.at, hc.n = n.Func, n.Index, 0
				hc.action = func() {
					fired = true
					op, err := sc.Scatter(inner, ngroup)
					if err == nil {
						st.perGroup[n.Group]++
						nestedOp = op
					}
				}
				defer func() { hc.action = nil }()
				op, err := sc.Scatter(region, group)
				hc.action = nil
				if fired {
					st.nested++
				} else {
					st.nestMissed++
				}
				if nestedOp != nil {
					if e := apply(ci, nestedOp, map[uint64]bool{nestedID: true}, map[uint64]bool{}); e != nil {
						return nil, fmt.Errorf("(Scatter of region %d served inside the Scatter of region %d at %s call %d) %v", nestedID, id, n.Func, n.Index, e)
					}
				}
				if err == nil && op != nil {
					st.perGroup[call.Group]++
					if e := apply(ci, op, map[uint64]bool{id: true}, map[uint64]bool{}); e != nil {
						if fired {
							return nil, fmt.Errorf("(a Scatter of region %d was served inside this call at %s call %d) %v", nestedID, n.Func, n.Index, e)
						}
						return nil, e
					}
				} else if err != nil {
					st.refused++
				} else {
					st.noop++
					st.perGroup[call.Group]++
				}
				continue
			}
			op, err := sc.Scatter(region, group)
			switch {
			case err != nil:
				st.refused++
				if op != nil {
					return nil, fmt.Errorf("call %d: Scatter returned an operator together with error %v", ci, err)
				}
			case op == nil:
				st.noop++
				st.perGroup[call.Group]++
			default:
				st.perGroup[call.Group]++
				if err := apply(ci, op, map[uint64]bool{id: true}, map[uint64]bool{}); err != nil {
					return nil, err
				}
			}
		case "byID", "byRange":
			asked := map[uint64]bool{}
			var ids []uint64
			var start, end []byte
			if call.Kind == "byID" {
				for _, i := range call.Regions {
					id := rid(i)
					if asked[id] || (!call.Loose && !scatterable(l, l.mc.GetRegion(id))) {
						continue
					}
					asked[id] = true
					ids = append(ids, id)
				}
				if call.Unknown {
					ids = append(ids, 7) // no region has this id
				}
				if len(asked) == 0 {
					continue // ScatterRegions refuses an empty set ("empty region")
				}
			} else {
				first := ((call.Region % nr) + nr) % nr
				last := first
				for k := 0; k < call.Span && first+k < nr; k++ {
					if !call.Loose && !scatterable(l, l.mc.GetRegion(c.Regions[first+k].ID)) {
						break
					}
					asked[c.Regions[first+k].ID] = true
					last = first + k
				}
				if len(asked) == 0 {
					continue
				}
				// key ranges never change in this property: the spec's keys are the live keys
				start, end = []byte(c.Regions[first].Start), []byte(c.Regions[last].End)
				if c.Regions[last].End == "" {
					end = nil
				}
			}
			var ops []*operator.Operator
			var failures map[uint64]error
			var err error
			if call.Kind == "byID" {
				st.byID = true
				ops, failures, err = sc.ScatterRegionsByID(ids, group, 0)
			} else {
				st.byRange = true
				ops, failures, err = sc.ScatterRegionsByRange(start, end, group, 0)
			}
			if err != nil {
				return nil, fmt.Errorf("call %d: %s on %d existing regions fails: %v", ci, call.Kind, len(asked), err)
			}
			done := map[uint64]bool{}
			for _, op := range ops {
				if op == nil {
					return nil, fmt.Errorf("call %d: nil operator in the result list", ci)
				}
				if failures[op.RegionID()] != nil {
					return nil, fmt.Errorf("call %d: region %d has an operator and is reported as failed (%v)", ci, op.RegionID(), failures[op.RegionID()])
				}
				if err := apply(ci, op, asked, done); err != nil {
					return nil, err
				}
			}
			for id := range failures {
				if id == 7 && call.Unknown {
					st.unknownReported = true
					continue
				}
				if !asked[id] {
					return nil, fmt.Errorf("call %d: failure reported for region %d which was not asked for", ci, id)
				}
				st.refused++
			}
			if call.Unknown && call.Kind == "byID" && failures[7] == nil {
				return nil, fmt.Errorf("call %d: unknown region id 7 is not reported in failures", ci)
			}
			for id := range asked {
				if failures[id] == nil {
					st.perGroup[call.Group]++
					if !done[id] {
						st.noop++
					}
				}
			}
		}
	}
	return st, nil
}

// ---------------------------------------------------------------- known finding probes

// scatterProbe runs a hand-written history strictly (nothing tolerated) for a
// few map/rand orders and reports the first failure whose text contains all symptoms.
func scatterProbe(c ScatterCase, tries int, symptoms ...string) (bool, string) {
	x := &opCtx{c: &c.Cluster, source: "scatter"}
	other := ""
	for rep := 0; rep < tries; rep++ {
		_, err := runScatterOnce(&c, x, rep)
		if err == nil {
			continue
		}
		ok := true
		for _, s := range symptoms {
			ok = ok && strings.Contains(err.Error(), s)
		}
		if ok {
			return true, err.Error()
		}
		other = err.Error()
	}
	if other != "" {
		return false, "fails differently: " + other
	}
	return false, fmt.Sprintf("every operator of %d executions kept the replica count and the roles", tries)
}

// TestFinding_scatter_collapses_peers: stores 1-4 (all healthy), 20 regions with
// voters on {1,2,3}, each scattered once, alternating between 2 groups: some
// operator drops a replica ("rm peer: store [1]").
func TestFinding_scatter_collapses_peers(t *testing.T) {
	c := ScatterCase{Seed: 1}
	c.Cluster = simkit.ClusterSpec{Stores: upStores(4), MaxReplicas: 3, JointSupported: true, UseJoint: true}
	for i := 0; i < 20; i++ {
		r := voters(100+uint64(i)*100, i%3, 1, 2, 3)
		if i > 0 {
			r.Start = fmt.Sprintf("k%04d", i)
		}
		if i < 19 {
			r.End = fmt.Sprintf("k%04d", i+1)
		}
		c.Regions = append(c.Regions, r)
		c.Calls = append(c.Calls, Call{Kind: "one", Region: i, Group: i % 2})
	}
	c.Cluster.ReserveIDs(c.Regions...)
	ok, detail := scatterProbe(c, 10, "changes the number of peers per role")
	vkit.Finding(t, keyCollapse, ok, detail)
}

// TestFinding_scatter_forces_leader: stores 1-3, store 3 has leader transfer
// paused (what an evict-leader scheduler does) / carries the reject-leader label;
// one region with voters on {1,2,3}, leader on 1, scattered in a group whose
// leader counters make store 3 the least loaded: the operator transfers the
// leader to store 3.
func TestFinding_scatter_forces_leader(t *testing.T) {
	c := ScatterCase{Seed: 1}
	c.Cluster = simkit.ClusterSpec{Stores: upStores(3), MaxReplicas: 3, JointSupported: true, UseJoint: true,
		RejectLeader: []simkit.Label{{Key: "noleader", Value: "true"}}}
	c.Cluster.Stores[2].PauseLeader = true
	c.Cluster.Stores[2].Labels = []simkit.Label{{Key: "noleader", Value: "true"}}
	for i := 0; i < 6; i++ {
		r := voters(100+uint64(i)*100, 0, 1, 2, 3)
		if i > 0 {
			r.Start = fmt.Sprintf("k%04d", i)
		}
		if i < 5 {
			r.End = fmt.Sprintf("k%04d", i+1)
		}
		c.Regions = append(c.Regions, r)
		c.Calls = append(c.Calls, Call{Kind: "one", Region: i, Group: 0})
	}
	c.Cluster.ReserveIDs(c.Regions...)
	ok, detail := scatterProbe(c, 10, "does not accept leaders", "store 3")
	vkit.Finding(t, keyForcedLeader, ok, detail)
}
