package c11

// Probes for the side observations of the C11-l seed author on the UNMODIFIED
// tree (seeded/C11-l/notes.md). Only the first one is a finding of C11
// (known_findings.d/C11.json); the others are deterministic demonstrations of
// behaviour that lies outside C11's statement (see the comments).

import (
	"fmt"
	"strings"
	"testing"

	"github.com/pingcap/kvproto/pkg/metapb"
	"github.com/pingcap/kvproto/pkg/pdpb"
	"pdverif/livesrv"
	"pdverif/simkit"
	"pdverif/vkit"
)

const (
	keyPauseLost = "C11/pause-flag-lost-by-concurrent-store-update"
	probeStore   = 7
)

func probeFixture(t *testing.T, key string) *livesrv.Fixture {
	fx, err := livesrv.Get()
	if err != nil || !fx.Healthy() {
		vkit.Finding(t, key, false, fmt.Sprintf("live server not available: %v", err))
		return nil
	}
	coordOnce.Do(func() { coordSetup(fx) })
	fx.ClusterGate(nil)
	h := fx.Svr.GetHandler()
	for _, n := range []string{evictName, grantName} {
		if hasScheduler(fx.Svr.GetRaftCluster(), n) {
			h.RemoveScheduler(n)
		}
	}
	return fx
}

// TestFinding_pause_flag_lost_update: evict-leader runs for store 1. Store 7's
// heartbeat (RaftCluster.HandleStoreHeartbeat: read the store, clone it, save the
// meta, core.PutStore(clone), all under the RaftCluster lock) is in flight when
// `POST evict-leader-scheduler/config {store_id: 7}` arrives: the handler pauses
// store 7 through cluster.PauseLeaderTransfer, which takes only the BasicCluster
// lock, so it runs between the heartbeat's read and its put (here: at the
// heartbeat's storage write, on the same goroutine — it needs no lock the
// heartbeat holds). The heartbeat then puts its stale clone: evict-leader lists
// store 7, the store accepts leader transfers.
func TestFinding_pause_flag_lost_update(t *testing.T) {
	fx := probeFixture(t, keyPauseLost)
	if fx == nil {
		return
	}
	rc, h := fx.Svr.GetRaftCluster(), fx.Svr.GetHandler()
	if err := rc.PutStore(&metapb.Store{Id: probeStore, Address: "mock://c11-probe-7", State: metapb.StoreState_Up}); err != nil {
		vkit.Finding(t, keyPauseLost, false, "cannot register store 7: "+err.Error())
		return
	}
	if err := h.AddEvictLeaderScheduler(1); err != nil {
		vkit.Finding(t, keyPauseLost, false, "cannot add evict-leader for store 1: "+err.Error())
		return
	}
	defer h.RemoveScheduler(evictName)
	hd := rc.GetSchedulerHandlers()[evictName]
	armed, code, interleavedAt := true, 0, ""
	fx.ClusterGate(func(kind, key string) error {
		if armed && kind == "save" && strings.Contains(key, "/s/") {
			armed = false
			interleavedAt = key
			code, _ = callHandler(hd, "POST", "/config", fmt.Sprintf(`{"store_id": %d}`, probeStore))
		}
		return nil
	})
	err := rc.HandleStoreHeartbeat(&pdpb.StoreStats{StoreId: probeStore, Capacity: 100 << 30, Available: 80 << 30, UsedSize: 10 << 30})
	fx.ClusterGate(nil)
	_, ls, _ := listed(rc, evictName)
	allow := rc.GetStore(probeStore).AllowLeaderTransfer()
	reproduced := err == nil && code == 200 && ls[probeStore] && allow
	detail := fmt.Sprintf("store heartbeat of store 7 (err %v) with POST evict-leader-scheduler/config {store_id:7} (HTTP %d) served at the heartbeat's write of %q: evict-leader lists %v, store 7 AllowLeaderTransfer=%v",
		err, code, interleavedAt, sortedU64(ls), allow)
	if interleavedAt == "" {
		detail = "the heartbeat did not persist the store (no interleaving point): " + detail
	}
	// clean up: drop store 7 from the list again (resumes it)
	callHandler(hd, "DELETE", fmt.Sprintf("/delete/%d", probeStore), "")
	vkit.Finding(t, keyPauseLost, reproduced, detail)
}

// TestFinding_note_update_rollback_drops_listed_store — side note (3)/(4 of the notes): evict-leader /
// grant-leader UpdateConfig for a store that is ALREADY listed, with the save failing, answers 500 and
// rolls back with removeStore(id): the store leaves the running scheduler's list and is resumed although
// the request added nothing. OUTSIDE C11: afterwards "listed by a running scheduler <=> paused" still holds
// and every operator respects the flags; what is broken is that a FAILED configuration request changes the
// served configuration (and diverges from the persisted one) — atomicity of dynamic configuration (C18's
// subject), not the placement / leader-target clauses of C11.
func TestFinding_note_update_rollback_drops_listed_store(t *testing.T) {
	const key = "C11/note-update-rollback-drops-listed-store"
	fx := probeFixture(t, key)
	if fx == nil {
		return
	}
	rc, h := fx.Svr.GetRaftCluster(), fx.Svr.GetHandler()
	if err := h.AddGrantLeaderScheduler(2); err != nil {
		vkit.Finding(t, key, false, "cannot add grant-leader for store 2: "+err.Error())
		return
	}
	defer h.RemoveScheduler(grantName)
	hd := rc.GetSchedulerHandlers()[grantName]
	fx.ClusterGate(func(kind, key string) error { return fmt.Errorf("injected: %s %s fails", kind, key) })
	code, body := callHandler(hd, "POST", "/config", `{"store_id": 2}`)
	fx.ClusterGate(nil)
	_, ls, _ := listed(rc, grantName)
	allow := rc.GetStore(2).AllowLeaderTransfer()
	vkit.Finding(t, key, code == 500 && !ls[2] && allow,
		fmt.Sprintf("grant-leader lists [2]; POST /config {store_id:2} with the save failing answers %d %s; afterwards grant-leader lists %v, store 2 AllowLeaderTransfer=%v",
			code, body, sortedU64(ls), allow))
}

// TestFinding_note_grant_leader_ignores_store_state — side note (2): grant-leader force-transfers leaders to
// the granted store whatever its state / labels. OUTSIDE C11 by the property's own exception (DESIGN C11 O):
// grant-leader is an administrative instruction "all leaders to store X" using the forced-leader operator;
// the check only demands "voter peer on the configured store" for it.
func TestFinding_note_grant_leader_ignores_store_state(t *testing.T) {
	const key = "C11/note-grant-leader-ignores-store-state"
	c := SchedCase{Type: "grant-leader", Store: 3, Rounds: 1, RangeTo: -1, Seed: 1}
	c.Cluster = simkit.ClusterSpec{Stores: upStores(3), MaxReplicas: 3, JointSupported: true, UseJoint: true,
		RejectLeader: []simkit.Label{{Key: "noleader", Value: "true"}}}
	c.Cluster.Stores[2].State = simkit.StateOffline
	c.Cluster.Stores[2].HeartbeatAgeSec = simkit.AgeDisconnected
	c.Cluster.Stores[2].Labels = []simkit.Label{{Key: "noleader", Value: "true"}}
	c.Regions = []simkit.RegionSpec{voters(100, 0, 1, 2, 3)}
	c.Cluster.ReserveIDs(c.Regions...)
	x := &opCtx{c: &c.Cluster, source: c.Type} // strict: without the grant-leader exception
	_, err := runSchedOnce(&c, x, 0)
	detail := "grant-leader produced no transfer to the Offline, disconnected, reject-leader store 3"
	if err != nil {
		detail = err.Error()
	}
	vkit.Finding(t, key, err != nil && strings.Contains(detail, "transfers the leader to store 3 which does not accept leaders"), detail)
}
