// C11 — scatter and balance moves preserve a region's replica count and roles.
//
// Two generated properties share one oracle (execOperator):
//
//	scatter  histories of Scatter / ScatterRegionsByID / ScatterRegionsByRange calls on ONE
//	         schedule.RegionScatterer (its per-group counters carry over), see scatter_test.go
//	sched    one built-in scheduler created with schedule.CreateScheduler and Schedule(cluster)
//	         called 1-10 times, see sched_test.go
//
// Every operator that comes back is executed step by step on simkit's region
// simulator (TiKV conf-change semantics, independent of pd's step code); the
// region is put back into the mock cluster before the next call. The oracle per
// operator is the property text:
//
//	every step          is accepted by a faithful store (an add never hits a store that
//	                    already holds the region, the leader is never removed, a transfer
//	                    target is a present voter), at most one peer per store afterwards
//	add steps           only on stores that exist and accept peers (up, connected, not down,
//	                    not busy: simkit.ClusterSpec.AcceptsPeer, written from the filter table)
//	transfer steps      from != to; the target store accepts leaders (up, connected, leader
//	                    transfer not paused, not busy, no reject-leader label property:
//	                    simkit.ClusterSpec.AcceptsLeader). grant-leader is administrative:
//	                    for a transfer to its configured store only "voter on that store" holds
//	whole operator      no store is both removed from and added to; the number of peers of
//	                    each role at the end equals the number before
//
// The scatterer iterates Go maps and uses math/rand, two schedulers seed their
// own RNG from the clock: every case is executed 3 times and only facts that
// hold for every order are stated.
package c11

import (
	"context"
	"fmt"
	"sort"
	"strings"
	"testing"
	"time"

	"github.com/golang/protobuf/proto"
	"github.com/pingcap/kvproto/pkg/pdpb"
	"github.com/tikv/pd/pkg/mock/mockcluster"
	"github.com/tikv/pd/server/core"
	"github.com/tikv/pd/server/schedule/operator"
	"github.com/tikv/pd/server/schedule/placement"
	"pdverif/livesrv"
	"pdverif/simkit"
	"pdverif/vkit"
	"pgregory.net/rapid"
)

func TestMain(m *testing.M)   { vkit.Quiet(); vkit.MainWith(m, "C11", livesrv.Shutdown) }
func TestProp(t *testing.T)   { vkit.RunAll(t) }
func TestReplay(t *testing.T) { vkit.RunReplay(t) }

const (
	// scatterRegion keys targetPeers by store and only excludes stores already
	// selected in this call: a peer may select a store that still holds another
	// peer of the region.
	keyCollapse = "C11/scatter-collapses-peers"
	// the legacy (no joint consensus) planner hands leadership back to the store
	// that was leader at planning time although it does not accept leaders.
	keyHandBack = "C11/leader-handed-back-to-offline-store"
	// the scatterer picks the target leader by counters only and the scatter
	// operator forces it: store state and reject-leader are not looked at.
	keyForcedLeader = "C11/scatter-forces-leader-onto-store-rejecting-leaders"
	// hot-region (read, move peer) dereferences region.GetLeader() of a hot region
	// that has no leader in pd's cache.
	keyHotNilLeader = "C11/hot-region-panics-on-leaderless-read-hot-region"
	// RegionScatterer.specialEngines is a plain map that scatterRegion reads and writes without a lock
	// although Scatter is called concurrently.
	keyEngineMap = "C11/scatter-engine-context-map-unsynchronised"

	reps = 3
)

func init() {
	vkit.Register("scatter", vkit.N{Quick: 1400, Thorough: 45000}, genScatterCase, runScatterCase)
	vkit.Register("sched", vkit.N{Quick: 1600, Thorough: 55000}, genSchedCase, runSchedCase)
}

// ---------------------------------------------------------------- world: cluster + regions

// World is the generated cluster with its regions.
type World struct {
	Cluster simkit.ClusterSpec  `json:"cluster"`
	Regions []simkit.RegionSpec `json:"regions"`
	// TiFlashLearners > 0 (only with placement rules): an extra rule
	// {group tiflash, role learner, count TiFlashLearners, engine in [tiflash]}.
	TiFlashLearners int `json:"tiflash_learners,omitempty"`
}

const engineKey, tiflash = "engine", "tiflash"

func isTiFlash(s *simkit.StoreSpec) bool { return s.Label(engineKey) == tiflash }

// WorldGen tunes genWorld.
type WorldGen struct {
	HealthyBias   int // percent of plain healthy stores
	TiFlashPct    int // percent of clusters that get 1-2 extra tiflash stores
	UnhealthyPeer int // percent per peer of pending / down
	OddRegionPct  int // percent of regions drawn without the "fully replicated" shape
	MaxRegions    int
}

// genWorld draws a cluster of 3-8 stores and 5-60 regions. Most regions have the
// shape the scatterer and the schedulers work on (opt.IsRegionReplicated): exactly
// max-replicas voters on ordinary stores, plus — with placement rules and tiflash
// stores — the learners the tiflash rule asks for; the rest is arbitrary.
// Peers are never placed on Tombstone stores (a store only becomes Tombstone
// when it holds nothing).
func genWorld(t *rapid.T, g WorldGen) World {
	var w World
	c := simkit.GenCluster(t, simkit.ClusterGen{MinStores: 3, MaxStores: 8, HealthyBias: g.HealthyBias})
	if simkit.Pct(t, g.TiFlashPct, "moreTiflash") {
		n := simkit.IntU(t, 1, 2, "nTiflash")
		for _, i := range rapid.Permutation(idx(len(c.Stores))).Draw(t, "tiflashStores") {
			if n == 0 {
				break
			}
			if !c.Stores[i].HasExclusiveLabel() {
				c.Stores[i].Labels = append(c.Stores[i].Labels, simkit.Label{Key: engineKey, Value: tiflash})
				n--
			}
		}
	}
	c.RejectLeader = genRejectLeader(t)
	var ordinary, flash []uint64
	for i := range c.Stores {
		s := &c.Stores[i]
		if s.IsTombstone() {
			continue
		}
		switch {
		case isTiFlash(s):
			flash = append(flash, s.ID)
		case c.PlacementRules && s.HasExclusiveLabel():
			// matches no rule without a constraint on that label
		default:
			ordinary = append(ordinary, s.ID)
		}
	}
	if len(ordinary) == 0 { // degenerate cluster: fall back to every store
		ordinary = c.StoreIDs()
	}
	if c.MaxReplicas > len(ordinary) {
		c.MaxReplicas = len(ordinary)
	}
	if c.PlacementRules && len(flash) > 0 && simkit.Pct(t, 85, "tiflashRule") {
		w.TiFlashLearners = simkit.IntU(t, 1, min(2, len(flash)), "tiflashLearners")
	}
	n := simkit.IntU(t, 5, 15, "nRegions")
	if g.MaxRegions > 15 && simkit.Pct(t, 30, "manyRegions") {
		n = simkit.IntU(t, 16, g.MaxRegions, "nRegionsMany")
	}
	for i := 0; i < n; i++ {
		rg := simkit.RegionGen{ID: 100 + uint64(i)*100, MinPeers: c.MaxReplicas, MaxPeers: c.MaxReplicas,
			LearnerPct: -1, Unhealthy: g.UnhealthyPeer, NoLeader: 2}
		if g.UnhealthyPeer == 0 {
			rg.Unhealthy = -1
		}
		if i > 0 {
			rg.Start = fmt.Sprintf("k%04d", i)
		}
		if i < n-1 {
			rg.End = fmt.Sprintf("k%04d", i+1)
		}
		stores := ordinary
		odd := simkit.Pct(t, g.OddRegionPct, "oddRegion")
		if odd {
			rg.MinPeers, rg.MaxPeers, rg.LearnerPct, rg.Joint = 1, 5, 25, 10
			if !c.PlacementRules && len(flash) == 0 {
				stores = nil
				for j := range c.Stores {
					if !c.Stores[j].IsTombstone() {
						stores = append(stores, c.Stores[j].ID)
					}
				}
				if len(stores) == 0 {
					stores = ordinary
				}
			}
		}
		r := simkit.GenRegion(t, stores, rg)
		if w.TiFlashLearners > 0 && !(odd && simkit.Pct(t, 50, "noLearners")) {
			for j, s := range rapid.Permutation(flash).Draw(t, "learnerStores")[:w.TiFlashLearners] {
				if r.PeerOnStore(s) != nil {
					continue // degenerate cluster (every store carries an exclusive label): one peer per store
				}
				r.Peers = append(r.Peers, simkit.PeerSpec{ID: r.ID + 50 + uint64(j), Store: s, Role: simkit.Learner})
			}
		}
		if !simkit.Pct(t, 70, "sizeAny") { // schedulers skip regions of <= 1 MiB in big clusters
			r.Size = simkit.Pick(t, []int64{10, 96, 144}, "sizeBig")
			r.Keys = r.Size * 1000
		}
		w.Regions = append(w.Regions, r)
	}
	c.ReserveIDs(w.Regions...)
	w.Cluster = c
	return w
}

// genRejectLeader draws the reject-leader label property as a LIST of 0-4 entries
// over the label keys and values the generated stores use (simkit: zone z1-z3, rack
// r1-r2, host h1-h4, noleader=true) plus values and keys no store carries. Entries
// that share one key (two or three zones rejected, as `pd-ctl config set
// label-property reject-leader zone z1` followed by `... zone z2` produces) are
// frequent. Keys are written exactly as the stores write them.
func genRejectLeader(t *rapid.T) []simkit.Label {
	if simkit.Pct(t, 30, "noRejectLeader") {
		return nil
	}
	vocab := map[string][]string{
		"zone":     {"z1", "z2", "z3", "z9"},
		"rack":     {"r1", "r2", "r9"},
		"host":     {"h1", "h2", "h3", "h4", "h9"},
		"noleader": {"true", "false"},
		"dc":       {"x"},
	}
	keys := []string{"zone", "zone", "zone", "host", "host", "rack", "noleader", "noleader", "dc"}
	main := simkit.Pick(t, keys, "rejectMainKey")
	n := simkit.IntU(t, 1, 4, "nReject")
	var out []simkit.Label
	seen := map[simkit.Label]bool{}
	for i := 0; i < n; i++ {
		k := main
		if simkit.Pct(t, 30, "rejectOtherKey") {
			k = simkit.Pick(t, keys, "rejectKey")
		}
		l := simkit.Label{Key: k, Value: simkit.Pick(t, vocab[k], "rejectValue")}
		if !seen[l] {
			seen[l] = true
			out = append(out, l)
		}
	}
	return out
}

// repeatedRejectKey: two entries of the reject-leader property share a label key.
func repeatedRejectKey(c *simkit.ClusterSpec) bool {
	seen := map[string]bool{}
	for _, l := range c.RejectLeader {
		if seen[strings.ToLower(l.Key)] {
			return true
		}
		seen[strings.ToLower(l.Key)] = true
	}
	return false
}

// rejectsLeader is the documented meaning of the reject-leader label property: some entry
// (key, value) of the list matches a label of the store — key compared like
// StoreInfo.GetLabelValue does (case-insensitively), value exactly. Every entry counts,
// also several entries with one key.
func rejectsLeader(c *simkit.ClusterSpec, id uint64) bool {
	s := c.Store(id)
	if s == nil {
		return false
	}
	for _, p := range c.RejectLeader {
		for _, l := range s.Labels {
			if strings.EqualFold(l.Key, p.Key) && l.Value == p.Value {
				return true
			}
		}
	}
	return false
}

func idx(n int) []int {
	out := make([]int, n)
	for i := range out {
		out[i] = i
	}
	return out
}

func min(a, b int) int {
	if a < b {
		return a
	}
	return b
}

// live is one execution's state: the mock cluster and one simulator per region.
type live struct {
	w      *World
	mc     *mockcluster.Cluster
	cancel context.CancelFunc
	ctx    context.Context
	sims   map[uint64]*simkit.Region
	order  []uint64 // region ids in spec order
	// spec: this execution's own copy of the cluster spec; store events change it
	// (the oracle judges every operator against the spec as it is when the operator is produced)
	spec simkit.ClusterSpec
}

// StoreEvent changes the heartbeat state of stores in the middle of a case, AFTER
// the scatterer / scheduler object has been used at least once (At >= 1).
//
//	silent  last heartbeat := time.Now() - 20 s - 5 ms: disconnected from this moment on under
//	        the real clock (time only moves forward), while relative to any instant captured
//	        5 ms or more earlier the store still looks connected
//	down    last heartbeat := time.Now() - max-store-down-time - 5 ms: down likewise
//	revive  the store heart-beats again (last heartbeat := time.Now())
type StoreEvent struct {
	At     int    `json:"at"`   // before the At-th call (scatter) / round (sched), At >= 1
	Kind   string `json:"kind"` // silent | down | revive
	Stores []int  `json:"stores"`
}

func genStoreEvents(t *rapid.T, nStores, steps int) []StoreEvent {
	if steps < 2 || !simkit.Pct(t, 45, "storeEvents") {
		return nil
	}
	var out []StoreEvent
	n := simkit.IntU(t, 1, 2, "nEvents")
	for i := 0; i < n; i++ {
		ev := StoreEvent{At: simkit.IntU(t, 1, steps-1, "eventAt"),
			Kind: simkit.Pick(t, []string{"silent", "silent", "silent", "down", "down", "revive"}, "eventKind")}
		k := simkit.IntU(t, 1, 2, "eventStores")
		ev.Stores = rapid.Permutation(idx(nStores)).Draw(t, "eventStoreIdx")[:min(k, nStores)]
		out = append(out, ev)
	}
	return out
}

// RegionEvent changes a region "by other means" (another scheduler, a checker, an
// election) between two uses of the object under test: the simulator executes the change and
// the new region is put into the cluster as its heartbeat would.
//
//	move    a non-leader peer (index Peer among them) moves to store index Target — only if that
//	        store holds no peer of the region, accepts peers and is of the same kind (engine /
//	        exclusive labels) as the source store; otherwise the event is skipped
//	leader  the leader moves to the Peer-th other voter if its store accepts leaders
type RegionEvent struct {
	At     int    `json:"at"`
	Region int    `json:"region"`
	Kind   string `json:"kind"`
	Peer   int    `json:"peer"`
	Target int    `json:"target,omitempty"`
}

func genRegionEvents(t *rapid.T, nStores, nRegions, steps int) []RegionEvent {
	if steps < 2 || !simkit.Pct(t, 35, "regionEvents") {
		return nil
	}
	var out []RegionEvent
	n := simkit.IntU(t, 1, 6, "nRegionEvents")
	at := simkit.IntU(t, 1, steps-1, "regionEventAt")
	for i := 0; i < n; i++ {
		if simkit.Pct(t, 25, "regionEventOtherAt") {
			at = simkit.IntU(t, 1, steps-1, "regionEventAt2")
		}
		out = append(out, RegionEvent{At: at, Region: simkit.IntU(t, 0, nRegions-1, "evRegion"),
			Kind: simkit.Pick(t, []string{"move", "move", "move", "leader"}, "evRegionKind"),
			Peer: simkit.IntU(t, 0, 5, "evPeer"), Target: simkit.IntU(t, 0, nStores-1, "evTarget")})
	}
	return out
}

// applyRegionEvents executes the region events scheduled before step `at`; it returns how many took effect.
func (l *live) applyRegionEvents(evs []RegionEvent, at int) (int, error) {
	done := 0
	for _, ev := range evs {
		if ev.At != at || len(l.order) == 0 {
			continue
		}
		sim := l.sims[l.order[((ev.Region%len(l.order))+len(l.order))%len(l.order)]]
		if sim.InJoint() || sim.LeaderStore() == 0 {
			continue
		}
		switch ev.Kind {
		case "move":
			var cands []simkit.Peer
			for _, p := range sim.Peers {
				if p.ID != sim.Leader && (p.Role == simkit.Voter || p.Role == simkit.Learner) {
					cands = append(cands, p)
				}
			}
			if len(cands) == 0 || len(l.spec.Stores) == 0 {
				continue
			}
			p := cands[((ev.Peer%len(cands))+len(cands))%len(cands)]
			tgt := &l.spec.Stores[((ev.Target%len(l.spec.Stores))+len(l.spec.Stores))%len(l.spec.Stores)]
			src := l.spec.Store(p.Store)
			if src == nil || sim.PeerOnStore(tgt.ID) != nil || !l.spec.AcceptsPeer(tgt.ID) ||
				isTiFlash(src) != isTiFlash(tgt) || src.HasExclusiveLabel() != tgt.HasExclusiveLabel() {
				continue
			}
			id := sim.IDs.Next()
			if err := sim.AddLearner(id, tgt.ID); err != nil {
				return done, fmt.Errorf("harness: region event %+v: %v", ev, err)
			}
			if p.Role == simkit.Voter {
				if err := sim.Promote(tgt.ID, id); err != nil {
					return done, fmt.Errorf("harness: region event %+v: %v", ev, err)
				}
			}
			if err := sim.Remove(p.Store, p.ID); err != nil {
				return done, fmt.Errorf("harness: region event %+v: %v", ev, err)
			}
		case "leader":
			var cands []simkit.Peer
			for _, p := range sim.Peers {
				if p.ID != sim.Leader && p.Role == simkit.Voter && l.spec.AcceptsLeader(p.Store) && !rejectsLeader(&l.spec, p.Store) {
					cands = append(cands, p)
				}
			}
			if len(cands) == 0 {
				continue
			}
			if err := sim.TransferLeader(cands[((ev.Peer%len(cands))+len(cands))%len(cands)].Store); err != nil {
				return done, fmt.Errorf("harness: region event %+v: %v", ev, err)
			}
		default:
			continue
		}
		l.mc.PutRegion(sim.ToRegionInfo())
		done++
	}
	return done, nil
}

// applyEvents applies the events scheduled before step `at` to the mock cluster and to
// the execution's spec. It returns how many stores went from connected to silent/down.
func (l *live) applyEvents(evs []StoreEvent, at int) int {
	const eps = 5 * time.Millisecond
	fell := 0
	for _, ev := range evs {
		if ev.At != at {
			continue
		}
		for _, i := range ev.Stores {
			if i < 0 || i >= len(l.spec.Stores) {
				continue
			}
			sp := &l.spec.Stores[i]
			st := l.mc.GetStore(sp.ID)
			if st == nil {
				continue
			}
			maxDown := l.spec.MaxStoreDownTimeSec
			if maxDown <= 0 {
				maxDown = simkit.DefaultMaxStoreDownTimeSec
			}
			var ts time.Time
			switch ev.Kind {
			case "silent":
				if sp.HeartbeatAgeSec > simkit.DisconnectAfterSec {
					continue // silent already
				}
				ts = time.Now().Add(-simkit.DisconnectAfterSec*time.Second - eps)
				sp.HeartbeatAgeSec = simkit.AgeDisconnected
				fell++
			case "down":
				if sp.HeartbeatAgeSec > maxDown {
					continue
				}
				if sp.HeartbeatAgeSec <= simkit.DisconnectAfterSec {
					fell++
				}
				ts = time.Now().Add(-time.Duration(maxDown)*time.Second - eps)
				sp.HeartbeatAgeSec = maxDown + 60
			case "revive":
				ts = time.Now()
				sp.HeartbeatAgeSec = simkit.AgeFresh
			case "busy", "unbusy":
				// the busy flag of the store heartbeat changes; the last heartbeat stays as it is
				sp.Busy = ev.Kind == "busy"
				stats := proto.Clone(st.GetStoreStats()).(*pdpb.StoreStats)
				stats.IsBusy = sp.Busy
				l.mc.PutStore(st.Clone(core.SetStoreStats(stats)))
				continue
			default:
				continue
			}
			l.mc.PutStore(st.Clone(core.SetLastHeartbeatTS(ts)))
		}
	}
	return fell
}

// errUnsound: the case data is not a sound input (only a hand-edited or stale
// replay file can contain one); such a case is inconclusive, never a violation.
var errUnsound = fmt.Errorf("unsound case")

func (w *World) sound() bool {
	for i := range w.Regions {
		seen := map[uint64]bool{}
		for _, p := range w.Regions[i].Peers {
			if seen[p.Store] || w.Cluster.Store(p.Store) == nil {
				return false
			}
			seen[p.Store] = true
		}
	}
	return len(w.Regions) > 0
}

func build(w *World) (*live, error) {
	if !w.sound() {
		return nil, errUnsound
	}
	ctx, cancelCtx := context.WithCancel(context.Background())
	mc, cancel := simkit.Build(ctx, w.Cluster)
	l := &live{w: w, mc: mc, ctx: ctx, sims: map[uint64]*simkit.Region{}, spec: w.Cluster}
	l.spec.Stores = append([]simkit.StoreSpec(nil), w.Cluster.Stores...)
	l.cancel = func() { cancel(); cancelCtx() }
	if w.TiFlashLearners > 0 {
		if mc.RuleManager == nil {
			l.cancel()
			return nil, fmt.Errorf("fixture: tiflash rule without placement rules")
		}
		err := mc.RuleManager.SetRule(&placement.Rule{GroupID: "tiflash", ID: "learners", Role: placement.Learner,
			Count: w.TiFlashLearners, LabelConstraints: []placement.LabelConstraint{
				{Key: engineKey, Op: placement.In, Values: []string{tiflash}}}})
		if err != nil {
			l.cancel()
			return nil, fmt.Errorf("fixture: cannot set the tiflash rule: %v", err)
		}
	}
	ids := simkit.NewIDAlloc(w.Cluster.AllocBase + 1000000)
	for _, r := range w.Regions {
		sim := simkit.NewRegion(r, ids)
		l.sims[r.ID] = sim
		l.order = append(l.order, r.ID)
		mc.PutRegion(sim.ToRegionInfo())
	}
	return l, nil
}

// ---------------------------------------------------------------- the oracle

// opCtx says where an operator comes from and what is tolerated for it.
type opCtx struct {
	c      *simkit.ClusterSpec
	source string // "scatter" or the scheduler type
	// grantStore: the store named in grant-leader's configuration (0 otherwise)
	grantStore uint64
	// tolerate the symptoms of the known findings (only while they are listed as known)
	tolCollapse, tolHandBack, tolForced bool
}

// opFacts is what one executed operator looked like.
type opFacts struct {
	steps                       int
	added, removed              []uint64
	leaderMoved                 bool
	handBack, collapse, forced  bool // a tolerated symptom of a known finding showed
	joint, legacyMove, lightAdd bool
}

func roleCounts(r *simkit.Region) map[simkit.Role]int {
	m := map[simkit.Role]int{}
	for _, p := range r.Peers {
		m[p.Role]++
	}
	return m
}

func fmtCounts(m map[simkit.Role]int) string {
	var ks []string
	for k := range m {
		ks = append(ks, string(k))
	}
	sort.Strings(ks)
	var ss []string
	for _, k := range ks {
		ss = append(ss, fmt.Sprintf("%s:%d", k, m[simkit.Role(k)]))
	}
	return "{" + strings.Join(ss, " ") + "}"
}

func describe(op *operator.Operator) string {
	var ss []string
	for i := 0; i < op.Len(); i++ {
		ss = append(ss, fmt.Sprintf("%d:%s", i, op.Step(i)))
	}
	return fmt.Sprintf("%q [%s]", op.Desc(), strings.Join(ss, "; "))
}

func whyNoLeader(c *simkit.ClusterSpec, id uint64) string {
	s := c.Store(id)
	if s == nil {
		return "does not exist"
	}
	var ss []string
	if !s.IsUp() {
		ss = append(ss, s.State)
	}
	if c.IsDown(s) {
		ss = append(ss, "down")
	} else if !s.IsConnected() {
		ss = append(ss, "disconnected")
	}
	if s.PauseLeader {
		ss = append(ss, "leader transfer paused")
	}
	if s.Busy {
		ss = append(ss, "busy")
	}
	if c.RejectsLeader(s) || rejectsLeader(c, id) {
		ss = append(ss, fmt.Sprintf("reject-leader label property %v matches its labels %v", c.RejectLeader, s.Labels))
	}
	return strings.Join(ss, ", ")
}

func whyNoPeer(c *simkit.ClusterSpec, id uint64) string {
	s := c.Store(id)
	if s == nil {
		return "does not exist"
	}
	var ss []string
	if !s.IsUp() {
		ss = append(ss, s.State)
	}
	if c.IsDown(s) {
		ss = append(ss, "down")
	} else if !s.IsConnected() {
		ss = append(ss, "disconnected")
	}
	if s.Busy {
		ss = append(ss, "busy")
	}
	return strings.Join(ss, ", ")
}

func addTarget(step operator.OpStep) (uint64, bool, bool) {
	switch st := step.(type) {
	case operator.AddPeer:
		return st.ToStore, true, false
	case operator.AddLearner:
		return st.ToStore, true, false
	case operator.AddLightPeer:
		return st.ToStore, true, true
	case operator.AddLightLearner:
		return st.ToStore, true, true
	}
	return 0, false, false
}

// execOperator executes op on sim and checks the C11 predicates. sim is changed
// even when an error is returned (up to the failing step).
func execOperator(x *opCtx, sim *simkit.Region, op *operator.Operator) (opFacts, error) {
	var f opFacts
	if op.RegionID() != sim.ID {
		return f, fmt.Errorf("operator for region %d executed on region %d (harness bug)", op.RegionID(), sim.ID)
	}
	plan := describe(op)
	origin := sim.String()
	before := roleCounts(sim)
	storesBefore := map[uint64]bool{}
	for _, p := range sim.Peers {
		storesBefore[p.Store] = true
	}
	leader0 := sim.LeaderStore()
	f.steps = op.Len()
	finalLeader := uint64(0) // target of the operator's last transfer step
	for i := 0; i < op.Len(); i++ {
		if tl, ok := op.Step(i).(operator.TransferLeader); ok {
			finalLeader = tl.ToStore
		}
	}
	fail := func(i int, format string, a ...interface{}) error {
		return fmt.Errorf("%s operator %s on region %s: step %d: %s", x.source, plan, origin, i, fmt.Sprintf(format, a...))
	}
	for i := 0; i < op.Len(); i++ {
		step := op.Step(i)
		if to, ok, light := addTarget(step); ok {
			f.lightAdd = f.lightAdd || light
			if sim.PeerOnStore(to) != nil {
				return f, fail(i, "adds a peer on store %d which already holds a peer of the region (%s)", to, sim)
			}
			if !x.c.AcceptsPeer(to) {
				return f, fail(i, "adds a peer on store %d which does not accept peers (%s)", to, whyNoPeer(x.c, to))
			}
			f.added = append(f.added, to)
		}
		switch st := step.(type) {
		case operator.RemovePeer:
			f.removed = append(f.removed, st.FromStore)
		case operator.ChangePeerV2Enter:
			f.joint = true
		case operator.PromoteLearner:
			f.legacyMove = true
		case operator.TransferLeader:
			f.leaderMoved = true
			cur := sim.LeaderStore()
			if st.ToStore == cur {
				return f, fail(i, "transfers the leader from store %d to the same store", cur)
			}
			if st.FromStore == st.ToStore {
				return f, fail(i, "transfer step with source == target == %d", st.ToStore)
			}
			if e := sim.CanTransferTo(st.ToStore); e != nil {
				return f, fail(i, "transfers the leader to store %d: %v (%s)", st.ToStore, e, sim)
			}
			if !x.c.AcceptsLeader(st.ToStore) || rejectsLeader(x.c, st.ToStore) {
				switch {
				case x.grantStore != 0 && st.ToStore == x.grantStore:
					// administrative forced leader on the configured store
				case x.tolHandBack && st.ToStore == leader0:
					// known: the legacy planner hands the leader back to the store that
					// was leader when the operator was planned
					f.handBack = true
				case x.tolForced && x.source == "scatter" && st.ToStore == finalLeader:
					// known: the leader the scatterer asked for (the operator's last
					// transfer target) is forced without looking at the store
					f.forced = true
				default:
					return f, fail(i, "transfers the leader to store %d which does not accept leaders (%s); the leader was on store %d when the operator was created",
						st.ToStore, whyNoLeader(x.c, st.ToStore), leader0)
				}
			}
		}
		if e := sim.ApplyStep(step); e != nil {
			return f, fail(i, "a faithful store refuses %s: %v (%s)", step, e, sim)
		}
		if e := sim.CheckOnePeerPerStore(); e != nil {
			return f, fail(i, "after %s: %v", step, e)
		}
		if e := sim.CheckLeader(); e != nil && leader0 != 0 {
			return f, fail(i, "after %s: %v", step, e)
		}
	}
	// source != target over the whole operator
	for _, a := range f.added {
		for _, r := range f.removed {
			if a == r {
				if x.tolCollapse && x.source == "scatter" && storesBefore[a] {
					f.collapse = true
					continue
				}
				return f, fmt.Errorf("%s operator %s on region %s removes a peer from store %d and adds one on the same store", x.source, plan, origin, a)
			}
		}
	}
	after := roleCounts(sim)
	same := len(before) == len(after)
	for k, v := range before {
		same = same && after[k] == v
	}
	if !same {
		if x.tolCollapse && x.source == "scatter" && collapseSymptom(before, after, storesBefore, sim) {
			f.collapse = true
			return f, nil
		}
		return f, fmt.Errorf("%s operator %s on region %s changes the number of peers per role from %s to %s (region afterwards %s)",
			x.source, plan, origin, fmtCounts(before), fmtCounts(after), sim)
	}
	return f, nil
}

// collapseSymptom recognises the symptom of C11/scatter-collapses-peers and
// nothing more: no role gained a peer, d >= 1 peers were lost in total, and
// there are at least d stores that held a peer before and still hold one (in
// the unchanged code every lost peer is a peer that selected the store of
// another peer which then stayed where it was; picks of different peers are
// otherwise distinct). Two peers sent to one store that held nothing — what a
// broken exclusion of already selected stores produces — does not match as soon
// as it loses more peers than stores were kept.
func collapseSymptom(before, after map[simkit.Role]int, storesBefore map[uint64]bool, sim *simkit.Region) bool {
	lost := 0
	for k, v := range after {
		if v > before[k] {
			return false
		}
	}
	for k, v := range before {
		lost += v - after[k]
	}
	kept := 0
	for _, p := range sim.Peers {
		if storesBefore[p.Store] {
			kept++
		}
	}
	return lost >= 1 && lost <= kept
}

func sortedU64(m map[uint64]bool) []uint64 {
	out := make([]uint64, 0, len(m))
	for k := range m {
		out = append(out, k)
	}
	sort.Slice(out, func(i, j int) bool { return out[i] < out[j] })
	return out
}

func upStores(n uint64) []simkit.StoreSpec {
	var out []simkit.StoreSpec
	for i := uint64(1); i <= n; i++ {
		out = append(out, simkit.StoreSpec{ID: i, State: simkit.StateUp, UsedRatio: 0.05, AvailableRatio: 0.95,
			RegionCount: 10, LeaderCount: 3, RegionSize: 100, LeaderSize: 30})
	}
	return out
}

func voters(id uint64, leader int, stores ...uint64) simkit.RegionSpec {
	r := simkit.RegionSpec{ID: id, Leader: leader, Version: 1, ConfVer: 1, Size: 10, Keys: 10000}
	for i, s := range stores {
		r.Peers = append(r.Peers, simkit.PeerSpec{ID: id + 1 + uint64(i), Store: s, Role: simkit.Voter})
	}
	return r
}
