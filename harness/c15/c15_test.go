// C15 — GC safe points never move backwards.
//
// Two generated properties against ONE live, bootstrapped PD server per process
// (package livesrv) whose storage is swapped per case for a fault/gate wrapper
// over a fresh memory KV:
//
//   - "concurrent": 2–4 UpdateGCSafePoint(v) + 1–2 GetGCSafePoint requests, one
//     goroutine each, parked at every storage Load/Save by vkit/gate and released
//     in the order given by the case (a list of small integers). Oracle: the
//     stored value (read directly from the base KV at every decision point and
//     at the end) never decreases; every response is >= every value that had
//     been acknowledged before that request was invoked; an update's response
//     is >= the value it asked for ("returns the new safePoint after updating",
//     client.Client doc) and no larger than the largest value ever offered.
//   - "service": sequential UpdateServiceGCSafePoint / HTTP-delete histories over
//     a storage pre-seeded with live, expired and malformed entries, compared
//     after every step with a small reference model written from the property
//     text and the client documentation.
//
// The handlers are called as Go methods (exactly what the gRPC layer does) with
// the header real clients send.
package c15

import (
	"context"
	"encoding/json"
	"fmt"
	"math"
	"net/http"
	"net/http/httptest"
	"path"
	"sort"
	"strconv"
	"strings"
	"sync"
	"testing"
	"time"

	"github.com/pingcap/kvproto/pkg/pdpb"
	"github.com/tikv/pd/server"
	"github.com/tikv/pd/server/api"
	"github.com/tikv/pd/server/kv"
	"pdverif/livesrv"
	"pdverif/vkit"
	"pdverif/vkit/faultkv"
	"pdverif/vkit/gate"
	"pgregory.net/rapid"
)

const (
	findingUnlocked  = "C15/update-gc-safepoint-unlocked"
	findingServiceID = "C15/service-id-path-join"
)

func TestMain(m *testing.M)   { vkit.Main(m, "C15") }
func TestProp(t *testing.T)   { defer livesrv.Shutdown(); vkit.RunAll(t) }
func TestReplay(t *testing.T) { defer livesrv.Shutdown(); vkit.RunReplay(t) }

func init() {
	vkit.Register("concurrent", vkit.N{Quick: 2000, Thorough: 48000}, genConc, func(c ConcCase) (vkit.Info, error) { i, e := runConc(c); return dedupe(i), e })
	vkit.Register("svcrace", vkit.N{Quick: 1600, Thorough: 40000}, genRace, func(c RaceCase) (vkit.Info, error) { i, e := runRace(c); return dedupe(i), e })
	vkit.Register("service", vkit.N{Quick: 2000, Thorough: 60000}, genSvc, func(c SvcCase) (vkit.Info, error) { i, e := runSvc(c); return dedupe(i), e })
}

// storage layout, from the property's anchors (server/core/storage.go:446-573)
const (
	keySafePoint  = "gc/safe_point"
	prefixService = "gc/safe_point/service/"
	gcWorker      = "gc_worker"
)

func loadStored(b kv.Base) (uint64, error) {
	v, err := b.Load(keySafePoint)
	if err != nil || v == "" {
		return 0, err
	}
	return strconv.ParseUint(v, 16, 64)
}

// ------------------------------------------------------------ (a) concurrent

type Task struct {
	Kind string `json:"k"` // update | get
	V    uint64 `json:"v,omitempty"`
	// FailRead n > 0: the n-th storage read (Load) this request issues fails (a failed etcd read)
	FailRead int `json:"fr,omitempty"`
}

type ConcCase struct {
	Init  uint64 `json:"init"` // safe point stored before the requests (0 = nothing stored)
	Tasks []Task `json:"tasks"`
	Sched []int  `json:"sched"`
}

func genValue(t *rapid.T, label string) uint64 {
	switch rapid.IntRange(0, 9).Draw(t, label+"Kind") {
	case 0:
		// realistic TSO-sized values
		return rapid.SampledFrom([]uint64{1 << 40, 425000000000000000, 425000000000262144, math.MaxUint64 - 1, math.MaxUint64}).Draw(t, label+"Big")
	default:
		return uint64(rapid.IntRange(0, 24).Draw(t, label))
	}
}

func genConc(t *rapid.T) ConcCase {
	var c ConcCase
	if rapid.IntRange(0, 2).Draw(t, "hasInit") == 0 {
		c.Init = genValue(t, "init")
	}
	nU := rapid.IntRange(2, 4).Draw(t, "updates")
	nG := rapid.IntRange(1, 2).Draw(t, "gets")
	kinds := make([]string, 0, nU+nG)
	for i := 0; i < nU; i++ {
		kinds = append(kinds, "update")
	}
	for i := 0; i < nG; i++ {
		kinds = append(kinds, "get")
	}
	kinds = rapid.Permutation(kinds).Draw(t, "order")
	for _, k := range kinds {
		tk := Task{Kind: k}
		if k == "update" {
			tk.V = genValue(t, "v")
		}
		if rapid.IntRange(0, 3).Draw(t, "failRead") == 3 {
			tk.FailRead = 1 // both requests read the safe point exactly once
		}
		c.Tasks = append(c.Tasks, tk)
	}
	// start + load + save per update, start + load per get
	steps := 3*nU + 2*nG
	for i := 0; i < steps; i++ {
		c.Sched = append(c.Sched, rapid.IntRange(0, 5).Draw(t, "pick"))
	}
	return c
}

type taskRec struct {
	started       bool
	done          bool
	ok            bool   // acknowledged without error
	resp          uint64 // acknowledged value
	err           string
	maxAckAtStart uint64
	anyAckAtStart bool
	storedAtStart uint64 // stored value read by the harness when the request was invoked
	startSeq      int
	endSeq        int
	loadStep      int // decision step at which its Load / Save was released (-1 = none)
	saveStep      int
	blockedOnHarn bool
	readFault     bool // one of its reads was failed by the harness
}

type concOutcome struct {
	recs     []taskRec
	stored   []uint64 // stored value observed at every decision point, then the final one
	trace    []string
	watchdog bool
	excluded bool
}

// execConc runs one schedule. serialize = run the updates' load-compare-save
// sections one at a time (harness mutex around the update call): the exclusion of
// the known trigger class.
func execConc(fx *livesrv.Fixture, c ConcCase, serialize bool) (*concOutcome, error) {
	w := fx.SwapStorage()
	defer fx.RestoreStorage()
	base := w.Base()
	if c.Init > 0 {
		if err := base.Save(keySafePoint, strconv.FormatUint(c.Init, 16)); err != nil {
			return nil, err
		}
	}
	s := gate.New()
	w.SetGate(func(kind, key string) error { return s.Enter(kind, key) })
	out := &concOutcome{recs: make([]taskRec, len(c.Tasks))}
	for i := range out.recs {
		out.recs[i].loadStep, out.recs[i].saveStep = -1, -1
	}
	var mu sync.Mutex // guards out.recs, seq, maxAck
	seq := 0
	var maxAck uint64
	anyAck := false
	var updMu sync.Mutex // harness serialisation of update sections (only when serialize)
	var wg sync.WaitGroup
	ctx := context.Background()
	for i, tk := range c.Tasks {
		i, tk := i, tk
		wg.Add(1)
		s.Go(i, func() {
			defer wg.Done()
			s.Enter("start", "") // the release of this entry is the invocation of the request
			st0, _ := loadStored(base)
			mu.Lock()
			r := &out.recs[i]
			r.started, r.maxAckAtStart, r.anyAckAtStart, r.startSeq = true, maxAck, anyAck, seq
			r.storedAtStart = st0
			seq++
			mu.Unlock()
			var val uint64
			var err error
			if tk.Kind == "update" {
				if serialize {
					if !updMu.TryLock() {
						mu.Lock()
						out.recs[i].blockedOnHarn = true
						mu.Unlock()
						updMu.Lock()
					}
				}
				var resp *pdpb.UpdateGCSafePointResponse
				resp, err = fx.Svr.UpdateGCSafePoint(ctx, &pdpb.UpdateGCSafePointRequest{Header: fx.Header(), SafePoint: tk.V})
				if serialize {
					updMu.Unlock()
				}
				if err == nil && resp.GetHeader().GetError() != nil {
					err = fmt.Errorf("header error: %v", resp.GetHeader().GetError())
				}
				val = resp.GetNewSafePoint()
			} else {
				var resp *pdpb.GetGCSafePointResponse
				resp, err = fx.Svr.GetGCSafePoint(ctx, &pdpb.GetGCSafePointRequest{Header: fx.Header()})
				if err == nil && resp.GetHeader().GetError() != nil {
					err = fmt.Errorf("header error: %v", resp.GetHeader().GetError())
				}
				val = resp.GetSafePoint()
			}
			mu.Lock()
			r = &out.recs[i]
			r.done, r.endSeq = true, seq
			seq++
			if err != nil {
				r.err = err.Error()
			} else {
				r.ok, r.resp = true, val
				if !anyAck || val > maxAck {
					maxAck = val
				}
				anyAck = true
			}
			mu.Unlock()
		})
	}
	var readErr error
	observe := func() {
		v, err := loadStored(base)
		if err != nil {
			readErr = err
		}
		out.stored = append(out.stored, v)
	}
	loads := make([]int, len(c.Tasks))
	fin := s.Run(c.Sched, func(step, task int, kind, key string) gate.Decision {
		observe()
		d := gate.Proceed
		mu.Lock()
		switch kind {
		case "load":
			out.recs[task].loadStep = step
			loads[task]++
			if c.Tasks[task].FailRead == loads[task] {
				out.recs[task].readFault = true
				d = gate.Fail
			}
		case "save":
			out.recs[task].saveStep = step
		}
		mu.Unlock()
		return d
	})
	if !fin {
		out.watchdog = true
	}
	s.Disable()
	done := make(chan struct{})
	go func() { wg.Wait(); close(done) }()
	select {
	case <-done:
	case <-time.After(20 * time.Second):
		livesrv.Fatal("C15: request goroutines did not finish after the gate was opened")
	}
	w.SetGate(nil)
	observe()
	out.trace = s.Trace
	if readErr != nil {
		return out, fmt.Errorf("oracle could not read the stored safe point: %v", readErr)
	}
	return out, nil
}

func checkConc(c ConcCase, o *concOutcome) error {
	// the largest value anybody offered
	maxOffered := c.Init
	for _, tk := range c.Tasks {
		if tk.Kind == "update" && tk.V > maxOffered {
			maxOffered = tk.V
		}
	}
	// (1) stored never decreases
	prev := c.Init
	for i, v := range o.stored {
		if v < prev {
			return vkit.Errf("stored GC safe point moved backwards: %d -> %d at decision point %d (trace %v)", prev, v, i, o.trace)
		}
		prev = v
	}
	final := prev
	for i, r := range o.recs {
		if !r.ok {
			continue
		}
		tk := c.Tasks[i]
		// (2) response >= every value acknowledged before the request was invoked
		if r.anyAckAtStart && r.resp < r.maxAckAtStart {
			return vkit.Errf("task %d (%s %d) was answered %d although %d had been acknowledged before it was invoked (trace %v)",
				i, tk.Kind, tk.V, r.resp, r.maxAckAtStart, o.trace)
		}
		// (2b) ... and >= the safe point that was stored when the request was invoked (what is returned is a later
		// reading of a value that never decreases)
		if r.resp < r.storedAtStart {
			return vkit.Errf("task %d (%s %d) was answered %d although %d was already stored when it was invoked (trace %v)",
				i, tk.Kind, tk.V, r.resp, r.storedAtStart, o.trace)
		}
		// (3) an update returns the new safe point after updating: never below what it asked for
		if tk.Kind == "update" && r.resp < tk.V {
			return vkit.Errf("task %d UpdateGCSafePoint(%d) was answered %d, below the requested value (trace %v)", i, tk.V, r.resp, o.trace)
		}
		if r.resp > maxOffered {
			return vkit.Errf("task %d (%s) was answered %d, larger than every value ever offered (%d)", i, tk.Kind, r.resp, maxOffered)
		}
		// (4) every acknowledged value is covered by what is stored in the end
		if final < r.resp {
			return vkit.Errf("task %d (%s %d) was acknowledged %d but the stored safe point is %d at the end (trace %v)",
				i, tk.Kind, tk.V, r.resp, final, o.trace)
		}
	}
	if final > maxOffered {
		return vkit.Errf("stored safe point %d exceeds every offered value (%d)", final, maxOffered)
	}
	return nil
}

func runConc(c ConcCase) (vkit.Info, error) {
	var info vkit.Info
	if len(c.Tasks) == 0 {
		return info, nil
	}
	fx := livesrv.MustGet()
	if !fx.Healthy() {
		livesrv.Fatal("C15: server lost leadership / cluster stopped")
	}
	serialize := vkit.Known(findingUnlocked)
	o, err := execConc(fx, c, serialize)
	if err != nil {
		if !fx.Healthy() {
			info.Inconclusive = true
			return info, nil
		}
		return info, err
	}
	if o.watchdog {
		info.Inconclusive = true
		info.Class("gate-watchdog")
		return info, nil
	}
	nErr := 0
	for _, r := range o.recs {
		// a request one of whose reads was failed may answer with an error (it is then no acknowledgement);
		// if it answers with a value, that value is judged like any other
		if !r.ok && !r.readFault {
			nErr++
		}
		info.ClassIf(r.readFault && !r.ok, "read-fault:error")
		info.ClassIf(r.readFault && r.ok, "read-fault:answered")
	}
	if nErr > 0 {
		// a request failed for a reason of the fixture (no fault is injected here): undecided
		info.Inconclusive = true
		info.Class("request-error")
		if !fx.Healthy() {
			livesrv.Fatal("C15: server lost leadership / cluster stopped during a case")
		}
		return info, nil
	}
	if err := checkConc(c, o); err != nil {
		return info, err
	}
	// classes
	overlap, sections, getInside, blocked, saves := false, false, false, false, 0
	for i, a := range o.recs {
		if c.Tasks[i].Kind == "update" && a.saveStep >= 0 {
			saves++
		}
		blocked = blocked || a.blockedOnHarn
		for j, b := range o.recs {
			if i == j {
				continue
			}
			if c.Tasks[i].Kind == "update" && c.Tasks[j].Kind == "update" && a.startSeq < b.startSeq && b.startSeq < a.endSeq {
				overlap = true
			}
			if c.Tasks[i].Kind == "update" && a.loadStep >= 0 && a.saveStep > a.loadStep && b.loadStep > a.loadStep && b.loadStep < a.saveStep {
				if c.Tasks[j].Kind == "update" {
					sections = true
				} else {
					getInside = true
				}
			}
		}
	}
	info.ClassIf(overlap, "updates-in-flight-together")
	info.ClassIf(sections, "update-sections-interleaved")
	info.ClassIf(getInside, "get-between-load-and-save")
	info.ClassIf(blocked, "update-waited-for-serialisation")
	info.ClassIf(saves >= 2, "two-or-more-saves")
	info.ClassIf(c.Init > 0, "pre-stored")
	if serialize && blocked {
		info.Exclude(findingUnlocked)
	}
	// NT: at least two updates in flight at the same time, at least one of them saving; while the
	// known class is excluded their storage sections cannot overlap, so a Get inside a section or a
	// second update waiting counts instead.
	if serialize {
		info.NonTrivial = overlap && saves >= 1 && (blocked || getInside)
	} else {
		info.NonTrivial = overlap && saves >= 1 && (sections || getInside)
	}
	return info, nil
}

// TestFinding_update_gc_safepoint_unlocked: "A(10) loads 0 and parks at its save,
// B(20) runs to completion and is acknowledged 20, A's save is released".
func TestFinding_update_gc_safepoint_unlocked(t *testing.T) {
	defer livesrv.Shutdown()
	fx, err := livesrv.Get()
	if err != nil {
		t.Logf("fixture did not start: %v", err)
		return // no report => the driver counts the probe as inconclusive
	}
	c := ConcCase{Tasks: []Task{{Kind: "update", V: 10}, {Kind: "update", V: 20}},
		// parked sets: {A.start,B.start}->A ; {A.load,B.start}->A ; {A.save,B.start}->B ; {A.save,B.load}->B ; {A.save,B.save}->B ; {A.save}->A
		Sched: []int{0, 0, 1, 1, 1, 0}}
	o, err := execConc(fx, c, false)
	if err != nil || o.watchdog || !o.recs[0].ok || !o.recs[1].ok {
		t.Logf("probe undecided: err=%v outcome=%+v", err, o)
		return
	}
	final := o.stored[len(o.stored)-1]
	rep := final < o.recs[1].resp
	vkit.Finding(t, findingUnlocked, rep, fmt.Sprintf("A=UpdateGCSafePoint(10) answered %d, B=UpdateGCSafePoint(20) answered %d, stored at the end %d, trace %v",
		o.recs[0].resp, o.recs[1].resp, final, o.trace))
}

// TestFinding_service_id_path_join: the service id is joined into the storage key with path.Join, so
// the id ".." addresses the cluster GC safe point itself: UpdateServiceGCSafePoint("..", ttl<=0) deletes
// it (it reads back as 0 after 100 was acknowledged), ttl>0 overwrites it with JSON that
// LoadGCSafePoint cannot parse.
func TestFinding_service_id_path_join(t *testing.T) {
	defer livesrv.Shutdown()
	fx, err := livesrv.Get()
	if err != nil {
		t.Logf("fixture did not start: %v", err)
		return
	}
	fx.SwapStorage()
	defer fx.RestoreStorage()
	ctx := context.Background()
	u, err := fx.Svr.UpdateGCSafePoint(ctx, &pdpb.UpdateGCSafePointRequest{Header: fx.Header(), SafePoint: 100})
	if err != nil || u.GetHeader().GetError() != nil || u.GetNewSafePoint() != 100 {
		t.Logf("probe undecided: %v %v", u, err)
		return
	}
	_, e1 := fx.Svr.UpdateServiceGCSafePoint(ctx, &pdpb.UpdateServiceGCSafePointRequest{Header: fx.Header(), ServiceId: []byte(".."), TTL: -1, SafePoint: 1})
	g1, ge1 := fx.Svr.GetGCSafePoint(ctx, &pdpb.GetGCSafePointRequest{Header: fx.Header()})
	_, e2 := fx.Svr.UpdateServiceGCSafePoint(ctx, &pdpb.UpdateServiceGCSafePointRequest{Header: fx.Header(), ServiceId: []byte(".."), TTL: 1000000, SafePoint: 1})
	g2, ge2 := fx.Svr.GetGCSafePoint(ctx, &pdpb.GetGCSafePointRequest{Header: fx.Header()})
	rep := (ge1 == nil && g1.GetSafePoint() < 100) || ge1 != nil || ge2 != nil || g2.GetSafePoint() < 100
	vkit.Finding(t, findingServiceID, rep, fmt.Sprintf("UpdateGCSafePoint(100) acknowledged 100; UpdateServiceGCSafePoint(id \"..\", ttl -1): err=%v, then GetGCSafePoint = %d (err=%v); UpdateServiceGCSafePoint(id \"..\", ttl 1e6): err=%v, then GetGCSafePoint = %d (err=%v)",
		e1, g1.GetSafePoint(), ge1, e2, g2.GetSafePoint(), ge2))
}

// ------------------------------------------------------------ HTTP API in-process

var (
	apiMu   sync.Mutex
	apiFor  *server.Server
	apiHand http.Handler
)

// apiDo serves one request through the real API router ON THE CALLING GOROUTINE (so that the storage
// operations of the handler are the caller's: they park at the gate of a schedule).
func apiDo(fx *livesrv.Fixture, method, path string) (int, string) {
	apiMu.Lock()
	if apiFor != fx.Svr {
		h, _, err := api.NewHandler(context.Background(), fx.Svr)
		if err != nil {
			apiMu.Unlock()
			return 0, err.Error()
		}
		apiFor, apiHand = fx.Svr, h
	}
	h := apiHand
	apiMu.Unlock()
	rec := httptest.NewRecorder()
	h.ServeHTTP(rec, httptest.NewRequest(method, path, nil))
	return rec.Code, rec.Body.String()
}

// rawServices is the raw listing of the stored service entries (keys and values as stored).
func rawServices(b kv.Base) string {
	ks, vs, err := b.LoadRange(prefixService, "gc/safe_point/service0", 0)
	if err != nil {
		return "unreadable: " + err.Error()
	}
	var sb strings.Builder
	for i := range ks {
		fmt.Fprintf(&sb, "%q=%s ", ks[i], vs[i])
	}
	return sb.String()
}

// ------------------------------------------------------------ (c) service safe points under a schedule
//
// "svcrace": gRPC service updates, HTTP list requests and HTTP deletes, one goroutine each, parked at
// their invocation and at every storage operation and released in the order drawn with the case; some
// entries are stored already expired. Every id is the target of at most one update/delete per case, so
// at quiescence: a registration that was acknowledged and found stored right after its acknowledgement
// must still be stored (nobody else was asked to touch that id; only EXPIRED entries may be purged by
// other requests); gc_worker exists with unlimited lifetime; a final update's minimum is not above any
// live stored service.

type RaceTask struct {
	Kind string `json:"k"` // update | list | delete
	ID   int    `json:"id,omitempty"`
	D    int    `json:"d,omitempty"` // update: safe point = stored minimum at start + D
}

type RaceCase struct {
	Seeds []Seed     `json:"seeds"`
	Tasks []RaceTask `json:"tasks"`
	Sched []int      `json:"sched"`
}

func genRace(t *rapid.T) RaceCase {
	var c RaceCase
	ids := rapid.Permutation([]int{0, 1, 2, 3, 4}).Draw(t, "seedIDs")
	for i, n := 0, rapid.IntRange(1, 4).Draw(t, "seeds"); i < n; i++ {
		c.Seeds = append(c.Seeds, Seed{ID: ids[i], SP: uint64(rapid.IntRange(0, 9).Draw(t, "seedSP")),
			Exp: rapid.SampledFrom([]string{"expired", "expired", "live", "inf"}).Draw(t, "seedExp")})
	}
	targets := rapid.Permutation([]int{1, 2, 3, 4, 0}).Draw(t, "targets") // each id at most once
	nMut := rapid.IntRange(1, 3).Draw(t, "mutators")
	if rapid.IntRange(0, 1).Draw(t, "lateRenewal") == 0 {
		// frequent shape: the owner of a lapsed registration renews it while list requests are in flight
		nMut = rapid.IntRange(1, 2).Draw(t, "mutatorsFocused")
		if targets[0] == 0 { // not gc_worker: its entry never lapses
			targets[0], targets[1] = targets[1], targets[0]
		}
		found := false
		for i := range c.Seeds {
			if c.Seeds[i].ID == targets[0] {
				c.Seeds[i].Exp, found = "expired", true
			}
		}
		if !found {
			c.Seeds = append(c.Seeds, Seed{ID: targets[0], SP: uint64(rapid.IntRange(0, 9).Draw(t, "lapsedSP")), Exp: "expired"})
		}
	}
	nList := rapid.IntRange(1, 2).Draw(t, "lists")
	for i := 0; i < nMut; i++ {
		tk := RaceTask{Kind: "update", ID: targets[i], D: rapid.IntRange(0, 4).Draw(t, "d")}
		if targets[i] != 0 && rapid.IntRange(0, 5).Draw(t, "del") == 0 {
			tk = RaceTask{Kind: "delete", ID: targets[i]}
		}
		c.Tasks = append(c.Tasks, tk)
	}
	for i := 0; i < nList; i++ {
		c.Tasks = append(c.Tasks, RaceTask{Kind: "list"})
	}
	order := rapid.Permutation(c.Tasks).Draw(t, "order")
	c.Tasks = order
	for i := 0; i < 8*len(c.Tasks); i++ {
		c.Sched = append(c.Sched, rapid.IntRange(0, 5).Draw(t, "pick"))
	}
	return c
}

func runRace(c RaceCase) (vkit.Info, error) {
	var info vkit.Info
	fx := livesrv.MustGet()
	if !fx.Healthy() {
		livesrv.Fatal("C15: server lost leadership / cluster stopped")
	}
	w := fx.SwapStorage()
	defer fx.RestoreStorage()
	base := w.Base()
	now0, err := fx.Now()
	if err != nil {
		info.Inconclusive = true
		return info, nil
	}
	for _, sd := range c.Seeds {
		id := svcIDs[sd.ID]
		exp := int64(math.MaxInt64)
		switch sd.Exp {
		case "expired":
			exp = now0.Unix() - 1000000
		case "live":
			exp = now0.Unix() + 1000000
		}
		b, _ := json.Marshal(storedSSP{ServiceID: id, ExpiredAt: exp, SafePoint: sd.SP})
		if err := base.Save(prefixService+id, string(b)); err != nil {
			return info, err
		}
		info.ClassIf(exp < now0.Unix(), "seed-expired")
	}
	apiDo(fx, "GET", "/pd/api/v1/gc/safepoint") // build the router outside the schedule
	s := gate.New()
	w.SetGate(func(kind, key string) error { return s.Enter(kind, key) })
	type rec struct {
		ok, stored bool // acknowledged; found stored (with the requested safe point) right after the acknowledgement
		sp         uint64
		err        string
	}
	recs := make([]rec, len(c.Tasks))
	var mu sync.Mutex
	var wg sync.WaitGroup
	ctx := context.Background()
	for i, tk := range c.Tasks {
		i, tk := i, tk
		wg.Add(1)
		s.Go(i, func() {
			defer wg.Done()
			s.Enter("start", "")
			id := svcIDs[tk.ID]
			var r rec
			switch tk.Kind {
			case "update":
				cur, _ := readServices(base)
				mn, _ := minOf(cur)
				r.sp = mn + uint64(tk.D)
				ttl := int64(1000000)
				if id == gcWorker {
					ttl = math.MaxInt64
				}
				resp, err := fx.Svr.UpdateServiceGCSafePoint(ctx, &pdpb.UpdateServiceGCSafePointRequest{
					Header: fx.Header(), ServiceId: []byte(id), TTL: ttl, SafePoint: r.sp})
				if err != nil {
					r.err = err.Error()
				} else if resp.GetHeader().GetError() != nil {
					r.err = resp.GetHeader().GetError().String()
				} else {
					r.ok = true
					if after, e := readServices(base); e == nil {
						if en, ok := after[id]; ok && en.SP == r.sp && en.Exp > now0.Unix()+1000 {
							r.stored = true
						}
					}
				}
			case "delete":
				code, body := apiDo(fx, "DELETE", "/pd/api/v1/gc/safepoint/"+id)
				r.ok = code == http.StatusOK
				if !r.ok {
					r.err = body
				}
			default:
				code, body := apiDo(fx, "GET", "/pd/api/v1/gc/safepoint")
				r.ok = code == http.StatusOK
				if !r.ok {
					r.err = body
				}
			}
			mu.Lock()
			recs[i] = r
			mu.Unlock()
		})
	}
	fin := s.Run(c.Sched, nil)
	s.Disable()
	done := make(chan struct{})
	go func() { wg.Wait(); close(done) }()
	select {
	case <-done:
	case <-time.After(20 * time.Second):
		livesrv.Fatal("C15: request goroutines did not finish after the gate was opened")
	}
	w.SetGate(nil)
	if !fin {
		info.Inconclusive = true
		info.Class("gate-watchdog")
		return info, nil
	}
	for i, r := range recs {
		if !r.ok {
			info.Inconclusive = true
			info.Class("request-error")
			_ = i
			if !fx.Healthy() {
				livesrv.Fatal("C15: server lost leadership / cluster stopped during a case")
			}
			return info, nil
		}
	}
	final, rerr := readServices(base)
	if rerr != nil {
		return info, vkit.Errf("at quiescence: %v (trace %v)", rerr, s.Trace)
	}
	kept := 0
	for i, r := range recs {
		tk := c.Tasks[i]
		if tk.Kind != "update" || !r.stored {
			continue
		}
		id := svcIDs[tk.ID]
		en, ok := final[id]
		if !ok {
			return info, vkit.Errf("the registration of %q (safe point %d, far expiry) was acknowledged and stored, no other request was asked to touch that id, yet at quiescence it is gone: stored %s (tasks %+v, trace %v)",
				id, r.sp, fmtState(final), c.Tasks, s.Trace)
		}
		if en.SP != r.sp {
			return info, vkit.Errf("the acknowledged registration of %q has safe point %d at quiescence, registered %d (trace %v)", id, en.SP, r.sp, s.Trace)
		}
		kept++
	}
	// a final request: gc_worker repaired/kept, minimum not above any live service
	resp, err := fx.Svr.UpdateServiceGCSafePoint(ctx, &pdpb.UpdateServiceGCSafePointRequest{Header: fx.Header(), ServiceId: []byte("probe"), TTL: -1})
	if err != nil || resp.GetHeader().GetError() != nil {
		info.Inconclusive = true
		info.Class("request-error")
		return info, nil
	}
	na, _ := fx.Now()
	end, rerr := readServices(base)
	if rerr != nil {
		return info, vkit.Errf("after the final request: %v", rerr)
	}
	if gw, ok := end[gcWorker]; !ok || gw.Exp != math.MaxInt64 {
		return info, vkit.Errf("gc_worker entry missing or with finite lifetime after the schedule: %s (trace %v)", fmtState(end), s.Trace)
	}
	for k, e := range end {
		if e.Exp >= na.Unix() && resp.GetMinSafePoint() > e.SP {
			return info, vkit.Errf("reported minimum %d above the safe point of live service %q: %s (trace %v)", resp.GetMinSafePoint(), k, fmtState(end), s.Trace)
		}
	}
	nUpd, nList := 0, 0
	for _, tk := range c.Tasks {
		if tk.Kind == "update" {
			nUpd++
		}
		if tk.Kind == "list" {
			nList++
		}
	}
	info.ClassIf(kept > 0, "acknowledged-registration-kept")
	info.NonTrivial = kept >= 1 && nList >= 1
	return info, nil
}

// ------------------------------------------------------------ (b) service safe points

// indices 0-5: what TiDB/BR/TiCDC send (plus the empty id); 6: a benign id with a slash; 7-13: ids that path
// cleaning alters (the id is an arbitrary byte string chosen by the gRPC client / the REST path)
var svcIDs = []string{gcWorker, "ticdc", "br", "br-1", "svc_a", "", "a/b",
	"..", "../safe_point", ".", "a/../br", "/", "br/", "ticdc/",
	// 14, 15: two of the bulk-registered services (see SvcCase.Bulk), so that ops renew / remove them
	"bulk-0001", "bulk-0002",
	// 16-20: the gRPC service id is raw bytes: ids that are not valid UTF-8, next to the ids they turn into when
	// encoding/json replaces every invalid byte by U+FFFD (the id is also stored inside the JSON value), and a raw
	// 16-byte UUID. They are DISTINCT services: the storage key keeps the raw bytes.
	"\xff", "\uFFFD", "bk-\xff\xfe", "bk-\uFFFD\uFFFD", "\x8f\x1d\xa3\x07\xee\x5b\x42\x99\xc0\x11\x7a\xfe\x03\xd2\x6c\xb8"}

// lossy is the id as it comes back from the stored JSON value (invalid UTF-8 bytes become U+FFFD).
func lossy(id string) string {
	b, _ := json.Marshal(id)
	var out string
	json.Unmarshal(b, &out)
	return out
}

// hostileID: the id does not survive being joined as a path element, so it addresses another storage key
// than "gc/safe_point/service/<id>" (the empty id is handled separately: the storage refuses to save it).
func hostileID(id string) bool {
	return id != "" && path.Join("gc/safe_point/service", id) != prefixService+id
}

// TTL specs, resolved by the runner ("now" is the server's TSO clock)
var ttlSpecs = []string{"-1", "0", "1", "1000000", "max-now", "max", "min", "max-now-1e6", "3600",
	// the neighbourhood of the overflow boundary of now+TTL (indices 9-14)
	"max-1", "max-2", "max-now+1", "max-now+1000", "max-now-1", "half"}

var boundaryTTLs = []int{4, 5, 9, 10, 11, 12, 13, 14}

type Seed struct {
	ID  int    `json:"id"` // index into svcIDs (never the empty id)
	SP  uint64 `json:"sp"`
	Exp string `json:"exp"` // expired | epoch | live | inf
}

type SOp struct {
	Kind string `json:"k"` // update | apidelete
	ID   int    `json:"id"`
	TTL  int    `json:"ttl,omitempty"` // index into ttlSpecs
	Rel  bool   `json:"rel,omitempty"` // safe point = current model minimum + D (floored at 0)
	D    int    `json:"d,omitempty"`
	SP   uint64 `json:"sp,omitempty"`
	// FailRead n > 0: the n-th storage read (LoadRange) this request issues fails
	FailRead int `json:"fr,omitempty"`
}

type SvcCase struct {
	GC uint64 `json:"gc,omitempty"` // cluster GC safe point stored before the history (service ops must not touch it)
	// Bulk > 0: before the history the storage holds exactly Bulk service entries in total (the seeds, gc_worker
	// and services bulk-0001, bulk-0002, ... with safe points BulkSP+i%7 and a far expiry), around the paging
	// boundaries of a range read (100 per page). BulkExpired of the bulk services are stored already expired, so
	// that the first request prunes them and the number of entries moves across a boundary during the history.
	Bulk        int    `json:"bulk,omitempty"`
	BulkExpired int    `json:"bulkExpired,omitempty"`
	BulkSP      uint64 `json:"bulkSP,omitempty"`
	Seeds       []Seed `json:"seeds"`
	Ops         []SOp  `json:"ops"`
}

func genSvc(t *rapid.T) SvcCase {
	var c SvcCase
	nSeed := rapid.IntRange(0, 5).Draw(t, "seeds")
	// besides the ordinary ids: the non-UTF-8 ids and their U+FFFD spellings (16-20), stored expired or live, so
	// that a binary id expires next to the live service that carries its lossy spelling (no sleeping: "a
	// registration that has expired" is an entry stored with a past expiry, exactly what the handler wrote then)
	ids := rapid.Permutation([]int{0, 1, 2, 3, 4, 16, 17, 18, 19, 20, 16, 17}).Draw(t, "seedIDs")
	seen := map[int]bool{}
	for i := 0; i < nSeed; i++ {
		if seen[ids[i]] {
			continue
		}
		seen[ids[i]] = true
		c.Seeds = append(c.Seeds, Seed{ID: ids[i], SP: uint64(rapid.IntRange(0, 30).Draw(t, "seedSP")),
			Exp: rapid.SampledFrom([]string{"expired", "epoch", "live", "live", "inf"}).Draw(t, "seedExp")})
	}
	if rapid.IntRange(0, 2).Draw(t, "hasGC") != 0 {
		c.GC = uint64(rapid.IntRange(1, 40).Draw(t, "gc"))
	}
	if rapid.IntRange(0, 2).Draw(t, "hasBulk") == 2 {
		c.Bulk = rapid.SampledFrom([]int{100, 100, 100, 200, 200, 99, 101, 98, 102, 103, 199, 201, 202, 1, 300}).Draw(t, "bulk")
		c.BulkExpired = rapid.SampledFrom([]int{0, 0, 0, 1, 2, 3}).Draw(t, "bulkExpired")
		c.BulkSP = uint64(rapid.IntRange(1, 20).Draw(t, "bulkSP"))
	}
	n := rapid.IntRange(3, 12).Draw(t, "ops")
	for i := 0; i < n; i++ {
		var op SOp
		op.Kind = "update"
		switch rapid.IntRange(0, 11).Draw(t, "kind") {
		case 7:
			op.Kind = "apidelete"
		case 9:
			op.Kind = "list" // GET /pd/api/v1/gc/safepoint: read-only
		}
		op.ID = rapid.SampledFrom([]int{0, 0, 0, 1, 1, 1, 2, 2, 3, 3, 4, 4, 5, 6, 7, 7, 8, 9, 10, 11, 12, 13, 14, 14, 15, 16, 16, 17, 17, 18, 19, 20}).Draw(t, "id")
		if op.Kind == "update" {
			op.TTL = rapid.SampledFrom([]int{0, 1, 2, 3, 3, 3, 4, 5, 5, 6, 7, 8, 8, 9, 10, 11, 12, 13, 14}).Draw(t, "ttl")
			if rapid.IntRange(0, 2).Draw(t, "rel") != 0 {
				op.Rel = true
				op.D = rapid.IntRange(-3, 6).Draw(t, "d")
			} else {
				op.SP = genValue(t, "sp")
				if op.SP == math.MaxUint64 {
					// MaxUint64 is the code's "no safe point" sentinel and not a timestamp a service can hold
					op.SP--
				}
			}
		}
		if op.Kind == "update" {
			op.FailRead = rapid.SampledFrom([]int{0, 0, 0, 0, 0, 1, 1, 2}).Draw(t, "failRead")
		}
		c.Ops = append(c.Ops, op)
		// frequent pattern: a service registers with a TTL next to the overflow boundary of now+TTL at (or just
		// above) the current minimum, then gc_worker / another service advances: the first registration must still
		// hold the minimum down
		if rapid.IntRange(0, 3).Draw(t, "boundaryPair") == 0 {
			c.Ops = append(c.Ops, SOp{Kind: "update", ID: rapid.SampledFrom([]int{1, 2, 3, 4}).Draw(t, "pairID"),
				TTL: rapid.SampledFrom(boundaryTTLs).Draw(t, "pairTTL"), Rel: true, D: rapid.IntRange(0, 2).Draw(t, "pairD")})
			c.Ops = append(c.Ops, SOp{Kind: "update", ID: rapid.SampledFrom([]int{0, 0, 1, 2}).Draw(t, "advID"),
				TTL: 5, Rel: true, D: rapid.IntRange(3, 6).Draw(t, "advD")})
		}
	}
	return c
}

type entry struct {
	SP  uint64
	Exp int64
}

// stored form of a service safe point (JSON field names from the storage anchors)
type storedSSP struct {
	ServiceID string `json:"service_id"`
	ExpiredAt int64  `json:"expired_at"`
	SafePoint uint64 `json:"safe_point"`
}

func readServices(b kv.Base) (map[string]entry, error) {
	ks, vs, err := b.LoadRange(prefixService, "gc/safe_point/service0", 0)
	if err != nil {
		return nil, err
	}
	out := map[string]entry{}
	for i, k := range ks {
		var s storedSSP
		if err := json.Unmarshal([]byte(vs[i]), &s); err != nil {
			return nil, fmt.Errorf("stored entry %q is not JSON: %v", k, err)
		}
		// services are identified by the raw bytes of their id = the key suffix; the id inside the JSON value
		// can only be its lossy spelling
		raw := strings.TrimPrefix(k, prefixService)
		if s.ServiceID != lossy(raw) {
			return nil, fmt.Errorf("stored entry %q carries service id %q", k, s.ServiceID)
		}
		out[raw] = entry{SP: s.SafePoint, Exp: s.ExpiredAt}
	}
	return out, nil
}

func fmtState(m map[string]entry) string {
	ids := make([]string, 0, len(m))
	for id := range m {
		ids = append(ids, id)
	}
	sort.Strings(ids)
	var sb strings.Builder
	for n, id := range ids {
		if len(ids) > 16 && strings.HasPrefix(id, "bulk-") && n > 8 && id != "bulk-0001" && id != "bulk-0002" {
			continue // keep messages readable: most bulk entries are elided
		}
		e := m[id]
		exp := strconv.FormatInt(e.Exp, 10)
		if e.Exp == math.MaxInt64 {
			exp = "inf"
		}
		name := id
		if lossy(id) != id {
			name = strconv.Quote(id)
		}
		fmt.Fprintf(&sb, "%s:{sp %d exp %s} ", name, e.SP, exp)
	}
	return fmt.Sprintf("[%s] (%d entries)", strings.TrimSpace(sb.String()), len(m))
}

func copyState(m map[string]entry) map[string]entry {
	o := make(map[string]entry, len(m))
	for k, v := range m {
		o[k] = v
	}
	return o
}

func minOf(m map[string]entry) (uint64, bool) {
	first := true
	var mn uint64
	for _, e := range m {
		if first || e.SP < mn {
			mn, first = e.SP, false
		}
	}
	return mn, !first
}

func runSvc(c SvcCase) (vkit.Info, error) {
	var info vkit.Info
	fx := livesrv.MustGet()
	if !fx.Healthy() {
		livesrv.Fatal("C15: server lost leadership / cluster stopped")
	}
	w := fx.SwapStorage()
	defer fx.RestoreStorage()
	base := w.Base()
	inconclusive := func(class string) (vkit.Info, error) {
		info.Inconclusive = true
		info.Class(class)
		if !fx.Healthy() {
			livesrv.Fatal("C15: server lost leadership / cluster stopped during a case")
		}
		return info, nil
	}
	now0, err := fx.Now()
	if err != nil {
		return inconclusive("tso-error")
	}
	model := map[string]entry{}
	for _, sd := range c.Seeds {
		id := svcIDs[sd.ID]
		var exp int64
		switch sd.Exp {
		case "expired":
			exp = now0.Unix() - 1000000
		case "epoch":
			exp = 1
		case "live":
			exp = now0.Unix() + 1000000
		default:
			exp = math.MaxInt64
		}
		b, _ := json.Marshal(storedSSP{ServiceID: id, ExpiredAt: exp, SafePoint: sd.SP})
		if err := base.Save(prefixService+id, string(b)); err != nil {
			return info, err
		}
		model[id] = entry{SP: sd.SP, Exp: exp}
		info.ClassIf(id == gcWorker && exp != math.MaxInt64, "seed-gc_worker-finite")
		info.ClassIf(exp < now0.Unix(), "seed-expired")
	}
	if c.Bulk > 0 {
		// written straight into the storage in the stored format (like the seeds): the total number of stored
		// entries is what matters, not how they got there
		put := func(id string, sp uint64, exp int64) error {
			b, _ := json.Marshal(storedSSP{ServiceID: id, ExpiredAt: exp, SafePoint: sp})
			model[id] = entry{SP: sp, Exp: exp}
			return base.Save(prefixService+id, string(b))
		}
		if _, ok := model[gcWorker]; !ok && len(model) < c.Bulk {
			if err := put(gcWorker, c.BulkSP, math.MaxInt64); err != nil {
				return info, err
			}
		}
		for i := 1; len(model) < c.Bulk; i++ {
			id := fmt.Sprintf("bulk-%04d", i)
			if _, ok := model[id]; ok {
				continue
			}
			exp := now0.Unix() + 1000000
			if i > 2 && i <= 2+c.BulkExpired {
				exp = now0.Unix() - 1000000
			}
			if err := put(id, c.BulkSP+uint64(i%7), exp); err != nil {
				return info, err
			}
		}
		info.Class(fmt.Sprintf("bulk:%d", len(model)))
		info.ClassIf(c.BulkExpired > 0, "bulk-with-expired")
	}
	seededGW := false
	if _, ok := model[gcWorker]; ok {
		seededGW = true
	}
	info.ClassIf(len(c.Seeds) > 0 && !seededGW, "seed-without-gc_worker")
	accepted, below, removed, pruned := 0, 0, 0, 0
	ctx := context.Background()
	if c.GC > 0 {
		if err := base.Save(keySafePoint, strconv.FormatUint(c.GC, 16)); err != nil {
			return info, err
		}
	}
	// read faults: the n-th Load/LoadRange issued while armed fails (clean failure of the read)
	rfN, rfSeen := 0, 0
	w.SetGate(func(kind, key string) error {
		if kind == "load" || kind == "range" {
			if rfN > 0 {
				rfSeen++
				if rfSeen == rfN {
					return faultkv.ErrInjected
				}
			}
		}
		return nil
	})
	// service operations never touch the cluster GC safe point: it stays readable and never decreases
	checkGC := func(where string) error {
		v, err := loadStored(base)
		if err != nil {
			raw, _ := base.Load(keySafePoint)
			return vkit.Errf("%s: the cluster GC safe point (stored %d before the history) is no longer readable: %v (stored value %.80q)", where, c.GC, err, raw)
		}
		if v != c.GC {
			return vkit.Errf("%s: the cluster GC safe point changed from %d to %d through a service safe point operation", where, c.GC, v)
		}
		return nil
	}
	for step, op := range c.Ops {
		id := svcIDs[op.ID]
		where := func() string { return fmt.Sprintf("step %d %+v (id %q)", step, op, id) }
		pre := copyState(model)
		hostile := hostileID(id)
		if hostile && vkit.Known(findingServiceID) {
			// known class: ids that path cleaning alters address other keys (even the cluster GC safe point)
			info.Exclude(findingServiceID)
			info.Class("known:hostile-id-skipped")
			continue
		}
		info.ClassIf(hostile, "hostile-id")
		if op.Kind == "list" {
			rawBefore := rawServices(base)
			code, body := apiDo(fx, "GET", "/pd/api/v1/gc/safepoint")
			if code != http.StatusOK {
				return inconclusive("request-error")
			}
			if rawAfter := rawServices(base); rawAfter != rawBefore {
				return info, vkit.Errf("%s: GET /gc/safepoint (answer %.200s) changed what is stored: %s  =>  %s", where(), body, rawBefore, rawAfter)
			}
			if gerr := checkGC(where()); gerr != nil {
				return info, gerr
			}
			info.Class("op-list")
			continue
		}
		if op.Kind == "apidelete" {
			// DELETE /pd/api/v1/gc/safepoint/{service_id} is storage.RemoveServiceGCSafePoint
			err := fx.Svr.GetStorage().RemoveServiceGCSafePoint(id)
			post, rerr := readServices(base)
			if rerr != nil {
				return info, vkit.Errf("%s: %v", where(), rerr)
			}
			want := copyState(pre)
			if id != gcWorker && !(hostile && err != nil) { // an id that does not survive path cleaning may be refused
				delete(want, id)
				if err != nil {
					return inconclusive("request-error")
				}
				if _, had := pre[id]; had {
					removed++
				}
			}
			if gerr := checkGC(where()); gerr != nil {
				return info, gerr
			}
			if d := diffState(want, post, nil); d != "" {
				return info, vkit.Errf("%s: after the HTTP delete (err=%v) the stored entries are %s, expected %s: %s", where(), err, fmtState(post), fmtState(want), d)
			}
			model = post
			info.Class("op-apidelete")
			continue
		}
		nb, err := fx.Now()
		if err != nil {
			return inconclusive("tso-error")
		}
		// resolve the relative arguments
		var ttl int64
		infinite, justBelow := false, false
		switch ttlSpecs[op.TTL] {
		case "max-now":
			ttl, infinite = math.MaxInt64-nb.Unix(), true
		case "max":
			ttl, infinite = math.MaxInt64, true
		case "min":
			ttl = math.MinInt64
		case "max-now-1e6":
			ttl = math.MaxInt64 - nb.Unix() - 1000000
		// the neighbourhood of the overflow boundary: the handler's now is >= nb, so every TTL >= MaxInt64-nb is
		// unlimited for certain; MaxInt64-nb-1 is finite exactly when the handler's clock shows the same second
		case "max-1":
			ttl, infinite = math.MaxInt64-1, true
		case "max-2":
			ttl, infinite = math.MaxInt64-2, true
		case "max-now+1":
			ttl, infinite = math.MaxInt64-nb.Unix()+1, true
		case "max-now+1000":
			ttl, infinite = math.MaxInt64-nb.Unix()+1000, true
		case "max-now-1":
			ttl, justBelow = math.MaxInt64-nb.Unix()-1, true
		case "half":
			ttl = math.MaxInt64 / 2
		default:
			ttl, _ = strconv.ParseInt(ttlSpecs[op.TTL], 10, 64)
		}
		sp := op.SP
		if op.Rel {
			mn, _ := minOf(pre)
			switch {
			case op.D < 0 && uint64(-op.D) > mn:
				sp = 0
			case op.D < 0:
				sp = mn - uint64(-op.D)
			case mn > math.MaxUint64-1-uint64(op.D):
				// saturate below MaxUint64: that value is the code's "no safe point" sentinel, not a
				// timestamp a service can hold (see assumptions)
				sp = math.MaxUint64 - 1
			default:
				sp = mn + uint64(op.D)
			}
		}
		rfN, rfSeen = op.FailRead, 0
		resp, err := fx.Svr.UpdateServiceGCSafePoint(ctx, &pdpb.UpdateServiceGCSafePointRequest{
			Header: fx.Header(), ServiceId: []byte(id), TTL: ttl, SafePoint: sp})
		readFault := rfN > 0 && rfSeen >= rfN
		rfN = 0
		na, nerr := fx.Now()
		if nerr != nil {
			return inconclusive("tso-error")
		}
		if err == nil && resp.GetHeader().GetError() != nil {
			return inconclusive("request-error")
		}
		post, rerr := readServices(base)
		if rerr != nil {
			return info, vkit.Errf("%s: %v", where(), rerr)
		}
		desc := func() string {
			return fmt.Sprintf("%s ttl=%d sp=%d: before %s, after %s, response {id %q min %d ttl %d} err=%v", where(), ttl, sp,
				fmtState(pre), fmtState(post), resp.GetServiceId(), resp.GetMinSafePoint(), resp.GetTTL(), err)
		}
		if gerr := checkGC(desc()); gerr != nil {
			return info, gerr
		}
		info.ClassIf(op.TTL >= 9 || op.TTL == 4, "ttl-near-overflow-boundary")
		// gc_worker exists with unlimited lifetime after every successful op
		if gw, ok := post[gcWorker]; err == nil && (!ok || gw.Exp != math.MaxInt64) {
			return info, vkit.Errf("gc_worker entry missing or with finite lifetime: %s", desc())
		}
		if readFault && err != nil {
			// One of the request's reads failed and the request answered with an error: it is no acknowledgement,
			// and whatever it did before the failed read may stay (the ttl<=0 removal precedes the first read, the
			// registration precedes the second). What a read fault must NOT do: drop or change the entry of any
			// other live service, delete gc_worker, or leave entries nobody asked for.
			for k, e := range pre {
				if k == id && k != gcWorker {
					continue
				}
				if k != gcWorker && e.Exp < na.Unix() {
					continue // expired or expiring: may have been pruned
				}
				g, ok := post[k]
				if !ok {
					return info, vkit.Errf("a failed storage read made the request drop the live entry %q: %s", k, desc())
				}
				if g.SP != e.SP && !(k == id && g.SP == sp) {
					return info, vkit.Errf("a failed storage read changed the safe point of %q from %d to %d: %s", k, e.SP, g.SP, desc())
				}
			}
			for k, g := range post {
				if _, had := pre[k]; had || k == gcWorker {
					continue
				}
				if !(k == id && ttl > 0 && g.SP == sp) {
					return info, vkit.Errf("a failed storage read left an entry nobody asked for, %q {sp %d}: %s", k, g.SP, desc())
				}
			}
			model = post
			info.Class("read-fault:error")
			continue
		}
		info.ClassIf(readFault, "read-fault:answered")
		// ---- reference model
		want := copyState(pre)
		if ttl <= 0 && id != gcWorker {
			delete(want, id)
		}
		inDoubt := false
		nPruned := 0
		for k, e := range want {
			if k == gcWorker {
				continue
			}
			if e.Exp < nb.Unix() {
				delete(want, k)
				nPruned++
			} else if e.Exp < na.Unix() {
				inDoubt = true
			}
		}
		if justBelow && na.Unix() != nb.Unix() {
			// TTL = MaxInt64-now-1 and the clock moved to the next second: finite or unlimited, both possible
			inDoubt = true
		}
		if inDoubt {
			// an entry expires exactly while this request runs: follow the real state, keep the weak checks
			if err == nil {
				for k, e := range post {
					if e.Exp >= na.Unix() && resp.GetMinSafePoint() > e.SP {
						return info, vkit.Errf("reported minimum above the safe point of live service %q: %s", k, desc())
					}
				}
			}
			model = post
			info.Class("expiry-in-doubt")
			continue
		}
		if gw, ok := want[gcWorker]; ok {
			gw.Exp = math.MaxInt64
			want[gcWorker] = gw
		} else {
			mn, _ := minOf(want) // 0 when nothing else is live
			want[gcWorker] = entry{SP: mn, Exp: math.MaxInt64}
		}
		mn, _ := minOf(want)
		// requests the storage layer refuses by documented rule: empty id, finite lifetime for gc_worker, removing gc_worker
		refusable := (ttl <= 0 && id == gcWorker) || (ttl > 0 && sp >= mn && (id == "" || (id == gcWorker && !infinite)))
		var bracket map[string][2]int64
		recorded := false
		mnBefore := mn // the minimum before this request's own registration
		// what is stored if the request is refused as a whole after the pruning (ids that path cleaning alters):
		// neither the removal nor the registration happened
		refusedState := copyState(want)
		if e, ok := pre[id]; ok && ttl <= 0 && id != gcWorker && e.Exp >= nb.Unix() {
			refusedState[id] = e
		}
		if ttl > 0 && sp >= mn && !refusable {
			if infinite {
				want[id] = entry{SP: sp, Exp: math.MaxInt64}
			} else {
				want[id] = entry{SP: sp, Exp: nb.Unix() + ttl}
				bracket = map[string][2]int64{id: {nb.Unix() + ttl, na.Unix() + ttl}}
			}
			recorded = true
			mnBefore = mn
			mn, _ = minOf(want)
		}
		if err != nil {
			if !refusable && !hostile { // an id that does not survive path cleaning may be refused
				return inconclusive("request-error")
			}
			// refused: nothing but the pruning of expired entries / the gc_worker repair may have happened
			if d := diffState(pre, post, nil); d != "" {
				cmp, br := want, bracket
				if hostile {
					cmp, br = refusedState, nil
				}
				if d2 := diffState(cmp, post, br); d2 != "" {
					return info, vkit.Errf("a refused request changed the stored entries (%s): %s", d2, desc())
				}
			}
			model = post
			switch {
			case hostile:
				info.Class("refused:hostile-id")
			case id == gcWorker:
				info.Class("refused:gc_worker")
			default:
				info.Class("refused:empty-id")
			}
			continue
		}
		if d := diffState(want, post, bracket); d != "" {
			why := ""
			if ttl > 0 && !recorded && !refusable {
				why = " (a registration below the current minimum must leave the entry unchanged)"
			}
			if ttl <= 0 {
				why = " (ttl <= 0 removes the registration)"
			}
			return info, vkit.Errf("stored entries differ from the model: %s%s; model %s: %s", d, why, fmtState(want), desc())
		}
		// Observed on the unchanged tree, tolerated because no clause of the property is touched (the reported
		// minimum is then LOWER than necessary, never above a live service): when the requester holds the minimum
		// and its id is not valid UTF-8, the handler compares the raw request id with the lossy id decoded from the
		// stored value, does not notice that the holder itself moved, and answers with the holder's PREVIOUS entry
		// (old safe point, old TTL).
		if pe, had := pre[id]; had && recorded && lossy(id) != id && pe.SP == mnBefore &&
			string(resp.GetServiceId()) == lossy(id) && resp.GetMinSafePoint() == mnBefore {
			for k, e := range post {
				if resp.GetMinSafePoint() > e.SP {
					return info, vkit.Errf("reported minimum above the safe point of live service %q: %s", k, desc())
				}
			}
			model = post
			accepted++
			info.Class("binary-id-holder-answered-with-previous-entry")
			continue
		}
		// response: the minimum over the live entries, attained by the entry it names
		if resp.GetMinSafePoint() != mn {
			return info, vkit.Errf("reported minimum %d, the minimum over live services is %d: %s", resp.GetMinSafePoint(), mn, desc())
		}
		for k, e := range post {
			if resp.GetMinSafePoint() > e.SP {
				return info, vkit.Errf("reported minimum above the safe point of live service %q: %s", k, desc())
			}
		}
		// the response names the holder by the id found in the stored value, i.e. by its lossy spelling: look for an
		// entry that holds the minimum and is spelled like that
		named, ttlOK := false, false
		var holder entry
		for k, pe := range post {
			if lossy(k) != string(resp.GetServiceId()) || pe.SP != mn {
				continue
			}
			named, holder = true, pe
			lo, hi := pe.Exp-na.Unix(), pe.Exp-nb.Unix()
			if pe.Exp == math.MaxInt64 {
				lo, hi = math.MaxInt64-na.Unix(), math.MaxInt64-nb.Unix()
			}
			if resp.GetTTL() >= lo && resp.GetTTL() <= hi {
				ttlOK = true
			}
		}
		if !named {
			return info, vkit.Errf("response names service %q which does not hold the minimum %d: %s", resp.GetServiceId(), mn, desc())
		}
		if !ttlOK {
			return info, vkit.Errf("response TTL %d does not match the expiry %d of the named holder: %s", resp.GetTTL(), holder.Exp, desc())
		}
		model = post
		// bookkeeping
		pruned += nPruned
		switch {
		case ttl <= 0:
			if _, had := pre[id]; had && id != gcWorker {
				removed++
			}
			info.Class("op-remove")
		case recorded:
			accepted++
			if _, had := pre[id]; had {
				info.Class("op-renew")
			} else {
				info.Class("op-register")
			}
		case refusable:
			info.Class("op-refusable-not-refused")
		default:
			below++
			info.Class("op-below-min")
		}
		info.ClassIf(infinite && ttl > 0 && recorded, "ttl-infinite")
		info.ClassIf(id == "", "empty-id")
	}
	info.ClassIf(pruned > 0, "expired-pruned")
	info.NonTrivial = accepted >= 1 && below >= 1 && (removed >= 1 || pruned >= 1)
	return info, nil
}

// diffState compares expected and actual entries; bracket gives, per id, an
// admissible closed interval for ExpiredAt instead of the exact value.
func diffState(want, got map[string]entry, bracket map[string][2]int64) string {
	ids := map[string]bool{}
	for k := range want {
		ids[k] = true
	}
	for k := range got {
		ids[k] = true
	}
	keys := make([]string, 0, len(ids))
	for k := range ids {
		keys = append(keys, k)
	}
	sort.Strings(keys)
	for _, k := range keys {
		we, wok := want[k]
		ge, gok := got[k]
		switch {
		case wok && !gok:
			return fmt.Sprintf("entry %q is missing", k)
		case !wok && gok:
			return fmt.Sprintf("entry %q {sp %d exp %d} should not exist", k, ge.SP, ge.Exp)
		}
		if we.SP != ge.SP {
			return fmt.Sprintf("entry %q has safe point %d, expected %d", k, ge.SP, we.SP)
		}
		if br, ok := bracket[k]; ok {
			if ge.Exp < br[0] || ge.Exp > br[1] {
				return fmt.Sprintf("entry %q expires at %d, expected within [%d,%d]", k, ge.Exp, br[0], br[1])
			}
		} else if we.Exp != ge.Exp {
			return fmt.Sprintf("entry %q expires at %d, expected %d", k, ge.Exp, we.Exp)
		}
	}
	return ""
}

// dedupe keeps one copy of every class label of a case (the histogram counts cases, not steps).
func dedupe(i vkit.Info) vkit.Info {
	seen := map[string]bool{}
	var out []string
	for _, c := range i.Classes {
		if !seen[c] {
			seen[c] = true
			out = append(out, c)
		}
	}
	sort.Strings(out)
	i.Classes = out
	return i
}

var _ = faultkv.ErrInjected
