package c08

import (
	"context"
	"fmt"
	"os"
	"pdverif/vkit"
	"sort"
	"strings"
	"testing"

	"pdverif/simkit"
	"pgregory.net/rapid"
)

// TestDebugErrors prints a histogram of build errors per request kind (development aid).
func TestDebugErrors(t *testing.T) {
	if os.Getenv("C08_DEBUG") == "" {
		t.Skip()
	}
	hist := map[string]int{}
	rapid.Check(t, func(rt *rapid.T) {
		c := genCase(rt)
		w := interpret(&c)
		mc, cancel := simkit.Build(context.Background(), c.Cluster)
		defer cancel()
		sim := simkit.NewRegion(c.Region, nil)
		region := sim.ToRegionInfo()
		mc.PutRegion(region)
		ops, err := build(mc, region, &c)
		k := c.Req.Kind + " | "
		if err != nil {
			e := err.Error()
			if len(e) > 60 {
				e = e[:60]
			}
			k += e
		} else if len(ops) == 0 {
			k += "nil"
		} else {
			k += "OK"
		}
		if w.invalid != "" {
			k += " | invalid"
		}
		hist[k]++
	})
	var ks []string
	for k := range hist {
		ks = append(ks, k)
	}
	sort.Strings(ks)
	for _, k := range ks {
		fmt.Printf("%6d %s\n", hist[k], k)
	}
}

// TestDebugExcluded runs the excluded trigger classes anyway and tallies the outcome (development aid).
func TestDebugExcluded(t *testing.T) {
	if os.Getenv("C08_DEBUG") == "" {
		t.Skip()
	}
	hist := map[string]int{}
	rapid.Check(t, func(rt *rapid.T) {
		c := genCase(rt)
		w := interpret(&c)
		a, b := inplaceDemoteWithOtherChange(&c, w), demoteAndAddVoterJointOff(&c, w)
		if !a && !b {
			return
		}
		var info vkit.Info
		err := runOnce(&c, w, &info, 0, &tolerated{})
		k := fmt.Sprintf("inplace=%v jointoff=%v | ", a, b)
		built := false
		for _, cl := range info.Classes {
			built = built || cl == "built"
		}
		switch {
		case !built:
			k += "not built"
		case err == nil:
			k += "OK"
		default:
			e := err.Error()
			for _, m := range []string{"CheckSafety fails", "is unsafe", "voter count", "IsFinish", "final peers", "final leader"} {
				if strings.Contains(e, m) {
					k += m
				}
			}
		}
		hist[k]++
	})
	var ks []string
	for k := range hist {
		ks = append(ks, k)
	}
	sort.Strings(ks)
	for _, k := range ks {
		fmt.Printf("%6d %s\n", hist[k], k)
	}
}
