// C08 — generated operator steps are safe and reach the requested placement.
//
// A case is a generated cluster, an origin region and a request made through
// the operator builder API (operator.NewBuilder(...)....Build or one of the
// Create*Operator helpers). When an operator is returned its steps are executed
// on simkit's region simulator (TiKV conf-change semantics, independent of pd's
// step code) and checked step by step:
//
//	before each step  step.CheckSafety(region) == nil
//	each step         is accepted by the simulated store: the current leader is
//	                  never removed or demoted (a Leave never finds the leader
//	                  demoting), a transfer target is a present Voter or
//	                  IncomingVoter, an add never hits an occupied store
//	after each step   one peer per store, voter count >= min(origin, target)
//	                  (joint: smaller of both configurations), step.IsFinish(region)
//	at the end        peers by store and role == the request; leader == the
//	                  requested leader when one is (still) requested
//
// The request is interpreted by a small model of the builder API's documented
// meaning (what SetPeers / AddPeer / RemovePeer / PromoteLearner / DemoteVoter /
// SetLeader / SetExpectedRoles ask for), not by looking at the builder's state.
package c08

import (
	"context"
	"fmt"
	"math/rand"
	"sort"
	"strings"
	"testing"

	"github.com/pingcap/kvproto/pkg/metapb"
	"github.com/pingcap/kvproto/pkg/pdpb"
	"github.com/tikv/pd/pkg/mock/mockcluster"
	"github.com/tikv/pd/server/core"
	"github.com/tikv/pd/server/schedule/operator"
	"github.com/tikv/pd/server/schedule/placement"
	"pdverif/simkit"
	"pdverif/vkit"
	"pgregory.net/rapid"
)

func TestMain(m *testing.M)   { vkit.Main(m, "C08") }
func TestProp(t *testing.T)   { vkit.RunAll(t) }
func TestReplay(t *testing.T) { vkit.RunReplay(t) }

const (
	keyNoJointInplaceDemote = "C08/nojoint-inplace-demote"
	keyDemoteBeforeAdd      = "C08/jointoff-demote-before-add-voter"
)

func init() {
	vkit.Register("steps", vkit.N{Quick: 40000, Thorough: 1500000}, genCase, runCase)
}

// ---------------------------------------------------------------- case data

// PeerReq is one requested peer. ID 0 lets the builder allocate / reuse the id.
type PeerReq struct {
	Store   uint64 `json:"s"`
	Learner bool   `json:"l,omitempty"`
	ID      uint64 `json:"id,omitempty"`
}

// RoleReq is one entry of an expected-roles map (leader|voter|follower|learner).
type RoleReq struct {
	Store uint64 `json:"s"`
	Role  string `json:"r"`
}

// BOp is one call on operator.Builder.
type BOp struct {
	Op      string    `json:"op"` // setPeers addPeer removePeer promote demote setLeader setRoles
	Store   uint64    `json:"s,omitempty"`
	Learner bool      `json:"l,omitempty"`
	ID      uint64    `json:"id,omitempty"`
	Peers   []PeerReq `json:"peers,omitempty"`
	Roles   []RoleReq `json:"roles,omitempty"`
}

// Request is what is asked from pd.
type Request struct {
	// Kind: "builder" (Ops + flags) or the name of a Create*Operator helper:
	// addPeer removePeer movePeer moveLeader replaceLeaderPeer moveRegion
	// transferLeader forceTransferLeader scatter leaveJoint promoteLearner merge split
	Kind   string    `json:"kind"`
	Ops    []BOp     `json:"ops,omitempty"`
	Light  bool      `json:"light,omitempty"`
	Force  bool      `json:"force,omitempty"`
	Peer   PeerReq   `json:"peer,omitempty"`   // new peer of add/move helpers
	Old    uint64    `json:"old,omitempty"`    // store to remove (move helpers, removePeer)
	Leader uint64    `json:"leader,omitempty"` // target leader (transfer, replaceLeaderPeer, scatter; 0 = none)
	Peers  []PeerReq `json:"peers,omitempty"`  // scatter target
	Roles  []RoleReq `json:"roles,omitempty"`  // moveRegion
	Keys   []string  `json:"keys,omitempty"`   // split
	// Other is the merge target (adjacent region).
	Other *simkit.RegionSpec `json:"other,omitempty"`
}

// Case is one generated input.
type Case struct {
	Cluster simkit.ClusterSpec `json:"cluster"`
	Region  simkit.RegionSpec  `json:"region"`
	Req     Request            `json:"req"`
	Seed    int64              `json:"seed"` // math/rand seed (CreateScatterRegionOperator picks a random leader)
	// LeaderCopy: how the region's leader object reaches pd (simkit.Region.LeaderCopy):
	// "" = the peer-list entry, "bare" = the heartbeat's separate leader message with
	// only id and store id, "stale" = a separate copy with the role it had before the
	// joint state was entered. Every region handed to pd in the case is built that way.
	LeaderCopy string `json:"leader_copy,omitempty"`
}

// ---------------------------------------------------------------- request model

// want is the meaning of a request: the placement that was asked for.
type want struct {
	learner map[uint64]bool   // store -> is learner (the requested peers)
	joint   map[uint64]string // store -> joint role that is expected to stay (transfer-leader on a joint region)
	leader  uint64            // explicitly requested leader still in force (0 = none)
	roles   map[uint64]string // expected roles, nil if none were given
	invalid string            // non-empty: the request is meaningless and no operator may be produced
	light   bool
	force   bool
}

func (w *want) bad(format string, a ...interface{}) {
	if w.invalid == "" {
		w.invalid = fmt.Sprintf(format, a...)
	}
}

func (w *want) voters() int {
	n := 0
	for _, l := range w.learner {
		if !l {
			n++
		}
	}
	return n
}

func (w *want) String() string {
	var ss []string
	for _, s := range sortedStores(w.learner) {
		r := "voter"
		if w.learner[s] {
			r = "learner"
		}
		if j, ok := w.joint[s]; ok {
			r = j
		}
		ss = append(ss, fmt.Sprintf("%d:%s", s, r))
	}
	return fmt.Sprintf("{%s} leader=%d", strings.Join(ss, " "), w.leader)
}

func sortedStores(m map[uint64]bool) []uint64 {
	out := make([]uint64, 0, len(m))
	for s := range m {
		out = append(out, s)
	}
	sort.Slice(out, func(i, j int) bool { return out[i] < out[j] })
	return out
}

func originWant(r *simkit.RegionSpec) *want {
	w := &want{learner: map[uint64]bool{}}
	for _, p := range r.Peers {
		w.learner[p.Store] = p.Role == simkit.Learner
	}
	return w
}

func (w *want) setPeers(ps []PeerReq) {
	n := map[uint64]bool{}
	for _, p := range ps {
		if p.Store == 0 {
			w.bad("setPeers with store 0")
		}
		if _, dup := n[p.Store]; dup {
			w.bad("setPeers with two peers on store %d", p.Store)
		}
		n[p.Store] = p.Learner
	}
	// "If current target leader does not exist in peers, it will be reset."
	if _, ok := n[w.leader]; !ok {
		w.leader = 0
	}
	w.learner = n
}

func (w *want) addPeer(p PeerReq) {
	if p.Store == 0 {
		w.bad("add peer on store 0")
		return
	}
	if _, ok := w.learner[p.Store]; ok {
		w.bad("add peer on store %d which already has a target peer", p.Store)
		return
	}
	w.learner[p.Store] = p.Learner
}

func (w *want) removePeer(s uint64) {
	if _, ok := w.learner[s]; !ok {
		w.bad("remove peer from store %d which has no target peer", s)
		return
	}
	if w.leader == s {
		w.bad("remove the target leader on store %d", s)
		return
	}
	delete(w.learner, s)
}

func (w *want) promote(s uint64) {
	if l, ok := w.learner[s]; !ok || !l {
		w.bad("promote on store %d which has no target learner", s)
		return
	}
	w.learner[s] = false
}

func (w *want) demote(s uint64) {
	if l, ok := w.learner[s]; !ok || l {
		w.bad("demote on store %d which has no target voter", s)
		return
	}
	w.learner[s] = true
}

func (w *want) setLeader(s uint64) {
	if l, ok := w.learner[s]; !ok || l {
		w.bad("leader requested on store %d which has no target voter", s)
		return
	}
	w.leader = s
}

// setRoles: "It may update targetLeaderStoreID if there is a peer has role leader or follower."
func (w *want) setRoles(rs []RoleReq) {
	leaders, voters := 0, 0
	m := map[uint64]string{}
	for _, r := range rs {
		m[r.Store] = r.Role
	}
	newLeader := uint64(0)
	for _, r := range rs {
		switch r.Role {
		case "leader":
			leaders++
			newLeader = r.Store
		case "voter":
			voters++
		}
	}
	if leaders > 1 {
		w.bad("expected roles with %d leaders", leaders)
		return
	}
	if leaders+voters == 0 {
		w.bad("expected roles without leader or voter")
		return
	}
	if newLeader != 0 {
		w.leader = newLeader
	} else if r, ok := m[w.leader]; ok && (r == "follower" || r == "learner") {
		w.leader = 0
	}
	w.roles = m
}

// finish applies what Build documents: a target leader that does not exist or
// is a learner is cancelled; a target without voters is refused.
func (w *want) finish() {
	if l, ok := w.learner[w.leader]; !ok || l {
		w.leader = 0
	}
	if w.voters() == 0 {
		w.bad("target has no voter")
	}
}

func (w *want) apply(op BOp) {
	switch op.Op {
	case "setPeers":
		w.setPeers(op.Peers)
	case "addPeer":
		w.addPeer(PeerReq{Store: op.Store, Learner: op.Learner})
	case "removePeer":
		w.removePeer(op.Store)
	case "promote":
		w.promote(op.Store)
	case "demote":
		w.demote(op.Store)
	case "setLeader":
		w.setLeader(op.Store)
	case "setRoles":
		w.setRoles(op.Roles)
	}
}

// interpret derives the requested placement from the case.
func interpret(c *Case) *want {
	w := originWant(&c.Region)
	q := &c.Req
	jointOrigin := c.Region.InJoint()
	switch q.Kind {
	case "builder":
		for _, op := range q.Ops {
			w.apply(op)
		}
		w.light, w.force = q.Light, q.Force
	case "addPeer":
		w.addPeer(q.Peer)
	case "removePeer":
		w.removePeer(q.Old)
	case "movePeer":
		w.removePeer(q.Old)
		w.addPeer(q.Peer)
	case "moveLeader":
		w.removePeer(q.Old)
		w.addPeer(q.Peer)
		w.setLeader(q.Peer.Store)
	case "replaceLeaderPeer":
		w.removePeer(q.Old)
		w.addPeer(q.Peer)
		w.setLeader(q.Leader)
	case "moveRegion":
		var ps []PeerReq
		for _, r := range q.Roles {
			ps = append(ps, PeerReq{Store: r.Store, Learner: r.Role == "learner"})
		}
		w.setPeers(ps)
		w.setRoles(q.Roles)
	case "transferLeader", "forceTransferLeader":
		// allowed on a region in joint state: the peers stay as they are
		w.joint = map[uint64]string{}
		for _, p := range c.Region.Peers {
			if p.Role.Joint() {
				w.joint[p.Store] = string(p.Role)
			}
		}
		w.setLeader(q.Leader)
		w.force = q.Kind == "forceTransferLeader"
		w.finish()
		return w
	case "scatter":
		w.setPeers(q.Peers)
		if q.Leader != 0 {
			w.setLeader(q.Leader)
		} else if w.voters() == 0 {
			w.bad("scatter without target voter")
		}
		w.light, w.force = true, true
	case "leaveJoint":
		if !jointOrigin {
			w.bad("leave joint state of a region that is not in joint state")
		}
		for _, p := range c.Region.Peers {
			w.learner[p.Store] = p.Role == simkit.Learner || p.Role == simkit.DemotingVoter
		}
		// the leader stays where it is unless it is being demoted
		if c.Region.Leader >= 0 && c.Region.Peers[c.Region.Leader].Role.CanLead() {
			w.leader = c.Region.LeaderStore()
		}
		w.force = true
		w.finish()
		return w
	case "promoteLearner":
		w.promote(q.Peer.Store)
	case "merge":
		if q.Other.InJoint() {
			w.bad("merge with a target in joint state")
		}
		var ps []PeerReq
		for _, p := range q.Other.Peers {
			ps = append(ps, PeerReq{Store: p.Store, Learner: p.Role == simkit.Learner})
		}
		w.setPeers(ps)
	case "split":
	}
	if jointOrigin {
		w.bad("region is in joint state")
	}
	w.finish()
	return w
}

// ---------------------------------------------------------------- generator

var roleNames = []string{"leader", "voter", "follower", "learner"}

func pct(t *rapid.T, p int, label string) bool { return simkit.Pct(t, p, label) }

// genTarget draws a target peer set related to the origin: keep / flip / drop
// each origin peer, then add up to 2 peers on other stores.
func genTarget(t *rapid.T, c *Case) []PeerReq {
	var out []PeerReq
	used := map[uint64]bool{}
	for _, p := range c.Region.Peers {
		learner := p.Role == simkit.Learner || p.Role == simkit.DemotingVoter
		switch k := simkit.IntU(t, 0, 99, "keep"); {
		case k < 45:
			out = append(out, PeerReq{Store: p.Store, Learner: learner})
		case k < 65:
			out = append(out, PeerReq{Store: p.Store, Learner: !learner})
		default:
			continue
		}
		used[p.Store] = true
		if pct(t, 25, "keepID") {
			out[len(out)-1].ID = p.ID
		}
	}
	var free []uint64
	for _, s := range c.Cluster.StoreIDs() {
		if c.Region.PeerOnStore(s) == nil {
			free = append(free, s)
		}
	}
	nAdd := simkit.IntU(t, 0, 2, "nAdd")
	if len(out) == 0 && nAdd == 0 {
		nAdd = 1
	}
	if nAdd > len(free) {
		nAdd = len(free)
	}
	if nAdd > 0 {
		for _, s := range rapid.Permutation(free).Draw(t, "addStores")[:nAdd] {
			p := PeerReq{Store: s, Learner: pct(t, 30, "addLearner")}
			if pct(t, 25, "newID") {
				p.ID = 500 + s
			}
			out = append(out, p)
		}
	}
	// usually make sure there is a voter
	hasVoter := false
	for _, p := range out {
		hasVoter = hasVoter || !p.Learner
	}
	if !hasVoter && len(out) > 0 && pct(t, 90, "fixVoter") {
		out[0].Learner = false
	}
	sort.Slice(out, func(i, j int) bool { return out[i].Store < out[j].Store })
	return out
}

func pickLeader(t *rapid.T, ps []PeerReq, label string) uint64 {
	var voters, all []uint64
	for _, p := range ps {
		all = append(all, p.Store)
		if !p.Learner {
			voters = append(voters, p.Store)
		}
	}
	if len(all) == 0 {
		return 0
	}
	if len(voters) > 0 && pct(t, 92, label+"Voter") {
		return simkit.Pick(t, voters, label)
	}
	return simkit.Pick(t, all, label+"Any")
}

// genRoles draws expected roles consistent with the peers (as
// CreateMoveRegionOperator's callers provide them): at most one leader,
// learner exactly for learners; a small share is deliberately inconsistent.
func genRoles(t *rapid.T, ps []PeerReq) []RoleReq {
	var out []RoleReq
	leaderAt := -1
	var voters []int
	for i, p := range ps {
		if !p.Learner {
			voters = append(voters, i)
		}
	}
	if len(voters) > 0 && pct(t, 50, "rolesLeader") {
		leaderAt = simkit.Pick(t, voters, "rolesLeaderAt")
	}
	for i, p := range ps {
		r := RoleReq{Store: p.Store}
		switch {
		case pct(t, 3, "roleChaos"):
			r.Role = simkit.Pick(t, roleNames, "roleAny")
		case p.Learner:
			r.Role = "learner"
		case i == leaderAt:
			r.Role = "leader"
		default:
			r.Role = simkit.Pick(t, []string{"voter", "voter", "follower"}, "roleVoter")
		}
		if pct(t, 5, "roleOmit") {
			continue
		}
		out = append(out, r)
	}
	return out
}

func anyStore(t *rapid.T, c *Case, label string) uint64 {
	return simkit.Pick(t, c.Cluster.StoreIDs(), label)
}

// storeWith draws a store: with probability good% one satisfying ok, else any.
func storeWith(t *rapid.T, c *Case, good int, label string, ok func(uint64) bool) uint64 {
	var cand []uint64
	for _, s := range c.Cluster.StoreIDs() {
		if ok(s) {
			cand = append(cand, s)
		}
	}
	if len(cand) > 0 && pct(t, good, label+"Good") {
		return simkit.Pick(t, cand, label)
	}
	return anyStore(t, c, label+"Any")
}

// genOps draws a sequence of builder calls; a running model of the target keeps
// most calls meaningful.
func genOps(t *rapid.T, c *Case) []BOp {
	w := originWant(&c.Region)
	n := simkit.IntU(t, 1, 6, "nOps")
	var ops []BOp
	for i := 0; i < n; i++ {
		var op BOp
		op.Op = simkit.Pick(t, []string{"addPeer", "addPeer", "removePeer", "removePeer", "promote", "demote", "demote",
			"setLeader", "setRoles", "setPeers"}, "op")
		inTarget := func(s uint64) bool { _, ok := w.learner[s]; return ok }
		switch op.Op {
		case "addPeer":
			op.Store = storeWith(t, c, 92, "addStore", func(s uint64) bool { return !inTarget(s) })
			op.Learner = pct(t, 35, "addLearner")
			if pct(t, 20, "addID") {
				op.ID = 500 + op.Store
			}
		case "removePeer":
			op.Store = storeWith(t, c, 92, "rmStore", func(s uint64) bool { return inTarget(s) && s != w.leader })
		case "promote":
			op.Store = storeWith(t, c, 92, "promoteStore", func(s uint64) bool { return inTarget(s) && w.learner[s] })
		case "demote":
			op.Store = storeWith(t, c, 92, "demoteStore", func(s uint64) bool { return inTarget(s) && !w.learner[s] })
		case "setLeader":
			op.Store = storeWith(t, c, 92, "leaderStore", func(s uint64) bool { return inTarget(s) && !w.learner[s] })
		case "setRoles":
			var ps []PeerReq
			for _, s := range sortedStores(w.learner) {
				ps = append(ps, PeerReq{Store: s, Learner: w.learner[s]})
			}
			op.Roles = genRoles(t, ps)
		case "setPeers":
			op.Peers = genTarget(t, c)
		}
		keep := w.invalid
		w.apply(op)
		w.invalid = keep // the running model only guides the choice
		ops = append(ops, op)
	}
	return ops
}

func genCase(t *rapid.T) Case {
	var c Case
	c.Cluster = simkit.GenCluster(t, simkit.ClusterGen{MinStores: 3, MaxStores: 6, HealthyBias: 72})
	c.Seed = int64(simkit.IntU(t, 1, 1<<30, "seed"))
	kind := simkit.Pick(t, []string{
		"builder", "builder", "builder", "builder", "builder", "builder", "builder", "builder", "builder", "builder", "builder", "builder",
		"addPeer", "removePeer", "movePeer", "movePeer", "moveLeader", "replaceLeaderPeer", "moveRegion", "moveRegion", "moveRegion",
		"transferLeader", "forceTransferLeader", "scatter", "scatter", "scatter", "leaveJoint", "leaveJoint", "leaveJoint", "promoteLearner", "merge", "merge", "split",
	}, "kind")
	jointPct := 4
	switch kind {
	case "leaveJoint":
		jointPct = 95
	case "transferLeader", "forceTransferLeader":
		jointPct = 40
	}
	c.Region = simkit.GenRegion(t, c.Cluster.StoreIDs(), simkit.RegionGen{MaxPeers: 5, Joint: jointPct})
	c.Cluster.ReserveIDs(c.Region)
	c.Cluster.AllocBase += 1000 // above the ids the generator may put into requests (500+store)
	// a heartbeat carries the leader as a message of its own, not as a pointer into the peer list
	c.LeaderCopy = simkit.Pick(t, []string{simkit.LeaderFromPeerList, simkit.LeaderFromPeerList, simkit.LeaderBare, simkit.LeaderBare, simkit.LeaderStaleRole}, "leaderCopy")
	q := &c.Req
	q.Kind = kind
	onRegion := func(s uint64) bool { return c.Region.PeerOnStore(s) != nil }
	offRegion := func(s uint64) bool { return c.Region.PeerOnStore(s) == nil }
	isVoter := func(s uint64) bool {
		p := c.Region.PeerOnStore(s)
		return p != nil && p.Role != simkit.Learner
	}
	newPeer := func() PeerReq {
		p := PeerReq{Store: storeWith(t, &c, 93, "newStore", offRegion), Learner: pct(t, 25, "newLearner")}
		if pct(t, 50, "newPeerID") {
			p.ID = 500 + p.Store
		}
		return p
	}
	switch kind {
	case "builder":
		if pct(t, 60, "modeSetPeers") {
			ps := genTarget(t, &c)
			q.Ops = append(q.Ops, BOp{Op: "setPeers", Peers: ps})
			if pct(t, 50, "withLeader") {
				q.Ops = append(q.Ops, BOp{Op: "setLeader", Store: pickLeader(t, ps, "leader")})
			}
			if pct(t, 25, "withRoles") {
				q.Ops = append(q.Ops, BOp{Op: "setRoles", Roles: genRoles(t, ps)})
			}
		} else {
			q.Ops = genOps(t, &c)
		}
		q.Light = pct(t, 20, "light")
		q.Force = pct(t, 20, "force")
	case "addPeer":
		q.Peer = newPeer()
	case "removePeer":
		q.Old = storeWith(t, &c, 93, "old", onRegion)
	case "movePeer":
		q.Old = storeWith(t, &c, 93, "old", onRegion)
		q.Peer = newPeer()
		if p := c.Region.PeerOnStore(q.Old); p != nil && pct(t, 85, "sameRole") {
			q.Peer.Learner = p.Role == simkit.Learner // the usual caller replaces like by like
		}
	case "moveLeader":
		q.Old = storeWith(t, &c, 85, "old", func(s uint64) bool { return s == c.Region.LeaderStore() })
		q.Peer = newPeer()
		q.Peer.Learner = pct(t, 5, "leaderLearner")
	case "replaceLeaderPeer":
		q.Old = storeWith(t, &c, 85, "old", func(s uint64) bool { return s == c.Region.LeaderStore() })
		q.Peer = newPeer()
		q.Leader = storeWith(t, &c, 90, "newLeader", func(s uint64) bool {
			return (isVoter(s) && s != q.Old) || (s == q.Peer.Store && !q.Peer.Learner)
		})
	case "moveRegion":
		ps := genTarget(t, &c)
		q.Roles = genRoles(t, ps)
	case "transferLeader", "forceTransferLeader":
		q.Leader = storeWith(t, &c, 92, "to", func(s uint64) bool { return isVoter(s) && s != c.Region.LeaderStore() })
	case "scatter":
		q.Peers = genTarget(t, &c)
		if pct(t, 60, "scatterLeader") {
			q.Leader = pickLeader(t, q.Peers, "leader")
		}
	case "leaveJoint":
	case "promoteLearner":
		q.Peer = PeerReq{Store: storeWith(t, &c, 93, "learner", func(s uint64) bool {
			p := c.Region.PeerOnStore(s)
			return p != nil && p.Role == simkit.Learner
		})}
	case "merge":
		c.Region.End = "m"
		o := simkit.GenRegion(t, c.Cluster.StoreIDs(), simkit.RegionGen{ID: 200, MaxPeers: 5, Joint: 3, Start: "m"})
		if pct(t, 25, "sameStores") { // already matching: only the merge step remains
			o.Peers = nil
			for i, p := range c.Region.Peers {
				r := p.Role
				if r.Joint() {
					r = simkit.Voter
				}
				o.Peers = append(o.Peers, simkit.PeerSpec{ID: 201 + uint64(i), Store: p.Store, Role: r})
			}
			o.Leader = 0
			for i, p := range o.Peers {
				if p.Role == simkit.Voter {
					o.Leader = i
				}
			}
		}
		q.Other = &o
		c.Cluster.ReserveIDs(c.Region, o)
		c.Cluster.AllocBase += 1000
	case "split":
		c.Region.Start, c.Region.End = "a", "z"
		n := simkit.IntU(t, 0, 3, "nKeys")
		for _, i := range rapid.Permutation([]int{1, 2, 3, 4, 5}).Draw(t, "splitKeys")[:n] {
			q.Keys = append(q.Keys, string(rune('a'+i*3)))
		}
		sort.Strings(q.Keys)
	}
	return c
}

// ---------------------------------------------------------------- runner

func metaPeer(p PeerReq) *metapb.Peer {
	mp := &metapb.Peer{Id: p.ID, StoreId: p.Store}
	if p.Learner {
		mp.Role = metapb.PeerRole_Learner
	}
	return mp
}

func peersMap(ps []PeerReq) map[uint64]*metapb.Peer {
	m := make(map[uint64]*metapb.Peer, len(ps))
	for _, p := range ps {
		m[p.Store] = metaPeer(p)
	}
	return m
}

func rolesMap(rs []RoleReq) map[uint64]placement.PeerRoleType {
	m := make(map[uint64]placement.PeerRoleType, len(rs))
	for _, r := range rs {
		m[r.Store] = placement.PeerRoleType(r.Role)
	}
	return m
}

// build performs the request against the real code.
func build(mc *mockcluster.Cluster, region *core.RegionInfo, c *Case) ([]*operator.Operator, error) {
	q := &c.Req
	one := func(op *operator.Operator, err error) ([]*operator.Operator, error) {
		if err != nil || op == nil {
			return nil, err
		}
		return []*operator.Operator{op}, nil
	}
	switch q.Kind {
	case "builder":
		b := operator.NewBuilder("c08", mc, region)
		for _, op := range q.Ops {
			switch op.Op {
			case "setPeers":
				b.SetPeers(peersMap(op.Peers))
			case "addPeer":
				b.AddPeer(metaPeer(PeerReq{Store: op.Store, Learner: op.Learner, ID: op.ID}))
			case "removePeer":
				b.RemovePeer(op.Store)
			case "promote":
				b.PromoteLearner(op.Store)
			case "demote":
				b.DemoteVoter(op.Store)
			case "setLeader":
				b.SetLeader(op.Store)
			case "setRoles":
				b.SetExpectedRoles(rolesMap(op.Roles))
			}
		}
		if q.Light {
			b.EnableLightWeight()
		}
		if q.Force {
			b.EnableForceTargetLeader()
		}
		return one(b.Build(0))
	case "addPeer":
		return one(operator.CreateAddPeerOperator("c08", mc, region, metaPeer(q.Peer), operator.OpReplica))
	case "removePeer":
		return one(operator.CreateRemovePeerOperator("c08", mc, operator.OpReplica, region, q.Old))
	case "movePeer":
		return one(operator.CreateMovePeerOperator("c08", mc, region, operator.OpRegion, q.Old, metaPeer(q.Peer)))
	case "moveLeader":
		return one(operator.CreateMoveLeaderOperator("c08", mc, region, operator.OpRegion, q.Old, metaPeer(q.Peer)))
	case "replaceLeaderPeer":
		return one(operator.CreateReplaceLeaderPeerOperator("c08", mc, region, operator.OpRegion, q.Old, metaPeer(q.Peer),
			&metapb.Peer{StoreId: q.Leader}))
	case "moveRegion":
		return one(operator.CreateMoveRegionOperator("c08", mc, region, operator.OpAdmin, rolesMap(q.Roles)))
	case "transferLeader":
		return one(operator.CreateTransferLeaderOperator("c08", mc, region, region.GetLeader().GetStoreId(), q.Leader, operator.OpLeader))
	case "forceTransferLeader":
		return one(operator.CreateForceTransferLeaderOperator("c08", mc, region, region.GetLeader().GetStoreId(), q.Leader, operator.OpLeader))
	case "scatter":
		return one(operator.CreateScatterRegionOperator("c08", mc, region, peersMap(q.Peers), q.Leader))
	case "leaveJoint":
		return one(operator.CreateLeaveJointStateOperator("c08", mc, region))
	case "promoteLearner":
		return one(operator.CreatePromoteLearnerOperator("c08", mc, region, &metapb.Peer{StoreId: q.Peer.Store}))
	case "merge":
		return operator.CreateMergeRegionOperator("c08", mc, region, q.Other.RegionInfo(), operator.OpMerge)
	case "split":
		var keys [][]byte
		for _, k := range q.Keys {
			keys = append(keys, []byte(k))
		}
		policy := pdpb.CheckPolicy_USEKEY
		if len(keys) == 0 {
			policy = pdpb.CheckPolicy_APPROXIMATE
		}
		return one(operator.CreateSplitRegionOperator("c08", region, 0, policy, keys))
	}
	return nil, fmt.Errorf("unknown request kind %q", q.Kind)
}

func stepsOf(op *operator.Operator) []operator.OpStep {
	out := make([]operator.OpStep, op.Len())
	for i := range out {
		out[i] = op.Step(i)
	}
	return out
}

func describe(steps []operator.OpStep) string {
	var ss []string
	for i, s := range steps {
		ss = append(ss, fmt.Sprintf("%d:%s", i, s))
	}
	return "[" + strings.Join(ss, "; ") + "]"
}

// inplaceDemoteWithOtherChange: the trigger class of C08/nojoint-inplace-demote —
// the cluster does not support joint consensus (so voter->learner in place is
// split into remove+add by the builder), some store holds a voter and is
// requested to hold a learner, and at least one more peer change is requested.
func inplaceDemoteWithOtherChange(c *Case, w *want) bool {
	if c.Cluster.JointSupported {
		return false
	}
	inplace, other := 0, 0
	for _, p := range c.Region.Peers {
		l, ok := w.learner[p.Store]
		switch {
		case !ok:
			other++
		case p.Role != simkit.Learner && l:
			inplace++
		case p.Role == simkit.Learner && !l:
			other++
		}
	}
	for s := range w.learner {
		if c.Region.PeerOnStore(s) == nil {
			other++
		}
	}
	return inplace >= 1 && inplace+other >= 2
}

// demoteAndAddVoterJointOff: the trigger class of C08/jointoff-demote-before-add-voter —
// the cluster supports joint consensus (so the builder plans a voter->learner
// change as a demote step) but enable-joint-consensus is off, and the request
// demotes a voter in place while it also places a voter on a store that holds
// no peer yet.
func demoteAndAddVoterJointOff(c *Case, w *want) bool {
	if !c.Cluster.JointSupported || c.Cluster.UseJoint {
		return false
	}
	demote, addVoter := false, false
	for _, p := range c.Region.Peers {
		if l, ok := w.learner[p.Store]; ok && l && p.Role != simkit.Learner {
			demote = true
		}
	}
	for s, l := range w.learner {
		if !l && c.Region.PeerOnStore(s) == nil {
			addVoter = true
		}
	}
	return demote && addVoter
}

// tolerated says which known findings may show their symptom in this case
// without failing it (only inside their trigger class, only while the finding
// is listed as known), and records which ones did.
type tolerated struct {
	inplace bool // C08/nojoint-inplace-demote: add-learner on the store whose voter is to become a learner, still occupied
	deficit bool // C08/jointoff-demote-before-add-voter: voter count short by at most the number of demote steps so far
	hit     map[string]bool
}

func (tl *tolerated) mark(key string) {
	if tl.hit == nil {
		tl.hit = map[string]bool{}
	}
	tl.hit[key] = true
}

func runCase(c Case) (vkit.Info, error) {
	var info vkit.Info
	w := interpret(&c)
	tol := &tolerated{
		inplace: vkit.Known(keyNoJointInplaceDemote) && inplaceDemoteWithOtherChange(&c, w),
		deficit: vkit.Known(keyDemoteBeforeAdd) && demoteAndAddVoterJointOff(&c, w),
	}
	info.ClassIf(tol.inplace, "in-trigger-class:nojoint-inplace-demote")
	info.ClassIf(tol.deficit, "in-trigger-class:jointoff-demote-before-add-voter")
	reps := 1
	if c.Req.Kind == "scatter" && c.Req.Leader == 0 {
		reps = 3 // the helper picks the leader from a Go map: state order-independent facts over a few orders
	}
	var err error
	for rep := 0; rep < reps && err == nil; rep++ {
		err = runOnce(&c, w, &info, rep, tol)
	}
	for _, k := range []string{keyNoJointInplaceDemote, keyDemoteBeforeAdd} {
		if tol.hit[k] {
			info.Exclude(k)
			info.Class("excluded:" + strings.TrimPrefix(k, "C08/"))
			info.NonTrivial = false
		}
	}
	return info, err
}

func runOnce(c *Case, w *want, info *vkit.Info, rep int, tol *tolerated) error {
	rand.Seed(c.Seed + int64(rep))
	mc, cancel := simkit.Build(context.Background(), c.Cluster)
	defer cancel()
	ids := simkit.NewIDAlloc(c.Cluster.AllocBase + 100000)
	sim := simkit.NewRegion(c.Region, ids)
	sim.LeaderCopy = c.LeaderCopy
	region := sim.ToRegionInfo()
	mc.PutRegion(region)

	ops, err := build(mc, region, c)
	first := rep == 0
	if err != nil || len(ops) == 0 {
		if first {
			info.Class("build-error")
			info.ClassIf(w.invalid != "", "build-error:invalid-request")
		}
		return nil
	}
	if first {
		info.Class("built")
		info.Class("kind:" + c.Req.Kind)
		info.ClassIf(!c.Cluster.JointSupported, "nojoint-support")
	}
	steps := stepsOf(ops[0])
	plan := describe(steps)
	if w.invalid != "" {
		return fmt.Errorf("an operator %s was produced for a meaningless request (%s); origin %s", plan, w.invalid, sim)
	}

	minVoters := sim.VoterCount()
	if tv := w.voters(); c.Req.Kind != "split" && tv < minVoters {
		minVoters = tv
	}
	origin := sim.String()
	var hasEnter, singleChangeEnter, vacuousEnter, inJointTransfer, demoteStep, lightStep, leaderMoved bool
	demotes := 0
	for i, step := range steps {
		before := sim.String()
		if tol.inplace && knownInplaceSymptom(c, w, sim, steps, i) {
			// the known defect shows: the rest of the plan cannot be executed
			tol.mark(keyNoJointInplaceDemote)
			return nil
		}
		if err := step.CheckSafety(sim.ToRegionInfo()); err != nil {
			return fmt.Errorf("step %d (%s) of %s: CheckSafety fails when its turn comes: %v; region %s, origin %s, request %s",
				i, step, plan, err, before, origin, w)
		}
		switch st := step.(type) {
		case operator.ChangePeerV2Enter:
			n := len(st.PromoteLearners) + len(st.DemoteVoters)
			hasEnter = hasEnter || n > 0
			singleChangeEnter = singleChangeEnter || n == 1
			vacuousEnter = vacuousEnter || n == 0
		case operator.TransferLeader:
			leaderMoved = true
			inJointTransfer = inJointTransfer || sim.InJoint()
		case operator.DemoteFollower:
			demoteStep = true
			demotes++
		case operator.AddLightLearner, operator.AddLightPeer:
			lightStep = true
		}
		if err := sim.ApplyStep(step); err != nil {
			return fmt.Errorf("step %d (%s) of %s is unsafe: %v; origin %s, request %s", i, step, plan, err, origin, w)
		}
		if err := sim.CheckInvariants(); err != nil {
			return fmt.Errorf("after step %d (%s) of %s: %v; origin %s", i, step, plan, err, origin)
		}
		if sim.Merged {
			if i != len(steps)-1 {
				return fmt.Errorf("step %d (%s) of %s merges the region away before the last step", i, step, plan)
			}
			break
		}
		if err := sim.CheckVoterCount(minVoters); err != nil {
			if tol.deficit && sim.VoterCount() >= minVoters-demotes {
				tol.mark(keyDemoteBeforeAdd) // known: a demote step was planned before the add that compensates it
			} else {
				return fmt.Errorf("after step %d (%s) of %s: %v; needs min(origin, target) = %d; before the step %s, origin %s, request %s",
					i, step, plan, err, minVoters, before, origin, w)
			}
		}
		if !step.IsFinish(sim.ToRegionInfo()) {
			return fmt.Errorf("step %d (%s) of %s does not report IsFinish after a faithful store executed it: region %s (before %s)",
				i, step, plan, sim, before)
		}
	}

	// final placement
	if c.Req.Kind == "merge" {
		if !sim.Merged {
			return fmt.Errorf("merge operator %s does not end with the merge step", plan)
		}
		if len(ops) != 2 {
			return fmt.Errorf("merge produced %d operators", len(ops))
		}
		// the passive side: one step that is finished once the target has absorbed the source
		tsim := simkit.NewRegion(*c.Req.Other, ids)
		for i, step := range stepsOf(ops[1]) {
			if err := step.CheckSafety(tsim.ToRegionInfo()); err != nil {
				return fmt.Errorf("passive merge step %d: CheckSafety: %v", i, err)
			}
			if err := tsim.ApplyStep(step); err != nil {
				return fmt.Errorf("passive merge step %d (%s): %v", i, step, err)
			}
			if !step.IsFinish(tsim.ToRegionInfo()) {
				return fmt.Errorf("passive merge step %d (%s) not finished after the merge: %s", i, step, tsim)
			}
		}
	}
	got := sim.RoleByStore()
	if len(got) != len(w.learner) {
		return fmt.Errorf("final peers %s differ from the request %s; plan %s, origin %s", sim, w, plan, origin)
	}
	for s, l := range w.learner {
		wantRole := simkit.Voter
		if l {
			wantRole = simkit.Learner
		}
		if j, ok := w.joint[s]; ok {
			wantRole = simkit.Role(j)
		}
		if got[s] != wantRole {
			return fmt.Errorf("final peers %s differ from the request %s (store %d is %q, want %q); plan %s, origin %s",
				sim, w, s, got[s], wantRole, plan, origin)
		}
	}
	if c.Req.Kind != "merge" {
		if w.leader != 0 && sim.LeaderStore() != w.leader {
			return fmt.Errorf("final leader on store %d, requested leader %d; plan %s, origin %s, request %s",
				sim.LeaderStore(), w.leader, plan, origin, w)
		}
		if err := checkFollowerLeader(c, w, sim); err != nil {
			return fmt.Errorf("%v; plan %s, origin %s, request %s", err, plan, origin, w)
		}
	}
	if first {
		info.NonTrivial = info.NonTrivial || len(steps) >= 2
		info.ClassIf(len(steps) >= 2, "steps>=2")
		info.ClassIf(len(steps) >= 5, "steps>=5")
		info.ClassIf(hasEnter, "joint")
		info.ClassIf(singleChangeEnter, "joint:single-change-enter")
		info.ClassIf(vacuousEnter, "joint:vacuous-enter-leave")
		info.ClassIf(inJointTransfer, "leader-moved-in-joint")
		info.ClassIf(demoteStep, "demote-without-joint")
		info.ClassIf(lightStep, "light")
		info.ClassIf(w.force, "forced")
		info.ClassIf(leaderMoved, "leader-moved")
		info.ClassIf(w.leader != 0, "leader-requested")
		info.ClassIf(w.roles != nil, "expected-roles")
		info.ClassIf(c.Cluster.PlacementRules, "placement-rules")
		info.ClassIf(c.Region.InJoint(), "origin-joint")
		info.ClassIf(c.LeaderCopy != "", "leader-copy:"+c.LeaderCopy)
		info.ClassIf(c.Region.Leader >= 0 && c.Region.Peers[c.Region.Leader].Role == simkit.DemotingVoter, "origin-leader-demoting")
		info.ClassIf(c.LeaderCopy != "" && c.Region.Leader >= 0 && c.Region.Peers[c.Region.Leader].Role.Joint(), "leader-copy-hides-joint-role")
	}
	return nil
}

// knownInplaceSymptom: the symptom of C08/nojoint-inplace-demote — the step adds
// a learner on a store whose origin voter is requested to become a learner and
// that voter has not been removed yet, because the planner paired the add with
// the removal of a peer on ANOTHER store (the next remove step names another
// store). An add that is paired with the removal on the same store is not the
// known finding (the planner has a guard against exactly that).
func knownInplaceSymptom(c *Case, w *want, sim *simkit.Region, steps []operator.OpStep, i int) bool {
	var store uint64
	switch st := steps[i].(type) {
	case operator.AddLearner:
		store = st.ToStore
	case operator.AddLightLearner:
		store = st.ToStore
	default:
		return false
	}
	o := c.Region.PeerOnStore(store)
	cur := sim.PeerOnStore(store)
	if !(o != nil && o.Role != simkit.Learner && w.learner[store] && cur != nil && cur.ID == o.ID) {
		return false
	}
	for _, st := range steps[i+1:] {
		if rm, ok := st.(operator.RemovePeer); ok {
			return rm.FromStore != store
		}
	}
	return false
}

// checkFollowerLeader: "if role info is given, store having role follower
// should not be target leader". When no leader is explicitly requested and the
// final leader sits on a store whose expected role is follower, no other target
// voter (not expected to be a follower) may have been eligible: on a store that
// accepts leaders (or on any existing store when the leader transfer is forced).
func checkFollowerLeader(c *Case, w *want, sim *simkit.Region) error {
	if w.roles == nil || w.leader != 0 {
		return nil
	}
	ls := sim.LeaderStore()
	if w.roles[ls] != "follower" {
		return nil
	}
	for _, s := range sortedStores(w.learner) {
		if s == ls || w.learner[s] || w.roles[s] == "follower" {
			continue
		}
		st := c.Cluster.Store(s)
		if st == nil {
			continue
		}
		ok := w.force || (c.Cluster.AcceptsLeader(s) && !(c.Cluster.PlacementRules && st.HasExclusiveLabel()))
		if ok {
			return fmt.Errorf("final leader on store %d whose expected role is follower although store %d (expected role %q) could lead",
				ls, s, w.roles[s])
		}
	}
	return nil
}

// ---------------------------------------------------------------- known finding probes

func upStores(n uint64) []simkit.StoreSpec {
	var out []simkit.StoreSpec
	for i := uint64(1); i <= n; i++ {
		out = append(out, simkit.StoreSpec{ID: i, State: simkit.StateUp, UsedRatio: 0.05, AvailableRatio: 0.95})
	}
	return out
}

// probe runs one hand-written case strictly (nothing tolerated) and reports
// whether it fails with the expected symptom.
func probe(t *testing.T, key string, c Case, symptoms ...string) {
	w := interpret(&c)
	var info vkit.Info
	err := runOnce(&c, w, &info, 0, &tolerated{})
	built := false
	for _, cl := range info.Classes {
		built = built || cl == "built"
	}
	reproduced := built && err != nil
	for _, sy := range symptoms {
		reproduced = reproduced && strings.Contains(err.Error(), sy)
	}
	detail := "operator is safe and reaches the request"
	if err != nil {
		detail = err.Error()
	} else if !built {
		detail = "no operator built"
	}
	vkit.Finding(t, key, reproduced, detail)
	if err != nil && !reproduced {
		t.Logf("the probe case fails differently: %v", err)
	}
}

// TestFinding_nojoint_inplace_demote: without joint consensus support, origin
// {1:voter(leader), 3:learner, 4:voter, 5:voter}, target {2:voter, 3:voter,
// 4:learner, 5:learner}, leader 3: step 0 adds a learner on store 4 while the
// old voter is still there.
func TestFinding_nojoint_inplace_demote(t *testing.T) {
	c := Case{Seed: 1}
	c.Cluster = simkit.ClusterSpec{Stores: upStores(5), MaxReplicas: 3, JointSupported: false, UseJoint: false, AllocBase: 1000}
	c.Region = simkit.RegionSpec{ID: 100, Leader: 0, Version: 1, ConfVer: 1, Size: 10, Peers: []simkit.PeerSpec{
		{ID: 101, Store: 1, Role: simkit.Voter}, {ID: 103, Store: 3, Role: simkit.Learner},
		{ID: 104, Store: 4, Role: simkit.Voter}, {ID: 105, Store: 5, Role: simkit.Voter}}}
	c.Req = Request{Kind: "builder", Ops: []BOp{
		{Op: "setPeers", Peers: []PeerReq{{Store: 2}, {Store: 3}, {Store: 4, Learner: true}, {Store: 5, Learner: true}}},
		{Op: "setLeader", Store: 3}}}
	probe(t, keyNoJointInplaceDemote, c, "CheckSafety fails", "add learner")
}

// TestFinding_jointoff_demote_before_add_voter: joint consensus supported by the
// cluster but enable-joint-consensus=false, origin {1:voter(leader), 2:voter,
// 3:voter}, target {1:voter, 2:voter, 3:learner, 4:voter}: the plan demotes 3
// before it adds 4, the region runs on 2 voters although origin and target have 3.
func TestFinding_jointoff_demote_before_add_voter(t *testing.T) {
	c := Case{Seed: 1}
	c.Cluster = simkit.ClusterSpec{Stores: upStores(4), MaxReplicas: 3, JointSupported: true, UseJoint: false, AllocBase: 1000}
	c.Region = simkit.RegionSpec{ID: 100, Leader: 0, Version: 1, ConfVer: 1, Size: 10, Peers: []simkit.PeerSpec{
		{ID: 101, Store: 1, Role: simkit.Voter}, {ID: 102, Store: 2, Role: simkit.Voter}, {ID: 103, Store: 3, Role: simkit.Voter}}}
	c.Req = Request{Kind: "builder", Ops: []BOp{
		{Op: "setPeers", Peers: []PeerReq{{Store: 1}, {Store: 2}, {Store: 3, Learner: true}, {Store: 4}}}}}
	probe(t, keyDemoteBeforeAdd, c, "voter count", "demote follower")
}
