// C13, large rule sets: the paged scan behind LoadRules / LoadRuleGroups (100 keys per page)
// and the key-range index with hundreds of rules.
//
// 95-260 rules and 95-130 configured groups (counts around the page size and its multiples) are
// built in a few SetAllGroupBundles / SetRules / SetRuleGroup calls, followed by a few updates and
// restarts; every history ends with two consecutive restarts on the same storage (the second one
// shows what the load of the first one did to the storage). After every step the observations are
// compared with the reference model, and the raw set of storage keys under rules/ and rule_group/
// with the keys the model expects: a load must not make a key disappear or appear.
package c13

import (
	"fmt"
	"hash/fnv"
	"sort"
	"strings"

	"github.com/tikv/pd/server/kv"
	"github.com/tikv/pd/server/schedule/placement"
	"pdverif/vkit"
	"pdverif/vkit/faultkv"
	"pgregory.net/rapid"
)

func init() {
	vkit.Register("bulk", vkit.N{Quick: 48, Thorough: 1600}, genBulk, runBulk)
}

type BulkRule struct {
	G    int `json:"g"` // group number; numbers >= NGroups are groups without configuration
	S    int `json:"s"` // index into keyTable, -1 = unbounded
	E    int `json:"e"`
	Role int `json:"r"`
	N    int `json:"n"`
	Ix   int `json:"ix,omitempty"`
}

type BulkOp struct {
	K    string `json:"k"` // delRule, setRule, delGroup, setGroup, delBundle, restart
	Pick int    `json:"p,omitempty"`
	Val  int    `json:"v,omitempty"`
}

type BulkCase struct {
	NGroups    int        `json:"ngroups"` // groups with a non-default configuration (persisted under rule_group/)
	Rules      []BulkRule `json:"rules"`   // besides pd/default
	Chunks     int        `json:"chunks"`
	ViaBundles bool       `json:"bundles"`
	Ops        []BulkOp   `json:"ops"`
}

var pageCounts = []int{100, 101, 99, 95, 102, 130, 150, 199, 200, 201, 250, 260}

func genBulk(t *rapid.T) BulkCase {
	c := BulkCase{
		NGroups:    rapid.SampledFrom([]int{100, 101, 99, 95, 102, 130}).Draw(t, "ngroups"),
		Chunks:     rapid.IntRange(1, 4).Draw(t, "chunks"),
		ViaBundles: rapid.Bool().Draw(t, "viaBundles"),
	}
	n := rapid.SampledFrom(pageCounts).Draw(t, "nrules") - 1 // pd/default is the first stored rule
	for i := 0; i < n; i++ {
		r := BulkRule{G: rapid.IntRange(0, c.NGroups+4).Draw(t, "g"), S: -1, E: -1,
			Role: rapid.IntRange(0, 2).Draw(t, "role"), N: rapid.IntRange(1, 3).Draw(t, "count"), Ix: genIndex(t, []int{0, 1, 2}, "index")}
		switch rapid.IntRange(0, 5).Draw(t, "rangeKind") {
		case 0:
		case 1:
			r.S = rapid.IntRange(0, len(keyTable)-1).Draw(t, "start")
		case 2:
			r.E = rapid.IntRange(0, len(keyTable)-1).Draw(t, "end")
		default:
			r.S = rapid.IntRange(0, len(keyTable)-2).Draw(t, "start")
			r.E = rapid.IntRange(r.S+1, len(keyTable)-1).Draw(t, "end")
		}
		c.Rules = append(c.Rules, r)
	}
	nops := rapid.IntRange(0, 6).Draw(t, "nops")
	for i := 0; i < nops; i++ {
		c.Ops = append(c.Ops, BulkOp{K: rapid.SampledFrom([]string{"delRule", "setRule", "delGroup", "setGroup", "delBundle", "restart", "delRule", "delGroup"}).Draw(t, "kind"),
			Pick: rapid.IntRange(0, 1000).Draw(t, "pick"), Val: rapid.IntRange(0, 5).Draw(t, "val")})
	}
	// the final restarts: the first one may find rule records under legacy keys (Pick = selection mask, Val = key style)
	c.Ops = append(c.Ops, BulkOp{K: "restart", Pick: rapid.IntRange(0, 1023).Draw(t, "legacyMask"), Val: rapid.IntRange(0, 2).Draw(t, "legacyStyle")}, BulkOp{K: "restart"})
	return c
}

func bulkGroup(j int) string { return fmt.Sprintf("g%03d", j) }

func (r BulkRule) in(i int) inRule {
	in := inRule{Group: bulkGroup(r.G), ID: fmt.Sprintf("r%03d", i), Index: r.Ix,
		Role: []string{"voter", "follower", "learner"}[r.Role%3], Count: r.N}
	if r.S >= 0 {
		in.StartHex = fmt.Sprintf("%x", keyTable[r.S])
	}
	if r.E >= 0 {
		in.EndHex = fmt.Sprintf("%x", keyTable[r.E])
	}
	return in
}

func (m *model) expectedKeys() []string {
	var ks []string
	for k := range m.rules {
		ks = append(ks, ruleStoreKey(k))
	}
	for id := range m.groups {
		ks = append(ks, groupStoreKey(id))
	}
	sort.Strings(ks)
	return ks
}

func (f *fixture) storedKeys() []string { return storedKeysOf(f.base) }

func storedKeysOf(b kv.Base) []string {
	var ks []string
	for k := range faultkv.Dump(b) {
		if strings.HasPrefix(k, "rules/") || strings.HasPrefix(k, "rule_group/") {
			ks = append(ks, k)
		}
	}
	sort.Strings(ks)
	return ks
}

func diffKeys(got, want []string) error {
	g := map[string]bool{}
	for _, k := range got {
		g[k] = true
	}
	w := map[string]bool{}
	for _, k := range want {
		w[k] = true
		if !g[k] {
			return fmt.Errorf("storage key %q is missing (%d keys stored, %d expected)", k, len(got), len(want))
		}
	}
	for _, k := range got {
		if !w[k] {
			return fmt.Errorf("storage holds key %q which no served rule or group has (%d keys stored, %d expected)", k, len(got), len(want))
		}
	}
	return nil
}

func runBulk(c BulkCase) (vkit.Info, error) {
	var info vkit.Info
	f, m, err := newFixture(Case{Stores: "nil", MaxReplica: 3})
	if err != nil {
		return info, err
	}
	check := func(when string) error {
		if err := diffViews(realView(f.mgr), m.view()); err != nil {
			return fmt.Errorf("%s: %v", when, err)
		}
		if err := diffKeys(f.storedKeys(), m.expectedKeys()); err != nil {
			return fmt.Errorf("%s: %v", when, err)
		}
		return nil
	}
	apply := func(when string, p *patch, err error) error {
		if err != nil {
			return fmt.Errorf("%s: rejected with %q, but every key keeps a valid rule set and the rule fields are valid", when, err)
		}
		m = m.with(p)
		if v := m.validate(); v.reason != "" || v.leadingGap {
			return fmt.Errorf("harness: bulk model state invalid after %s: %s", when, v.reason)
		}
		return check("after " + when)
	}
	// ---- build
	var ins []inRule
	for i, r := range c.Rules {
		ins = append(ins, r.in(i+1))
	}
	cfg := func(j int) mgroup {
		if j < c.NGroups {
			return mgroup{Index: 1 + j%5}
		}
		return mgroup{}
	}
	chunk := func(n, k int) (int, int) { return n * k / c.Chunks, n * (k + 1) / c.Chunks }
	if c.ViaBundles {
		total := c.NGroups + 5
		for k := 0; k < c.Chunks; k++ {
			lo, hi := chunk(total, k)
			p := newPatch()
			var bs []placement.GroupBundle
			for j := lo; j < hi; j++ {
				g := cfg(j)
				b := placement.GroupBundle{ID: bulkGroup(j), Index: g.Index, Override: g.Override}
				p.groups[b.ID] = g
				for _, in := range ins {
					if in.Group == b.ID {
						r, why := m.checkFields(in, b.ID)
						if why != "" {
							return info, fmt.Errorf("harness: bulk rule invalid: %s", why)
						}
						p.rules[r.key()] = r
						b.Rules = append(b.Rules, in.real())
					}
				}
				bs = append(bs, b)
			}
			when := fmt.Sprintf("SetAllGroupBundles(groups %s..%s, override=false)", bulkGroup(lo), bulkGroup(hi-1))
			if err := apply(when, p, f.mgr.SetAllGroupBundles(bs, false)); err != nil {
				return info, err
			}
		}
	} else {
		for k := 0; k < c.Chunks; k++ {
			lo, hi := chunk(len(ins), k)
			p := newPatch()
			var rs []*placement.Rule
			for _, in := range ins[lo:hi] {
				r, why := m.checkFields(in, "")
				if why != "" {
					return info, fmt.Errorf("harness: bulk rule invalid: %s", why)
				}
				p.rules[r.key()] = r
				rs = append(rs, in.real())
			}
			if err := apply(fmt.Sprintf("SetRules(%d rules)", hi-lo), p, f.mgr.SetRules(rs)); err != nil {
				return info, err
			}
		}
		for j := 0; j < c.NGroups; j++ {
			g := cfg(j)
			p := newPatch()
			p.groups[bulkGroup(j)] = g
			err := f.mgr.SetRuleGroup(&placement.RuleGroup{ID: bulkGroup(j), Index: g.Index})
			if err != nil {
				return info, fmt.Errorf("SetRuleGroup(%s): rejected with %q", bulkGroup(j), err)
			}
			m = m.with(p)
		}
		if err := check(fmt.Sprintf("after SetRuleGroup x%d", c.NGroups)); err != nil {
			return info, err
		}
	}
	maxRules, maxGroups := len(m.rules), len(m.groups)
	// ---- updates and restarts
	restarts := 0
	for i, op := range c.Ops {
		keys := m.sortedKeys()
		var others [][2]string // every rule but pd/default, which keeps every key covered by a voter
		for _, k := range keys {
			if k != [2]string{"pd", "default"} {
				others = append(others, k)
			}
		}
		var configured []string
		for id := range m.groups {
			configured = append(configured, id)
		}
		sort.Strings(configured)
		p := newPatch()
		switch op.K {
		case "restart":
			restarts++
			if moved := relocate(f.base, m, Legacy{Mask: op.Pick}, op.Val); moved > 0 {
				info.Class("restart-with-legacy-keys")
			}
			if f.mgr, err = f.newManager(f.fkv); err != nil {
				return info, fmt.Errorf("op %d: restart %d on the same storage failed: %v", i, restarts, err)
			}
			if err := check(fmt.Sprintf("after op %d (restart %d, %d rules and %d group configurations stored before it)", i, restarts, len(m.rules), len(m.groups))); err != nil {
				return info, err
			}
		case "delRule":
			if len(others) == 0 {
				continue
			}
			k := others[op.Pick%len(others)]
			p.rules[k] = nil
			if err := apply(fmt.Sprintf("op %d DeleteRule(%s,%s)", i, k[0], k[1]), p, f.mgr.DeleteRule(k[0], k[1])); err != nil {
				return info, err
			}
		case "setRule":
			if len(others) == 0 {
				continue
			}
			in := m.rules[others[op.Pick%len(others)]].inRule
			in.Count = 1 + op.Val%3
			in.Index = op.Val
			r, _ := m.checkFields(in, "")
			p.rules[r.key()] = r
			if err := apply(fmt.Sprintf("op %d SetRule(%s)", i, js(in)), p, f.mgr.SetRule(in.real())); err != nil {
				return info, err
			}
		case "delGroup":
			if len(configured) == 0 {
				continue
			}
			id := configured[op.Pick%len(configured)]
			p.groups[id] = mgroup{}
			if err := apply(fmt.Sprintf("op %d DeleteRuleGroup(%s)", i, id), p, f.mgr.DeleteRuleGroup(id)); err != nil {
				return info, err
			}
		case "setGroup":
			id := bulkGroup(op.Pick % (c.NGroups + 10))
			g := mgroup{Index: 1 + op.Val}
			p.groups[id] = g
			if err := apply(fmt.Sprintf("op %d SetRuleGroup(%s, index %d)", i, id, g.Index), p, f.mgr.SetRuleGroup(&placement.RuleGroup{ID: id, Index: g.Index})); err != nil {
				return info, err
			}
		case "delBundle":
			id := bulkGroup(op.Pick % (c.NGroups + 5))
			for _, k := range keys {
				if k[0] == id {
					p.rules[k] = nil
				}
			}
			p.groups[id] = mgroup{}
			if err := apply(fmt.Sprintf("op %d DeleteGroupBundle(%s)", i, id), p, f.mgr.DeleteGroupBundle(id, false)); err != nil {
				return info, err
			}
		}
		f.fkv.TakeLog()
	}
	info.ClassIf(maxRules >= 100, "rules>=100")
	info.ClassIf(maxRules >= 200, "rules>=200")
	info.ClassIf(maxGroups >= 100, "groups>=100")
	info.ClassIf(c.ViaBundles, "built-by-bundles")
	info.NonTrivial = (len(m.rules) >= 100 || len(m.groups) >= 100) && restarts >= 2
	// the sample of a bulk case is its shape, not its 260 rules
	h := fnv.New64a()
	h.Write([]byte(js(c.Rules)))
	info.Sample = map[string]interface{}{"ngroups": c.NGroups, "nrules": len(c.Rules) + 1, "chunks": c.Chunks, "bundles": c.ViaBundles, "ops": c.Ops,
		"first_rules": c.Rules[:3], "rules_fnv64": h.Sum64()}
	return info, nil
}
