// C13, HTTP read slice of the property "terms": what the read endpoints of the serving leader answer
// (GET /pd/api/v1/config/rules, rules/group/{g}, rules/region/{id}, rules/key/{hex}, rule/{g}/{id},
// rule_group/{id}, rule_groups, placement-rule, placement-rule/{g}) is compared with the reference
// model: documented order, override applied for regions, no rules for a region that crosses a
// segment boundary; null and [] are the same answer. Regions are made known to the cluster by a
// region heartbeat (hook VerifProcessRegionHeartbeat) right before they are asked for.
package c13

import (
	"encoding/hex"
	"encoding/json"
	"fmt"
	"io"
	"net/http"
	"strings"
	"sync/atomic"
	"time"

	"github.com/pingcap/kvproto/pkg/metapb"
	"github.com/tikv/pd/server/core"
	"github.com/tikv/pd/server/schedule/placement"
	"pdverif/livesrv"
	"pgregory.net/rapid"
)

// RegionSpec is resolved against the sorted segment boundaries B of the model at the time of the query:
// start = B[From % len(B)] shifted by SOff (-1 just below, 0 exact, +1 just above), end = B[From%len(B) + Span]
// shifted by EOff, unbounded if that index is past the last boundary.
type RegionSpec struct {
	From int `json:"from"`
	Span int `json:"span"`
	SOff int `json:"soff,omitempty"`
	EOff int `json:"eoff,omitempty"`
}

func genRegions(t *rapid.T) []RegionSpec {
	n := rapid.IntRange(3, 6).Draw(t, "nRegions")
	var out []RegionSpec
	for i := 0; i < n; i++ {
		out = append(out, RegionSpec{From: rapid.IntRange(0, 40).Draw(t, "from"), Span: rapid.IntRange(0, 4).Draw(t, "span"),
			SOff: rapid.IntRange(-1, 1).Draw(t, "soff"), EOff: rapid.IntRange(-1, 1).Draw(t, "eoff")})
	}
	return out
}

func shiftKey(k string, off int) string {
	switch {
	case off > 0:
		return k + "\x00"
	case off < 0 && k != "":
		b := []byte(k)
		if b[len(b)-1] == 0 {
			return string(b[:len(b)-1])
		}
		b[len(b)-1]--
		return string(b) + "\xff"
	}
	return k
}

func (rs RegionSpec) resolve(bs []string) (string, string, bool) {
	if len(bs) == 0 {
		return "", "", false
	}
	i := rs.From % len(bs)
	s := shiftKey(bs[i], rs.SOff)
	e := ""
	if j := i + rs.Span; j < len(bs) {
		e = shiftKey(bs[j], rs.EOff)
		if e == "" || e <= s {
			return "", "", false
		}
	}
	return s, e, true
}

var (
	httpClient           = &http.Client{Timeout: 10 * time.Second}
	regionCounter uint64 = 1000 // fresh region ids and ever growing versions: a new region always replaces what it overlaps
)

// get returns status and body; transport errors are reported as status 0
func apiGet(n *livesrv.Node, path string) (int, []byte) {
	resp, err := httpClient.Get(n.URL() + "/pd/api/v1" + path)
	if err != nil {
		return 0, nil
	}
	defer resp.Body.Close()
	b, err := io.ReadAll(resp.Body)
	if err != nil {
		return 0, nil
	}
	return resp.StatusCode, b
}

func decodeRules(rs []*placement.Rule) error {
	for _, r := range rs {
		if r == nil {
			return fmt.Errorf("null rule in the answer")
		}
		var err error
		if r.StartKey, err = hex.DecodeString(r.StartKeyHex); err != nil {
			return fmt.Errorf("start_key %q is not hex", r.StartKeyHex)
		}
		if r.EndKey, err = hex.DecodeString(r.EndKeyHex); err != nil {
			return fmt.Errorf("end_key %q is not hex", r.EndKeyHex)
		}
	}
	return nil
}

type apiBundle struct {
	ID       string            `json:"group_id"`
	Index    int               `json:"group_index"`
	Override bool              `json:"group_override"`
	Rules    []*placement.Rule `json:"rules"`
}

// httpSlice returns (decided, violation)
func httpSlice(leader *livesrv.Node, m *model, regions []RegionSpec, when string, classes func(string)) (bool, error) {
	want := m.view()
	sigs := realSigs{}
	flaky := false
	rulesAt := func(path string) ([]string, int, error) {
		st, body := apiGet(leader, path)
		if st == 0 {
			flaky = true
			return nil, 0, nil
		}
		if st != http.StatusOK {
			return nil, st, nil
		}
		var rs []*placement.Rule
		if err := json.Unmarshal(body, &rs); err != nil {
			return nil, st, fmt.Errorf("GET %s: answer does not parse: %v", path, err)
		}
		if err := decodeRules(rs); err != nil {
			return nil, st, fmt.Errorf("GET %s: %v", path, err)
		}
		return sigs.of(rs), st, nil
	}
	expectRules := func(path string, exp []string) error {
		got, st, err := rulesAt(path)
		if err != nil || flaky {
			return err
		}
		if st != http.StatusOK {
			return fmt.Errorf("%s: GET %s answered status %d, model says %q", when, path, st, exp)
		}
		if !eqs(got, exp) {
			return fmt.Errorf("%s: GET %s = %q, model says %q", when, path, got, exp)
		}
		return nil
	}
	if err := expectRules("/config/rules", want.All); err != nil || flaky {
		return !flaky, err
	}
	for gi, g := range queryGroups {
		if strings.Contains(g, "/") || g == "." || g == ".." {
			continue // cannot be written into a path
		}
		if err := expectRules("/config/rules/group/"+g, want.ByGroup[gi]); err != nil || flaky {
			return !flaky, err
		}
		// one rule
		for ii, id := range idsU {
			exp := want.Rule[gi*len(idsU)+ii]
			st, body := apiGet(leader, "/config/rule/"+g+"/"+id)
			if st == 0 {
				return false, nil
			}
			got := ""
			if st == http.StatusOK {
				var r placement.Rule
				if err := json.Unmarshal(body, &r); err != nil {
					return true, fmt.Errorf("%s: GET /config/rule/%s/%s does not parse: %v", when, g, id, err)
				}
				if err := decodeRules([]*placement.Rule{&r}); err != nil {
					return true, fmt.Errorf("%s: GET /config/rule/%s/%s: %v", when, g, id, err)
				}
				got = fromReal(&r).sig()
			} else if st != http.StatusNotFound {
				return true, fmt.Errorf("%s: GET /config/rule/%s/%s answered status %d", when, g, id, st)
			}
			if got != exp {
				return true, fmt.Errorf("%s: GET /config/rule/%s/%s = %q (status %d), model says %q", when, g, id, got, st, exp)
			}
		}
		// group configuration
		st, body := apiGet(leader, "/config/rule_group/"+g)
		if st == 0 {
			return false, nil
		}
		var gotG *vgroup
		if st == http.StatusOK {
			var rg placement.RuleGroup
			if err := json.Unmarshal(body, &rg); err != nil {
				return true, fmt.Errorf("%s: GET /config/rule_group/%s does not parse: %v", when, g, err)
			}
			gotG = &vgroup{rg.ID, rg.Index, rg.Override}
		} else if st != http.StatusNotFound {
			return true, fmt.Errorf("%s: GET /config/rule_group/%s answered status %d", when, g, st)
		}
		if a, b := gotG, want.Group[gi]; (a == nil) != (b == nil) || (a != nil && *a != *b) {
			return true, fmt.Errorf("%s: GET /config/rule_group/%s = %s (status %d), model says %s", when, g, js(a), st, js(b))
		}
		// bundle of the group
		st, body = apiGet(leader, "/config/placement-rule/"+g)
		if st == 0 {
			return false, nil
		}
		if st != http.StatusOK {
			return true, fmt.Errorf("%s: GET /config/placement-rule/%s answered status %d", when, g, st)
		}
		var ab apiBundle
		if err := json.Unmarshal(body, &ab); err != nil {
			return true, fmt.Errorf("%s: GET /config/placement-rule/%s does not parse: %v", when, g, err)
		}
		if err := decodeRules(ab.Rules); err != nil {
			return true, fmt.Errorf("%s: GET /config/placement-rule/%s: %v", when, g, err)
		}
		if got := (vbundle{vgroup: vgroup{ab.ID, ab.Index, ab.Override}, Rules: sigs.of(ab.Rules)}); !eqb(got, want.Bundle[gi]) {
			return true, fmt.Errorf("%s: GET /config/placement-rule/%s = %+v, model says %+v", when, g, got, want.Bundle[gi])
		}
	}
	// all group configurations, all bundles
	st, body := apiGet(leader, "/config/rule_groups")
	if st == 0 {
		return false, nil
	}
	var rgs []placement.RuleGroup
	if st != http.StatusOK || json.Unmarshal(body, &rgs) != nil {
		return true, fmt.Errorf("%s: GET /config/rule_groups: status %d, body %.200s", when, st, body)
	}
	var gotGroups []vgroup
	for _, rg := range rgs {
		gotGroups = append(gotGroups, vgroup{rg.ID, rg.Index, rg.Override})
	}
	if fmt.Sprint(gotGroups) != fmt.Sprint(want.Groups) {
		return true, fmt.Errorf("%s: GET /config/rule_groups = %+v, model says %+v", when, gotGroups, want.Groups)
	}
	st, body = apiGet(leader, "/config/placement-rule")
	if st == 0 {
		return false, nil
	}
	var abs []apiBundle
	if st != http.StatusOK || json.Unmarshal(body, &abs) != nil {
		return true, fmt.Errorf("%s: GET /config/placement-rule: status %d, body %.200s", when, st, body)
	}
	if len(abs) != len(want.Bundles) {
		return true, fmt.Errorf("%s: GET /config/placement-rule lists %d bundles, model says %d", when, len(abs), len(want.Bundles))
	}
	for i, ab := range abs {
		if err := decodeRules(ab.Rules); err != nil {
			return true, fmt.Errorf("%s: GET /config/placement-rule: %v", when, err)
		}
		if got := (vbundle{vgroup: vgroup{ab.ID, ab.Index, ab.Override}, Rules: sigs.of(ab.Rules)}); !eqb(got, want.Bundles[i]) {
			return true, fmt.Errorf("%s: GET /config/placement-rule [%d] = %+v, model says %+v", when, i, got, want.Bundles[i])
		}
	}
	// by key: every boundary, just below and just above it
	bs := m.boundaries()
	for bi, b := range bs {
		if bi >= 12 {
			break
		}
		for off := -1; off <= 1; off++ {
			k := shiftKey(b, off)
			if k == "" {
				continue // the empty key cannot be written into the path
			}
			if err := expectRules("/config/rules/key/"+hex.EncodeToString([]byte(k)), msigs(m.rulesAt(k))); err != nil || flaky {
				return !flaky, err
			}
		}
	}
	// by region
	rc := leader.Svr.GetRaftCluster()
	if rc == nil {
		return false, nil
	}
	for _, spec := range regions {
		s, e, ok := spec.resolve(bs)
		if !ok {
			continue
		}
		id := atomic.AddUint64(&regionCounter, 1)
		peer := &metapb.Peer{Id: id + 1<<40, StoreId: 1}
		region := core.NewRegionInfo(&metapb.Region{Id: id, StartKey: []byte(s), EndKey: []byte(e),
			RegionEpoch: &metapb.RegionEpoch{Version: id, ConfVer: 1}, Peers: []*metapb.Peer{peer}}, peer)
		if err := rc.VerifProcessRegionHeartbeat(region); err != nil {
			return false, nil
		}
		crossing := false
		for _, b := range bs {
			if b > s && (e == "" || b < e) {
				crossing = true
			}
		}
		var exp []string
		if !crossing {
			exp = msigs(m.applied(m.rulesAt(s)))
			classes("http-region-inside-one-segment")
		} else {
			classes("http-region-crossing-a-boundary")
		}
		path := fmt.Sprintf("/config/rules/region/%d", id)
		got, st, err := rulesAt(path)
		if err != nil {
			return true, err
		}
		if flaky {
			return false, nil
		}
		if st != http.StatusOK {
			return true, fmt.Errorf("%s: GET %s (region [%q,%q) just reported by heartbeat) answered status %d", when, path, s, e, st)
		}
		if !eqs(got, exp) {
			return true, fmt.Errorf("%s: GET %s for region [%q,%q) = %q, model says %q (segment boundaries %q)", when, path, s, e, got, exp, bs)
		}
	}
	return true, nil
}
