// Known-finding probes about loading rules from the storage (C13: "a restarted PD loads exactly what is being served").
package c13

import (
	"fmt"
	"strings"
	"testing"

	"github.com/tikv/pd/server/core"
	"github.com/tikv/pd/server/kv"
	"github.com/tikv/pd/server/schedule/placement"
	"pdverif/vkit"
	"pdverif/vkit/faultkv"
)

const (
	// a rule stored under a mismatching key K1 AND under its canonical key K2, K1 < K2 (what an interrupted
	// repair of loadRules leaves behind): the next load serves the rule and deletes both records
	kDupKeys = "C13/load-legacy-and-canonical-key-deletes-both"
	// Initialize retried on the same manager after a failed Initialize deletes every stored rule
	kReinit = "C13/initialize-retry-deletes-stored-rules"
	// loading applies the "matches no store" check of client input to stored rules and deletes them
	kStoreCheck = "C13/load-deletes-rules-matching-no-current-store"
)

func ruleKeysIn(b kv.Base) []string {
	var ks []string
	for _, k := range storedKeysOf(b) {
		if strings.HasPrefix(k, "rules/") {
			ks = append(ks, k)
		}
	}
	return ks
}

func TestFinding_LoadLegacyAndCanonicalKey(t *testing.T) {
	base := kv.NewMemoryKV()
	m := placement.NewRuleManager(core.NewStorage(base), nil)
	if err := m.Initialize(3, nil); err != nil {
		t.Fatal(err)
	}
	// group "1": its canonical key 31-7231 sorts after the un-hexed key 1-r1
	if err := m.SetRule(&placement.Rule{GroupID: "1", ID: "r1", Role: "voter", Count: 1}); err != nil {
		t.Fatal(err)
	}
	canon := ruleStoreKey([2]string{"1", "r1"})
	v, _ := base.Load(canon)
	base.Save("rules/1-r1", v) // the state between the save loop and the delete loop of an interrupted repair
	m2 := placement.NewRuleManager(core.NewStorage(base), nil)
	err := m2.Initialize(3, nil)
	servedIt := m2.GetRule("1", "r1") != nil
	left := ruleKeysIn(base)
	has := false
	for _, k := range left {
		if k == canon {
			has = true
		}
	}
	vkit.Finding(t, kDupKeys, err == nil && servedIt && !has,
		fmt.Sprintf("rule 1/r1 stored under rules/1-r1 and %s; Initialize returned %v, rule served: %v, rule keys left in storage: %q", canon, err, servedIt, left))
}

func TestFinding_InitializeRetryDeletesRules(t *testing.T) {
	base := kv.NewMemoryKV()
	m := placement.NewRuleManager(core.NewStorage(base), nil)
	if err := m.Initialize(3, nil); err != nil {
		t.Fatal(err)
	}
	if err := m.SetRule(&placement.Rule{GroupID: "a", ID: "r1", Role: "voter", Count: 1}); err != nil {
		t.Fatal(err)
	}
	before := ruleKeysIn(base)
	fkv := faultkv.New(base)
	fkv.SetGate(func(kind, key string) error {
		if kind == "range" && strings.HasPrefix(key, "rule_group") {
			return faultkv.ErrInjected
		}
		return nil
	})
	m2 := placement.NewRuleManager(core.NewStorage(fkv), nil)
	err1 := m2.Initialize(3, nil) // rules are read, reading the groups fails
	fkv.SetGate(nil)
	err2 := m2.Initialize(3, nil) // the retry, e.g. enabling placement rules again through SetReplicationConfig
	after := ruleKeysIn(base)
	vkit.Finding(t, kReinit, err1 != nil && len(after) < len(before),
		fmt.Sprintf("first Initialize: %v; retried Initialize on the same manager: %v; rule keys in storage before %q, after %q", err1, err2, before, after))
}

func TestFinding_LoadDeletesRulesMatchingNoStore(t *testing.T) {
	base := kv.NewMemoryKV()
	all, _ := newInformer("zones")
	m := placement.NewRuleManager(core.NewStorage(base), all)
	if err := m.Initialize(3, nil); err != nil {
		t.Fatal(err)
	}
	// valid when it is set: store 2 is in zone z2
	err := m.SetRule(&placement.Rule{GroupID: "a", ID: "r1", Role: "learner", Count: 1,
		LabelConstraints: []placement.LabelConstraint{{Key: "zone", Op: placement.In, Values: []string{"z2"}}}})
	if err != nil {
		t.Fatal(err)
	}
	before := ruleKeysIn(base)
	// the PD restarts (or another PD takes over) while store 2 is gone
	fewer := &storeSet{stores: all.GetStores()[:1]}
	m2 := placement.NewRuleManager(core.NewStorage(base), fewer)
	err = m2.Initialize(3, nil)
	after := ruleKeysIn(base)
	vkit.Finding(t, kStoreCheck, err == nil && m2.GetRule("a", "r1") == nil && len(after) < len(before),
		fmt.Sprintf("rule a/r1 {zone in [z2]} accepted and served; restarted with only the z1 store: Initialize %v, rule served: %v, rule keys in storage before %q, after %q", err, m2.GetRule("a", "r1") != nil, before, after))
}

// SetRuleGroup{"../raft", index 1}: the group record is written over the key "raft" (the cluster meta);
// a restarted manager does not load the group; resetting the group deletes "raft"
func TestFinding_GroupIDPathJoin(t *testing.T) {
	base := kv.NewMemoryKV()
	base.Save("raft", "sentinel: cluster meta")
	m := placement.NewRuleManager(core.NewStorage(base), nil)
	if err := m.Initialize(3, nil); err != nil {
		t.Fatal(err)
	}
	err1 := m.SetRuleGroup(&placement.RuleGroup{ID: "../raft", Index: 1})
	raft1, _ := base.Load("raft")
	_, underPrefix := faultkv.Dump(base)["rule_group/../raft"]
	m2 := placement.NewRuleManager(core.NewStorage(base), nil)
	if err := m2.Initialize(3, nil); err != nil {
		t.Fatal(err)
	}
	served, reloaded := m.GetRuleGroup("../raft") != nil, m2.GetRuleGroup("../raft") != nil
	err2 := m.DeleteRuleGroup("../raft")
	raft2, _ := base.Load("raft")
	vkit.Finding(t, kGroupPath, err1 == nil && raft1 != "sentinel: cluster meta",
		fmt.Sprintf("SetRuleGroup{../raft, index 1} returned %v; key raft now %q; record under rule_group/: %v; group served: %v, loaded by a restarted manager: %v; DeleteRuleGroup(../raft) returned %v, key raft now %q",
			err1, raft1, underPrefix, served, reloaded, err2, raft2))
}
