// C13 — placement rule updates are all-or-nothing and the key-range index is exact.
//
// Model-based stateful property with fault enumeration: every generated history of
// rule / batch / group / bundle updates is applied to a real placement.RuleManager
// (storage = core.Storage over faultkv over the memory backend) and to a reference
// model (maps of rules and groups; every per-key answer by linear scan). After
// every operation every observation of the manager is compared with the model,
// and a manager restarted from a copy of the storage must observe the same.
// Every update predicted to be accepted is first executed with storage write j
// failing, for j = 1, 2, ... until no write fails: each failed attempt must return
// the injected error and leave all observations unchanged; the attempt without a
// failing write is the retry and must converge (restart view == served view).
package c13

import (
	"encoding/hex"
	"encoding/json"
	"errors"
	"fmt"
	"math"
	"path"
	"reflect"
	"regexp"
	"sort"
	"strings"
	"testing"

	"github.com/pingcap/kvproto/pkg/metapb"
	"github.com/tikv/pd/server/core"
	"github.com/tikv/pd/server/kv"
	"github.com/tikv/pd/server/schedule/placement"
	"pdverif/livesrv"
	"pdverif/vkit"
	"pdverif/vkit/faultkv"
	"pgregory.net/rapid"
)

func TestMain(m *testing.M)   { vkit.MainWith(m, "C13", livesrv.ShutdownAll) }
func TestProp(t *testing.T)   { vkit.RunAll(t) }
func TestReplay(t *testing.T) { vkit.RunReplay(t) }

const (
	// a rejected (or failed) update that changes the index of a group which keeps rules reorders GetAllRules
	kAdjust = "C13/adjust-mutates-served-group"
	// GetRule returns the served object; edit + SetRule is trimmed as "no change" and never persisted
	kLivePtr = "C13/getrule-live-pointer-edit-not-persisted"
	// an update after which no rule starts at the empty key is accepted (keys below the first start key have no rule)
	kGap = "C13/leading-gap-accepted"
)

// a group id that path cleaning alters: the group record is written to (or deleted from) another key
const kGroupPath = "C13/group-id-path-join"

func init() {
	vkit.SilenceLog()
	vkit.Register("rules", vkit.N{Quick: 3000, Thorough: 100000}, genCase, runCase)
}

// ---------------------------------------------------------------- case data

type Con struct {
	Key    string   `json:"k"`
	Op     string   `json:"op"`
	Values []string `json:"v,omitempty"`
}

type RuleSpec struct {
	Group    string   `json:"g"`
	ID       string   `json:"id"`
	Index    int      `json:"ix,omitempty"`
	Override bool     `json:"ov,omitempty"`
	Start    string   `json:"s,omitempty"` // raw key; hex-encoded when the call is made
	End      string   `json:"e,omitempty"`
	Role     string   `json:"role"`
	Count    int      `json:"n"`
	Cons     []Con    `json:"c,omitempty"`
	Loc      []string `json:"loc,omitempty"`
	Iso      string   `json:"iso,omitempty"`
	Bad      string   `json:"bad,omitempty"` // which documented field check is violated on purpose
	Upper    bool     `json:"up,omitempty"`  // upper-case hex (valid)
}

type GroupSpec struct {
	ID       string `json:"id"`
	Index    int    `json:"ix,omitempty"`
	Override bool   `json:"ov,omitempty"`
}

type BundleSpec struct {
	ID       string     `json:"id"`
	Index    int        `json:"ix,omitempty"`
	Override bool       `json:"ov,omitempty"`
	Rules    []RuleSpec `json:"rules,omitempty"`
}

type BatchOp struct {
	Action string   `json:"a"` // add, del, delprefix
	Rule   RuleSpec `json:"r"`
}

type Op struct {
	Kind    string       `json:"k"`
	Rules   []RuleSpec   `json:"rules,omitempty"`
	Batch   []BatchOp    `json:"batch,omitempty"`
	Group   *GroupSpec   `json:"group,omitempty"`
	Bundles []BundleSpec `json:"bundles,omitempty"`
	All     bool         `json:"all,omitempty"` // SetAllGroupBundles(override)
	Regex   bool         `json:"re,omitempty"`
	Pat     string       `json:"pat,omitempty"`
	Pick    int          `json:"pick"` // >=0: pick an existing rule (index into the sorted rule keys), <0: use Rules[0]
	Count   int          `json:"cnt,omitempty"`
	Loc     []string     `json:"eloc,omitempty"`
	Abandon int          `json:"abandon,omitempty"` // >0: execute once with this write failing and do not retry
	// rebundle: a bundle built from the current state of the Pick-th listed group: its rules are re-posted
	// unchanged (0), changed (1: count, 2: role learner) or dropped (3) as Mask says (cyclically), Rules are added,
	// the group's override is flipped (Flip) and its index moved by Delta; All: the whole configuration is
	// re-posted with SetAllGroupBundles(override=true), otherwise SetGroupBundle
	Mask []int `json:"mask,omitempty"`
	// every op: before the manager of the restart check (and of a restart op) is initialised, the stored records of
	// the rules selected by Legacy.Mask are MOVED to a non-canonical key under rules/, as an older PD wrote them
	Legacy Legacy `json:"legacy"`
	// restart op: 1 = reading the groups fails during the first Initialize, n >= 2: write n-1 of the key repair fails;
	// Initialize is then retried. DropStores: the restarted PD sees only the first store
	LoadFault  int  `json:"loadfault,omitempty"`
	DropStores bool `json:"dropstores,omitempty"`
	Flip       bool `json:"flip,omitempty"`
	Delta      int  `json:"delta,omitempty"`
}

// Legacy selects stored rule records (bit i%10 of Mask for the i-th rule key in sorted order) and the style of
// the key they are moved to: 0 un-hexed "group-id", 1 a key that sorts before every canonical key, 2 canonical key + ".old"
type Legacy struct {
	Mask  int `json:"mask,omitempty"`
	Style int `json:"style,omitempty"`
}

type Case struct {
	Stores     string   `json:"stores"` // nil | none | zones
	MaxReplica int      `json:"max"`
	Loc        []string `json:"loc,omitempty"`
	Ops        []Op     `json:"ops"`
}

var (
	groupsU = []string{"pd", "a", "b", "ab"}
	// group ids are free text for the API: ids that path cleaning alters (group records are stored under
	// rule_group/<id> with the id joined as a path), ids with a slash that survive it, and harmless look-alikes
	exoticGroups = []string{"..", "../raft", "../rules/x", "a/../b", "a/", "/a", ".", "a//b", "a/b", "a.b", "..a", "raft"}
	idsU         = []string{"default", "r1", "r10", "r2", "x"}
	keyTable     []string // sorted, without ""
	probes       []string // sorted unique probe keys
	pranges      [][2]string
)

func init() {
	const alphabet = "abcd"
	for _, a := range alphabet {
		keyTable = append(keyTable, string(a))
		for _, b := range alphabet {
			keyTable = append(keyTable, string(a)+string(b))
		}
	}
	sort.Strings(keyTable)
	set := map[string]bool{"": true, "\x00": true, "\xff\xff": true}
	for _, k := range keyTable {
		set[k] = true
		set[k+"\x00"] = true
		// the largest key of this length below k, followed by 0xff: just below k
		b := []byte(k)
		b[len(b)-1]--
		set[string(b)+"\xff"] = true
	}
	for k := range set {
		probes = append(probes, k)
	}
	sort.Strings(probes)
	for i, s := range probes {
		pranges = append(pranges, [2]string{s, ""})
		for _, d := range []int{1, 2, 4, 7} {
			if i+d < len(probes) {
				pranges = append(pranges, [2]string{s, probes[i+d]})
			}
		}
	}
}

// ---------------------------------------------------------------- generator

func genGroupID(t *rapid.T, label string) string {
	if rapid.IntRange(0, 7).Draw(t, label+"Exotic") == 7 {
		return rapid.SampledFrom(exoticGroups).Draw(t, label+"Value")
	}
	return rapid.SampledFrom(groupsU).Draw(t, label)
}

// alteredByPathCleaning: the storage key of the group's record is not rule_group/<id>
func alteredByPathCleaning(id string) bool { return path.Join("rule_group", id) != "rule_group/"+id }

func genRange(t *rapid.T) (string, string) {
	switch rapid.IntRange(0, 9).Draw(t, "rangeKind") {
	case 0, 1, 2:
		return "", ""
	case 3, 4:
		return keyTable[rapid.IntRange(0, len(keyTable)-1).Draw(t, "start")], ""
	case 5, 6:
		return "", keyTable[rapid.IntRange(0, len(keyTable)-1).Draw(t, "end")]
	default:
		i := rapid.IntRange(0, len(keyTable)-2).Draw(t, "start")
		j := rapid.IntRange(i+1, len(keyTable)-1).Draw(t, "end")
		return keyTable[i], keyTable[j]
	}
}

var badKinds = []string{"hexStart", "hexEnd", "endEqStart", "endLtStart", "noID", "noGroup", "role", "roleEmpty", "count0", "countNeg", "leader2", "op"}

func genRule(t *rapid.T, inBundle string) RuleSpec {
	var r RuleSpec
	r.Group = genGroupID(t, "group")
	if inBundle != "" {
		switch rapid.IntRange(0, 9).Draw(t, "bundleGroup") {
		case 0, 1, 2, 3:
			r.Group = ""
		case 4, 5, 6, 7, 8:
			r.Group = inBundle
		}
	}
	r.ID = rapid.SampledFrom(idsU).Draw(t, "id")
	r.Index = genIndex(t, []int{0, 0, 0, 1, 2, -1}, "index")
	r.Override = rapid.IntRange(0, 3).Draw(t, "override") == 3
	r.Start, r.End = genRange(t)
	r.Role = rapid.SampledFrom([]string{"voter", "voter", "voter", "voter", "leader", "follower", "learner", "learner"}).Draw(t, "role")
	r.Count = rapid.IntRange(1, 3).Draw(t, "count")
	if r.Role == "leader" {
		r.Count = 1
	}
	nc := rapid.SampledFrom([]int{0, 0, 0, 0, 1, 1, 2}).Draw(t, "ncons")
	for i := 0; i < nc; i++ {
		c := Con{Key: rapid.SampledFrom([]string{"zone", "zone", "disk", "engine"}).Draw(t, "ckey"),
			Op: rapid.SampledFrom([]string{"in", "in", "notIn", "exists", "notExists"}).Draw(t, "cop")}
		if c.Op == "in" || c.Op == "notIn" {
			c.Values = rapid.SliceOfN(rapid.SampledFrom([]string{"z1", "z2", "z9", "ssd", "tiflash"}), 1, 3).Draw(t, "cvals")
		}
		r.Cons = append(r.Cons, c)
	}
	r.Loc = rapid.SampledFrom([][]string{nil, nil, {"zone"}, {"zone", "host"}}).Draw(t, "loc")
	if rapid.IntRange(0, 9).Draw(t, "iso") == 9 {
		r.Iso = "zone"
	}
	if rapid.IntRange(0, 13).Draw(t, "isBad") == 13 {
		r.Bad = rapid.SampledFrom(badKinds).Draw(t, "bad")
	}
	r.Upper = rapid.IntRange(0, 7).Draw(t, "upper") == 7
	return r
}

// Rule and group indexes are plain ints for the API (no range check in adjustRule or the HTTP handlers):
// one in five comes from a pool with the boundary magnitudes.
var extremeIndexes = []int{120, -10, math.MaxInt64, math.MinInt64, math.MaxInt64 - 1, math.MinInt64 + 1, 1 << 62, -(1 << 62)}

func genIndex(t *rapid.T, usual []int, label string) int {
	if rapid.IntRange(0, 4).Draw(t, label+"Extreme") == 4 {
		return rapid.SampledFrom(extremeIndexes).Draw(t, label+"Value")
	}
	return rapid.SampledFrom(usual).Draw(t, label)
}

func genGroup(t *rapid.T) GroupSpec {
	return GroupSpec{ID: genGroupID(t, "gid"),
		Index:    genIndex(t, []int{0, 0, 1, 2, 5, -1}, "gindex"),
		Override: rapid.IntRange(0, 2).Draw(t, "goverride") == 2}
}

func genBundle(t *rapid.T) BundleSpec {
	g := genGroup(t)
	b := BundleSpec{ID: g.ID, Index: g.Index, Override: g.Override}
	n := rapid.IntRange(0, 3).Draw(t, "nrules")
	for i := 0; i < n; i++ {
		b.Rules = append(b.Rules, genRule(t, b.ID))
	}
	return b
}

var opKinds = []string{"setRule", "setRule", "setRule", "setRule", "setRule", "setRule", "deleteRule", "deleteRule", "deleteRule",
	"setRules", "setRules", "batch", "batch", "batch", "setGroup", "setGroup", "setGroup", "deleteGroup",
	"setBundle", "setBundle", "setAllBundles", "deleteBundle", "editSet", "restart", "rebundle", "rebundle", "rebundle", "rebundle"}

func genOp(t *rapid.T) Op {
	op := Op{Kind: rapid.SampledFrom(opKinds).Draw(t, "kind"), Pick: -1}
	switch op.Kind {
	case "setRule":
		op.Rules = []RuleSpec{genRule(t, "")}
	case "deleteRule":
		op.Rules = []RuleSpec{{Group: genGroupID(t, "group"), ID: rapid.SampledFrom(idsU).Draw(t, "id")}}
		if rapid.IntRange(0, 3).Draw(t, "existing") != 3 {
			op.Pick = rapid.IntRange(0, 1000).Draw(t, "pick")
		}
	case "setRules":
		n := rapid.IntRange(1, 4).Draw(t, "n")
		for i := 0; i < n; i++ {
			op.Rules = append(op.Rules, genRule(t, ""))
		}
	case "batch":
		n := rapid.IntRange(1, 5).Draw(t, "n")
		for i := 0; i < n; i++ {
			switch rapid.IntRange(0, 5).Draw(t, "action") {
			case 0, 1, 2:
				op.Batch = append(op.Batch, BatchOp{Action: "add", Rule: genRule(t, "")})
			case 3, 4:
				op.Batch = append(op.Batch, BatchOp{Action: "del", Rule: RuleSpec{Group: genGroupID(t, "group"), ID: rapid.SampledFrom(idsU).Draw(t, "id")}})
			default:
				op.Batch = append(op.Batch, BatchOp{Action: "delprefix", Rule: RuleSpec{Group: genGroupID(t, "group"),
					ID: rapid.SampledFrom([]string{"r", "r1", "r10", "d", "", "x", "1", "e", "0", "fault"}).Draw(t, "prefix")}})
			}
		}
	case "setGroup":
		g := genGroup(t)
		op.Group = &g
	case "deleteGroup":
		op.Pat = genGroupID(t, "gid")
	case "setBundle":
		op.Bundles = []BundleSpec{genBundle(t)}
	case "setAllBundles":
		n := rapid.IntRange(0, 3).Draw(t, "n")
		for i := 0; i < n; i++ {
			op.Bundles = append(op.Bundles, genBundle(t))
		}
		op.All = rapid.Bool().Draw(t, "overrideAll")
	case "rebundle":
		op.Pick = rapid.IntRange(0, 1000).Draw(t, "pick")
		op.Mask = rapid.SliceOfN(rapid.SampledFrom([]int{0, 0, 0, 0, 1, 2, 3}), 1, 4).Draw(t, "mask")
		op.Flip = rapid.IntRange(0, 3).Draw(t, "flip") != 3
		op.Delta = rapid.SampledFrom([]int{0, 0, 1, 2, -1}).Draw(t, "delta")
		op.All = rapid.IntRange(0, 2).Draw(t, "wholeConfig") == 2
		if rapid.IntRange(0, 3).Draw(t, "addRule") == 3 {
			op.Rules = []RuleSpec{genRule(t, "?")}
			op.Rules[0].Group = ""
		}
	case "deleteBundle":
		op.Regex = rapid.Bool().Draw(t, "regex")
		if op.Regex {
			op.Pat = rapid.SampledFrom([]string{"^a", "b$", "^a$", "a|b", ".*", "^(a|ab)$", "[", "pd", "^zz$"}).Draw(t, "pattern")
		} else {
			op.Pat = rapid.SampledFrom(append([]string{"zz", "a/", "a/b", ".."}, groupsU...)).Draw(t, "gid")
		}
	case "editSet":
		if rapid.Bool().Draw(t, "existing") {
			op.Pick = rapid.IntRange(0, 1000).Draw(t, "pick")
		}
		op.Count = rapid.SampledFrom([]int{1, 2, 3, 4, 5, 5, 0}).Draw(t, "newCount")
		op.Loc = rapid.SampledFrom([][]string{nil, {"zone"}, {"zone", "rack", "host"}}).Draw(t, "newLoc")
	}
	if rapid.IntRange(0, 2).Draw(t, "legacy") == 2 {
		op.Legacy = Legacy{Mask: rapid.IntRange(1, 1023).Draw(t, "legacyMask"), Style: rapid.IntRange(0, 2).Draw(t, "legacyStyle")}
	}
	if op.Kind == "restart" {
		op.LoadFault = rapid.SampledFrom([]int{0, 0, 1, 2, 3}).Draw(t, "loadFault")
		op.DropStores = rapid.IntRange(0, 4).Draw(t, "dropStores") == 4
	}
	if op.Kind != "restart" && rapid.IntRange(0, 7).Draw(t, "abandon") == 7 {
		op.Abandon = rapid.IntRange(1, 3).Draw(t, "failWrite")
	}
	return op
}

func genCase(t *rapid.T) Case {
	c := Case{
		Stores:     rapid.SampledFrom([]string{"nil", "none", "zones", "zones"}).Draw(t, "stores"),
		MaxReplica: rapid.IntRange(1, 5).Draw(t, "maxReplica"),
		Loc:        rapid.SampledFrom([][]string{nil, {"zone", "rack", "host"}}).Draw(t, "loc"),
	}
	n := rapid.IntRange(4, 24).Draw(t, "nOps")
	for i := 0; i < n; i++ {
		c.Ops = append(c.Ops, genOp(t))
	}
	return c
}

// ---------------------------------------------------------------- inputs as the callers hand them in

type inRule struct {
	Group, ID        string
	Index            int
	Override         bool
	StartHex, EndHex string
	Role             string
	Count            int
	Cons             []Con
	Loc              []string
	Iso              string
}

func resolve(s RuleSpec) inRule {
	in := inRule{Group: s.Group, ID: s.ID, Index: s.Index, Override: s.Override,
		StartHex: hex.EncodeToString([]byte(s.Start)), EndHex: hex.EncodeToString([]byte(s.End)),
		Role: s.Role, Count: s.Count, Cons: append([]Con(nil), s.Cons...), Loc: append([]string(nil), s.Loc...), Iso: s.Iso}
	if s.Upper {
		in.StartHex, in.EndHex = strings.ToUpper(in.StartHex), strings.ToUpper(in.EndHex)
	}
	switch s.Bad {
	case "hexStart":
		in.StartHex = "6g"
	case "hexEnd":
		in.EndHex = "616"
	case "endEqStart":
		if s.Start == "" {
			in.StartHex = "62"
		}
		in.EndHex = in.StartHex
	case "endLtStart":
		in.StartHex, in.EndHex = "6262", "6162"
	case "noID":
		in.ID = ""
	case "noGroup":
		in.Group = ""
	case "role":
		in.Role = "witness"
	case "roleEmpty":
		in.Role = ""
	case "count0":
		in.Count = 0
	case "countNeg":
		in.Count = -1
	case "leader2":
		in.Role, in.Count = "leader", 2
	case "op":
		in.Cons = append(in.Cons, Con{Key: "zone", Op: "is", Values: []string{"z1"}})
	}
	return in
}

func (in inRule) real() *placement.Rule {
	r := &placement.Rule{GroupID: in.Group, ID: in.ID, Index: in.Index, Override: in.Override,
		StartKeyHex: in.StartHex, EndKeyHex: in.EndHex, Role: placement.PeerRoleType(in.Role), Count: in.Count,
		LocationLabels: append([]string(nil), in.Loc...), IsolationLevel: in.Iso}
	for _, c := range in.Cons {
		r.LabelConstraints = append(r.LabelConstraints, placement.LabelConstraint{Key: c.Key, Op: placement.LabelConstraintOp(c.Op), Values: append([]string(nil), c.Values...)})
	}
	return r
}

// ---------------------------------------------------------------- reference model

type mrule struct {
	inRule
	Start, End string // decoded
	sigText    string
}

func (r *mrule) key() [2]string { return [2]string{r.Group, r.ID} }
func (r *mrule) contains(k string) bool {
	return k >= r.Start && (r.End == "" || k < r.End)
}

type mgroup struct {
	Index    int
	Override bool
}

type model struct {
	rules  map[[2]string]*mrule
	groups map[string]mgroup // configurations that differ from the default one
	stores []map[string]string
	hasSet bool // a store set informer with at least one store is present
	cached *view
}

func (m *model) clone() *model {
	n := &model{rules: map[[2]string]*mrule{}, groups: map[string]mgroup{}, stores: m.stores, hasSet: m.hasSet}
	for k, v := range m.rules {
		n.rules[k] = v
	}
	for k, v := range m.groups {
		n.groups[k] = v
	}
	return n
}

func (m *model) group(id string) mgroup { return m.groups[id] }

// documented field checks of a rule handed in by a client (bundleID: the bundle it arrives in, "" otherwise)
func (m *model) checkFields(in inRule, bundleID string) (*mrule, string) {
	s, err := hex.DecodeString(in.StartHex)
	if err != nil {
		return nil, "start key is not hex"
	}
	e, err := hex.DecodeString(in.EndHex)
	if err != nil {
		return nil, "end key is not hex"
	}
	if len(e) > 0 && string(e) <= string(s) {
		return nil, "end key not greater than start key"
	}
	if bundleID != "" {
		if in.Group == "" {
			in.Group = bundleID
		} else if in.Group != bundleID {
			return nil, "rule group does not match the bundle"
		}
	}
	if in.Group == "" {
		return nil, "empty group id"
	}
	if in.ID == "" {
		return nil, "empty id"
	}
	if in.Role != "voter" && in.Role != "leader" && in.Role != "follower" && in.Role != "learner" {
		return nil, "invalid role"
	}
	if in.Count <= 0 {
		return nil, "invalid count"
	}
	if in.Role == "leader" && in.Count > 1 {
		return nil, "several leaders by count"
	}
	for _, c := range in.Cons {
		if c.Op != "in" && c.Op != "notIn" && c.Op != "exists" && c.Op != "notExists" {
			return nil, "invalid constraint op"
		}
	}
	if m.hasSet {
		any := false
		for _, st := range m.stores {
			if storeMatches(st, in.Cons) {
				any = true
			}
		}
		if !any {
			return nil, "rule matches no store"
		}
	}
	return &mrule{inRule: in, Start: string(s), End: string(e)}, ""
}

// label constraint semantics as documented in label_constraint.go
func storeMatches(labels map[string]string, cons []Con) bool {
	for k := range labels {
		if k == "engine" || k == "exclusive" || strings.HasPrefix(k, "$") {
			mentioned := false
			for _, c := range cons {
				if c.Key == k {
					mentioned = true
				}
			}
			if !mentioned {
				return false
			}
		}
	}
	for _, c := range cons {
		v := labels[c.Key]
		in := false
		for _, x := range c.Values {
			if x == v {
				in = true
			}
		}
		ok := false
		switch c.Op {
		case "in":
			ok = v != "" && in
		case "notIn":
			ok = v == "" || !in
		case "exists":
			ok = v != ""
		case "notExists":
			ok = v == ""
		}
		if !ok {
			return false
		}
	}
	return true
}

// documented order: group index, group id, rule index, rule id
func (m *model) less(a, b *mrule) bool {
	ga, gb := m.group(a.Group).Index, m.group(b.Group).Index
	if ga != gb {
		return ga < gb
	}
	if a.Group != b.Group {
		return a.Group < b.Group
	}
	if a.Index != b.Index {
		return a.Index < b.Index
	}
	return a.ID < b.ID
}

func (m *model) sorted(pred func(*mrule) bool) []*mrule {
	var out []*mrule
	for _, r := range m.rules {
		if pred == nil || pred(r) {
			out = append(out, r)
		}
	}
	sort.Slice(out, func(i, j int) bool { return m.less(out[i], out[j]) })
	return out
}

func (m *model) rulesAt(k string) []*mrule {
	return m.sorted(func(r *mrule) bool { return r.contains(k) })
}

// override: a rule with Override disables every rule of its group that sorts before it; a group
// with Override disables every rule of the groups that sort before it.
func (m *model) applied(rs []*mrule) []*mrule {
	var out []*mrule
	for i, r := range rs {
		disabled := false
		for _, o := range rs[i+1:] {
			if o.Group == r.Group && o.Override {
				disabled = true
			}
			if o.Group != r.Group && m.group(o.Group).Override {
				disabled = true
			}
		}
		if !disabled {
			out = append(out, r)
		}
	}
	return out
}

func (m *model) boundaries() []string {
	set := map[string]bool{}
	for _, r := range m.rules {
		set[r.Start] = true
		if r.End != "" {
			set[r.End] = true
		}
	}
	out := make([]string, 0, len(set))
	for k := range set {
		out = append(out, k)
	}
	sort.Strings(out)
	return out
}

type validity struct {
	reason     string // "" = every key at and above the first start key has a valid rule set
	leadingGap bool   // no rule starts at the empty key
	segments   int
	overlap    bool // some segment has two or more rules
	overridden bool // some segment where override disables a rule
}

func (m *model) validate() validity {
	var v validity
	if len(m.rules) == 0 {
		v.reason = "no rule left"
		return v
	}
	bs := m.boundaries()
	v.leadingGap = bs[0] != ""
	v.segments = len(bs)
	for i, b := range bs {
		rs := m.rulesAt(b)
		next := "+inf"
		if i+1 < len(bs) {
			next = fmt.Sprintf("%q", bs[i+1])
		}
		if len(rs) == 0 {
			v.reason = fmt.Sprintf("no rule for keys [%q,%s)", b, next)
			return v
		}
		if len(rs) > 1 {
			v.overlap = true
		}
		ap := m.applied(rs)
		if len(ap) != len(rs) {
			v.overridden = true
		}
		leaders, voters := 0, 0
		for _, r := range ap {
			switch r.Role {
			case "leader":
				leaders += r.Count
			case "voter":
				voters += r.Count
			}
		}
		if leaders > 1 {
			v.reason = fmt.Sprintf("several leaders for keys [%q,%s)", b, next)
			return v
		}
		if leaders+voters < 1 {
			v.reason = fmt.Sprintf("no voter or leader for keys [%q,%s)", b, next)
			return v
		}
	}
	return v
}

// what a single update call changes
type patch struct {
	reject string
	rules  map[[2]string]*mrule // nil: delete
	groups map[string]mgroup
}

func newPatch() *patch { return &patch{rules: map[[2]string]*mrule{}, groups: map[string]mgroup{}} }

func (m *model) with(p *patch) *model {
	n := m.clone()
	for k, r := range p.rules {
		if r == nil {
			delete(n.rules, k)
		} else {
			n.rules[k] = r
		}
	}
	for id, g := range p.groups {
		if g == (mgroup{}) {
			delete(n.groups, id)
		} else {
			n.groups[id] = g
		}
	}
	return n
}

// groups that are listed: configured ones and those that have rules
func (m *model) visibleGroups() []string {
	set := map[string]bool{}
	for id := range m.groups {
		set[id] = true
	}
	for _, r := range m.rules {
		set[r.Group] = true
	}
	out := make([]string, 0, len(set))
	for id := range set {
		out = append(out, id)
	}
	sort.Slice(out, func(i, j int) bool {
		a, b := m.group(out[i]), m.group(out[j])
		return a.Index < b.Index || (a.Index == b.Index && out[i] < out[j])
	})
	return out
}

func (m *model) sortedKeys() [][2]string {
	var ks [][2]string
	for k := range m.rules {
		ks = append(ks, k)
	}
	sort.Slice(ks, func(i, j int) bool { return ks[i][0] < ks[j][0] || (ks[i][0] == ks[j][0] && ks[i][1] < ks[j][1]) })
	return ks
}

// ---------------------------------------------------------------- observations
//
// Every rule is turned into a canonical text (all client-visible fields), every
// observation into a list of such texts; the manager's and the model's
// observations are compared text by text.

type vrule struct {
	Group, ID        string
	Index            int
	Override         bool
	Start, End       string
	StartHex, EndHex string
	Role             string
	Count            int
	Cons             []Con
	Loc              []string
	Iso              string
}

func (v vrule) sig() string {
	var sb strings.Builder
	fmt.Fprintf(&sb, "%s/%s{ix %d ov %v [%q,%q) hex %s-%s %s×%d", v.Group, v.ID, v.Index, v.Override, v.Start, v.End, v.StartHex, v.EndHex, v.Role, v.Count)
	for _, c := range v.Cons {
		fmt.Fprintf(&sb, " %s %s %q", c.Key, c.Op, c.Values)
	}
	if len(v.Loc) > 0 {
		fmt.Fprintf(&sb, " loc %q", v.Loc)
	}
	if v.Iso != "" {
		fmt.Fprintf(&sb, " iso %s", v.Iso)
	}
	sb.WriteString("}")
	return sb.String()
}

type vgroup struct {
	ID       string
	Index    int
	Override bool
}

type vbundle struct {
	vgroup
	Rules []string
}

type view struct {
	All     []string
	ByGroup [][]string // per queryGroups
	Rule    []string   // per queryGroups x idsU, "" = no such rule
	Groups  []vgroup
	Group   []*vgroup // per queryGroups
	Bundles []vbundle
	Bundle  []vbundle  // per queryGroups
	ByKey   [][]string // per probes
	Apply   [][]string // per pranges
	Split   [][]string // per pranges
}

var (
	queryGroups = append(append([]string{"zz"}, groupsU...), exoticGroups...)
	pregions    []*core.RegionInfo
	prangeNames []string
)

func init() {
	for _, pr := range pranges {
		pregions = append(pregions, core.NewRegionInfo(&metapb.Region{Id: 1, StartKey: []byte(pr[0]), EndKey: []byte(pr[1])}, nil))
		prangeNames = append(prangeNames, fmt.Sprintf("[%q,%q)", pr[0], pr[1]))
	}
}

func fromReal(r *placement.Rule) vrule {
	v := vrule{Group: r.GroupID, ID: r.ID, Index: r.Index, Override: r.Override, Start: string(r.StartKey), End: string(r.EndKey),
		StartHex: r.StartKeyHex, EndHex: r.EndKeyHex, Role: string(r.Role), Count: r.Count, Iso: r.IsolationLevel}
	for _, c := range r.LabelConstraints {
		v.Cons = append(v.Cons, Con{Key: c.Key, Op: string(c.Op), Values: nz(c.Values)})
	}
	v.Loc = nz(r.LocationLabels)
	return v
}

func nz(s []string) []string {
	if len(s) == 0 {
		return nil
	}
	return append([]string(nil), s...)
}

func fromModel(r *mrule) vrule {
	v := vrule{Group: r.Group, ID: r.ID, Index: r.Index, Override: r.Override, Start: r.Start, End: r.End,
		StartHex: r.StartHex, EndHex: r.EndHex, Role: r.Role, Count: r.Count, Iso: r.Iso, Loc: nz(r.Loc)}
	for _, c := range r.Cons {
		v.Cons = append(v.Cons, Con{Key: c.Key, Op: c.Op, Values: nz(c.Values)})
	}
	return v
}

func (r *mrule) sig() string {
	if r.sigText == "" {
		r.sigText = fromModel(r).sig()
	}
	return r.sigText
}

func msigs(rs []*mrule) []string {
	var out []string
	for _, r := range rs {
		out = append(out, r.sig())
	}
	return out
}

// texts of the rules of one observation pass of the real manager (one text per object and pass)
type realSigs map[*placement.Rule]string

func (c realSigs) of(rs []*placement.Rule) []string {
	var out []string
	for _, r := range rs {
		if r == nil {
			out = append(out, "<nil rule>")
			continue
		}
		s, ok := c[r]
		if !ok {
			s = fromReal(r).sig()
			c[r] = s
		}
		out = append(out, s)
	}
	return out
}

func realView(m *placement.RuleManager) *view {
	v := &view{}
	c := realSigs{}
	v.All = c.of(m.GetAllRules())
	for _, g := range queryGroups {
		v.ByGroup = append(v.ByGroup, c.of(m.GetRulesByGroup(g)))
		for _, id := range idsU {
			s := ""
			if r := m.GetRule(g, id); r != nil {
				s = c.of([]*placement.Rule{r})[0]
			}
			v.Rule = append(v.Rule, s)
		}
		var vg *vgroup
		if rg := m.GetRuleGroup(g); rg != nil {
			vg = &vgroup{rg.ID, rg.Index, rg.Override}
		}
		v.Group = append(v.Group, vg)
		b := m.GetGroupBundle(g)
		v.Bundle = append(v.Bundle, vbundle{vgroup: vgroup{b.ID, b.Index, b.Override}, Rules: c.of(b.Rules)})
	}
	for _, rg := range m.GetRuleGroups() {
		v.Groups = append(v.Groups, vgroup{rg.ID, rg.Index, rg.Override})
	}
	for _, b := range m.GetAllGroupBundles() {
		v.Bundles = append(v.Bundles, vbundle{vgroup: vgroup{b.ID, b.Index, b.Override}, Rules: c.of(b.Rules)})
	}
	for _, k := range probes {
		v.ByKey = append(v.ByKey, c.of(m.GetRulesByKey([]byte(k))))
	}
	for i, pr := range pranges {
		v.Apply = append(v.Apply, c.of(m.GetRulesForApplyRegion(pregions[i])))
		var ks []string
		for _, k := range m.GetSplitKeys([]byte(pr[0]), []byte(pr[1])) {
			ks = append(ks, string(k))
		}
		v.Split = append(v.Split, ks)
	}
	return v
}

// the model's answer to every observation (computed once per model state)
func (m *model) view() *view {
	if m.cached != nil {
		return m.cached
	}
	v := &view{}
	all := m.sorted(nil)
	filter := func(pred func(*mrule) bool) []*mrule {
		var out []*mrule
		for _, r := range all { // linear scan, documented order kept
			if pred(r) {
				out = append(out, r)
			}
		}
		return out
	}
	v.All = msigs(all)
	vis := m.visibleGroups()
	isVis := map[string]bool{}
	for _, g := range vis {
		g := g
		isVis[g] = true
		cfg := m.group(g)
		vg := vgroup{g, cfg.Index, cfg.Override}
		v.Groups = append(v.Groups, vg)
		v.Bundles = append(v.Bundles, vbundle{vgroup: vg, Rules: msigs(filter(func(r *mrule) bool { return r.Group == g }))})
	}
	for _, g := range queryGroups {
		g := g
		inGroup := msigs(filter(func(r *mrule) bool { return r.Group == g }))
		v.ByGroup = append(v.ByGroup, inGroup)
		for _, id := range idsU {
			s := ""
			if r := m.rules[[2]string{g, id}]; r != nil {
				s = r.sig()
			}
			v.Rule = append(v.Rule, s)
		}
		if isVis[g] {
			cfg := m.group(g)
			v.Group = append(v.Group, &vgroup{g, cfg.Index, cfg.Override})
			v.Bundle = append(v.Bundle, vbundle{vgroup: vgroup{g, cfg.Index, cfg.Override}, Rules: inGroup})
		} else {
			v.Group = append(v.Group, nil)
			v.Bundle = append(v.Bundle, vbundle{vgroup: vgroup{ID: g}})
		}
	}
	at := func(k string) []*mrule { return filter(func(r *mrule) bool { return r.contains(k) }) }
	for _, k := range probes {
		v.ByKey = append(v.ByKey, msigs(at(k)))
	}
	bs := m.boundaries()
	for _, pr := range pranges {
		s, e := pr[0], pr[1]
		var inside []string
		for _, b := range bs {
			if b > s && (e == "" || b < e) {
				inside = append(inside, b)
			}
		}
		v.Split = append(v.Split, inside)
		if len(inside) == 0 {
			v.Apply = append(v.Apply, msigs(m.applied(at(s))))
		} else {
			v.Apply = append(v.Apply, nil)
		}
	}
	m.cached = v
	return v
}

func js(x interface{}) string { b, _ := json.Marshal(x); return string(b) }

func eqs(a, b []string) bool {
	if len(a) != len(b) {
		return false
	}
	for i := range a {
		if a[i] != b[i] {
			return false
		}
	}
	return true
}

func eqb(a, b vbundle) bool { return a.vgroup == b.vgroup && eqs(a.Rules, b.Rules) }

func diffViews(got, want *view) error {
	if !eqs(got.All, want.All) {
		return fmt.Errorf("GetAllRules = %q, model says %q", got.All, want.All)
	}
	for gi, g := range queryGroups {
		if !eqs(got.ByGroup[gi], want.ByGroup[gi]) {
			return fmt.Errorf("GetRulesByGroup(%q) = %q, model says %q", g, got.ByGroup[gi], want.ByGroup[gi])
		}
		for ii, id := range idsU {
			if k := gi*len(idsU) + ii; got.Rule[k] != want.Rule[k] {
				return fmt.Errorf("GetRule(%q,%q) = %q, model says %q", g, id, got.Rule[k], want.Rule[k])
			}
		}
		if a, b := got.Group[gi], want.Group[gi]; (a == nil) != (b == nil) || (a != nil && *a != *b) {
			return fmt.Errorf("GetRuleGroup(%q) = %s, model says %s", g, js(a), js(b))
		}
		if !eqb(got.Bundle[gi], want.Bundle[gi]) {
			return fmt.Errorf("GetGroupBundle(%q) = %+v, model says %+v", g, got.Bundle[gi], want.Bundle[gi])
		}
	}
	if !reflect.DeepEqual(got.Groups, want.Groups) {
		return fmt.Errorf("GetRuleGroups = %+v, model says %+v", got.Groups, want.Groups)
	}
	if len(got.Bundles) != len(want.Bundles) {
		return fmt.Errorf("GetAllGroupBundles = %+v, model says %+v", got.Bundles, want.Bundles)
	}
	for i := range got.Bundles {
		if !eqb(got.Bundles[i], want.Bundles[i]) {
			return fmt.Errorf("GetAllGroupBundles = %+v, model says %+v", got.Bundles, want.Bundles)
		}
	}
	for i, k := range probes {
		if !eqs(got.ByKey[i], want.ByKey[i]) {
			return fmt.Errorf("GetRulesByKey(%q) = %q, linear scan says %q", k, got.ByKey[i], want.ByKey[i])
		}
	}
	for i := range pranges {
		if !eqs(got.Split[i], want.Split[i]) {
			return fmt.Errorf("GetSplitKeys%s = %q, boundaries strictly inside are %q", prangeNames[i], got.Split[i], want.Split[i])
		}
		if !eqs(got.Apply[i], want.Apply[i]) {
			return fmt.Errorf("GetRulesForApplyRegion%s = %q, model says %q", prangeNames[i], got.Apply[i], want.Apply[i])
		}
	}
	return nil
}

// ---------------------------------------------------------------- fixture

type storeSet struct{ stores []*core.StoreInfo }

func (s *storeSet) GetStores() []*core.StoreInfo { return s.stores }
func (s *storeSet) GetStore(id uint64) *core.StoreInfo {
	for _, st := range s.stores {
		if st.GetID() == id {
			return st
		}
	}
	return nil
}
func (s *storeSet) GetRegionStores(*core.RegionInfo) []*core.StoreInfo   { return nil }
func (s *storeSet) GetFollowerStores(*core.RegionInfo) []*core.StoreInfo { return nil }
func (s *storeSet) GetLeaderStore(*core.RegionInfo) *core.StoreInfo      { return nil }

var zoneStores = []map[string]string{
	{"zone": "z1"},
	{"zone": "z2", "disk": "ssd"},
	{"zone": "z1", "engine": "tiflash"},
}

func newInformer(mode string) (core.StoreSetInformer, []map[string]string) {
	switch mode {
	case "none":
		return &storeSet{}, nil
	case "zones":
		ss := &storeSet{}
		for i, labels := range zoneStores {
			var ls []*metapb.StoreLabel
			var ks []string
			for k := range labels {
				ks = append(ks, k)
			}
			sort.Strings(ks)
			for _, k := range ks {
				ls = append(ls, &metapb.StoreLabel{Key: k, Value: labels[k]})
			}
			ss.stores = append(ss.stores, core.NewStoreInfo(&metapb.Store{Id: uint64(i + 1), Labels: ls}))
		}
		return ss, zoneStores
	}
	return nil, nil
}

type fixture struct {
	c        Case
	base     kv.Base
	fkv      *faultkv.KV
	informer core.StoreSetInformer
	mgr      *placement.RuleManager
}

func (f *fixture) newManager(b kv.Base) (*placement.RuleManager, error) {
	m := placement.NewRuleManager(core.NewStorage(b), f.informer)
	return m, m.Initialize(f.c.MaxReplica, append([]string(nil), f.c.Loc...))
}

func newFixture(c Case) (*fixture, *model, error) {
	f := &fixture{c: c, base: kv.NewMemoryKV()}
	// what else a PD keeps in the same storage: must never be touched by rule updates
	for k, v := range foreignSeed {
		f.base.Save(k, v)
	}
	f.fkv = faultkv.New(f.base)
	f.fkv.KeepLog = true
	var stores []map[string]string
	f.informer, stores = newInformer(c.Stores)
	var err error
	if f.mgr, err = f.newManager(f.fkv); err != nil {
		return nil, nil, fmt.Errorf("Initialize on empty storage failed: %v", err)
	}
	f.fkv.TakeLog()
	f.fkv.ResetCounters()
	m := &model{rules: map[[2]string]*mrule{}, groups: map[string]mgroup{}, stores: stores, hasSet: len(stores) > 0}
	// documented default: one rule pd/default, voter, count = max-replicas, the configured location labels, whole key space
	def := &mrule{inRule: inRule{Group: "pd", ID: "default", Role: "voter", Count: c.MaxReplica, Loc: append([]string(nil), c.Loc...)}}
	m.rules[def.key()] = def
	return f, m, nil
}

var foreignSeed = map[string]string{"raft": "sentinel: cluster meta", "config": "sentinel: configuration", "gc/safe_point": "sentinel: gc safe point",
	"rule": "sentinel", "rulez/x": "sentinel", "timestamp": "sentinel"}

// everything in the storage outside the rules/ and rule_group/ prefixes
func foreignKeys(b kv.Base) map[string]string {
	out := map[string]string{}
	for k, v := range faultkv.Dump(b) {
		if !strings.HasPrefix(k, "rules/") && !strings.HasPrefix(k, "rule_group/") {
			out[k] = v
		}
	}
	return out
}

// a copy of the storage content, for a restart that must not disturb the history
func (f *fixture) snapshot() kv.Base {
	cp := kv.NewMemoryKV()
	for k, v := range faultkv.Dump(f.base) {
		cp.Save(k, v)
	}
	return cp
}

func ruleStoreKey(k [2]string) string {
	return "rules/" + hex.EncodeToString([]byte(k[0])) + "-" + hex.EncodeToString([]byte(k[1]))
}
func groupStoreKey(id string) string { return "rule_group/" + id }

func legacyKey(k [2]string, style int) string {
	canon := ruleStoreKey(k)
	switch style % 3 {
	case 0:
		// (ids with path elements could never be written un-hexed: such rules get the suffix style)
		if plain := k[0] + "-" + k[1]; path.Join("rules", plain) == "rules/"+plain {
			return "rules/" + plain
		}
	case 1:
		return "rules/" + "00old-" + strings.TrimPrefix(canon, "rules/")
	}
	return canon + ".old"
}

// relocate moves the selected stored rule records to non-canonical keys (raw storage access); content unchanged
func relocate(b kv.Base, m *model, lg Legacy, style int) int {
	n := 0
	for i, k := range m.sortedKeys() {
		if lg.Mask>>(uint(i)%10)&1 == 0 {
			continue
		}
		canon := ruleStoreKey(k)
		v, err := b.Load(canon)
		if err != nil || v == "" {
			continue
		}
		b.Save(legacyKey(k, style), v)
		b.Remove(canon)
		n++
	}
	return n
}

// ---------------------------------------------------------------- updates

type update struct {
	desc  string
	patch *patch
	exec  func(*placement.RuleManager) error // builds fresh arguments on every call
	excl  []string                           // known-finding classes this update was kept out of
	skip  bool
}

func (f *fixture) buildUpdate(m *model, op Op) *update {
	u := &update{patch: newPatch()}
	p := u.patch
	setChecked := func(in inRule, bundle string) bool {
		r, why := m.checkFields(in, bundle)
		if why != "" {
			if p.reject == "" {
				p.reject = fmt.Sprintf("rule %s/%s: %s", in.Group, in.ID, why)
			}
			return false
		}
		p.rules[r.key()] = r
		return true
	}
	dropGroup := func(g string) {
		for k := range m.rules {
			if k[0] == g {
				p.rules[k] = nil
			}
		}
	}
	switch op.Kind {
	case "setRule":
		in := resolve(op.Rules[0])
		setChecked(in, "")
		u.desc = fmt.Sprintf("SetRule(%s)", js(in))
		u.exec = func(mgr *placement.RuleManager) error { return mgr.SetRule(in.real()) }
	case "deleteRule":
		k := [2]string{op.Rules[0].Group, op.Rules[0].ID}
		if keys := m.sortedKeys(); op.Pick >= 0 && len(keys) > 0 {
			k = keys[op.Pick%len(keys)]
		}
		p.rules[k] = nil
		u.desc = fmt.Sprintf("DeleteRule(%q,%q)", k[0], k[1])
		u.exec = func(mgr *placement.RuleManager) error { return mgr.DeleteRule(k[0], k[1]) }
	case "setRules":
		var ins []inRule
		for _, s := range op.Rules {
			in := resolve(s)
			ins = append(ins, in)
			if p.reject == "" {
				setChecked(in, "")
			}
		}
		u.desc = fmt.Sprintf("SetRules(%s)", js(ins))
		u.exec = func(mgr *placement.RuleManager) error {
			var rs []*placement.Rule
			for _, in := range ins {
				rs = append(rs, in.real())
			}
			return mgr.SetRules(rs)
		}
	case "batch":
		// "Operations should be independent (different ID)": keep only operations that touch rule keys
		// no earlier operation of the batch touches
		type bop struct {
			action string
			in     inRule
		}
		var bops []bop
		touched := map[[2]string]bool{}
		var prefixes [][2]string
		matches := func(k [2]string, pf [2]string) bool { return k[0] == pf[0] && strings.HasPrefix(k[1], pf[1]) }
		for _, b := range op.Batch {
			in := resolve(b.Rule)
			k := [2]string{in.Group, in.ID}
			conflict := false
			if b.Action == "delprefix" {
				for t := range touched {
					if matches(t, k) {
						conflict = true
					}
				}
				for _, pf := range prefixes {
					if pf[0] == k[0] && (strings.HasPrefix(pf[1], k[1]) || strings.HasPrefix(k[1], pf[1])) {
						conflict = true
					}
				}
				if conflict {
					continue
				}
				prefixes = append(prefixes, k)
				bops = append(bops, bop{b.Action, in})
				continue
			}
			if touched[k] {
				continue
			}
			for _, pf := range prefixes {
				if matches(k, pf) {
					conflict = true
				}
			}
			if conflict {
				continue
			}
			touched[k] = true
			bops = append(bops, bop{b.Action, in})
		}
		var ds []string
		for _, b := range bops {
			switch b.action {
			case "add":
				setChecked(b.in, "")
				ds = append(ds, "add "+js(b.in))
			case "del":
				ds = append(ds, fmt.Sprintf("del %s/%s", b.in.Group, b.in.ID))
			case "delprefix":
				ds = append(ds, fmt.Sprintf("del-by-prefix %s/%s*", b.in.Group, b.in.ID))
			}
		}
		if p.reject == "" {
			for _, b := range bops {
				switch b.action {
				case "del":
					p.rules[[2]string{b.in.Group, b.in.ID}] = nil
				case "delprefix":
					for k := range m.rules {
						if k[0] == b.in.Group && strings.HasPrefix(k[1], b.in.ID) {
							p.rules[k] = nil
						}
					}
				}
			}
		}
		u.desc = "Batch(" + strings.Join(ds, "; ") + ")"
		u.exec = func(mgr *placement.RuleManager) error {
			var todo []placement.RuleOp
			for _, b := range bops {
				switch b.action {
				case "add":
					todo = append(todo, placement.RuleOp{Rule: b.in.real(), Action: placement.RuleOpAdd})
				case "del":
					todo = append(todo, placement.RuleOp{Rule: &placement.Rule{GroupID: b.in.Group, ID: b.in.ID}, Action: placement.RuleOpDel})
				case "delprefix":
					todo = append(todo, placement.RuleOp{Rule: &placement.Rule{GroupID: b.in.Group, ID: b.in.ID}, Action: placement.RuleOpDel, DeleteByIDPrefix: true})
				}
			}
			return mgr.Batch(todo)
		}
	case "setGroup":
		g := *op.Group
		p.groups[g.ID] = mgroup{g.Index, g.Override}
		u.desc = fmt.Sprintf("SetRuleGroup(%s)", js(g))
		u.exec = func(mgr *placement.RuleManager) error {
			return mgr.SetRuleGroup(&placement.RuleGroup{ID: g.ID, Index: g.Index, Override: g.Override})
		}
	case "deleteGroup":
		id := op.Pat
		p.groups[id] = mgroup{}
		u.desc = fmt.Sprintf("DeleteRuleGroup(%q)", id)
		u.exec = func(mgr *placement.RuleManager) error { return mgr.DeleteRuleGroup(id) }
	case "setBundle", "setAllBundles", "rebundle":
		type rb struct {
			spec BundleSpec
			ins  []inRule
		}
		var bs []rb
		for _, b := range op.Bundles {
			x := rb{spec: b}
			for _, s := range b.Rules {
				x.ins = append(x.ins, resolve(s))
			}
			bs = append(bs, x)
		}
		single, all := op.Kind == "setBundle", op.All
		if op.Kind == "rebundle" {
			// what a client does that reads the configuration, edits one group and posts it back
			vis := m.visibleGroups()
			picked := vis[op.Pick%len(vis)]
			single = !op.All
			for _, g := range vis {
				if g != picked && !op.All {
					continue
				}
				cfg := m.group(g)
				x := rb{spec: BundleSpec{ID: g, Index: cfg.Index, Override: cfg.Override}}
				cur := m.sorted(func(r *mrule) bool { return r.Group == g })
				for i, r := range cur {
					in := r.inRule
					in.Cons, in.Loc = append([]Con(nil), in.Cons...), append([]string(nil), in.Loc...)
					if g == picked {
						switch op.Mask[i%len(op.Mask)] {
						case 1:
							in.Count = in.Count%3 + 1
							if in.Role == "leader" {
								in.Count = 1
							}
						case 2:
							in.Role = "learner"
						case 3:
							continue
						}
					}
					x.ins = append(x.ins, in)
				}
				if g == picked {
					if d := op.Delta; (d <= 0 || x.spec.Index <= math.MaxInt64-d) && (d >= 0 || x.spec.Index >= math.MinInt64-d) {
						x.spec.Index += d
					}
					if op.Flip {
						x.spec.Override = !x.spec.Override
					}
					for _, s := range op.Rules {
						x.ins = append(x.ins, resolve(s))
					}
				}
				bs = append(bs, x)
			}
		}
		if single {
			dropGroup(bs[0].spec.ID)
		} else if all {
			for k := range m.rules {
				p.rules[k] = nil
			}
			for id := range m.groups {
				p.groups[id] = mgroup{}
			}
		} else {
			for _, b := range bs {
				dropGroup(b.spec.ID)
				p.groups[b.spec.ID] = mgroup{}
			}
		}
		for _, b := range bs {
			p.groups[b.spec.ID] = mgroup{b.spec.Index, b.spec.Override}
			for _, in := range b.ins {
				if p.reject == "" {
					setChecked(in, b.spec.ID)
				}
			}
		}
		mk := func() []placement.GroupBundle {
			var out []placement.GroupBundle
			for _, b := range bs {
				gb := placement.GroupBundle{ID: b.spec.ID, Index: b.spec.Index, Override: b.spec.Override}
				for _, in := range b.ins {
					gb.Rules = append(gb.Rules, in.real())
				}
				out = append(out, gb)
			}
			return out
		}
		if single {
			u.desc = fmt.Sprintf("SetGroupBundle(%s)", js(mk()[0]))
			u.exec = func(mgr *placement.RuleManager) error { return mgr.SetGroupBundle(mk()[0]) }
		} else {
			u.desc = fmt.Sprintf("SetAllGroupBundles(%s, override=%v)", js(mk()), all)
			u.exec = func(mgr *placement.RuleManager) error { return mgr.SetAllGroupBundles(mk(), all) }
		}
	case "deleteBundle":
		pat, isRe := op.Pat, op.Regex
		match := func(id string) bool { return id == pat }
		if isRe {
			re, err := regexp.Compile(pat)
			if err != nil {
				p.reject = "pattern does not compile"
			} else {
				match = re.MatchString
			}
		}
		if p.reject == "" {
			for k := range m.rules {
				if match(k[0]) {
					p.rules[k] = nil
				}
			}
			for _, id := range m.visibleGroups() {
				if match(id) {
					p.groups[id] = mgroup{}
				}
			}
		}
		u.desc = fmt.Sprintf("DeleteGroupBundle(%q, regex=%v)", pat, isRe)
		u.exec = func(mgr *placement.RuleManager) error { return mgr.DeleteGroupBundle(pat, isRe) }
	case "editSet":
		// the caller pattern of Server.SetReplicationConfig: r := GetRule(..); r.Count = ..; r.LocationLabels = ..; SetRule(r)
		k := [2]string{"pd", "default"}
		if keys := m.sortedKeys(); op.Pick >= 0 && len(keys) > 0 {
			k = keys[op.Pick%len(keys)]
		}
		old := m.rules[k]
		if old == nil {
			u.skip = true
			return u
		}
		in := old.inRule
		in.Count, in.Loc = op.Count, append([]string(nil), op.Loc...)
		setChecked(in, "")
		onCopy := vkit.Known(kLivePtr)
		if onCopy {
			u.excl = append(u.excl, kLivePtr)
		}
		cnt, loc := op.Count, op.Loc
		u.desc = fmt.Sprintf("r := GetRule(%q,%q); r.Count = %d; r.LocationLabels = %q; SetRule(r)", k[0], k[1], cnt, loc)
		u.exec = func(mgr *placement.RuleManager) error {
			r := mgr.GetRule(k[0], k[1])
			if r == nil {
				return errors.New("harness: GetRule returned nil for a rule the model has")
			}
			if onCopy {
				// known finding: keep the caller away from the served object
				r = fromReal(r).in().real()
			}
			r.Count = cnt
			r.LocationLabels = append([]string(nil), loc...)
			return mgr.SetRule(r)
		}
	}
	return u
}

func (v vrule) in() inRule {
	return inRule{Group: v.Group, ID: v.ID, Index: v.Index, Override: v.Override, StartHex: v.StartHex, EndHex: v.EndHex,
		Role: v.Role, Count: v.Count, Cons: v.Cons, Loc: v.Loc, Iso: v.Iso}
}

// the update changes the index of a group some of whose served rules stay
func (m *model) reindexesServedRules(p *patch) bool {
	for id, g := range p.groups {
		if g.Index == m.group(id).Index {
			continue
		}
		for k := range m.rules {
			if _, touched := p.rules[k]; k[0] == id && !touched {
				return true
			}
		}
	}
	return false
}

// ---------------------------------------------------------------- runner

func isInjected(err error) bool {
	return err != nil && (errors.Is(err, faultkv.ErrInjected) || strings.Contains(err.Error(), faultkv.ErrInjected.Error()))
}

func appliedKeys(evs []faultkv.Event) []string {
	var ks []string
	for _, e := range evs {
		if (e.Kind == "save" || e.Kind == "remove") && e.Applied {
			ks = append(ks, e.Key)
		}
	}
	return ks
}

func runCase(c Case) (vkit.Info, error) {
	var info vkit.Info
	f, m, err := newFixture(c)
	if err != nil {
		return info, err
	}
	doubt := map[string]bool{} // storage keys written by a failed update and not rewritten by an accepted one since
	served := func(want *model, when string) error {
		if err := diffViews(realView(f.mgr), want.view()); err != nil {
			return fmt.Errorf("%s: %v", when, err)
		}
		if got := foreignKeys(f.base); !reflect.DeepEqual(got, foreignSeed) {
			return fmt.Errorf("%s: storage keys outside rules/ and rule_group/ changed: now %q, before %q", when, got, foreignSeed)
		}
		return nil
	}
	// a manager started from a copy of the storage observes what is being served; only the keys in doubt are left out
	restarted := func(want *model, when string, lg Legacy) error {
		snap := f.snapshot()
		moved := 0
		if len(doubt) == 0 {
			// every served rule and every served non-default group is stored exactly once, under its own key
			if err := diffKeys(storedKeysOf(snap), want.expectedKeys()); err != nil {
				return fmt.Errorf("%s: %v", when, err)
			}
			moved = relocate(snap, want, lg, lg.Style)
		}
		if len(doubt) > 0 {
			// a half-written update may have removed every stored rule: Initialize then takes the storage
			// for one of a cluster that never enabled placement rules and creates the default rule,
			// which says nothing about the keys that are not in doubt
			stored := 0
			for k := range faultkv.Dump(snap) {
				if strings.HasPrefix(k, "rules/") {
					stored++
				}
			}
			if stored == 0 {
				return nil
			}
		}
		m2, err := f.newManager(snap)
		if len(doubt) == 0 {
			if err != nil {
				return fmt.Errorf("%s: a restarted manager fails to initialise from the storage: %v", when, err)
			}
			if err := diffViews(realView(m2), want.view()); err != nil {
				return fmt.Errorf("%s: a manager restarted from the storage (%d rule records under legacy keys) differs from what is served: %v", when, moved, err)
			}
			if moved > 0 {
				// the relocation is invisible, repaired once and for all
				info.Class("legacy-keys-loaded")
				m3, err := f.newManager(snap)
				if err != nil {
					return fmt.Errorf("%s: a second manager over the storage repaired by the first load fails: %v", when, err)
				}
				if err := diffViews(realView(m3), want.view()); err != nil {
					return fmt.Errorf("%s: a second manager started after %d legacy keys were repaired differs from what is served: %v", when, moved, err)
				}
				if err := diffKeys(storedKeysOf(snap), want.expectedKeys()); err != nil {
					return fmt.Errorf("%s: after loading %d rule records from legacy keys: %v", when, moved, err)
				}
			}
			return nil
		}
		if err != nil {
			return nil // documented residual: half-written update in the storage
		}
		for _, g := range queryGroups {
			for _, id := range idsU {
				k := [2]string{g, id}
				if doubt[ruleStoreKey(k)] {
					continue
				}
				got, exp := "", ""
				if r := m2.GetRule(g, id); r != nil {
					got = fromReal(r).sig()
				}
				if r := want.rules[k]; r != nil {
					exp = r.sig()
				}
				if got != exp {
					return fmt.Errorf("%s: restarted manager has rule %s/%s = %s, served is %s (key not written by any failed update)", when, g, id, got, exp)
				}
			}
			if doubt[groupStoreKey(g)] {
				continue
			}
			var got mgroup
			if rg := m2.GetRuleGroup(g); rg != nil {
				got = mgroup{rg.Index, rg.Override}
			}
			if got != want.group(g) {
				return fmt.Errorf("%s: restarted manager has group %s = %+v, served is %+v (key not written by any failed update)", when, g, got, want.group(g))
			}
		}
		return nil
	}
	if err := served(m, "after Initialize"); err != nil {
		return info, err
	}
	stats := struct {
		rejected, accepted, faults, abandoned, maxSeg int
		overlap, overridden                           bool
	}{}
	note := func(v validity) {
		if v.segments > stats.maxSeg {
			stats.maxSeg = v.segments
		}
		stats.overlap = stats.overlap || (v.overlap && v.segments >= 3)
		stats.overridden = stats.overridden || v.overridden
	}
	for i, op := range c.Ops {
		if op.Kind == "restart" {
			if len(doubt) > 0 {
				// the storage holds a half-written update (documented residual): keep serving, check the rest
				info.Class("restart-skipped-in-doubt")
				if err := restarted(m, fmt.Sprintf("op %d (restart)", i), Legacy{}); err != nil {
					return info, err
				}
				continue
			}
			before := faultkv.Dump(f.base)
			style := op.Legacy.Style
			if op.LoadFault >= 2 && style%3 == 1 && op.Legacy.Mask != 0 && vkit.Known(kDupKeys) {
				// an interrupted repair leaves a legacy key that sorts before the canonical one next to it
				info.Exclude(kDupKeys)
				style = 2
			}
			moved := relocate(f.base, m, op.Legacy, style)
			if op.DropStores && f.c.Stores == "zones" {
				if vkit.Known(kStoreCheck) {
					info.Exclude(kStoreCheck)
				} else {
					f.informer = &storeSet{stores: f.informer.GetStores()[:1]}
					m = m.clone()
					m.stores = zoneStores[:1]
					info.Class("restart-with-fewer-stores")
				}
			}
			what := fmt.Sprintf("op %d (restart, %d rule records under legacy keys, load fault %d)", i, moved, op.LoadFault)
			mgr := placement.NewRuleManager(core.NewStorage(f.fkv), f.informer)
			switch {
			case op.LoadFault == 1:
				f.fkv.SetGate(func(kind, key string) error {
					if kind == "range" && strings.HasPrefix(key, "rule_group") {
						return faultkv.ErrInjected
					}
					return nil
				})
			case op.LoadFault >= 2:
				f.fkv.FailNth(op.LoadFault - 1)
			}
			err := mgr.Initialize(f.c.MaxReplica, append([]string(nil), f.c.Loc...))
			f.fkv.SetGate(nil)
			f.fkv.ResetCounters()
			if err != nil && op.LoadFault != 0 {
				if !isInjected(err) {
					return info, fmt.Errorf("%s: Initialize failed with %v", what, err)
				}
				// the failed start is retried
				info.Class("restart-retried-after-load-fault")
				if vkit.Known(kReinit) {
					info.Exclude(kReinit)
					mgr = placement.NewRuleManager(core.NewStorage(f.fkv), f.informer)
				}
				err = mgr.Initialize(f.c.MaxReplica, append([]string(nil), f.c.Loc...))
				what += ", Initialize retried after the injected failure"
			}
			if err != nil {
				return info, fmt.Errorf("%s: restart on the same storage failed: %v", what, err)
			}
			f.mgr = mgr
			// nothing is in doubt: afterwards the storage holds exactly what is served, every rule under its canonical key
			if after := faultkv.Dump(f.base); !reflect.DeepEqual(before, after) {
				return info, fmt.Errorf("%s: loading changed the storage: before %v, after %v", what, before, after)
			}
			info.ClassIf(moved > 0, "restart-with-legacy-keys")
			f.fkv.TakeLog()
			f.fkv.ResetCounters()
			if err := served(m, fmt.Sprintf("after op %d (restart)", i)); err != nil {
				return info, err
			}
			info.Class("restart")
			continue
		}
		u := f.buildUpdate(m, op)
		if u.skip {
			continue
		}
		when := fmt.Sprintf("op %d %s", i, u.desc)
		next := m.with(u.patch)
		val := next.validate()
		reject := u.patch.reject
		if reject == "" {
			reject = val.reason
		}
		if reject == "" && val.leadingGap {
			if vkit.Known(kGap) {
				info.Exclude(kGap)
				continue
			}
			reject = "no rule for the keys below the first start key"
		}
		if reject == "" {
			for id, g := range u.patch.groups {
				if alteredByPathCleaning(id) && g != m.group(id) {
					reject = fmt.Sprintf("the record of group %q would not be stored under rule_group/%s", id, id)
				}
			}
			if reject != "" && vkit.Known(kGroupPath) {
				info.Exclude(kGroupPath)
				continue
			}
		}
		enumerate := true
		if m.reindexesServedRules(u.patch) && vkit.Known(kAdjust) {
			info.Exclude(kAdjust)
			if reject != "" {
				continue
			}
			enumerate = false
		}
		for _, k := range u.excl {
			info.Exclude(k)
		}
		if reject != "" {
			err := u.exec(f.mgr)
			w := f.fkv.Writes()
			f.fkv.TakeLog()
			f.fkv.ResetCounters()
			if err == nil {
				return info, fmt.Errorf("%s: accepted, but must be rejected: %s", when, reject)
			}
			if w != 0 {
				return info, fmt.Errorf("%s: rejected (%v) but %d storage writes were issued", when, err, w)
			}
			if err := served(m, when+" was rejected ("+err.Error()+") but changed what is observable"); err != nil {
				return info, err
			}
			if err := restarted(m, when+" (rejected)", op.Legacy); err != nil {
				return info, err
			}
			stats.rejected++
			info.Class("rejected:" + op.Kind)
			continue
		}
		// predicted accepted
		accepted := false
		if op.Abandon > 0 && enumerate {
			f.fkv.FailNth(op.Abandon)
			err := u.exec(f.mgr)
			evs := f.fkv.TakeLog()
			f.fkv.ResetCounters()
			switch {
			case err == nil:
				accepted = true
				for _, k := range appliedKeys(evs) {
					delete(doubt, k)
				}
			case !isInjected(err):
				return info, fmt.Errorf("%s: rejected with %q, but every key keeps a valid rule set and the rule fields are valid", when, err)
			default:
				for _, k := range appliedKeys(evs) {
					doubt[k] = true
				}
				stats.abandoned++
				info.Class("abandoned-after-failure")
				if err := served(m, fmt.Sprintf("%s failed at storage write %d and changed what is observable", when, op.Abandon)); err != nil {
					return info, err
				}
				if err := restarted(m, when+" (failed, not retried)", op.Legacy); err != nil {
					return info, err
				}
				continue
			}
		}
		for j := 1; !accepted; j++ {
			if j > 200 {
				info.Inconclusive = true
				return info, nil
			}
			if enumerate {
				f.fkv.FailNth(j)
			}
			err := u.exec(f.mgr)
			evs := f.fkv.TakeLog()
			f.fkv.ResetCounters()
			if err == nil {
				accepted = true
				for _, k := range appliedKeys(evs) {
					delete(doubt, k)
				}
				if j > 3 {
					info.Class("writes>=3")
				}
				break
			}
			if !isInjected(err) {
				return info, fmt.Errorf("%s: rejected with %q, but every key keeps a valid rule set and the rule fields are valid", when, err)
			}
			stats.faults++
			info.Class("fault-attempt")
			if err := served(m, fmt.Sprintf("%s failed at storage write %d and changed what is observable", when, j)); err != nil {
				return info, err
			}
		}
		m = next
		note(val)
		stats.accepted++
		info.Class("accepted:" + op.Kind)
		if err := served(m, "after "+when); err != nil {
			return info, err
		}
		if err := restarted(m, "after "+when, op.Legacy); err != nil {
			return info, err
		}
	}
	info.ClassIf(stats.maxSeg >= 3, "segments>=3")
	info.ClassIf(stats.overridden, "override-in-effect")
	info.ClassIf(stats.rejected > 0, "has-rejected")
	info.ClassIf(stats.faults > 0, "has-fault-attempts")
	info.NonTrivial = stats.overlap && stats.overridden && stats.rejected > 0
	return info, nil
}

// ---------------------------------------------------------------- known-finding probes

func probeManager() (*placement.RuleManager, *faultkv.KV, kv.Base) {
	base := kv.NewMemoryKV()
	fkv := faultkv.New(base)
	m := placement.NewRuleManager(core.NewStorage(fkv), nil)
	if err := m.Initialize(3, []string{"zone", "rack", "host"}); err != nil {
		panic(err)
	}
	fkv.ResetCounters()
	return m, fkv, base
}

func order(rs []*placement.Rule) string {
	var s []string
	for _, r := range rs {
		s = append(s, r.GroupID+"/"+r.ID)
	}
	return strings.Join(s, " ")
}

// rules a/r1, b/r2, pd/default; SetRuleGroup{a, index 100} with the save failing
func TestFinding_AdjustMutatesServedGroup(t *testing.T) {
	m, fkv, _ := probeManager()
	for _, r := range []*placement.Rule{{GroupID: "a", ID: "r1", Role: "voter", Count: 1}, {GroupID: "b", ID: "r2", Role: "voter", Count: 1}} {
		if err := m.SetRule(r); err != nil {
			t.Fatal(err)
		}
	}
	before := order(m.GetAllRules())
	fkv.FailNth(1)
	err := m.SetRuleGroup(&placement.RuleGroup{ID: "a", Index: 100})
	fkv.ResetCounters()
	after := order(m.GetAllRules())
	vkit.Finding(t, kAdjust, err != nil && before != after,
		fmt.Sprintf("SetRuleGroup{a,index 100} with failing save returned %v; GetAllRules order before [%s] after [%s]", err, before, after))
}

// r := GetRule("pd","default"); r.Count = 5; SetRule(r)
func TestFinding_GetRuleLivePointer(t *testing.T) {
	m, _, base := probeManager()
	r := m.GetRule("pd", "default")
	r.Count = 5
	err := m.SetRule(r)
	servedCount := m.GetRule("pd", "default").Count
	cp := kv.NewMemoryKV()
	for k, v := range faultkv.Dump(base) {
		cp.Save(k, v)
	}
	m2 := placement.NewRuleManager(core.NewStorage(cp), nil)
	if err := m2.Initialize(3, []string{"zone", "rack", "host"}); err != nil {
		t.Fatal(err)
	}
	loaded := m2.GetRule("pd", "default").Count
	vkit.Finding(t, kLivePtr, err == nil && servedCount != loaded,
		fmt.Sprintf("GetRule(pd,default); Count=5; SetRule returned %v; served count %d, restarted manager loads %d", err, servedCount, loaded))
}

// fresh manager; SetRule{pd/default, start "a", end unbounded}
func TestFinding_LeadingGapAccepted(t *testing.T) {
	m, _, _ := probeManager()
	err := m.SetRule(&placement.Rule{GroupID: "pd", ID: "default", StartKeyHex: hex.EncodeToString([]byte("a")), Role: "voter", Count: 1})
	n := len(m.GetRulesByKey([]byte("")))
	n2 := len(m.GetRulesByKey([]byte("Z")))
	vkit.Finding(t, kGap, err == nil && n == 0 && n2 == 0,
		fmt.Sprintf("SetRule{pd/default,start \"a\"} returned %v; rules for key \"\": %d, for key \"Z\": %d", err, n, n2))
}
