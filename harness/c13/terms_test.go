// C13 across leader terms: the rules a PD serves after it (re)gains leadership are the ones in
// the storage, not the ones it remembers from an earlier term.
//
// One case is a session of a few generated programs on ONE real 3-member PD cluster per process
// (harness/livesrv.GetMulti): rule updates issued through the serving leader's
// GetRaftCluster().GetRuleManager(), interleaved with leadership transfers between the members;
// every program moves the leadership away from the member that led first, performs updates on the
// other member(s) and moves it back. After every update and every transfer the serving leader's
// observations (same set as in the property "rules") must equal the reference model of the accepted
// updates, and so must the observations of a fresh RuleManager loaded from the cluster's storage.
// Anything the fixture cannot deliver (cluster does not start, leadership does not arrive, etcd
// errors) makes the case inconclusive, never a violation.
package c13

import (
	"fmt"
	"strings"
	"time"

	"github.com/tikv/pd/server/schedule/placement"
	"pdverif/livesrv"
	"pdverif/vkit"
	"pgregory.net/rapid"
)

func init() {
	// quick: one session, which lands in shard 0 only; thorough: one session in every shard
	vkit.Register("terms", vkit.N{Quick: 1, Thorough: 16}, genTerms, runTerms)
}

type TermStep struct {
	Move int `json:"move,omitempty"` // 1, 2: transfer leadership to the member that many places after the current one; 3: back to the member that led first
	Op   *Op `json:"op,omitempty"`   // Move == 0: an update through the current leader
	// Move != 0: before the transfer the selected rule records are moved to legacy keys in the cluster's storage
	Legacy Legacy `json:"legacy"`
	// regions asked for through the HTTP API after this step
	Regions []RegionSpec `json:"regions,omitempty"`
}

type TermsCase struct {
	Programs [][]TermStep `json:"programs"`
}

var termKinds = []string{"setRule", "setRule", "setRule", "deleteRule", "deleteRule", "setRules", "batch", "setGroup", "setGroup", "deleteGroup", "setBundle", "deleteBundle", "editSet"}

func plainRule(r *RuleSpec) { r.Cons = nil } // the live cluster has its own stores: no label constraints here

func genTermOp(t *rapid.T, surelyAccepted bool) *Op {
	var op Op
	for {
		op = genOp(t)
		if op.Kind != "restart" && op.Kind != "setAllBundles" {
			break
		}
	}
	if surelyAccepted {
		// one more voter rule never invalidates a configuration
		r := genRule(t, "")
		r.Role, r.Override, r.Bad = "voter", false, ""
		op = Op{Kind: "setRule", Rules: []RuleSpec{r}, Pick: -1}
	}
	op.Abandon = 0
	for i := range op.Rules {
		plainRule(&op.Rules[i])
	}
	for i := range op.Batch {
		plainRule(&op.Batch[i].Rule)
	}
	for i := range op.Bundles {
		for j := range op.Bundles[i].Rules {
			plainRule(&op.Bundles[i].Rules[j])
		}
	}
	return &op
}

func genProgram(t *rapid.T) []TermStep {
	var p []TermStep
	updates := func(lo, hi int, first bool) {
		n := rapid.IntRange(lo, hi).Draw(t, "nUpdates")
		for i := 0; i < n; i++ {
			p = append(p, TermStep{Op: genTermOp(t, first && i == 0)})
		}
	}
	updates(0, 3, false)
	p = append(p, TermStep{Move: rapid.IntRange(1, 2).Draw(t, "away")})
	updates(1, 3, true)
	if rapid.Bool().Draw(t, "viaThird") {
		p = append(p, TermStep{Move: rapid.IntRange(1, 2).Draw(t, "further")})
		updates(0, 2, false)
	}
	p = append(p, TermStep{Move: 3, Legacy: Legacy{Mask: rapid.IntRange(0, 1023).Draw(t, "legacyMask"), Style: rapid.IntRange(0, 2).Draw(t, "legacyStyle")}})
	updates(0, 2, false)
	if rapid.Bool().Draw(t, "again") {
		p = append(p, TermStep{Move: rapid.IntRange(1, 2).Draw(t, "away2")})
		updates(1, 2, true)
		p = append(p, TermStep{Move: 3})
	}
	return p
}

func genTerms(t *rapid.T) TermsCase {
	var c TermsCase
	n := rapid.IntRange(3, 4).Draw(t, "nPrograms")
	for i := 0; i < n; i++ {
		p := genProgram(t)
		for j := range p {
			p[j].Regions = genRegions(t)
		}
		c.Programs = append(c.Programs, p)
	}
	return c
}

func isValidationError(err error) bool {
	s := err.Error()
	return strings.Contains(s, "PD:placement:") || strings.Contains(s, "PD:hex:") || strings.Contains(s, "error parsing regexp")
}

func runTerms(c TermsCase) (vkit.Info, error) {
	var info vkit.Info
	inconclusive := func(why string) (vkit.Info, error) {
		info.Inconclusive = true
		info.Class("inconclusive:" + why)
		return info, nil
	}
	mc, err := livesrv.GetMulti()
	if err != nil {
		fmt.Println("C13 terms: 3-member cluster not available:", err)
		return inconclusive("no-cluster")
	}
	index := func(n *livesrv.Node) int {
		for i, x := range mc.Nodes {
			if x == n {
				return i
			}
		}
		return -1
	}
	terms := 0
	// what the serving leader reports and what a fresh manager loads from the storage, against the model
	check := func(leader *livesrv.Node, m *model, when string, regions []RegionSpec) (bool, error) {
		rc := leader.Svr.GetRaftCluster()
		if rc == nil || !leader.Serving() {
			return false, nil
		}
		want := m.view()
		if err := diffViews(realView(rc.GetRuleManager()), want); err != nil {
			return true, fmt.Errorf("%s: leader %s (leadership term %d of this session) serves something else than the accepted updates: %v", when, leader.Name, terms, err)
		}
		fresh := placement.NewRuleManager(leader.Svr.GetStorage(), nil)
		if err := fresh.Initialize(3, nil); err != nil {
			if isValidationError(err) {
				return true, fmt.Errorf("%s: a fresh manager cannot load the storage: %v", when, err)
			}
			return false, nil
		}
		if err := diffViews(realView(fresh), want); err != nil {
			return true, fmt.Errorf("%s: a fresh manager loaded from the storage differs from the accepted updates (served by %s): %v", when, leader.Name, err)
		}
		return httpSlice(leader, m, regions, when, info.Class)
	}
	move := func(to *livesrv.Node) bool {
		for try := 0; try < 5; try++ {
			cur := mc.WaitLeader(40 * time.Second)
			if cur == nil {
				return false
			}
			if cur == to {
				return true
			}
			cur.Svr.GetMember().ResetLeader()
			if err := cur.Svr.GetMember().ResignEtcdLeader(cur.Svr.Context(), cur.Name, to.Name); err != nil {
				time.Sleep(200 * time.Millisecond)
				continue
			}
			deadline := time.Now().Add(20 * time.Second)
			for !to.Serving() && time.Now().Before(deadline) {
				time.Sleep(5 * time.Millisecond)
			}
		}
		return mc.WaitLeader(20*time.Second) == to
	}
	roundTrips, transfers, accepted, rejected := 0, 0, 0, 0
	var fx fixture
	for pi, prog := range c.Programs {
		leader := mc.WaitLeader(40 * time.Second)
		if leader == nil {
			return inconclusive("no-leader")
		}
		home := index(leader)
		// every program starts from the default configuration, set through the serving leader
		m := &model{rules: map[[2]string]*mrule{}, groups: map[string]mgroup{}}
		def := &mrule{inRule: inRule{Group: "pd", ID: "default", Role: "voter", Count: 3}}
		m.rules[def.key()] = def
		rc := leader.Svr.GetRaftCluster()
		if rc == nil {
			return inconclusive("leader-lost")
		}
		err := rc.GetRuleManager().SetAllGroupBundles([]placement.GroupBundle{{ID: "pd", Rules: []*placement.Rule{def.inRule.real()}}}, true)
		if err != nil {
			if isValidationError(err) {
				return info, fmt.Errorf("program %d: SetAllGroupBundles({pd: [pd/default voter x3]}, override=true) through leader %s rejected: %v", pi, leader.Name, err)
			}
			return inconclusive("storage-error")
		}
		if ok, err := check(leader, m, fmt.Sprintf("program %d after the reset to the default configuration", pi), nil); err != nil {
			return info, err
		} else if !ok {
			return inconclusive("leader-lost")
		}
		led := map[int]bool{home: true}
		acceptedElsewhere := map[int]int{} // member -> accepted updates since it last led
		for si, st := range prog {
			when := fmt.Sprintf("program %d step %d", pi, si)
			if st.Move != 0 {
				cur := index(leader)
				to := home
				if st.Move != 3 {
					to = (cur + st.Move) % len(mc.Nodes)
				}
				if to == cur {
					continue
				}
				if moved := relocate(leader.Svr.GetStorage(), m, st.Legacy, st.Legacy.Style); moved > 0 {
					info.Class("transfer-with-legacy-keys")
				}
				if !move(mc.Nodes[to]) {
					return inconclusive("transfer-failed")
				}
				leader = mc.Nodes[to]
				terms++
				transfers++
				if led[to] && acceptedElsewhere[to] > 0 {
					roundTrips++
					info.Class("former-leader-leads-again-after-updates")
				}
				led[to] = true
				acceptedElsewhere[to] = 0
				when = fmt.Sprintf("%s (leadership %s -> %s)", when, mc.Nodes[cur].Name, leader.Name)
				if ok, err := check(leader, m, when, st.Regions); err != nil {
					return info, err
				} else if !ok {
					return inconclusive("leader-lost")
				}
				continue
			}
			u := fx.buildUpdate(m, *st.Op)
			if u.skip {
				continue
			}
			when = fmt.Sprintf("%s %s through leader %s", when, u.desc, leader.Name)
			next := m.with(u.patch)
			val := next.validate()
			reject := u.patch.reject
			if reject == "" {
				reject = val.reason
			}
			if reject == "" && val.leadingGap {
				if vkit.Known(kGap) {
					info.Exclude(kGap)
					continue
				}
				reject = "no rule for the keys below the first start key"
			}
			if reject == "" {
				for id, g := range u.patch.groups {
					if alteredByPathCleaning(id) && g != m.group(id) {
						reject = fmt.Sprintf("the record of group %q would not be stored under rule_group/%s", id, id)
					}
				}
				if reject != "" && vkit.Known(kGroupPath) {
					info.Exclude(kGroupPath)
					continue
				}
			}
			if reject != "" && m.reindexesServedRules(u.patch) && vkit.Known(kAdjust) {
				info.Exclude(kAdjust)
				continue
			}
			for _, k := range u.excl {
				info.Exclude(k)
			}
			rc := leader.Svr.GetRaftCluster()
			if rc == nil || !leader.Serving() {
				return inconclusive("leader-lost")
			}
			err := u.exec(rc.GetRuleManager())
			switch {
			case reject != "" && err == nil:
				return info, fmt.Errorf("%s: accepted, but must be rejected: %s", when, reject)
			case reject != "":
				rejected++
			case err != nil && isValidationError(err):
				return info, fmt.Errorf("%s: rejected with %q, but every key keeps a valid rule set and the rule fields are valid", when, err)
			case err != nil:
				return inconclusive("storage-error")
			default:
				m = next
				accepted++
				for i := range mc.Nodes {
					if i != index(leader) {
						acceptedElsewhere[i]++
					}
				}
			}
			if ok, err := check(leader, m, "after "+when, st.Regions); err != nil {
				return info, err
			} else if !ok {
				return inconclusive("leader-lost")
			}
		}
	}
	for i := 0; i < transfers; i++ {
		info.Class("leader-transfer")
	}
	for i := 0; i < accepted; i++ {
		info.Class("accepted-update")
	}
	for i := 0; i < rejected; i++ {
		info.Class("rejected-update")
	}
	info.NonTrivial = roundTrips > 0
	return info, nil
}
