package c06

// Sequential mode: one heartbeat at a time, oracle after every heartbeat on the cache
// and on storage; storage writes may fail (the heartbeat still succeeds, storage lags)
// and the RaftCluster may be replaced by a restart / re-election that loads the regions
// back from storage.
//
// Storage model M (key -> value under raft/r/): after an accepted heartbeat the
// displaced regions are removed and the region is saved when its meta changed; a write
// that the injector failed is not applied. Storage must equal M after every step, so
// storage == cache except for the records whose last write failed.
//
// With the region storage switched on (rs_test.go) "storage" is the leveldb handle and
// the model has a second part, the unflushed batch B: a delete removes the record from
// M only, a save goes to B, a flush (explicit, Close, or the 100th save since the last
// one) moves B into M. Storage must equal M after every step; the latest acknowledged
// write (B, else M) of every served region is its meta; after a flush + load round
// (cold restart; epilogue of every such case) storage == cache without overlaps.

import (
	"fmt"
	"sort"
	"strings"

	"github.com/gogo/protobuf/proto"
	"github.com/pingcap/kvproto/pkg/metapb"
	"pdverif/vkit"
)

const regionPrefix = "raft/r/"

func regionKey(id uint64) string { return fmt.Sprintf("%s%020d", regionPrefix, id) }

// kvDump reads every persisted region meta (keys raft/r/<id>): the key list straight from
// the backend SaveRegion uses under the configuration (rawRegions: the memory kv, or the
// leveldb handle), the records back through the storage API (so that they are decrypted).
// The raw records are examined on the way: with encryption at rest every record carries
// an encryption meta (together with "reads back as the served meta" this means the stored
// keys are the cipher text, not the plain keys); without, none does and the raw bytes are
// the marshalled meta.
func (f *fixture) kvDump() (map[string]string, error) {
	if err := f.otherBackendClean(); err != nil {
		return nil, err
	}
	keys, vals, err := f.rawRegions()
	if err != nil {
		return nil, err
	}
	out := make(map[string]string, len(keys))
	for i := range keys {
		var raw, m metapb.Region
		if err := proto.Unmarshal([]byte(vals[i]), &raw); err != nil {
			return nil, fmt.Errorf("stored record %s is not a region: %v", keys[i], err)
		}
		if f.enc > 0 {
			if em := raw.GetEncryptionMeta(); em == nil || len(em.GetIv()) != 16 || em.GetKeyId() == 0 {
				return nil, fmt.Errorf("encryption at rest (%s) is on but the stored record of region %d [%q,%q) is not encrypted (meta %v)", encMethods[f.enc], raw.Id, raw.StartKey, raw.EndKey, em)
			}
		} else if raw.GetEncryptionMeta() != nil {
			return nil, fmt.Errorf("encryption at rest is off but the stored record of region %d carries an encryption meta", raw.Id)
		}
		ok, err := f.storage.LoadRegion(raw.Id, &m)
		if err != nil || !ok {
			return nil, fmt.Errorf("Storage.LoadRegion(%d) = %v, %v although the record exists", raw.Id, ok, err)
		}
		b, err := proto.Marshal(&m)
		if err != nil {
			return nil, err
		}
		if f.enc == 0 && string(b) != vals[i] {
			return nil, fmt.Errorf("Storage.LoadRegion(%d) returns %s, the raw record is %s", raw.Id, descMeta(string(b)), descMeta(vals[i]))
		}
		out[keys[i]] = string(b)
	}
	return out, nil
}

func descMeta(b string) string {
	var m metapb.Region
	if err := proto.Unmarshal([]byte(b), &m); err != nil {
		return fmt.Sprintf("<undecodable %d bytes>", len(b))
	}
	return fmt.Sprintf("{id=%d [%q,%q) v%d c%d peers=%d}", m.Id, m.StartKey, m.EndKey, m.GetRegionEpoch().GetVersion(), m.GetRegionEpoch().GetConfVer(), len(m.Peers))
}

func sortedKeys(m map[string]string) []string {
	ks := make([]string, 0, len(m))
	for k := range m {
		ks = append(ks, k)
	}
	sort.Strings(ks)
	return ks
}

// modelIs compares storage with the model.
func modelIs(model, dump map[string]string, cache []entry) error {
	for _, k := range sortedKeys(model) {
		v, ok := dump[k]
		if !ok {
			return fmt.Errorf("storage lacks %s, expected %s", strings.TrimPrefix(k, regionPrefix), descMeta(model[k]))
		}
		if v != model[k] {
			return fmt.Errorf("storage holds %s under %s, expected %s", descMeta(v), strings.TrimPrefix(k, regionPrefix), descMeta(model[k]))
		}
	}
	for _, k := range sortedKeys(dump) {
		if _, ok := model[k]; !ok {
			if _, served := find(cache, idOfKey(k)); !served {
				return fmt.Errorf("storage still holds %s under %s but the region is not served and no write failed (displaced regions must be deleted from storage)", descMeta(dump[k]), strings.TrimPrefix(k, regionPrefix))
			}
			return fmt.Errorf("storage holds %s under %s, expected nothing", descMeta(dump[k]), strings.TrimPrefix(k, regionPrefix))
		}
	}
	return nil
}

// storageIs compares storage with the model and with the cache; lag = keys whose last write failed.
func (f *fixture) storageIs(model, dump map[string]string, cache []entry, lag map[string]string) error {
	if err := modelIs(model, dump, cache); err != nil {
		return err
	}
	// storage == cache except for the records whose last write failed
	for _, e := range cache {
		k := regionKey(e.id)
		if _, lagging := lag[k]; lagging {
			continue
		}
		if v, ok := dump[k]; !ok {
			return fmt.Errorf("served region %v is not in storage", e)
		} else if v != e.meta {
			return fmt.Errorf("storage holds %s for served region %v (meta %s)", descMeta(v), e, descMeta(e.meta))
		}
		var m metapb.Region
		if ok, err := f.storage.LoadRegion(e.id, &m); err != nil || !ok {
			return fmt.Errorf("Storage.LoadRegion(%d) = %v, %v for served region %v", e.id, ok, err, e)
		}
	}
	for _, k := range sortedKeys(dump) {
		if _, lagging := lag[k]; lagging {
			continue
		}
		if _, served := find(cache, idOfKey(k)); !served {
			return fmt.Errorf("storage still holds %s but the region is not served (displaced regions must be deleted from storage)", descMeta(dump[k]))
		}
	}
	return nil
}

func idOfKey(k string) uint64 {
	var id uint64
	fmt.Sscanf(strings.TrimPrefix(k, regionPrefix), "%d", &id)
	return id
}

func sameEntries(a, b []entry) (string, bool) {
	if len(a) != len(b) {
		return fmt.Sprintf("%d regions before, %d after", len(a), len(b)), false
	}
	for i := range a {
		if a[i].ptr != b[i].ptr || a[i].meta != b[i].meta || a[i].term != b[i].term {
			return fmt.Sprintf("before %v after %v", a[i], b[i]), false
		}
	}
	return "", true
}

func sameMap(a, b map[string]string) bool {
	if len(a) != len(b) {
		return false
	}
	for k, v := range a {
		if w, ok := b[k]; !ok || w != v {
			return false
		}
	}
	return true
}

// rec is a region known to the loader: a stored record or a region of the warm cache.
type rec struct {
	id         uint64
	start, end string
	ver, conf  uint64
	meta       string
	stored     bool
}

func (r rec) String() string {
	w := "cached"
	if r.stored {
		w = "stored"
	}
	return fmt.Sprintf("{%s id=%d [%q,%q) v%d c%d}", w, r.id, r.start, r.end, r.ver, r.conf)
}

func recOf(val string) (rec, error) {
	var m metapb.Region
	if err := proto.Unmarshal([]byte(val), &m); err != nil {
		return rec{}, err
	}
	return rec{id: m.Id, start: string(m.StartKey), end: string(m.EndKey), ver: m.GetRegionEpoch().GetVersion(),
		conf: m.GetRegionEpoch().GetConfVer(), meta: val, stored: true}, nil
}

// outranked: may x legitimately lose against some other region the loader knows?
// Yes iff another id overlaps it with version >= x's (it displaces x or makes x stale),
// or the same id is known with a newer epoch.
func outranked(x rec, all []rec) (rec, bool) {
	for _, z := range all {
		if z.id == x.id {
			if z.meta != x.meta && (z.ver > x.ver || z.conf > x.conf) {
				return z, true
			}
			continue
		}
		if rangesOverlap(x.start, x.end, z.start, z.end) && z.ver >= x.ver {
			return z, true
		}
	}
	return rec{}, false
}

// checkLoad is the oracle for LoadClusterInfo, from the statement's second and third
// sentences applied to records coming from storage. S0 = served set before (empty on a
// cold restart), K0/K1 = storage before/after, S1 = served set after (cacheSnap has
// already established: no overlaps, id map == range tree).
func checkLoad(cold bool, S0 []entry, K0 map[string]string, S1 []entry, K1 map[string]string, cls *classSet) error {
	var all []rec
	for _, e := range S0 {
		all = append(all, rec{id: e.id, start: e.start, end: e.end, ver: e.ver, conf: e.conf, meta: e.meta})
	}
	var stored []rec
	for _, k := range sortedKeys(K0) {
		r, err := recOf(K0[k])
		if err != nil {
			return fmt.Errorf("harness: undecodable record %s", k)
		}
		stored = append(stored, r)
		all = append(all, r)
	}
	// nothing invented: every served region is the one served before or a stored record
	for _, e := range S1 {
		if o, ok := find(S0, e.id); ok && o.meta == e.meta {
			continue
		}
		if v, ok := K0[regionKey(e.id)]; ok && v == e.meta {
			continue
		}
		return fmt.Errorf("served region %v (%s) is neither what was served before nor the stored record of that id", e, descMeta(e.meta))
	}
	// a served region never goes back / is never pushed out by something older
	for _, o := range S0 {
		cur, ok := find(S1, o.id)
		if ok && cur.ver >= o.ver && cur.conf >= o.conf {
			continue
		}
		just := false
		for _, z := range stored {
			if z.id != o.id && z.ver >= o.ver && rangesOverlap(o.start, o.end, z.start, z.end) {
				just = true
			}
		}
		if !just {
			got := "nothing"
			if ok {
				got = cur.String()
			}
			return fmt.Errorf("%v was served before the load, afterwards %s, and no stored record of another id with version >= %d overlaps it", o, got, o.ver)
		}
		cls.add("load-displaced-served-region")
	}
	// a stored record that is not served lost against something at least as new
	for _, r := range stored {
		cur, ok := find(S1, r.id)
		if ok && cur.meta == r.meta {
			continue
		}
		if _, just := outranked(r, all); !just {
			got := "nothing"
			if ok {
				got = cur.String()
			}
			return fmt.Errorf("stored record %v is not served after the load (%s is served for its id) although nothing known overlaps it with version >= %d and its id is not known with a newer epoch", r, got, r.ver)
		}
		cls.add("load-dropped-stale-record")
	}
	// storage after the load: every remaining record is served as is; a removed record lost likewise
	for _, k := range sortedKeys(K1) {
		v0, ok := K0[k]
		if !ok || v0 != K1[k] {
			return fmt.Errorf("the load wrote %s under %s", descMeta(K1[k]), strings.TrimPrefix(k, regionPrefix))
		}
		cur, served := find(S1, idOfKey(k))
		if !served || cur.meta != K1[k] {
			return fmt.Errorf("after the load storage holds %s but that is not what is served for the id", descMeta(K1[k]))
		}
	}
	for _, r := range stored {
		if _, ok := K1[regionKey(r.id)]; ok {
			continue
		}
		if _, just := outranked(r, all); !just {
			return fmt.Errorf("the load deleted %v from storage although nothing known overlaps it with version >= %d and its id is not known with a newer epoch", r, r.ver)
		}
	}
	if cold {
		for _, e := range S1 {
			if _, ok := K1[regionKey(e.id)]; !ok {
				return fmt.Errorf("after a cold restart the served region %v is not in storage", e)
			}
		}
	}
	return nil
}

func runSeq(c Case) (vkit.Info, error) {
	var info vkit.Info
	var cls classSet
	s := simulate(c.Stores, c.Collide, c.Events)
	f, err := newFixture(s.stores, c.Enc, c.RS)
	if err == errFixture {
		info.Inconclusive = true
		return info, nil
	}
	if err != nil {
		return info, err
	}
	if f.enc > 0 {
		cls.add("encryption-" + encMethods[f.enc])
	}
	cls.add("rs-" + rsModes[f.rsMode])
	defer func() { f.close() }()
	f.fkv.KeepLog = true

	maxSeen := map[uint64][2]uint64{} // id -> highest (version, conf_ver) served since the last cold start
	rejected, displacedN := 0, 0

	S0, err := f.cacheSnap()
	if err != nil {
		return info, err
	}
	M, err := f.kvDump() // storage model
	if err != nil {
		return info, err
	}
	lag := map[string]string{} // key -> "save"/"delete": the last write of this record failed
	// region storage switched on: M is what leveldb holds, B the acknowledged unflushed saves
	B := map[string]string{}
	saves := 0 // saves since the last flush
	flushModel := func(cache []entry) {
		for k, v := range B {
			M[k] = v
		}
		B = map[string]string{}
		saves = 0
		for k := range M {
			if _, served := find(cache, idOfKey(k)); !served {
				cls.add("rs-leftover-after-flush") // saved and displaced within one batch: the next load removes it
			}
		}
	}
	armed := 0
	excludedLeftover := false
	for step, d := range c.Dels {
		switch d.K {
		case "fail":
			if f.rsMode == rsOn {
				cls.add("fail-not-applicable-region-storage") // region writes do not pass the injector
				continue
			}
			armed = 1 + mod(d.A, 3)
			continue
		case "plant":
			if f.rsMode == rsOn || len(S0) == 0 {
				cls.add("plant-not-applicable")
				continue
			}
			e := S0[mod(d.I, len(S0))]
			m := proto.Clone(e.ptr.GetMeta()).(*metapb.Region)
			up, kind := uint64(1+mod(d.A/2, 3)), "version-up-confver-down"
			if mod(d.A, 2) == 0 {
				if m.RegionEpoch.ConfVer == 0 {
					cls.add("plant-not-applicable")
					continue
				}
				m.RegionEpoch.Version += up
				m.RegionEpoch.ConfVer--
			} else {
				if m.RegionEpoch.Version == 0 {
					cls.add("plant-not-applicable")
					continue
				}
				m.RegionEpoch.ConfVer += up
				m.RegionEpoch.Version--
				kind = "confver-up-version-down"
			}
			if err := f.storage.SaveRegion(m); err != nil {
				return info, fmt.Errorf("harness: step %d plant: %v", step, err)
			}
			f.fkv.ResetCounters()
			f.fkv.TakeLog()
			b, err := proto.Marshal(m)
			if err != nil {
				return info, err
			}
			M[regionKey(e.id)] = string(b)
			lag[regionKey(e.id)] = "planted"
			cls.add("plant-" + kind)
			K1, err := f.kvDump()
			if err != nil {
				return info, fmt.Errorf("step %d after plant: %v", step, err)
			}
			if err := modelIs(M, K1, S0); err != nil {
				return info, fmt.Errorf("harness: step %d after plant: %v", step, err)
			}
			continue
		case "flush":
			if err := f.storage.Flush(); err != nil {
				return info, fmt.Errorf("step %d Storage.Flush: %v", step, err)
			}
			if f.rsMode == rsOn {
				flushModel(S0)
				cls.add("flush-region-storage")
			} else {
				cls.add("flush-nothing-to-do")
			}
			K1, err := f.kvDump()
			if err != nil {
				return info, fmt.Errorf("step %d after Storage.Flush: %v", step, err)
			}
			if err := modelIs(M, K1, S0); err != nil {
				return info, fmt.Errorf("step %d after Storage.Flush: %v", step, err)
			}
			continue
		case "restart":
			armed = 0
			cold := mod(d.A, 2) == 0
			crash := cold && f.rsMode == rsOn && mod(d.A, 4) == 2
			name := "warm re-election"
			if cold {
				name = "cold restart"
			}
			if crash {
				name = "cold restart after a crash"
			}
			before := S0
			if cold {
				before = nil
			}
			alreadyLoaded := false
			if f.rsMode == rsOn {
				if cold {
					// a new process: the handle is closed (graceful: flushed first) and reopened under a new Storage
					if crash {
						for k := range B {
							lag[k] = "save" // acknowledged but never flushed
						}
						if len(B) > 0 {
							cls.add("rs-crash-lost-unflushed-batch")
						}
						B = map[string]string{}
						saves = 0
					} else {
						flushModel(S0)
					}
					if err := f.reopen(crash); err != nil {
						return info, fmt.Errorf("step %d %s: %v", step, name, err)
					}
					K0, err := f.kvDump()
					if err != nil {
						return info, fmt.Errorf("step %d %s: %v", step, name, err)
					}
					if err := modelIs(M, K0, S0); err != nil {
						return info, fmt.Errorf("step %d %s: after closing and reopening the region storage: %v", step, name, err)
					}
				} else if f.loadedOnce {
					alreadyLoaded = true // LoadRegionsOnce: this Storage has loaded its regions before
				}
			}
			f.fkv.ResetCounters()
			if err := f.restart(cold); err != nil {
				return info, fmt.Errorf("step %d %s: %v", step, name, err)
			}
			S1, err := f.cacheSnap()
			if err != nil {
				return info, fmt.Errorf("step %d after %s: %v", step, name, err)
			}
			K1, err := f.kvDump()
			if err != nil {
				return info, err
			}
			if alreadyLoaded {
				if diff, ok := sameEntries(S0, S1); !ok {
					return info, fmt.Errorf("step %d %s: the regions had been loaded once from the region storage, yet the cache changed: %s", step, name, diff)
				}
				if !sameMap(M, K1) {
					return info, fmt.Errorf("step %d %s: the regions had been loaded once from the region storage, yet storage changed", step, name)
				}
				cls.add("restart-warm-regions-already-loaded")
				f.fkv.TakeLog()
				continue
			}
			if err := checkLoad(cold, before, M, S1, K1, &cls); err != nil {
				return info, fmt.Errorf("step %d %s: %v", step, name, err)
			}
			if cold {
				cls.add("restart-cold")
				for _, o := range S0 {
					if cur, ok := find(S1, o.id); ok && (cur.ver < o.ver || cur.conf < o.conf) {
						// legitimate only because the newer epoch never reached storage (checkLoad: served == stored record)
						if _, lagging := lag[regionKey(o.id)]; !lagging {
							return info, fmt.Errorf("step %d %s: %v was served and persisted before, afterwards %v", step, name, o, cur)
						}
						cls.add("restart-cold-served-older-after-failed-save")
					}
				}
				maxSeen = map[uint64][2]uint64{}
			} else {
				cls.add("restart-warm")
			}
			if len(lag) > 0 {
				cls.add("restart-with-storage-lag")
			}
			// from here on: records not in storage are exactly the served regions that lag.
			// Region storage on: the last acknowledged write is the unflushed one, if any; it can
			// differ from what is served after a warm load only when the load brought in a leftover
			// of the same id that is newer than a region reinserted older afterwards (the next flush
			// then writes the older meta over it: storage lags until that region is saved again).
			lag = map[string]string{}
			for _, e := range S1 {
				v, ok := K1[regionKey(e.id)]
				if b, pending := B[regionKey(e.id)]; pending {
					v, ok = b, true
					if b != e.meta {
						cls.add("rs-warm-load-served-newer-leftover-than-unflushed-save")
					}
				}
				if !ok || v != e.meta {
					lag[regionKey(e.id)] = "save"
				}
			}
			S0, M = S1, K1
			f.fkv.TakeLog()
			continue
		}
		h := f.resolve(d, s.snaps, S0, c.NoTerm)
		if h == nil {
			cls.add("fabricated-not-applicable")
			continue
		}
		wantMeta := h.metaBytes()
		why, witness := staleWhy(h, S0)
		switch h.Kind {
		case "uconf", "uterm", "uver", "uover", "vupcdn", "cupvdn":
			if why == "" {
				return info, fmt.Errorf("harness: fabricated %v is not stale against %v", h, S0)
			}
		case "eqver", "grow":
			if why != "" {
				return info, fmt.Errorf("harness: fabricated %v is stale (%s)", h, why)
			}
		}
		cls.add("deliver-" + h.Kind)

		f.fkv.TakeLog()
		if armed > 0 {
			f.fkv.FailNth(armed)
		}
		hbErr := f.rc.VerifProcessRegionHeartbeat(h.region())
		f.fkv.ResetCounters()
		wasArmed := armed > 0
		armed = 0
		failedKey, failedKind := "", ""
		for _, ev := range f.fkv.TakeLog() {
			if ev.Failed {
				if failedKey != "" {
					return info, fmt.Errorf("harness: two injected failures in one heartbeat")
				}
				failedKey, failedKind = ev.Key, ev.Kind
			}
		}

		S1, err := f.cacheSnap()
		if err != nil {
			return info, fmt.Errorf("step %d after %v (returned %v): %v", step, h, hbErr, err)
		}
		K1, err := f.kvDump()
		if err != nil {
			return info, err
		}
		pre := fmt.Sprintf("step %d heartbeat %v", step, h)
		if failedKey != "" {
			pre += fmt.Sprintf(" (storage %s of %s failed)", failedKind, strings.TrimPrefix(failedKey, regionPrefix))
		}

		if why != "" {
			// stale => error and nothing changes
			if hbErr == nil {
				return info, fmt.Errorf("%s is stale (%s) against cached %v but was accepted", pre, why, witness)
			}
			if diff, ok := sameEntries(S0, S1); !ok {
				return info, fmt.Errorf("%s was rejected (%v) but the cache changed: %s", pre, hbErr, diff)
			}
			if !sameMap(M, K1) || failedKey != "" {
				return info, fmt.Errorf("%s was rejected (%v) but storage was written", pre, hbErr)
			}
			rejected++
			cls.add("rejected-" + why)
			continue
		}
		// not stale by the statement's rule: the only other outcome is acceptance (also when a storage write fails)
		if hbErr != nil {
			return info, fmt.Errorf("%s is not stale against anything cached but was refused: %v", pre, hbErr)
		}
		old, hadOld := find(S0, h.ID)
		cur, ok := find(S1, h.ID)
		if !ok {
			return info, fmt.Errorf("%s accepted but id %d is not served", pre, h.ID)
		}
		if hadOld {
			if cur.ver < old.ver || cur.conf < old.conf {
				return info, fmt.Errorf("%s accepted: served epoch went back from %v to %v", pre, old, cur)
			}
			if h.Term > 0 && cur.term < old.term {
				return info, fmt.Errorf("%s accepted: served term went back from %v to %v", pre, old, cur)
			}
		}
		if cur.meta != wantMeta {
			return info, fmt.Errorf("%s accepted but the served meta is %s", pre, descMeta(cur.meta))
		}
		// displaced regions are gone at once, everything else is untouched
		want := map[uint64]entry{}
		var displaced []entry
		for _, e := range S0 {
			if e.id == h.ID {
				continue
			}
			if rangesOverlap(h.Start, h.End, e.start, e.end) {
				displaced = append(displaced, e)
				continue
			}
			want[e.id] = e
		}
		nDisp := len(displaced)
		for _, e := range S1 {
			if e.id == h.ID {
				continue
			}
			w, ok := want[e.id]
			if !ok {
				if _, was := find(S0, e.id); was {
					return info, fmt.Errorf("%s accepted but the overlapped region %v is still served", pre, e)
				}
				return info, fmt.Errorf("%s accepted and region %v appeared from nowhere", pre, e)
			}
			if w.ptr != e.ptr || w.meta != e.meta || w.term != e.term {
				return info, fmt.Errorf("%s accepted and changed the unrelated region %v to %v", pre, w, e)
			}
			delete(want, e.id)
		}
		for _, w := range want {
			return info, fmt.Errorf("%s accepted and the unrelated region %v vanished", pre, w)
		}
		// lookups serve it
		if r := f.rc.GetRegionByKey([]byte(h.Start)); r == nil || r.GetID() != h.ID {
			return info, fmt.Errorf("%s accepted but GetRegionByKey(%q) serves %v", pre, h.Start, r.GetMeta())
		}
		if r := f.rc.GetRegion(h.ID); r != cur.ptr {
			return info, fmt.Errorf("%s accepted but GetRegion(%d) differs from GetRegions", pre, h.ID)
		}
		// storage follows, one heartbeat at a time: displaced records removed, the region saved when its meta changed
		for _, e := range displaced {
			k := regionKey(e.id)
			if f.rsMode == rsOn {
				// the delete goes to leveldb directly, the unflushed batch is not purged
				delete(M, k)
				delete(lag, k)
				if _, pending := B[k]; pending {
					cls.add("rs-displaced-while-unflushed")
					if vkit.Known(keyBatchLeftover) {
						// known finding: the buffered save survives the delete and the next flush writes it back
						if !excludedLeftover {
							excludedLeftover = true
							info.Exclude(keyBatchLeftover)
						}
					} else {
						delete(B, k) // displaced regions disappear from storage: the buffered save goes as well
					}
				}
				continue
			}
			if k == failedKey {
				if _, present := M[k]; present {
					lag[k] = "delete"
					cls.add("write-failed-delete")
				} else {
					delete(lag, k)
				}
				continue
			}
			delete(M, k)
			delete(lag, k)
		}
		// "save to storage if meta is updated": a new id, a grown version / conf_ver, another number of peers.
		// A meta that changes without any of these (fabricated "grow": a real store never does that) is
		// not claimed to be persisted; the record may stay behind (storage lags for this id) or follow.
		unclaimed := hadOld && old.meta != cur.meta && cur.ver == old.ver && cur.conf == old.conf &&
			len(cur.ptr.GetPeers()) == len(old.ptr.GetPeers())
		if unclaimed {
			k := regionKey(h.ID)
			cls.add("meta-changed-without-epoch-change")
			switch {
			case f.rsMode == rsOn:
				lag[k] = "save"
			case k == failedKey:
				lag[k] = "save"
				cls.add("write-failed-save")
			case K1[k] == cur.meta:
				M[k] = cur.meta
				delete(lag, k)
			default:
				lag[k] = "save"
			}
		} else if !hadOld || old.meta != cur.meta {
			k := regionKey(h.ID)
			if f.rsMode == rsOn {
				B[k] = cur.meta
				delete(lag, k)
				if saves++; saves == rsBatchSize {
					flushModel(S1)
					cls.add("rs-auto-flush")
				}
			} else if k == failedKey {
				lag[k] = "save"
				cls.add("write-failed-save")
			} else {
				M[k] = cur.meta
				delete(lag, k)
			}
		} else if failedKey == regionKey(h.ID) {
			return info, fmt.Errorf("%s accepted: the meta did not change but a save was attempted", pre)
		}
		if wasArmed && failedKey == "" {
			cls.add("write-failure-not-hit")
		}
		if f.rsMode == rsOn {
			if failedKey != "" {
				return info, fmt.Errorf("%s: the region storage is switched on but %s %s went to the default kv", pre, failedKind, failedKey)
			}
			if err := modelIs(M, K1, S1); err != nil {
				return info, fmt.Errorf("%s accepted: %v", pre, err)
			}
			for _, e := range S1 {
				if _, lagging := lag[regionKey(e.id)]; lagging {
					continue
				}
				v, ok := B[regionKey(e.id)]
				if !ok {
					v, ok = M[regionKey(e.id)]
				}
				if !ok || v != e.meta {
					return info, fmt.Errorf("harness: %s accepted: the last acknowledged save of served region %v is %s", pre, e, descMeta(v))
				}
			}
		} else if err := f.storageIs(M, K1, S1, lag); err != nil {
			return info, fmt.Errorf("%s accepted: %v", pre, err)
		}

		displacedN += nDisp
		if nDisp > 0 {
			cls.add("displaced")
			if nDisp > 1 {
				cls.add("displaced-several")
			}
		}
		switch {
		case !hadOld:
			if m, was := maxSeen[h.ID]; was && (h.Ver < m[0] || h.Conf < m[1]) {
				cls.add("reinserted-older")
			} else if was {
				cls.add("reinserted")
			} else {
				cls.add("accepted-new")
			}
		case cur.ptr == old.ptr:
			cls.add("accepted-nochange")
		case cur.start != old.start || cur.end != old.end:
			cls.add("accepted-range-change")
		case cur.ver == old.ver && cur.conf == old.conf:
			cls.add("accepted-same-epoch")
		default:
			cls.add("accepted-update")
		}
		m := maxSeen[h.ID]
		if cur.ver > m[0] {
			m[0] = cur.ver
		}
		if cur.conf > m[1] {
			m[1] = cur.conf
		}
		maxSeen[h.ID] = m
		S0 = S1
	}
	// epilogue
	switch f.rsMode {
	case rsOn:
		// a flush + load round: Storage.Close, a new process on the same directory, LoadClusterInfo
		flushModel(S0)
		if err := f.reopen(false); err != nil {
			return info, fmt.Errorf("epilogue: %v", err)
		}
		K0, err := f.kvDump()
		if err != nil {
			return info, fmt.Errorf("epilogue: %v", err)
		}
		if err := modelIs(M, K0, S0); err != nil {
			return info, fmt.Errorf("epilogue, after Storage.Close and reopening the region storage: %v", err)
		}
		for _, e := range S0 {
			if _, lagging := lag[regionKey(e.id)]; lagging {
				continue
			}
			if v, ok := K0[regionKey(e.id)]; !ok || v != e.meta {
				return info, fmt.Errorf("epilogue: after Storage.Close the served region %v is stored as %s", e, descMeta(v))
			}
		}
		if err := f.restart(true); err != nil {
			return info, fmt.Errorf("epilogue cold restart: %v", err)
		}
		S1, err := f.cacheSnap()
		if err != nil {
			return info, fmt.Errorf("epilogue cold restart: %v", err)
		}
		K1, err := f.kvDump()
		if err != nil {
			return info, fmt.Errorf("epilogue cold restart: %v", err)
		}
		// relative to what was stored; includes storage == cache afterwards
		if err := checkLoad(true, nil, K0, S1, K1, &cls); err != nil {
			return info, fmt.Errorf("epilogue cold restart: %v", err)
		}
		// nothing served before is lost, except against a leftover of another id that is at least as new
		for _, o := range S0 {
			if cur, ok := find(S1, o.id); ok && cur.meta == o.meta {
				continue
			}
			_, just := lag[regionKey(o.id)]
			for _, k := range sortedKeys(K0) {
				z, _ := recOf(K0[k])
				if z.id != o.id && z.ver >= o.ver && rangesOverlap(o.start, o.end, z.start, z.end) {
					just = true
				}
			}
			if !just {
				return info, fmt.Errorf("epilogue cold restart: %v was served and flushed, is not served afterwards, and no stored record of another id with version >= %d overlaps it", o, o.ver)
			}
			cls.add("load-leftover-displaced-served-region")
		}
		if len(K0) > len(S0) {
			cls.add("rs-epilogue-leftovers-pruned")
		}
		cls.add("rs-epilogue-flush-load")
	case rsOff:
		if err := f.storage.Flush(); err != nil {
			return info, fmt.Errorf("epilogue Storage.Flush: %v", err)
		}
		if err := f.otherBackendClean(); err != nil {
			return info, fmt.Errorf("epilogue, after Storage.Flush: %v", err)
		}
	}
	cls.into(&info)
	info.NonTrivial = s.splits+s.merges > 0 && rejected > 0 && displacedN > 0
	return info, nil
}
