package c06

import (
	"fmt"
	"strings"

	"github.com/gogo/protobuf/proto"
	"github.com/pingcap/kvproto/pkg/metapb"
	"pdverif/vkit"
)

const regionPrefix = "raft/r/"

type kvEntry struct{ key, val string }

// kvDump reads every persisted region meta straight from the kv (keys raft/r/<id>).
func (f *fixture) kvDump() ([]kvEntry, error) {
	keys, vals, err := f.mem.LoadRange(regionPrefix, "raft/r0", 0)
	if err != nil {
		return nil, err
	}
	out := make([]kvEntry, len(keys))
	for i := range keys {
		out[i] = kvEntry{keys[i], vals[i]}
	}
	return out, nil
}

func sameKV(a, b []kvEntry) bool {
	if len(a) != len(b) {
		return false
	}
	for i := range a {
		if a[i] != b[i] {
			return false
		}
	}
	return true
}

func descMeta(b string) string {
	var m metapb.Region
	if err := proto.Unmarshal([]byte(b), &m); err != nil {
		return fmt.Sprintf("<undecodable %d bytes>", len(b))
	}
	return fmt.Sprintf("{id=%d [%q,%q) v%d c%d peers=%d}", m.Id, m.StartKey, m.EndKey, m.GetRegionEpoch().GetVersion(), m.GetRegionEpoch().GetConfVer(), len(m.Peers))
}

// storageMatchesCache: "displaced regions disappear from storage as well" and "the
// meta saved whenever it changed": persisted id set and metas == served id set and metas.
func (f *fixture) storageMatchesCache(cache []entry, dump []kvEntry) error {
	byKey := map[string]string{}
	for _, e := range dump {
		byKey[e.key] = e.val
	}
	for _, e := range cache {
		k := fmt.Sprintf("%s%020d", regionPrefix, e.id)
		v, ok := byKey[k]
		if !ok {
			return fmt.Errorf("served region %v is not in storage", e)
		}
		if v != e.meta {
			return fmt.Errorf("storage holds %s for served region %v (meta %s)", descMeta(v), e, descMeta(e.meta))
		}
		delete(byKey, k)
		// and through the storage API
		var m metapb.Region
		ok, err := f.storage.LoadRegion(e.id, &m)
		if err != nil || !ok {
			return fmt.Errorf("Storage.LoadRegion(%d) = %v, %v for served region %v", e.id, ok, err, e)
		}
	}
	for k, v := range byKey {
		return fmt.Errorf("storage still holds %s under %s but the region is not served (displaced regions must be deleted from storage)", descMeta(v), strings.TrimPrefix(k, regionPrefix))
	}
	return nil
}

func sameEntries(a, b []entry) (string, bool) {
	if len(a) != len(b) {
		return fmt.Sprintf("%d regions before, %d after", len(a), len(b)), false
	}
	for i := range a {
		if a[i].ptr != b[i].ptr || a[i].meta != b[i].meta || a[i].term != b[i].term {
			return fmt.Sprintf("before %v after %v", a[i], b[i]), false
		}
	}
	return "", true
}

func runSeq(c Case) (vkit.Info, error) {
	var info vkit.Info
	var cls classSet
	s := simulate(c.Stores, c.Collide, c.Events)
	f, err := newFixture(s.stores)
	if err != nil {
		return info, err
	}
	defer f.close()

	maxSeen := map[uint64][2]uint64{} // id -> highest (version, conf_ver) ever served
	rejected, displacedN := 0, 0

	S0, err := f.cacheSnap()
	if err != nil {
		return info, err
	}
	K0, err := f.kvDump()
	if err != nil {
		return info, err
	}
	for step, d := range c.Dels {
		h := f.resolve(d, s.snaps, S0, c.NoTerm)
		if h == nil {
			cls.add("fabricated-not-applicable")
			continue
		}
		wantMeta := h.metaBytes()
		why, witness := staleWhy(h, S0)
		switch h.Kind {
		case "uconf", "uterm", "uver", "uover":
			if why == "" {
				return info, fmt.Errorf("harness: fabricated %v is not stale against %v", h, S0)
			}
		case "eqver":
			if why != "" {
				return info, fmt.Errorf("harness: fabricated %v is stale (%s)", h, why)
			}
		}
		cls.add("deliver-" + h.Kind)

		hbErr := f.rc.VerifProcessRegionHeartbeat(h.region())

		S1, err := f.cacheSnap()
		if err != nil {
			return info, fmt.Errorf("step %d after %v (returned %v): %v", step, h, hbErr, err)
		}
		K1, err := f.kvDump()
		if err != nil {
			return info, err
		}
		pre := fmt.Sprintf("step %d heartbeat %v", step, h)

		if why != "" {
			// stale => error and nothing changes
			if hbErr == nil {
				return info, fmt.Errorf("%s is stale (%s) against cached %v but was accepted", pre, why, witness)
			}
			if diff, ok := sameEntries(S0, S1); !ok {
				return info, fmt.Errorf("%s was rejected (%v) but the cache changed: %s", pre, hbErr, diff)
			}
			if !sameKV(K0, K1) {
				return info, fmt.Errorf("%s was rejected (%v) but storage changed", pre, hbErr)
			}
			rejected++
			cls.add("rejected-" + why)
			continue
		}
		// not stale by the statement's rule: the only other outcome is acceptance
		if hbErr != nil {
			return info, fmt.Errorf("%s is not stale against anything cached but was refused: %v", pre, hbErr)
		}
		old, hadOld := find(S0, h.ID)
		cur, ok := find(S1, h.ID)
		if !ok {
			return info, fmt.Errorf("%s accepted but id %d is not served", pre, h.ID)
		}
		if hadOld {
			if cur.ver < old.ver || cur.conf < old.conf {
				return info, fmt.Errorf("%s accepted: served epoch went back from %v to %v", pre, old, cur)
			}
			if h.Term > 0 && cur.term < old.term {
				return info, fmt.Errorf("%s accepted: served term went back from %v to %v", pre, old, cur)
			}
		}
		if cur.meta != wantMeta {
			return info, fmt.Errorf("%s accepted but the served meta is %s", pre, descMeta(cur.meta))
		}
		// displaced regions are gone at once, everything else is untouched
		want := map[uint64]entry{}
		nDisp := 0
		for _, e := range S0 {
			if e.id == h.ID {
				continue
			}
			if rangesOverlap(h.Start, h.End, e.start, e.end) {
				nDisp++
				continue
			}
			want[e.id] = e
		}
		for _, e := range S1 {
			if e.id == h.ID {
				continue
			}
			w, ok := want[e.id]
			if !ok {
				if _, was := find(S0, e.id); was {
					return info, fmt.Errorf("%s accepted but the overlapped region %v is still served", pre, e)
				}
				return info, fmt.Errorf("%s accepted and region %v appeared from nowhere", pre, e)
			}
			if w.ptr != e.ptr || w.meta != e.meta || w.term != e.term {
				return info, fmt.Errorf("%s accepted and changed the unrelated region %v to %v", pre, w, e)
			}
			delete(want, e.id)
		}
		for _, w := range want {
			return info, fmt.Errorf("%s accepted and the unrelated region %v vanished", pre, w)
		}
		// lookups serve it
		if r := f.rc.GetRegionByKey([]byte(h.Start)); r == nil || r.GetID() != h.ID {
			return info, fmt.Errorf("%s accepted but GetRegionByKey(%q) serves %v", pre, h.Start, r.GetMeta())
		}
		if r := f.rc.GetRegion(h.ID); r != cur.ptr {
			return info, fmt.Errorf("%s accepted but GetRegion(%d) differs from GetRegions", pre, h.ID)
		}
		// storage follows: one heartbeat at a time
		if err := f.storageMatchesCache(S1, K1); err != nil {
			return info, fmt.Errorf("%s accepted: %v", pre, err)
		}

		displacedN += nDisp
		if nDisp > 0 {
			cls.add("displaced")
			if nDisp > 1 {
				cls.add("displaced-several")
			}
		}
		switch {
		case !hadOld:
			if m, was := maxSeen[h.ID]; was && (h.Ver < m[0] || h.Conf < m[1]) {
				cls.add("reinserted-older")
			} else if was {
				cls.add("reinserted")
			} else {
				cls.add("accepted-new")
			}
		case cur.ptr == old.ptr:
			cls.add("accepted-nochange")
		case cur.start != old.start || cur.end != old.end:
			cls.add("accepted-range-change")
		case cur.ver == old.ver && cur.conf == old.conf:
			cls.add("accepted-same-epoch")
		default:
			cls.add("accepted-update")
		}
		m := maxSeen[h.ID]
		if cur.ver > m[0] {
			m[0] = cur.ver
		}
		if cur.conf > m[1] {
			m[1] = cur.conf
		}
		maxSeen[h.ID] = m
		S0, K0 = S1, K1
	}
	cls.into(&info)
	info.NonTrivial = s.splits+s.merges > 0 && rejected > 0 && displacedN > 0
	return info, nil
}
