package c06

// Deterministic probes of known findings (library-free, real code).

import (
	"fmt"
	"testing"

	"github.com/pingcap/kvproto/pkg/metapb"
	"github.com/tikv/pd/server/core"
	"pdverif/vkit"
)

// keyWarmLoad: loadRegions removes from storage, BY ID, whatever the callback returns. Over a
// non-empty cache CheckAndPutRegion returns the CACHED regions a loaded record displaces; when such
// a cached object is a stale version of id X, the record stored under X (another, live, possibly
// non-overlapping version) is removed and, being marked as removed, is not delivered either: X ends
// up neither cached nor stored.
//
// Real callers: Server.campaignLeader -> createRaftCluster -> RaftCluster.LoadClusterInfo ->
// Storage.LoadRegionsOnce(BasicCluster.CheckAndPutRegion). The BasicCluster outlives the leadership
// terms of a member; with pd-server.use-region-storage = false LoadRegionsOnce reads the default
// (etcd) storage at EVERY election, and a follower neither syncs regions (the syncer runs only with
// the region storage) nor drops its cache. So: A is leader and caches region 7 = [c,d) v3; B takes
// over and handles merges/splits: etcd now holds 5 = [b,d) v9 and 7 = [d,e) v6; A wins the next
// election and loads. (With the region storage, the default, LoadRegionsOnce loads once per process,
// practically always into an empty cache: not reachable that way.)
const keyWarmLoad = "C06/warm-load-deletes-live-record-of-displaced-cached-id"

func TestFinding_WarmLoadDeletesLiveRecord(t *testing.T) {
	f, err := newFixture(3, 0, rsNone)
	if err != nil {
		t.Logf("fixture: %v", err)
		return
	}
	defer f.close()
	region := func(id uint64, start, end string, ver uint64) *metapb.Region {
		return &metapb.Region{Id: id, StartKey: []byte(start), EndKey: []byte(end),
			RegionEpoch: &metapb.RegionEpoch{Version: ver, ConfVer: 1},
			Peers:       []*metapb.Peer{{Id: id*10 + 1, StoreId: 1}, {Id: id*10 + 2, StoreId: 2}, {Id: id*10 + 3, StoreId: 3}}}
	}
	// what this member cached during its earlier term
	old7 := region(7, "c", "d", 3)
	f.bc.PutRegion(core.NewRegionInfo(old7, old7.Peers[0]))
	// what the leader in between left in storage
	for _, r := range []*metapb.Region{region(5, "b", "d", 9), region(7, "d", "e", 6)} {
		if err := f.storage.SaveRegion(r); err != nil {
			t.Logf("save: %v", err)
			return
		}
	}
	// this member is elected again
	if err := f.restart(false); err != nil {
		t.Logf("LoadClusterInfo: %v", err)
		return
	}
	cached := f.rc.GetRegion(7)
	var m metapb.Region
	stored, err := f.storage.LoadRegion(7, &m)
	if err != nil {
		t.Logf("LoadRegion: %v", err)
		return
	}
	byKey := f.rc.GetRegionByKey([]byte("dd"))
	reproduced := cached == nil || !stored // before e3f29d5: cached (same page) but the record is gone; since then: neither
	desc := func(r *core.RegionInfo) string {
		if r == nil {
			return "nothing"
		}
		return fmt.Sprintf("{id=%d [%q,%q) v%d}", r.GetID(), r.GetStartKey(), r.GetEndKey(), r.GetRegionEpoch().GetVersion())
	}
	vkit.Finding(t, keyWarmLoad, reproduced,
		fmt.Sprintf("cache {7:[c,d) v3} (earlier term), default storage {5:[b,d) v9, 7:[d,e) v6}; after LoadClusterInfo on the same BasicCluster: GetRegion(7) = %s, key \"dd\" is served by %s, Storage.LoadRegion(7) found = %v (expected 7:[d,e) v6 cached and stored), region 5 cached = %s",
			desc(cached), desc(byKey), stored, desc(f.rc.GetRegion(5))))
}
