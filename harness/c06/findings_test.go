package c06

// Deterministic probes of known findings (library-free, real code).

import (
	"fmt"
	"testing"

	"github.com/pingcap/kvproto/pkg/metapb"
	"github.com/tikv/pd/server/core"
	"pdverif/vkit"
)

// keyWarmLoad: loadRegions removes from storage, BY ID, whatever the callback returns. Over a
// non-empty cache CheckAndPutRegion returns the CACHED regions a loaded record displaces; when such
// a cached object is a stale version of id X, the record stored under X (another, live, possibly
// non-overlapping version) is removed and, being marked as removed, is not delivered either: X ends
// up neither cached nor stored.
//
// Real callers: Server.campaignLeader -> createRaftCluster -> RaftCluster.LoadClusterInfo ->
// Storage.LoadRegionsOnce(BasicCluster.CheckAndPutRegion). The BasicCluster outlives the leadership
// terms of a member; with pd-server.use-region-storage = false LoadRegionsOnce reads the default
// (etcd) storage at EVERY election, and a follower neither syncs regions (the syncer runs only with
// the region storage) nor drops its cache. So: A is leader and caches region 7 = [c,d) v3; B takes
// over and handles merges/splits: etcd now holds 5 = [b,d) v9 and 7 = [d,e) v6; A wins the next
// election and loads. (With the region storage, the default, LoadRegionsOnce loads once per process,
// practically always into an empty cache: not reachable that way.)
const keyWarmLoad = "C06/warm-load-deletes-live-record-of-displaced-cached-id"

// keyBatchLeftover: with the region storage on (the default) Storage.DeleteRegion goes to the embedded
// LeveldbKV.Remove and does not look at RegionStorage.batchRegions, where SaveRegion buffers (written out
// by the 100th save, 3 s after the last save, or Close). A region saved and displaced within one flush
// window — heartbeats strictly one at a time — is written to leveldb by the next flush although it has
// left the cache: "displaced regions disappear ... from storage as well whenever heartbeats are handled
// one at a time" does not hold. A later load removes the leftover only if a stored region overlaps it
// with version >= its own; otherwise (the displacing region has moved on and the heartbeat of the
// successor was lost) a restarted PD serves the displaced region again.
const keyBatchLeftover = "C06/region-storage-delete-ignores-unflushed-save"

func TestFinding_RegionStorageDeleteIgnoresUnflushedSave(t *testing.T) {
	f, err := newFixture(3, 0, rsOn)
	if err != nil {
		t.Logf("fixture: %v", err)
		return
	}
	defer f.close()
	beat := func(id uint64, start, end string, ver uint64) error {
		h := &hb{ID: id, Start: start, End: end, Ver: ver, Conf: 1, Term: 1, SizeMB: 10, Keys: 10,
			Peers: []speer{{ID: id*10 + 1, Store: 1}, {ID: id*10 + 2, Store: 2}, {ID: id*10 + 3, Store: 3}}, Leader: id*10 + 1}
		return f.rc.VerifProcessRegionHeartbeat(h.region())
	}
	// region 1 = [a,m) and region 2 = [m,z) reported, then region 1 = [a,z) v2 (merge): all within one flush window
	e1, e2, e3 := beat(1, "a", "m", 1), beat(2, "m", "z", 1), beat(1, "a", "z", 2)
	servedBefore := f.rc.GetRegion(2) != nil
	_, before, _ := f.rawRegions()
	ferr := f.storage.Flush() // the flush timer fires
	keys, vals, _ := f.rawRegions()
	left := ""
	for i, k := range keys {
		if idOfKey(k) == 2 {
			left = descMeta(vals[i])
		}
	}
	// what a restarted pd serves when the successor's record is not there to outrank it: region 1 moves on to
	// [a,f) v3 (split, the heartbeat of the right half is lost), clean shutdown, restart
	e4 := beat(1, "a", "f", 3)
	rerr := f.reopen(false)
	if rerr == nil {
		rerr = f.restart(true)
	}
	again := "nothing"
	if r := f.rc.GetRegion(2); r != nil {
		again = fmt.Sprintf("{id=2 [%q,%q) v%d}", r.GetStartKey(), r.GetEndKey(), r.GetRegionEpoch().GetVersion())
	}
	vkit.Finding(t, keyBatchLeftover, left != "",
		fmt.Sprintf("region storage on; sequential heartbeats 1:[a,m) v1, 2:[m,z) v1, 1:[a,z) v2 (errors %v %v %v); region 2 still cached = %v; leveldb before the flush holds %d records; Storage.Flush() = %v; afterwards leveldb holds %d records, record of the displaced region 2: %q (expected none); then 1:[a,f) v3 (%v), Storage.Close, restart (%v): region 2 served again = %s",
			e1, e2, e3, servedBefore, len(before), ferr, len(keys), left, e4, rerr, again))
}

func TestFinding_WarmLoadDeletesLiveRecord(t *testing.T) {
	f, err := newFixture(3, 0, rsNone)
	if err != nil {
		t.Logf("fixture: %v", err)
		return
	}
	defer f.close()
	region := func(id uint64, start, end string, ver uint64) *metapb.Region {
		return &metapb.Region{Id: id, StartKey: []byte(start), EndKey: []byte(end),
			RegionEpoch: &metapb.RegionEpoch{Version: ver, ConfVer: 1},
			Peers:       []*metapb.Peer{{Id: id*10 + 1, StoreId: 1}, {Id: id*10 + 2, StoreId: 2}, {Id: id*10 + 3, StoreId: 3}}}
	}
	// what this member cached during its earlier term
	old7 := region(7, "c", "d", 3)
	f.bc.PutRegion(core.NewRegionInfo(old7, old7.Peers[0]))
	// what the leader in between left in storage
	for _, r := range []*metapb.Region{region(5, "b", "d", 9), region(7, "d", "e", 6)} {
		if err := f.storage.SaveRegion(r); err != nil {
			t.Logf("save: %v", err)
			return
		}
	}
	// this member is elected again
	if err := f.restart(false); err != nil {
		t.Logf("LoadClusterInfo: %v", err)
		return
	}
	cached := f.rc.GetRegion(7)
	var m metapb.Region
	stored, err := f.storage.LoadRegion(7, &m)
	if err != nil {
		t.Logf("LoadRegion: %v", err)
		return
	}
	byKey := f.rc.GetRegionByKey([]byte("dd"))
	reproduced := cached == nil || !stored // before e3f29d5: cached (same page) but the record is gone; since then: neither
	desc := func(r *core.RegionInfo) string {
		if r == nil {
			return "nothing"
		}
		return fmt.Sprintf("{id=%d [%q,%q) v%d}", r.GetID(), r.GetStartKey(), r.GetEndKey(), r.GetRegionEpoch().GetVersion())
	}
	vkit.Finding(t, keyWarmLoad, reproduced,
		fmt.Sprintf("cache {7:[c,d) v3} (earlier term), default storage {5:[b,d) v9, 7:[d,e) v6}; after LoadClusterInfo on the same BasicCluster: GetRegion(7) = %s, key \"dd\" is served by %s, Storage.LoadRegion(7) found = %v (expected 7:[d,e) v6 cached and stored), region 5 cached = %s",
			desc(cached), desc(byKey), stored, desc(f.rc.GetRegion(5))))
}
