package c06

// Property "forward" of C06: the rejection rule on the wire, on both routes a store can
// take to the PD leader.
//
// ONE live 2-member cluster per process (tests.NewTestCluster, Local TSO off), bootstrapped
// once. A case is a ground-truth history of the simulator with its delivered stream (fresh,
// duplicate, reordered = stale by version / conf_ver / term, fabricated uconf / uterm / uver /
// uover / eqver) plus a mask of stores: every store owns ONE gRPC RegionHeartbeat stream, as a
// TiKV does — direct to the PD leader, or, for the stores of the mask, to the FOLLOWER with the
// forwarded-host metadata (grpcutil.BuildForwardContext; what a store partitioned from the
// leader does; the follower relays requests and answers). A heartbeat travels on the stream
// of its leader peer's store. Cases share the cluster: each one lives in its own key range
// ("c<n>/" prefix) and id range, so what earlier cases left behind overlaps nothing.
//
// Heartbeats are handled one at a time. After every heartbeat a sentinel heartbeat (a private
// region of that stream, version + 1) is sent on the same stream and the harness polls the
// leader (GetRegionByID, direct connection) until the sentinel is served: streams are ordered
// and a stream is handled by one goroutine, so by then the heartbeat has been handled.
//
// Oracle per heartbeat, on either route:
//
//	R1  statement rule (staleWhy, the same as seq): stale  => an answer whose header carries an
//	    error reaches the SENDER on the stream it used within fwdAnswerWait after the sentinel
//	    was served, and nothing changes (GetRegionByID of the id and of the witness read back);
//	R2  not stale => no error answer arrives, the leader serves exactly the reported meta and
//	    leader for the id, and every overlapped region of another id is gone;
//	R3  per stream: error answers received == rejected heartbeats sent (also at the end of the
//	    case, after a grace period); a stream is never terminated by the server;
//	R4  at the end ScanRegions over the case's key range on the leader == the model.
//
// Inconclusive, never a violation: the cluster does not start, an RPC fails / times out, the
// leader changes, a sentinel is not served within fwdSentinelWait (the machine is slow).
//
// The very first rejected heartbeat of a stream may be retried once: HeartbeatStreams.run
// takes the binding of a new stream and the first answer from two channels in one select; if
// both are pending the answer can be handled before the binding and goes to the store's
// previous stream. Every stream therefore starts with a sentinel, and only while no error
// answer has arrived on a stream yet a missing answer is retried (same heartbeat again, still
// stale) before it is reported; a missing answer on the retry, or at any later time, is a
// violation.
//
// Notes: every embedded etcd maps 10 GB of address space and the driver limits a shard to
// 24 GB: the per-process etcd of the encrypted seq/conc cases is closed before the cluster
// starts, so this property must stay the LAST registered one (init order = file name order,
// c06_test.go registers seq and conc). Real clock and scheduler.

import (
	"context"
	"fmt"
	"os"
	"path/filepath"
	"sort"
	"strings"
	"sync"
	"testing"
	"time"

	"github.com/gogo/protobuf/proto"
	"github.com/pingcap/kvproto/pkg/metapb"
	"github.com/pingcap/kvproto/pkg/pdpb"
	"github.com/tikv/pd/pkg/grpcutil"
	"github.com/tikv/pd/server/config"
	"github.com/tikv/pd/tests"
	"google.golang.org/grpc"
	"google.golang.org/grpc/codes"
	"google.golang.org/grpc/status"
	"pdverif/vkit"
	"pdverif/vkit/etcdfix"
	"pgregory.net/rapid"
)

func init() {
	vkit.Register("forward", vkit.N{Quick: 24, Thorough: 640}, genForward, runForward)
}

// TestPropZZForwardShutdown runs after TestProp (the driver selects ^TestProp): stops the cluster.
func TestPropZZForwardShutdown(t *testing.T) { fwdClose() }

const (
	fwdStores       = 6
	fwdRPCTimeout   = 5 * time.Second
	fwdSentinelWait = 15 * time.Second       // a sentinel not served by then: the cluster is slow, inconclusive
	fwdAnswerWait   = 3 * time.Second        // an error answer is due this long after the sentinel behind it was served
	fwdGrace        = 150 * time.Millisecond // end of case: late answers
	fwdIDSpan       = 100000                 // ids of case n: n*fwdIDSpan + simulator id
	fwdFreshOff     = 50000                  // fabricated regions
	fwdSentinelOff  = 90000                  // sentinel regions (+ store), their peers (+ 10 + store)
)

type FwdCase struct {
	Case
	Mask int `json:"mask"` // bit s-1: store s reaches the leader only through the follower
}

func genForward(t *rapid.T) FwdCase {
	c := FwdCase{Case: genBase(t, 6, 30, 0)}
	c.Enc, c.RS = 0, 0
	c.Mask = rapid.IntRange(1, 1<<uint(c.Stores)-1).Draw(t, "forwardedStores")
	return c
}

// ---------------------------------------------------------------- cluster

type fwdCluster struct {
	cancel     context.CancelFunc
	ctx        context.Context
	cluster    *tests.TestCluster
	leaderName string
	leaderAddr string
	cid        uint64
	lconn      *grpc.ClientConn
	fconn      *grpc.ClientConn
	lcli       pdpb.PDClient
	fcli       pdpb.PDClient
	caseNo     uint64
}

var (
	fwdMu     sync.Mutex
	fwdCur    *fwdCluster
	fwdFailed bool
)

func fwdWithin(d time.Duration, f func()) bool {
	done := make(chan struct{})
	go func() {
		defer func() { recover() }()
		f()
		close(done)
	}()
	select {
	case <-done:
		return true
	case <-time.After(d):
		return false
	}
}

func fwdClose() {
	fwdMu.Lock()
	defer fwdMu.Unlock()
	if fwdCur == nil {
		return
	}
	x := fwdCur
	fwdCur = nil
	x.lconn.Close()
	x.fconn.Close()
	var dirs []string
	for _, s := range x.cluster.GetServers() {
		dirs = append(dirs, s.GetConfig().DataDir)
	}
	// runs right before the process exits: stopping the members gracefully takes ~10 s and
	// buys nothing, only the data directories have to go
	x.cancel()
	for _, d := range dirs {
		os.RemoveAll(d)
	}
}

func (x *fwdCluster) header() *pdpb.RequestHeader { return &pdpb.RequestHeader{ClusterId: x.cid} }

func fwdDial(addr string) (*grpc.ClientConn, error) {
	ctx, cancel := context.WithTimeout(context.Background(), fwdRPCTimeout)
	defer cancel()
	return grpc.DialContext(ctx, strings.TrimPrefix(addr, "http://"), grpc.WithInsecure(), grpc.WithBlock())
}

// fwdGet returns the running, bootstrapped cluster or nil (inconclusive).
func fwdGet() *fwdCluster {
	fwdMu.Lock()
	defer fwdMu.Unlock()
	if fwdCur != nil || fwdFailed {
		return fwdCur
	}
	// the other properties of this package are done: give the address space of their etcd back
	etcdfix.Close()
	ctx, cancel := context.WithCancel(context.Background())
	var cl *tests.TestCluster
	var err error
	ok := fwdWithin(90*time.Second, func() {
		cl, err = tests.NewTestCluster(ctx, 2, func(conf *config.Config, name string) {
			conf.EnableLocalTSO = false
			conf.Log.Level = "error"
			// the members' data below this process' own directory (swept when a shard is killed)
			if base, err := rsBaseDir(); err == nil {
				os.Remove(conf.DataDir)
				conf.DataDir = filepath.Join(base, "fwd-"+name)
			}
		})
		if err == nil {
			err = cl.RunInitialServers()
		}
	})
	fail := func(why string, a ...interface{}) *fwdCluster {
		fmt.Printf("C06 forward: %s\n", fmt.Sprintf(why, a...))
		fwdFailed = true
		if cl != nil && ok {
			var dirs []string
			for _, s := range cl.GetServers() {
				dirs = append(dirs, s.GetConfig().DataDir)
			}
			fwdWithin(30*time.Second, func() { cl.Destroy() })
			for _, d := range dirs {
				os.RemoveAll(d)
			}
		}
		cancel()
		return nil
	}
	if !ok || err != nil || cl == nil {
		return fail("the cluster did not start: ok=%v err=%v", ok, err)
	}
	x := &fwdCluster{cancel: cancel, ctx: ctx, cluster: cl}
	deadline := time.Now().Add(60 * time.Second)
	for x.leaderName == "" && time.Now().Before(deadline) {
		x.leaderName = cl.WaitLeader(tests.WithRetryTimes(1), tests.WithWaitInterval(50*time.Millisecond))
		if x.leaderName == "" {
			time.Sleep(100 * time.Millisecond)
		}
	}
	if x.leaderName == "" {
		return fail("no PD leader in time")
	}
	ls := cl.GetServer(x.leaderName)
	var fs *tests.TestServer
	for name, s := range cl.GetServers() {
		if name != x.leaderName {
			fs = s
		}
	}
	if ls == nil || fs == nil {
		return fail("no follower")
	}
	x.leaderAddr, x.cid = ls.GetAddr(), ls.GetClusterID()
	if x.lconn, err = fwdDial(ls.GetAddr()); err != nil {
		return fail("dial leader: %v", err)
	}
	if x.fconn, err = fwdDial(fs.GetAddr()); err != nil {
		x.lconn.Close()
		return fail("dial follower: %v", err)
	}
	x.lcli, x.fcli = pdpb.NewPDClient(x.lconn), pdpb.NewPDClient(x.fconn)
	if err := x.bootstrap(); err != nil {
		x.lconn.Close()
		x.fconn.Close()
		return fail("bootstrap: %v", err)
	}
	fwdCur = x
	return x
}

// bootstrap: store 1 and the first region through the leader, the other stores, then the first
// region (it must cover the whole key space at bootstrap) is shrunk to ["", "b"), below every case.
func (x *fwdCluster) bootstrap() error {
	store := func(id uint64) *metapb.Store {
		return &metapb.Store{Id: id, Address: fmt.Sprintf("127.0.0.1:%d", 20160+id), Version: "4.0.0"}
	}
	first := &metapb.Region{Id: 2, Peers: []*metapb.Peer{{Id: 3, StoreId: 1}}, RegionEpoch: &metapb.RegionEpoch{ConfVer: 1, Version: 1}}
	ctx, cancel := context.WithTimeout(x.ctx, 30*time.Second)
	defer cancel()
	resp, err := x.lcli.Bootstrap(ctx, &pdpb.BootstrapRequest{Header: x.header(), Store: store(1), Region: first})
	if err != nil {
		return err
	}
	if e := resp.GetHeader().GetError(); e != nil {
		return fmt.Errorf("%v", e)
	}
	for id := uint64(2); id <= fwdStores; id++ {
		resp, err := x.lcli.PutStore(ctx, &pdpb.PutStoreRequest{Header: x.header(), Store: store(id)})
		if err != nil {
			return err
		}
		if e := resp.GetHeader().GetError(); e != nil {
			return fmt.Errorf("put store %d: %v", id, e)
		}
	}
	sctx, scancel := context.WithCancel(x.ctx)
	defer scancel()
	stream, err := x.lcli.RegionHeartbeat(sctx)
	if err != nil {
		return err
	}
	shrunk := &metapb.Region{Id: 2, EndKey: []byte("b"), Peers: first.Peers, RegionEpoch: &metapb.RegionEpoch{ConfVer: 1, Version: 2}}
	if err := stream.Send(&pdpb.RegionHeartbeatRequest{Header: x.header(), Region: shrunk, Leader: first.Peers[0], Term: 1}); err != nil {
		return err
	}
	deadline := time.Now().Add(fwdSentinelWait)
	for time.Now().Before(deadline) {
		r, err := x.lcli.GetRegionByID(ctx, &pdpb.GetRegionByIDRequest{Header: x.header(), RegionId: 2})
		if err != nil {
			return err
		}
		if r.GetRegion().GetRegionEpoch().GetVersion() == 2 {
			stream.CloseSend()
			return nil
		}
		time.Sleep(5 * time.Millisecond)
	}
	return fmt.Errorf("the shrunk first region is not served")
}

// ---------------------------------------------------------------- one case

// errSlow marks an execution that could not be decided.
type errSlow struct{ why string }

func (e errSlow) Error() string { return e.why }

func slow(format string, a ...interface{}) error { return errSlow{fmt.Sprintf(format, a...)} }

// rpcErr classifies a failed RPC: transport trouble / time-outs cannot decide anything.
func rpcErr(what string, err error) error {
	switch status.Code(err) {
	case codes.Unavailable, codes.DeadlineExceeded, codes.Canceled, codes.ResourceExhausted, codes.Aborted:
		return slow("%s: %v", what, err)
	}
	return fmt.Errorf("%s failed: %v", what, err)
}

type fwdStream struct {
	store   uint64
	fwd     bool
	stream  pdpb.PD_RegionHeartbeatClient
	cancel  context.CancelFunc
	mu      sync.Mutex
	errs    []string // messages of the error answers received
	others  int      // other answers (operator pushes, keepalives)
	recvErr error
	done    chan struct{}
	sentVer uint64 // version of the sentinel region
	wantErr int    // rejected heartbeats sent
}

func (s *fwdStream) route() string {
	if s.fwd {
		return fmt.Sprintf("store %d's stream through the follower", s.store)
	}
	return fmt.Sprintf("store %d's direct stream", s.store)
}

func (s *fwdStream) snapshot() (errs int, last string, recvErr error) {
	s.mu.Lock()
	defer s.mu.Unlock()
	if len(s.errs) > 0 {
		last = s.errs[len(s.errs)-1]
	}
	return len(s.errs), last, s.recvErr
}

func (s *fwdStream) close() {
	s.stream.CloseSend()
	s.cancel()
	select {
	case <-s.done:
	case <-time.After(2 * time.Second):
	}
}

type fwdRun struct {
	x       *fwdCluster
	base    uint64
	prefix  string
	streams map[uint64]*fwdStream
	mask    int
	cls     *classSet
}

func (r *fwdRun) key(k string, end bool) []byte {
	if end && k == "" {
		return []byte(r.prefix + "{") // above every simulator key (a-g)
	}
	return []byte(r.prefix + k)
}

// request maps a simulator heartbeat into the case's key and id range.
func (r *fwdRun) request(h *hb) *pdpb.RegionHeartbeatRequest {
	m := &metapb.Region{Id: r.base + h.ID, StartKey: r.key(h.Start, false), EndKey: r.key(h.End, true),
		RegionEpoch: &metapb.RegionEpoch{Version: h.Ver, ConfVer: h.Conf}}
	peer := func(p speer) *metapb.Peer {
		mp := &metapb.Peer{Id: r.base + p.ID, StoreId: p.Store}
		if p.Learner {
			mp.Role = metapb.PeerRole_Learner
		}
		return mp
	}
	req := &pdpb.RegionHeartbeatRequest{Header: r.x.header(), Region: m, Term: h.Term,
		ApproximateSize: h.SizeMB << 20, ApproximateKeys: h.Keys, BytesWritten: h.Written, KeysWritten: h.Written / 64,
		Interval: &pdpb.TimeInterval{StartTimestamp: 1000, EndTimestamp: 1060}}
	for _, p := range h.Peers {
		mp := peer(p)
		m.Peers = append(m.Peers, mp)
		if p.ID == h.Leader {
			req.Leader = mp
		}
	}
	for _, id := range h.Pending {
		if p := h.peerByID(id); p != nil {
			req.PendingPeers = append(req.PendingPeers, peer(*p))
		}
	}
	for _, id := range h.Down {
		if p := h.peerByID(id); p != nil {
			req.DownPeers = append(req.DownPeers, &pdpb.PeerStats{Peer: peer(*p), DownSeconds: 400})
		}
	}
	return req
}

func (r *fwdRun) sentinelID(store uint64) uint64 { return r.base + fwdSentinelOff + store }

func (r *fwdRun) sentinelReq(s *fwdStream) *pdpb.RegionHeartbeatRequest {
	p := &metapb.Peer{Id: r.base + fwdSentinelOff + 10 + s.store, StoreId: s.store}
	k := fmt.Sprintf("%s|%d", r.prefix, s.store) // '|' > '{': above the case's regions, below the next case
	return &pdpb.RegionHeartbeatRequest{Header: r.x.header(), Leader: p, Term: 1,
		Region: &metapb.Region{Id: r.sentinelID(s.store), StartKey: []byte(k), EndKey: []byte(k + "~"),
			Peers: []*metapb.Peer{p}, RegionEpoch: &metapb.RegionEpoch{ConfVer: 1, Version: s.sentVer}},
		Interval: &pdpb.TimeInterval{StartTimestamp: 1000, EndTimestamp: 1060}}
}

func (r *fwdRun) getByID(id uint64) (*pdpb.GetRegionResponse, error) {
	ctx, cancel := context.WithTimeout(r.x.ctx, fwdRPCTimeout)
	defer cancel()
	resp, err := r.x.lcli.GetRegionByID(ctx, &pdpb.GetRegionByIDRequest{Header: r.x.header(), RegionId: id})
	if err != nil {
		return nil, rpcErr("GetRegionByID on the leader", err)
	}
	if e := resp.GetHeader().GetError(); e != nil {
		return nil, slow("GetRegionByID on the leader: %v", e)
	}
	return resp, nil
}

func (r *fwdRun) send(s *fwdStream, req *pdpb.RegionHeartbeatRequest) error {
	if err := s.stream.Send(req); err != nil {
		if _, _, rerr := s.snapshot(); rerr != nil {
			return r.streamEnded(s, rerr)
		}
		return rpcErr("Send on "+s.route(), err)
	}
	return nil
}

// streamEnded: the receiver saw the stream end while the case was running.
func (r *fwdRun) streamEnded(s *fwdStream, err error) error {
	switch status.Code(err) {
	case codes.Unavailable, codes.DeadlineExceeded, codes.Canceled, codes.ResourceExhausted, codes.Aborted:
		return slow("%s broke: %v", s.route(), err)
	}
	return fmt.Errorf("%s was terminated by the server: %v", s.route(), err)
}

// sentinel sends the stream's sentinel heartbeat and waits until the leader serves it:
// everything sent on the stream before has been handled then.
func (r *fwdRun) sentinel(s *fwdStream) error {
	s.sentVer++
	if err := r.send(s, r.sentinelReq(s)); err != nil {
		return err
	}
	deadline := time.Now().Add(fwdSentinelWait)
	for wait := 200 * time.Microsecond; ; {
		resp, err := r.getByID(r.sentinelID(s.store))
		if err != nil {
			return err
		}
		if resp.GetRegion().GetRegionEpoch().GetVersion() == s.sentVer {
			return nil
		}
		if _, _, rerr := s.snapshot(); rerr != nil {
			return r.streamEnded(s, rerr)
		}
		if time.Now().After(deadline) {
			return slow("the sentinel heartbeat on %s was not served within %v", s.route(), fwdSentinelWait)
		}
		time.Sleep(wait)
		if wait < 20*time.Millisecond {
			wait *= 2
		}
	}
}

func (r *fwdRun) open(store uint64) (*fwdStream, error) {
	if s, ok := r.streams[store]; ok {
		return s, nil
	}
	s := &fwdStream{store: store, fwd: r.mask&(1<<(store-1)) != 0, done: make(chan struct{})}
	ctx, cancel := context.WithCancel(r.x.ctx)
	s.cancel = cancel
	var err error
	if s.fwd {
		s.stream, err = r.x.fcli.RegionHeartbeat(grpcutil.BuildForwardContext(ctx, r.x.leaderAddr))
	} else {
		s.stream, err = r.x.lcli.RegionHeartbeat(ctx)
	}
	if err != nil {
		cancel()
		return nil, rpcErr("opening "+s.route(), err)
	}
	go func() {
		defer close(s.done)
		for {
			resp, err := s.stream.Recv()
			s.mu.Lock()
			if err != nil {
				s.recvErr = err
				s.mu.Unlock()
				return
			}
			if e := resp.GetHeader().GetError(); e != nil {
				s.errs = append(s.errs, e.GetMessage())
			} else {
				s.others++
			}
			s.mu.Unlock()
		}
	}()
	r.streams[store] = s
	if s.fwd {
		r.cls.add("stream-forwarded")
	} else {
		r.cls.add("stream-direct")
	}
	// the first request binds the stream to the store; it is not one that needs an answer
	return s, r.sentinel(s)
}

// awaitErrs waits until the stream has received want error answers.
func (s *fwdStream) awaitErrs(want int, d time.Duration) (got int, last string) {
	deadline := time.Now().Add(d)
	for wait := 100 * time.Microsecond; ; {
		got, last, _ = s.snapshot()
		if got >= want || time.Now().After(deadline) {
			return got, last
		}
		time.Sleep(wait)
		if wait < 10*time.Millisecond {
			wait *= 2
		}
	}
}

// served reads one id back from the leader and compares it with the model (nil = not served).
func (r *fwdRun) served(simID uint64, want *hb) error {
	resp, err := r.getByID(r.base + simID)
	if err != nil {
		return err
	}
	got := resp.GetRegion()
	if want == nil {
		if got != nil {
			return fmt.Errorf("the leader serves %s for id %d, expected nothing", r.desc(got), simID)
		}
		return nil
	}
	req := r.request(want)
	if got == nil {
		return fmt.Errorf("the leader serves nothing for id %d, expected %v", simID, want)
	}
	if !proto.Equal(got, req.Region) {
		return fmt.Errorf("the leader serves %s for id %d, expected %v", r.desc(got), simID, want)
	}
	return nil
}

func (r *fwdRun) desc(m *metapb.Region) string {
	return fmt.Sprintf("{id=%d [%q,%q) v%d c%d peers=%d}", m.GetId()-r.base, strings.TrimPrefix(string(m.GetStartKey()), r.prefix),
		strings.TrimPrefix(string(m.GetEndKey()), r.prefix), m.GetRegionEpoch().GetVersion(), m.GetRegionEpoch().GetConfVer(), len(m.GetPeers()))
}

func runForward(c FwdCase) (vkit.Info, error) {
	var info vkit.Info
	var cls classSet
	err := runForwardCase(c, &info, &cls)
	if es, ok := err.(errSlow); ok {
		fmt.Printf("C06 forward: inconclusive: %s\n", es.why)
		return vkit.Info{Inconclusive: true}, nil
	}
	if err != nil {
		return info, err
	}
	cls.into(&info)
	return info, nil
}

func runForwardCase(c FwdCase, info *vkit.Info, cls *classSet) error {
	x := fwdGet()
	if x == nil {
		return slow("no cluster")
	}
	if name := x.cluster.GetLeader(); name != x.leaderName {
		return slow("the PD leader changed (%s -> %q)", x.leaderName, name)
	}
	stores := c.Stores
	if stores < 3 {
		stores = 3
	}
	if stores > fwdStores {
		stores = fwdStores
	}
	s := simulate(stores, c.Collide, c.Events)
	x.caseNo++
	r := &fwdRun{x: x, base: x.caseNo * fwdIDSpan, prefix: fmt.Sprintf("c%08d/", x.caseNo), streams: map[uint64]*fwdStream{}, mask: c.Mask, cls: cls}
	defer func() {
		for _, st := range r.streams {
			st.close()
		}
	}()

	model := map[uint64]*hb{} // served regions, by simulator id
	// The term the leader keeps for a served region is not on the wire and is not the last accepted
	// one (a heartbeat that differs from the served region in nothing but its term is accepted without
	// replacing it): like seq, the rule is evaluated against the served term, read in process.
	terms := map[uint64]uint64{}
	ls := x.cluster.GetServer(x.leaderName)
	cachedOf := func() []entry {
		es := make([]entry, 0, len(model))
		for _, h := range model {
			es = append(es, entry{id: h.ID, start: h.Start, end: h.End, ver: h.Ver, conf: h.Conf, term: terms[h.ID], meta: h.metaBytes()})
		}
		sortEntries(es)
		return es
	}
	fresh := uint64(fwdFreshOff)
	rejFwd, accFwd, rejDirect, accDirect := 0, 0, 0, 0

	for step, d := range c.Dels {
		cached := cachedOf()
		var h *hb
		if d.K == "snap" {
			h = s.snaps[mod(d.I, len(s.snaps))].clone()
		} else if len(cached) > 0 {
			i := mod(d.I, len(cached))
			b := model[cached[i].id].clone()
			b.Kind, b.Src, b.Term = d.K, i, cached[i].term
			h = fabricate(d, cached, i, b, func() uint64 { fresh++; return fresh })
		}
		if h == nil {
			cls.add("fabricated-not-applicable")
			continue
		}
		if c.NoTerm {
			h.Term = 0
		}
		store := h.leaderStore()
		if store == 0 || store > fwdStores {
			cls.add("no-leader-store")
			continue
		}
		why, witness := staleWhy(h, cached)
		switch h.Kind {
		case "uconf", "uterm", "uver", "uover", "vupcdn", "cupvdn":
			if why == "" {
				return fmt.Errorf("harness: fabricated %v is not stale", h)
			}
		case "eqver", "grow":
			if why != "" {
				return fmt.Errorf("harness: fabricated %v is stale (%s)", h, why)
			}
		}
		st, err := r.open(store)
		if err != nil {
			return err
		}
		pre := fmt.Sprintf("step %d heartbeat %v on %s", step, h, st.route())
		cls.add("deliver-" + h.Kind)

		if err := r.send(st, r.request(h)); err != nil {
			return err
		}
		if err := r.sentinel(st); err != nil {
			return err
		}

		if why != "" {
			// R1: answered with an error, on this stream ...
			st.wantErr++
			got, last := st.awaitErrs(st.wantErr, fwdAnswerWait)
			if got < st.wantErr && got == 0 && st.wantErr == 1 {
				// nothing has ever been answered on this stream: the binding may have lost the race (see the file comment)
				cls.add("first-answer-of-stream-retried")
				if err := r.send(st, r.request(h)); err != nil {
					return err
				}
				if err := r.sentinel(st); err != nil {
					return err
				}
				got, last = st.awaitErrs(st.wantErr, fwdAnswerWait)
			}
			if got < st.wantErr {
				return fmt.Errorf("%s is stale (%s) against served %v; a later heartbeat on the same stream has been handled, yet no error answer reached the sender within %v (error answers received on this stream so far: %d, rejected heartbeats sent: %d)", pre, why, witness, fwdAnswerWait, got, st.wantErr)
			}
			if got > st.wantErr {
				return fmt.Errorf("%s: %d error answers arrived on this stream for %d rejected heartbeats, last: %s", pre, got, st.wantErr, last)
			}
			// ... and nothing changes
			if err := r.served(h.ID, model[h.ID]); err != nil {
				return wrapSlow(err, "%s is stale (%s) and was answered with an error (%s), but: %v", pre, why, last, err)
			}
			if witness.id != h.ID {
				if err := r.served(witness.id, model[witness.id]); err != nil {
					return wrapSlow(err, "%s is stale (%s) and was answered with an error, but: %v", pre, why, err)
				}
			}
			cls.add("rejected-" + why)
			if st.fwd {
				rejFwd++
				cls.add("rejected-answer-relayed-by-follower")
			} else {
				rejDirect++
			}
			continue
		}

		// R2: accepted
		var displaced []uint64
		for _, e := range cached {
			if e.id != h.ID && rangesOverlap(h.Start, h.End, e.start, e.end) {
				displaced = append(displaced, e.id)
			}
		}
		if got, last, _ := st.snapshot(); got > st.wantErr {
			return fmt.Errorf("%s is not stale against anything served but was answered with an error: %s", pre, last)
		}
		if err := r.served(h.ID, h); err != nil {
			if got, last := st.awaitErrs(st.wantErr+1, fwdGrace); got > st.wantErr {
				return fmt.Errorf("%s is not stale against anything served but was answered with an error: %s", pre, last)
			}
			return wrapSlow(err, "%s is not stale and has been handled, but: %v", pre, err)
		}
		resp, err := r.getByID(r.base + h.ID)
		if err != nil {
			return err
		}
		if resp.GetLeader().GetId() != r.base+h.Leader {
			return fmt.Errorf("%s accepted, but the leader serves peer %d as its leader, expected %d", pre, resp.GetLeader().GetId()-r.base, h.Leader)
		}
		ri := ls.GetRegionInfoByID(r.base + h.ID)
		if ri == nil {
			return fmt.Errorf("%s accepted, but the leader's cache does not hold id %d", pre, h.ID)
		}
		if t := ri.GetTerm(); t != h.Term && t != terms[h.ID] || (h.Term > 0 && t < terms[h.ID]) {
			return fmt.Errorf("%s accepted: the served term is %d, before it was %d", pre, t, terms[h.ID])
		}
		terms[h.ID] = ri.GetTerm()
		for _, id := range displaced {
			if err := r.served(id, nil); err != nil {
				return wrapSlow(err, "%s accepted and displaces id %d, but: %v", pre, id, err)
			}
			delete(model, id)
			delete(terms, id)
		}
		if len(displaced) > 0 {
			cls.add("displaced")
		}
		if _, had := model[h.ID]; had {
			cls.add("accepted-update")
		} else {
			cls.add("accepted-new")
		}
		model[h.ID] = h
		if st.fwd {
			accFwd++
		} else {
			accDirect++
		}
	}

	// R3: no stray or late error answers
	time.Sleep(fwdGrace)
	ids := make([]int, 0, len(r.streams))
	for id := range r.streams {
		ids = append(ids, int(id))
	}
	sort.Ints(ids)
	for _, id := range ids {
		st := r.streams[uint64(id)]
		got, last, rerr := st.snapshot()
		if rerr != nil {
			return r.streamEnded(st, rerr)
		}
		if got != st.wantErr {
			return fmt.Errorf("end of case: %d error answers arrived on %s for %d rejected heartbeats, last: %s", got, st.route(), st.wantErr, last)
		}
	}
	// R4: the served set of the case's key range
	ctx, cancel := context.WithTimeout(x.ctx, fwdRPCTimeout)
	defer cancel()
	scan, err := x.lcli.ScanRegions(ctx, &pdpb.ScanRegionsRequest{Header: x.header(), StartKey: []byte(r.prefix), EndKey: []byte(r.prefix + "{")})
	if err != nil {
		return rpcErr("ScanRegions on the leader", err)
	}
	cached := cachedOf()
	if len(scan.GetRegions()) != len(cached) {
		return fmt.Errorf("end of case: the leader serves %d regions in the case's key range, the model has %d", len(scan.GetRegions()), len(cached))
	}
	for i, g := range scan.GetRegions() {
		want := r.request(model[cached[i].id])
		if !proto.Equal(g.GetRegion(), want.Region) {
			return fmt.Errorf("end of case: the leader serves %s at position %d, the model has %v", r.desc(g.GetRegion()), i, model[cached[i].id])
		}
	}
	if name := x.cluster.GetLeader(); name != x.leaderName {
		return slow("the PD leader changed (%s -> %q)", x.leaderName, name)
	}
	if rejDirect > 0 && accDirect > 0 {
		cls.add("direct-accepted-and-rejected")
	}
	info.NonTrivial = rejFwd > 0 && accFwd > 0
	return nil
}

// wrapSlow keeps an undecidable read-back undecidable, otherwise formats the violation.
func wrapSlow(err error, format string, a ...interface{}) error {
	if _, ok := err.(errSlow); ok {
		return err
	}
	return fmt.Errorf(format, a...)
}
