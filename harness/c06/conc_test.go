package c06

// Concurrent mode. The code under test is schedule dependent, so the oracle states
// only facts that hold for every interleaving of a round (S0 = served set at the
// quiescent point before the round, S1 = after; "accepted" = returned nil):
//
//	C1  refused  => it is stale against a region of S0 or against an accepted heartbeat of the round
//	C2  accepted => S1 serves that id with epoch >= the heartbeat's, unless an accepted heartbeat of
//	              another id with version >= its version overlaps it (displaced)
//	C3  id in S0 => S1 serves it with epoch/term >= S0's, unless displaced likewise
//	C4  stale against a region of S0 that nothing else in the round touches => refused
//	C5  S1 has no overlaps, id map == range tree, every region of S1 is S0's or an accepted heartbeat
//	P   every snapshot a poller sees has no overlap; between two snapshots of one poller no id goes
//	    back in version / conf_ver / term unless some accepted heartbeat of the case could displace it
//
// Storage is not examined: the statement claims it only for one-at-a-time handling. Only
// the routing is (rs_test.go): the backend that the configuration does not name for
// regions holds no region record at the end.

import (
	"fmt"
	"runtime"
	"sync"
	"sync/atomic"
	"time"

	"github.com/tikv/pd/server/core"
	"pdverif/vkit"
)

type delivered struct {
	h   *hb
	err error
}

type rng struct{ start, end string }

// displacerExists: is there an accepted heartbeat of another id, version >= minVer,
// overlapping base or any accepted range of id (with version >= minVer)?
func displacerExists(acc []*hb, id uint64, minVer uint64, base ...rng) bool {
	ranges := append([]rng(nil), base...)
	for _, a := range acc {
		if a.ID == id && a.Ver >= minVer {
			ranges = append(ranges, rng{a.Start, a.End})
		}
	}
	for _, a := range acc {
		if a.ID == id || a.Ver < minVer {
			continue
		}
		for _, r := range ranges {
			if rangesOverlap(a.Start, a.End, r.start, r.end) {
				return true
			}
		}
	}
	return false
}

type light struct {
	id              uint64
	start, end      string
	ver, conf, term uint64
}

type regress struct {
	before, after light
}

type poller struct {
	stop    int32
	polls   int
	overlap string
	regs    []regress
}

func (p *poller) run(bc *core.BasicCluster, wg *sync.WaitGroup) {
	defer wg.Done()
	prev := map[uint64]light{}
	for atomic.LoadInt32(&p.stop) == 0 {
		regs := bc.GetRegions() // one atomic view of the id map
		es := make([]entry, 0, len(regs))
		cur := make(map[uint64]light, len(regs))
		for _, r := range regs {
			e := mkEntry(r, false)
			es = append(es, e)
			cur[e.id] = light{e.id, e.start, e.end, e.ver, e.conf, e.term}
		}
		sortEntries(es)
		if a, b, bad := firstOverlap(es); bad && p.overlap == "" {
			p.overlap = fmt.Sprintf("poll %d: %v and %v served at the same time", p.polls, a, b)
		}
		for id, b := range prev {
			a, ok := cur[id]
			if !ok {
				continue
			}
			if (a.ver < b.ver || a.conf < b.conf || (a.term > 0 && a.term < b.term)) && len(p.regs) < 64 {
				p.regs = append(p.regs, regress{b, a})
			}
		}
		prev = cur
		p.polls++
		runtime.Gosched()
	}
}

// concRepeats: the schedule is not part of the case, so every case is executed
// several times on fresh fixtures; the facts checked hold for every schedule.
const concRepeats = 3

func runConc(c ConcCase) (vkit.Info, error) {
	var info vkit.Info
	var cls classSet
	for rep := 0; rep < concRepeats; rep++ {
		one, err := runConcOnce(c, &cls)
		if err != nil {
			return info, fmt.Errorf("execution %d: %v", rep, err)
		}
		if one.Inconclusive {
			info.Inconclusive = true
			return info, nil
		}
		info.NonTrivial = info.NonTrivial || one.NonTrivial
	}
	cls.into(&info)
	return info, nil
}

func runConcOnce(c ConcCase, cls *classSet) (vkit.Info, error) {
	var info vkit.Info
	s := simulate(c.Stores, c.Collide, c.Events)
	f, err := newFixture(s.stores, c.Enc, c.RS)
	if err == errFixture {
		info.Inconclusive = true
		return info, nil
	}
	if err != nil {
		return info, err
	}
	if f.enc > 0 {
		cls.add("encryption-" + encMethods[f.enc])
	}
	cls.add("rs-" + rsModes[f.rsMode])
	defer f.close()

	np := c.Poll
	if np < 1 {
		np = 1
	}
	pollers := make([]*poller, np)
	var pwg sync.WaitGroup
	for i := range pollers {
		pollers[i] = &poller{}
		pwg.Add(1)
		go pollers[i].run(f.bc, &pwg)
	}
	stopPollers := func() {
		for _, p := range pollers {
			atomic.StoreInt32(&p.stop, 1)
		}
		pwg.Wait()
	}

	var allAcc []*hb
	rejected, displacedN := 0, 0
	pos := 0
	S0, err := f.cacheSnap()
	if err != nil {
		stopPollers()
		return info, err
	}
	rounds := c.Rounds
	for ri := 0; pos < len(c.Dels); ri++ {
		r := Round{N: 4, W: 4}
		if ri < len(rounds) {
			r = rounds[ri]
		}
		if r.N < 1 {
			r.N = 1
		}
		if r.W < 1 {
			r.W = 1
		}
		if r.W > 8 {
			r.W = 8
		}
		if pos+r.N > len(c.Dels) {
			r.N = len(c.Dels) - pos
		}
		var batch []*delivered
		for _, d := range c.Dels[pos : pos+r.N] {
			if h := f.resolve(d, s.snaps, S0, c.NoTerm); h != nil {
				batch = append(batch, &delivered{h: h})
				cls.add("deliver-" + h.Kind)
			}
		}
		pos += r.N
		if len(batch) == 0 {
			continue
		}
		w := r.W
		if w > len(batch) {
			w = len(batch)
		}
		start := make(chan struct{})
		var wg sync.WaitGroup
		if r.Gate {
			f.rc.RLock() // a slow reader: every worker can check, none can put
		}
		for j := 0; j < w; j++ {
			wg.Add(1)
			go func(j int) {
				defer wg.Done()
				<-start
				for k := j; k < len(batch); k += w {
					batch[k].err = f.rc.VerifProcessRegionHeartbeat(batch[k].h.region())
				}
			}(j)
		}
		close(start)
		if r.Gate {
			time.Sleep(200 * time.Microsecond)
			f.rc.RUnlock()
			cls.add("round-gated")
		} else if len(batch) > w {
			cls.add("round-long")
		} else {
			cls.add("round-free")
		}
		done := make(chan struct{})
		go func() { wg.Wait(); close(done) }()
		select {
		case <-done:
		case <-time.After(60 * time.Second):
			// cannot decide; leave the goroutines behind
			for _, p := range pollers {
				atomic.StoreInt32(&p.stop, 1)
			}
			info.Inconclusive = true
			return info, nil
		}

		S1, err := f.cacheSnap()
		if err != nil {
			stopPollers()
			return info, fmt.Errorf("round %d: %v", ri, err)
		}
		pre := fmt.Sprintf("round %d (%d heartbeats, %d workers, gate=%v)", ri, len(batch), w, r.Gate)
		var acc []*hb
		for _, d := range batch {
			if d.err == nil {
				acc = append(acc, d.h)
			}
		}
		for _, d := range batch {
			h := d.h
			if d.err != nil {
				// C1
				why, _ := staleWhy(h, S0)
				if why == "" {
					var as []entry
					for _, a := range acc {
						if a != h {
							as = append(as, entry{id: a.ID, start: a.Start, end: a.End, ver: a.Ver, conf: a.Conf, term: a.Term})
						}
					}
					why, _ = staleWhy(h, as)
				}
				if why == "" {
					stopPollers()
					return info, fmt.Errorf("%s: %v refused (%v) although it is stale neither against the served set before the round nor against any accepted heartbeat of the round", pre, h, d.err)
				}
				rejected++
				cls.add("rejected-" + why)
				continue
			}
			// C2
			cur, ok := find(S1, h.ID)
			if !ok || cur.ver < h.Ver || cur.conf < h.Conf {
				if !displacerExists(acc, h.ID, h.Ver, rng{h.Start, h.End}) {
					stopPollers()
					got := "nothing"
					if ok {
						got = cur.String()
					}
					return info, fmt.Errorf("%s: %v was accepted, afterwards %s is served for id %d and no accepted heartbeat of another id with version >= %d overlaps it", pre, h, got, h.ID, h.Ver)
				}
				displacedN++
				cls.add("displaced")
			}
		}
		// C3
		for _, o := range S0 {
			cur, ok := find(S1, o.id)
			if ok && cur.ver >= o.ver && cur.conf >= o.conf && (cur.term == 0 || cur.term >= o.term) {
				continue
			}
			if !displacerExists(acc, o.id, o.ver, rng{o.start, o.end}) {
				stopPollers()
				got := "nothing"
				if ok {
					got = cur.String()
				}
				return info, fmt.Errorf("%s: %v was served before, afterwards %s, and no accepted heartbeat of another id with version >= %d overlaps it", pre, o, got, o.ver)
			}
			if !ok {
				displacedN++
				cls.add("displaced")
			} else {
				cls.add("reinserted-older")
			}
		}
		// C4
		for _, d := range batch {
			if d.err != nil {
				continue
			}
			why, wit := staleWhy(d.h, S0)
			if why == "" {
				continue
			}
			touched := false
			for _, a := range acc {
				if a != d.h && (a.ID == wit.id || rangesOverlap(a.Start, a.End, wit.start, wit.end)) {
					touched = true
				}
			}
			if !touched {
				stopPollers()
				return info, fmt.Errorf("%s: %v is stale (%s) against %v, which no other heartbeat of the round touches, but it was accepted", pre, d.h, why, wit)
			}
			cls.add("stale-then-fresh-within-round")
		}
		// C5 provenance
		for _, e := range S1 {
			if o, ok := find(S0, e.id); ok && o.ptr == e.ptr {
				if o.meta != e.meta {
					stopPollers()
					return info, fmt.Errorf("%s: served region %v was modified in place", pre, e)
				}
				continue
			}
			ok := false
			for _, a := range acc {
				if a.ID == e.id && a.metaBytes() == e.meta {
					ok = true
					break
				}
			}
			if !ok {
				stopPollers()
				return info, fmt.Errorf("%s: served region %v (%s) is neither the one served before nor an accepted heartbeat of the round", pre, e, descMeta(e.meta))
			}
		}
		allAcc = append(allAcc, acc...)
		S0 = S1
	}
	stopPollers()
	// region records only ever go to the backend the configuration names (schedule independent)
	if err := f.storage.Flush(); err != nil {
		return info, fmt.Errorf("Storage.Flush: %v", err)
	}
	if err := f.otherBackendClean(); err != nil {
		return info, err
	}
	polls := 0
	for i, p := range pollers {
		polls += p.polls
		if p.overlap != "" {
			return info, fmt.Errorf("poller %d: %s", i, p.overlap)
		}
		for _, g := range p.regs {
			if !displacerExists(allAcc, g.before.id, g.before.ver, rng{g.before.start, g.before.end}) {
				return info, fmt.Errorf("poller %d saw id %d go back from %+v to %+v and no accepted heartbeat could have displaced it", i, g.before.id, g.before, g.after)
			}
			cls.add("poller-saw-reinserted-older")
		}
	}
	if polls > 0 {
		cls.add("polled")
	}
	info.NonTrivial = s.splits+s.merges > 0 && rejected > 0 && displacedN > 0
	return info, nil
}
