package c06

// Ground-truth region history simulator ("what a TiKV cluster would report").
//
// Starts from one region covering the whole key space and applies split / merge /
// conf-change / leader-change events. Every event emits one snapshot per affected
// region; a snapshot is exactly what the region leader would put in its next
// heartbeat. Epoch rules (TiKV):
//   - split into m+1 pieces: every resulting region gets version = parent.version + m,
//     new regions get fresh region/peer ids on the same stores, conf_ver inherited;
//   - merge: PrepareMerge bumps version and conf_ver of the source by 1, CommitMerge
//     sets target.version = max(source.version, target.version) + 1 and extends the range;
//     merge needs both regions on the same set of stores;
//   - add learner / promote / remove peer: conf_ver + 1;
//   - leader change / re-election: term grows.
//
// All ids come from one counter (stores first), unless Collide lets peer ids use
// their own counter starting at 1 (mock-cluster style).

import "sort"

var keyTable []string // sorted, without ""

func init() {
	const alphabet = "abcdefg"
	for _, a := range alphabet {
		keyTable = append(keyTable, string(a))
		for _, b := range alphabet {
			keyTable = append(keyTable, string(a)+string(b))
		}
	}
	sort.Strings(keyTable)
}

const maxRegions = 40

type speer struct {
	ID      uint64 `json:"id"`
	Store   uint64 `json:"s"`
	Learner bool   `json:"l,omitempty"`
}

// hb is one region report: the full content of a heartbeat.
type hb struct {
	ID      uint64   `json:"id"`
	Start   string   `json:"start"`
	End     string   `json:"end"` // "" = +inf
	Ver     uint64   `json:"ver"`
	Conf    uint64   `json:"conf"`
	Term    uint64   `json:"term"`
	Peers   []speer  `json:"peers"`
	Leader  uint64   `json:"leader"` // peer id
	Pending []uint64 `json:"pending,omitempty"`
	Down    []uint64 `json:"down,omitempty"`
	SizeMB  uint64   `json:"size"`
	Keys    uint64   `json:"keys"`
	Written uint64   `json:"written"`
	Kind    string   `json:"kind,omitempty"` // snap / uconf / uterm / uver / uover / eqver
	Src     int      `json:"src,omitempty"`  // snapshot index, for messages
}

func (h *hb) clone() *hb {
	c := *h
	c.Peers = append([]speer(nil), h.Peers...)
	c.Pending = append([]uint64(nil), h.Pending...)
	c.Down = append([]uint64(nil), h.Down...)
	return &c
}

func (h *hb) peerByID(id uint64) *speer {
	for i := range h.Peers {
		if h.Peers[i].ID == id {
			return &h.Peers[i]
		}
	}
	return nil
}

func (h *hb) hasStore(s uint64) bool {
	for _, p := range h.Peers {
		if p.Store == s {
			return true
		}
	}
	return false
}

func (h *hb) leaderStore() uint64 {
	if p := h.peerByID(h.Leader); p != nil {
		return p.Store
	}
	return 0
}

func drop(l []uint64, id uint64) []uint64 {
	var out []uint64
	for _, x := range l {
		if x != id {
			out = append(out, x)
		}
	}
	return out
}

type sim struct {
	stores  int
	collide bool
	next    uint64 // shared id counter
	nextP   uint64 // peer id counter in collide mode
	live    []*hb  // sorted by start key, contiguous cover of the key space
	snaps   []*hb
	splits  int
	merges  int
	confs   int
	leaders int
}

func (s *sim) allocID() uint64 { s.next++; return s.next }
func (s *sim) allocPeer() uint64 {
	if s.collide {
		s.nextP++
		return s.nextP
	}
	return s.allocID()
}

func (s *sim) emit(r *hb) {
	c := r.clone()
	c.Kind = "snap"
	c.Src = len(s.snaps)
	s.snaps = append(s.snaps, c)
}

func newSim(stores int, collide bool) *sim {
	s := &sim{stores: stores, collide: collide, next: uint64(stores)}
	root := &hb{ID: s.allocID(), Ver: 1, Conf: 1, Term: 6, SizeMB: 96, Keys: 1000}
	n := 3
	if stores < n {
		n = stores
	}
	for i := 0; i < n; i++ {
		root.Peers = append(root.Peers, speer{ID: s.allocPeer(), Store: uint64(i + 1)})
	}
	root.Leader = root.Peers[0].ID
	s.live = []*hb{root}
	s.emit(root)
	return s
}

func (s *sim) innerKeys(r *hb) []string {
	var out []string
	for _, k := range keyTable {
		if k > r.Start && (r.End == "" || k < r.End) {
			out = append(out, k)
		}
	}
	return out
}

func (s *sim) apply(e Ev) {
	r := s.live[mod(e.R, len(s.live))]
	switch e.K {
	case "split":
		s.split(r, e)
	case "merge":
		s.merge(r, e)
	case "add":
		s.add(r, e)
	case "promote":
		s.promote(r, e)
	case "remove":
		s.remove(r, e)
	case "transfer":
		s.transfer(r, e)
	case "term":
		s.termBump(r, e)
	default:
		s.beat(r, e)
	}
}

func mod(a, n int) int {
	if n <= 0 {
		return 0
	}
	a %= n
	if a < 0 {
		a += n
	}
	return a
}

// split: A picks the key(s); B bit0 = right-derive (the old id keeps the last piece),
// bit1 = report order reversed, (B>>2)%4==0 = batch split into three pieces.
func (s *sim) split(r *hb, e Ev) {
	cands := s.innerKeys(r)
	if len(cands) == 0 || len(s.live) >= maxRegions {
		s.beat(r, e)
		return
	}
	keys := []string{cands[mod(e.A, len(cands))]}
	if (e.B>>2)%4 == 0 && len(cands) >= 2 && len(s.live)+2 <= maxRegions {
		k2 := cands[mod(e.A/7+1+mod(e.A, len(cands)), len(cands))]
		if k2 != keys[0] {
			keys = append(keys, k2)
			sort.Strings(keys)
		}
	}
	m := len(keys)
	bounds := append(append([]string{r.Start}, keys...), r.End)
	rightDerive := e.B&1 == 1
	keep := 0
	if rightDerive {
		keep = m
	}
	pieces := make([]*hb, m+1)
	oldSize, oldKeys := r.SizeMB, r.Keys
	for i := 0; i <= m; i++ {
		var p *hb
		if i == keep {
			p = r
		} else {
			p = r.clone()
			p.ID = s.allocID()
			p.Pending, p.Down = nil, nil
			ls := r.leaderStore()
			for j := range p.Peers {
				p.Peers[j].ID = s.allocPeer()
				if p.Peers[j].Store == ls {
					p.Leader = p.Peers[j].ID
				}
			}
			p.Term = 6
			p.Written = 0
		}
		pieces[i] = p
	}
	for i, p := range pieces {
		p.Start, p.End = bounds[i], bounds[i+1]
		p.Ver = r.Ver // set below (r is among pieces)
		p.SizeMB = oldSize / uint64(m+1)
		p.Keys = oldKeys / uint64(m+1)
	}
	nv := r.Ver + uint64(m)
	for _, p := range pieces {
		p.Ver = nv
	}
	// replace r by pieces in live
	var nl []*hb
	for _, x := range s.live {
		if x == r {
			nl = append(nl, pieces...)
		} else {
			nl = append(nl, x)
		}
	}
	s.live = nl
	if e.B&2 == 0 {
		for _, p := range pieces {
			s.emit(p)
		}
	} else {
		for i := len(pieces) - 1; i >= 0; i-- {
			s.emit(pieces[i])
		}
	}
	s.splits++
}

func sameStores(a, b *hb) bool {
	if len(a.Peers) != len(b.Peers) {
		return false
	}
	for _, p := range a.Peers {
		if !b.hasStore(p.Store) {
			return false
		}
	}
	return true
}

// merge: r is the source, A%2 picks the right or left neighbour as target. If the
// store sets differ the event moves the source one conf change closer to the target
// (what PD does before it issues a merge). B bit0 = the source reports between
// PrepareMerge and CommitMerge.
func (s *sim) merge(r *hb, e Ev) {
	idx := -1
	for i, x := range s.live {
		if x == r {
			idx = i
		}
	}
	ti := idx + 1
	if e.A%2 == 1 {
		ti = idx - 1
	}
	if ti < 0 || ti >= len(s.live) {
		ti = idx + 1
		if ti >= len(s.live) {
			ti = idx - 1
		}
	}
	if ti < 0 || ti >= len(s.live) || len(s.live) < 2 {
		s.beat(r, e)
		return
	}
	t := s.live[ti]
	if !sameStores(r, t) {
		// add a missing store as learner, else remove a surplus non-leader peer, else move leader
		for _, p := range t.Peers {
			if !r.hasStore(p.Store) {
				r.Peers = append(r.Peers, speer{ID: s.allocPeer(), Store: p.Store, Learner: true})
				r.Conf++
				s.confs++
				s.emit(r)
				return
			}
		}
		for _, p := range r.Peers {
			if !t.hasStore(p.Store) && p.ID != r.Leader {
				s.removePeer(r, p.ID)
				return
			}
		}
		s.transfer(r, e)
		return
	}
	// PrepareMerge on the source
	r.Ver++
	r.Conf++
	if e.B&1 == 1 {
		s.emit(r)
	}
	// CommitMerge on the target
	if r.Ver > t.Ver {
		t.Ver = r.Ver
	}
	t.Ver++
	if ti > idx {
		t.Start = r.Start
	} else {
		t.End = r.End
	}
	t.SizeMB += r.SizeMB
	t.Keys += r.Keys
	var nl []*hb
	for _, x := range s.live {
		if x != r {
			nl = append(nl, x)
		}
	}
	s.live = nl
	s.emit(t)
	s.merges++
}

func (s *sim) add(r *hb, e Ev) {
	var free []uint64
	for st := 1; st <= s.stores; st++ {
		if !r.hasStore(uint64(st)) {
			free = append(free, uint64(st))
		}
	}
	if len(free) == 0 || len(r.Peers) >= 5 {
		s.remove(r, e)
		return
	}
	p := speer{ID: s.allocPeer(), Store: free[mod(e.A, len(free))], Learner: true}
	r.Peers = append(r.Peers, p)
	r.Conf++
	if e.B&1 == 1 {
		r.Pending = append(r.Pending, p.ID)
	}
	s.confs++
	s.emit(r)
}

func (s *sim) promote(r *hb, e Ev) {
	var ls []int
	for i, p := range r.Peers {
		if p.Learner {
			ls = append(ls, i)
		}
	}
	if len(ls) == 0 {
		s.add(r, e)
		return
	}
	i := ls[mod(e.A, len(ls))]
	r.Peers[i].Learner = false
	r.Pending = drop(r.Pending, r.Peers[i].ID)
	r.Conf++
	s.confs++
	s.emit(r)
}

func (s *sim) removePeer(r *hb, id uint64) {
	var np []speer
	for _, p := range r.Peers {
		if p.ID != id {
			np = append(np, p)
		}
	}
	r.Peers = np
	r.Pending = drop(r.Pending, id)
	r.Down = drop(r.Down, id)
	r.Conf++
	s.confs++
	s.emit(r)
}

func (s *sim) remove(r *hb, e Ev) {
	var cand []uint64
	for _, p := range r.Peers {
		if p.ID != r.Leader {
			cand = append(cand, p.ID)
		}
	}
	if len(cand) == 0 {
		if len(r.Peers) < s.stores {
			s.add(r, e)
		} else {
			s.beat(r, e)
		}
		return
	}
	s.removePeer(r, cand[mod(e.A, len(cand))])
}

func (s *sim) otherVoters(r *hb) []uint64 {
	var out []uint64
	for _, p := range r.Peers {
		if !p.Learner && p.ID != r.Leader {
			out = append(out, p.ID)
		}
	}
	return out
}

func (s *sim) transfer(r *hb, e Ev) {
	ov := s.otherVoters(r)
	if len(ov) == 0 {
		s.termBump(r, e)
		return
	}
	r.Leader = ov[mod(e.A, len(ov))]
	r.Pending = drop(r.Pending, r.Leader)
	r.Down = drop(r.Down, r.Leader)
	r.Term++
	s.leaders++
	s.emit(r)
}

func (s *sim) termBump(r *hb, e Ev) {
	r.Term += 1 + uint64(mod(e.A, 3))
	if ov := s.otherVoters(r); e.B&1 == 1 && len(ov) > 0 {
		r.Leader = ov[mod(e.A/3, len(ov))]
		r.Pending = drop(r.Pending, r.Leader)
		r.Down = drop(r.Down, r.Leader)
	}
	s.leaders++
	s.emit(r)
}

// beat: a periodic heartbeat without epoch change: size / flow / pending / down vary.
func (s *sim) beat(r *hb, e Ev) {
	switch mod(e.A, 5) {
	case 0:
		r.SizeMB = uint64(1 + mod(e.B, 200))
		r.Keys = r.SizeMB * 10
	case 1:
		r.Written = uint64(mod(e.B, 50)) * 4096
	case 2:
		var cand []uint64
		for _, p := range r.Peers {
			if p.ID != r.Leader {
				cand = append(cand, p.ID)
			}
		}
		if len(cand) > 0 {
			id := cand[mod(e.B, len(cand))]
			if len(drop(r.Pending, id)) != len(r.Pending) {
				r.Pending = drop(r.Pending, id)
			} else {
				r.Pending = append(r.Pending, id)
			}
		}
	case 3:
		var cand []uint64
		for _, p := range r.Peers {
			if p.ID != r.Leader {
				cand = append(cand, p.ID)
			}
		}
		if len(cand) > 0 {
			id := cand[mod(e.B, len(cand))]
			if len(drop(r.Down, id)) != len(r.Down) {
				r.Down = drop(r.Down, id)
			} else {
				r.Down = append(r.Down, id)
			}
		}
	}
	s.emit(r)
}

func simulate(stores int, collide bool, evs []Ev) *sim {
	if stores < 1 {
		stores = 1
	}
	s := newSim(stores, collide)
	for _, e := range evs {
		s.apply(e)
	}
	return s
}
