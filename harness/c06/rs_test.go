package c06

// The region storage as a configuration dimension of the fixture's core.Storage.
//
//	rsNone  core.NewStorage(kv)                                  — no region storage object (pd's unit-test fixtures)
//	rsOn    core.NewStorage(kv, core.WithRegionStorage(leveldb)) + SwitchToRegionStorage()
//	        — server.go with pd-server.use-region-storage = true (the default)
//	rsOff   the same construction + SwitchToDefaultStorage()     — use-region-storage = false
//
// server.go ALWAYS passes the region storage object and reloadConfigFromKV() flips the
// switch, so with rsOff the object is present but must not be used for regions.
//
// The oracle's view of "what is stored" is a raw read of the backend that SaveRegion
// uses under the configuration: the memory kv below the fault injector (rsNone, rsOff)
// or the leveldb handle itself (rsOn; LeveldbKV.LoadRange, an iterator over the files,
// not Storage.LoadRegions). The other backend must never hold a region record.
//
// rsOn: RegionStorage batches saves (written out by the 100th save since the last
// flush, by FlushRegion and by Close) while deletes go to leveldb directly. The
// background flush timer is stopped (its context is cancelled right after creation,
// as harness/c17 does), flushes are explicit ops, so a case stays a pure function of
// its data. The model of seq_test.go therefore has two parts: disk (what leveldb must
// hold now) and batch (acknowledged, unflushed saves). Finding keyBatchLeftover
// (findings_test.go): Storage.DeleteRegion removes the record from leveldb only, so a region
// saved and displaced within one unflushed batch comes back with the flush as a leftover
// that a later load removes. While the finding is 'known' exactly that is modelled (the
// batch is not purged by a delete), counted (class rs-leftover-after-flush, Exclude) and
// not flagged; once it is fixed or absent the model purges the buffered save of a displaced
// region and any leftover is a violation. What is flagged with rsOn in either case: a displaced
// region whose record is still in leveldb right after the heartbeat, any difference
// between leveldb and the model, and — after a flush + load round (cold restart, and
// the epilogue of every rsOn case) — storage != cache or overlapping records.

import (
	"context"
	"fmt"
	"os"
	"path/filepath"
	"sync"

	"github.com/tikv/pd/server/core"
)

const (
	rsNone = 0
	rsOn   = 1
	rsOff  = 2

	// the 100th SaveRegion since the last flush writes the batch out (defaultBatchSize)
	rsBatchSize = 100
)

var rsModes = []string{"none", "on", "off"}

var (
	rsBaseOnce sync.Once
	rsBase     string
	rsBaseErr  error
)

func rsParentDir() string {
	if fi, err := os.Stat("/dev/shm"); err == nil && fi.IsDir() {
		return "/dev/shm"
	}
	return os.TempDir()
}

// rsBaseDir: one directory per process (c06-ldb-<pid>-*, removed by rsCleanup), one
// sub-directory per fixture.
func rsBaseDir() (string, error) {
	rsBaseOnce.Do(func() {
		rsBase, rsBaseErr = os.MkdirTemp(rsParentDir(), fmt.Sprintf("c06-ldb-%d-", os.Getpid()))
		if rsBaseErr != nil { // e.g. /dev/shm present but not writable: the run's scratch directory always is
			rsBase, rsBaseErr = os.MkdirTemp(os.TempDir(), fmt.Sprintf("c06-ldb-%d-", os.Getpid()))
		}
	})
	return rsBase, rsBaseErr
}

// rsSweep removes the directories of earlier processes that were killed before their
// clean-up (the runner stops the other shards after a violation).
func rsSweep() {
	for _, parent := range []string{rsParentDir(), os.TempDir()} {
		rsSweepIn(parent)
	}
}

func rsSweepIn(parent string) {
	ents, err := os.ReadDir(parent)
	if err != nil {
		return
	}
	for _, e := range ents {
		var pid int
		if n, _ := fmt.Sscanf(e.Name(), "c06-ldb-%d-", &pid); n != 1 || pid <= 0 {
			continue
		}
		if _, err := os.Stat(fmt.Sprintf("/proc/%d", pid)); os.IsNotExist(err) {
			os.RemoveAll(filepath.Join(parent, e.Name()))
		}
	}
}

func rsCleanup() {
	if rsBase != "" {
		os.RemoveAll(rsBase)
	}
}

// openRS opens the leveldb region storage on f.rsDir with the background flush stopped.
func (f *fixture) openRS() error {
	ctx, cancel := context.WithCancel(context.Background())
	rs, err := core.NewRegionStorage(ctx, f.rsDir, f.km)
	cancel()
	if err != nil {
		return err
	}
	f.rs = rs
	return nil
}

// openStorage builds f.storage the way the configuration says (see the file comment).
func (f *fixture) openStorage() error {
	var sopts []core.StorageOption
	if f.rsMode != rsNone {
		if f.rsDir == "" {
			base, err := rsBaseDir()
			if err != nil {
				return err
			}
			if f.rsDir, err = os.MkdirTemp(base, "rs-"); err != nil {
				return err
			}
		}
		if err := f.openRS(); err != nil {
			return err
		}
		sopts = append(sopts, core.WithRegionStorage(f.rs))
	}
	if f.km != nil {
		sopts = append(sopts, core.WithEncryptionKeyManager(f.km))
	}
	f.storage = core.NewStorage(f.fkv, sopts...)
	f.loadedOnce = false
	// reloadConfigFromKV()
	switch f.rsMode {
	case rsOn:
		f.storage.SwitchToRegionStorage()
	case rsOff:
		f.storage.SwitchToDefaultStorage()
	}
	return nil
}

// reopen is the end of one pd process and the start of the next on the same data
// directory and the same etcd: graceful (Storage.Close: flush, then the handle is
// closed) or a crash (the handle goes away, the unflushed batch with it).
func (f *fixture) reopen(crash bool) error {
	if f.rs == nil {
		return fmt.Errorf("harness: reopen without a region storage")
	}
	if crash {
		if err := f.rs.LeveldbKV.Close(); err != nil {
			return fmt.Errorf("closing the leveldb handle: %v", err)
		}
	} else if err := f.storage.Close(); err != nil {
		return fmt.Errorf("Storage.Close: %v", err)
	}
	f.rs = nil
	return f.openStorage()
}

func (f *fixture) rsClose() {
	if f.rs != nil {
		f.rs.LeveldbKV.Close()
		f.rs = nil
	}
	if f.rsDir != "" {
		os.RemoveAll(f.rsDir)
		f.rsDir = ""
	}
}

// rawRegions reads the region records (keys raft/r/<id>) of the backend SaveRegion
// uses under the configuration.
func (f *fixture) rawRegions() (keys, vals []string, err error) {
	if f.rsMode == rsOn {
		return f.rs.LeveldbKV.LoadRange(regionPrefix, "raft/r0", 0)
	}
	return f.mem.LoadRange(regionPrefix, "raft/r0", 0)
}

// otherBackendClean: the backend that SaveRegion does not use under the configuration
// never holds a region record (rsOn: the default kv; rsOff: leveldb, whatever prefix).
func (f *fixture) otherBackendClean() error {
	switch f.rsMode {
	case rsOn:
		keys, vals, err := f.mem.LoadRange(regionPrefix, "raft/r0", 0)
		if err != nil {
			return err
		}
		if len(keys) > 0 {
			return fmt.Errorf("the region storage is switched on but the default kv holds %d region record(s), first %s", len(keys), descMeta(vals[0]))
		}
	case rsOff:
		keys, vals, err := f.rs.LeveldbKV.LoadRange("", "\xff", 0)
		if err != nil {
			return err
		}
		if len(keys) > 0 {
			return fmt.Errorf("the region storage is switched off but leveldb holds %d record(s), first %s = %s", len(keys), keys[0], descMeta(vals[0]))
		}
	}
	return nil
}
