// C06 — region cache never regresses and never holds overlapping regions.
//
// A ground-truth history simulator (sim_test.go) produces the heartbeats a TiKV
// cluster would send over a split / merge / conf-change / leader-change history.
// The delivered stream is a reordering of those snapshots with duplicates, losses
// and arbitrarily old ones, plus a few fabricated heartbeats at the edge of the
// rejection rule. Every heartbeat goes through core.RegionFromHeartbeat and
// (*RaftCluster).processRegionHeartbeat (hook VerifProcessRegionHeartbeat).
//
//	seq  (seq_test.go)  — one heartbeat at a time, oracle after every heartbeat, cache and storage
//	conc (conc_test.go) — rounds of 2-8 concurrent deliveries + snapshot pollers, order independent facts
//
// Configuration dimensions of the fixture's core.Storage (generated): encryption at
// rest (enc_test.go) and the region storage (rs_test.go): built without a region
// storage object (what every core.NewStorage(kv) fixture of pd's own tests does), or
// the way server.go builds it — core.WithRegionStorage(leveldb) always — and then
// switched on (pd-server.use-region-storage = true, the default) or off.
package c06

import (
	"context"
	"fmt"
	"sort"
	"testing"

	"github.com/gogo/protobuf/proto"
	"github.com/pingcap/kvproto/pkg/metapb"
	"github.com/pingcap/kvproto/pkg/pdpb"
	"github.com/tikv/pd/pkg/mock/mockid"
	"github.com/tikv/pd/server/cluster"
	"github.com/tikv/pd/server/config"
	"github.com/tikv/pd/server/core"
	"github.com/tikv/pd/server/encryptionkm"
	"github.com/tikv/pd/server/kv"
	"github.com/tikv/pd/server/versioninfo"
	"pdverif/vkit"
	"pdverif/vkit/faultkv"
	"pgregory.net/rapid"
)

func TestMain(m *testing.M) {
	vkit.SilenceLog()
	rsSweep()
	vkit.MainWith(m, "C06", func() { fwdClose(); encCleanup(); rsCleanup() })
}
func TestProp(t *testing.T)   { vkit.RunAll(t) }
func TestReplay(t *testing.T) { vkit.RunReplay(t) }

func init() {
	vkit.Register("seq", vkit.N{Quick: 4000, Thorough: 80000}, genSeq, runSeq)
	vkit.Register("conc", vkit.N{Quick: 600, Thorough: 12000}, genConc, runConc)
}

// ---------------------------------------------------------------- case data

// Ev is one history event; R/A/B are picks resolved against the simulator state.
type Ev struct {
	K string `json:"k"` // split merge add promote remove transfer term beat
	R int    `json:"r"`
	A int    `json:"a,omitempty"`
	B int    `json:"b,omitempty"`
}

// Dl is one delivery. K=="snap": I is a snapshot index. Otherwise a fabricated
// heartbeat derived from the cached region picked by I (sorted by start key):
//
//	uconf  same id, conf_ver-1                    -> must be rejected
//	uterm  same id, lower (non zero) term         -> must be rejected
//	uver   same id, version-1                     -> must be rejected
//	uover  fresh id, overlapping, version below the newest overlapped region -> must be rejected
//	vupcdn same id, version + 1..3, conf_ver - 1                          -> must be rejected (conf_ver goes back)
//	cupvdn same id, conf_ver + 1..3, version - 1                          -> must be rejected (version goes back)
//	eqver  fresh id, overlapping, version equal to the newest overlapped region -> not "older", accepted
//	grow   same id, version, conf_ver and peers, another approximate size, the range extended over the left or
//	       right neighbour whose version is not higher -> not stale, accepted, the neighbour is displaced
//	       (cache and storage); the region's own record is not claimed (no epoch change, see assumptions)
//
// seq only: K=="fail" arms a clean failure of the (1+A%3)-th storage write of the next
// heartbeat (the heartbeat itself still succeeds, storage lags); K=="restart" replaces
// the RaftCluster: A%2==0 cold (fresh BasicCluster, same storage, LoadClusterInfo = PD
// restart), A%2==1 warm (same BasicCluster and storage, LoadClusterInfo = re-election
// with use-region-storage=false). The history continues on the new object. With the
// region storage switched on (Case.RS == rsOn) a cold restart is a new process: the
// leveldb handle is closed (A%4==0: Storage.Close, which flushes; A%4==2: a crash, the
// unflushed batch is lost) and reopened under a new core.Storage; a warm one keeps the
// Storage, whose LoadRegionsOnce loads only the first time. K=="flush" is Storage.Flush()
// (what the region storage's background timer does 3 s after the last save). K=="plant" (not
// with the region storage on): a record for the cached region picked by I is written to storage
// behind the cache (as another member leading in between would write to the shared etcd) with
// A%2==0: version + 1..3 and conf_ver - 1, A%2==1: conf_ver + 1..3 and version - 1; the loader
// (CheckAndPutRegion, shared with the region syncer) must refuse it on the next warm restart.
type Dl struct {
	K string `json:"k"`
	I int    `json:"i"`
	A int    `json:"a,omitempty"`
}

type Case struct {
	Stores  int  `json:"stores"`
	Collide bool `json:"collide,omitempty"` // peer ids from their own counter (collide with store/region ids)
	NoTerm  bool `json:"noterm,omitempty"`  // TiKV older than 3.0: term never reported
	Enc     int  `json:"enc,omitempty"`     // encryption at rest: 0 off, 1..3 = aes128/192/256-ctr
	RS      int  `json:"rs,omitempty"`      // region storage: 0 no object, 1 object present and switched on, 2 present and switched off
	Events  []Ev `json:"ev"`
	Dels    []Dl `json:"dl"`
}

// Round of the concurrent mode: the next N deliveries are handed round-robin to W
// goroutines that start together. Gate: the harness holds the cluster read lock
// while they start, so that all of them pass their first check before any of them
// can put (the check-then-put window).
type Round struct {
	N    int  `json:"n"`
	W    int  `json:"w"`
	Gate bool `json:"g,omitempty"`
}

type ConcCase struct {
	Case
	Rounds []Round `json:"rounds"`
	Poll   int     `json:"poll"`
}

// ---------------------------------------------------------------- generators

var evKinds = []string{"split", "split", "split", "merge", "merge", "add", "promote", "remove", "transfer", "term", "beat"}

// genBase: faults = 0 no fail/restart/flush ops, otherwise one delivery in faults/7 is preceded by one.
func genBase(t *rapid.T, minEv, maxEv int, faults int) Case {
	var c Case
	c.Stores = rapid.IntRange(3, 6).Draw(t, "stores")
	c.Collide = rapid.IntRange(0, 5).Draw(t, "collide") == 0
	c.NoTerm = rapid.IntRange(0, 9).Draw(t, "noterm") == 0
	if rapid.IntRange(0, 2).Draw(t, "encrypted") == 0 {
		c.Enc = rapid.IntRange(1, 3).Draw(t, "encMethod")
	}
	// region storage: none 40%, server.go construction switched on 30% / off 30%
	c.RS = []int{rsNone, rsNone, rsNone, rsNone, rsOn, rsOn, rsOn, rsOff, rsOff, rsOff}[rapid.IntRange(0, 9).Draw(t, "regionStorage")]
	n := rapid.IntRange(minEv, maxEv).Draw(t, "nEv")
	for i := 0; i < n; i++ {
		c.Events = append(c.Events, Ev{
			K: rapid.SampledFrom(evKinds).Draw(t, "kind"),
			R: rapid.IntRange(0, 63).Draw(t, "r"),
			A: rapid.IntRange(0, 255).Draw(t, "a"),
			B: rapid.IntRange(0, 255).Draw(t, "b"),
		})
	}
	s := simulate(c.Stores, c.Collide, c.Events)
	S := len(s.snaps)
	// delivery order: key = position + delay, stable sort
	type item struct {
		key, seq int
		d        Dl
	}
	var items []item
	disorder := rapid.IntRange(0, 4).Draw(t, "disorder")
	for i := 0; i < S; i++ {
		copies := 1
		switch rapid.IntRange(0, 19).Draw(t, "copies") {
		case 0:
			copies = 0 // lost
		case 1, 2, 3, 4:
			copies = 2
		case 5:
			copies = 3
		}
		for cp := 0; cp < copies; cp++ {
			delay := 0
			switch disorder {
			case 0: // in order, duplicates late
				if cp > 0 {
					delay = rapid.IntRange(0, 30).Draw(t, "dupDelay")
				}
			case 1, 2: // light
				delay = rapid.SampledFrom([]int{0, 0, 0, 0, 1, 2, 3, 5, 8, 20, S}).Draw(t, "delay")
				if cp > 0 {
					delay += rapid.IntRange(0, 30).Draw(t, "dupDelay")
				}
			case 3: // heavy
				delay = rapid.IntRange(0, S).Draw(t, "delay")
			default: // anything
				delay = rapid.IntRange(0, S).Draw(t, "pos") - i
			}
			items = append(items, item{key: i + delay, seq: len(items), d: Dl{K: "snap", I: i}})
		}
	}
	sort.SliceStable(items, func(a, b int) bool { return items[a].key < items[b].key })
	for _, it := range items {
		if faults > 0 {
			switch rapid.IntRange(0, faults-1).Draw(t, "fault") {
			case 0, 1, 2, 3:
				c.Dels = append(c.Dels, Dl{K: "fail", A: rapid.SampledFrom([]int{0, 0, 0, 1, 1, 2}).Draw(t, "failNth")})
			case 4:
				c.Dels = append(c.Dels, Dl{K: "restart", A: rapid.IntRange(0, 3).Draw(t, "warm")})
			case 5:
				// a failed write directly followed by a restart
				c.Dels = append(c.Dels, Dl{K: "fail", A: rapid.SampledFrom([]int{0, 0, 0, 1, 1, 2}).Draw(t, "failNth")})
				c.Dels = append(c.Dels, it.d)
				c.Dels = append(c.Dels, Dl{K: "restart", A: rapid.IntRange(0, 3).Draw(t, "warm")})
				continue
			case 6:
				c.Dels = append(c.Dels, Dl{K: "flush"})
			case 7:
				// a record of a cached id whose epoch components moved in opposite directions appears in
				// storage behind the cache; the next election loads it over the warm cache
				c.Dels = append(c.Dels, Dl{K: "plant", I: rapid.IntRange(0, 63).Draw(t, "plantPick"), A: rapid.IntRange(0, 5).Draw(t, "plantAux")})
				c.Dels = append(c.Dels, Dl{K: "restart", A: 1})
			}
		}
		c.Dels = append(c.Dels, it.d)
		if rapid.IntRange(0, 11).Draw(t, "fab") == 0 {
			c.Dels = append(c.Dels, Dl{
				K: rapid.SampledFrom([]string{"uconf", "uterm", "uver", "uover", "uover", "eqver", "grow", "vupcdn", "cupvdn"}).Draw(t, "fabKind"),
				I: rapid.IntRange(0, 63).Draw(t, "fabPick"),
				A: rapid.IntRange(0, 63).Draw(t, "fabAux"),
			})
		}
	}
	return c
}

// genSeq: 1 case in ~40 is a long history (200-320 events), long enough for the region
// storage's automatic flush (the 100th save since the last flush) to happen mid-history.
func genSeq(t *rapid.T) Case {
	minEv, maxEv, faults := 10, 80, 40
	if rapid.IntRange(0, 39).Draw(t, "long") == 1 {
		minEv, maxEv, faults = 200, 320, 400 // few flushes and restarts, or the save counter never gets there
	}
	return genBase(t, minEv, maxEv, faults)
}

func genConc(t *rapid.T) ConcCase {
	c := ConcCase{Case: genBase(t, 10, 60, 0)}
	c.Poll = rapid.IntRange(1, 2).Draw(t, "pollers")
	style := rapid.IntRange(0, 9).Draw(t, "style")
	left := len(c.Dels)
	for left > 0 {
		var r Round
		r.W = rapid.IntRange(2, 8).Draw(t, "w")
		switch {
		case style == 0: // one free-running round
			r.N = left
		case style <= 2: // long rounds
			r.N = r.W * rapid.IntRange(2, 8).Draw(t, "per")
		default:
			r.N = r.W
			r.Gate = rapid.IntRange(0, 3).Draw(t, "gate") != 0
		}
		if r.N > left {
			r.N = left
		}
		left -= r.N
		c.Rounds = append(c.Rounds, r)
	}
	return c
}

// ---------------------------------------------------------------- fixture

type fixture struct {
	cancel  context.CancelFunc
	opt     *config.PersistOptions
	rc      *cluster.RaftCluster
	bc      *core.BasicCluster
	storage *core.Storage // over fkv
	fkv     *faultkv.KV   // fault injector between the storage and mem
	mem     kv.Base       // the oracle reads here
	enc     int           // encryption at rest method (0 = off)
	fresh   uint64        // ids of fabricated regions, far away from the simulator's counter

	rsMode     int                      // rsNone / rsOn / rsOff
	rs         *core.RegionStorage      // the leveldb region storage (nil with rsNone); raw reads go to its LeveldbKV
	rsDir      string                   // its directory
	km         *encryptionkm.KeyManager // shared by Storage and RegionStorage, as in server.go
	loadedOnce bool                     // rsOn: this Storage has already run LoadRegionsOnce
}

// errFixture marks a fixture that could not be set up (etcd / key manager): inconclusive.
var errFixture = fmt.Errorf("fixture unavailable")

func newFixture(stores int, enc int, rsMode int) (*fixture, error) {
	var km *encryptionkm.KeyManager
	if enc = mod(enc, 4); enc > 0 {
		var err error
		if km, err = keyManager(enc); err != nil {
			return nil, errFixture
		}
	}
	rsMode = mod(rsMode, 3)
	cfg := config.NewConfig()
	if err := cfg.Adjust(nil, false); err != nil {
		return nil, err
	}
	opt := config.NewPersistOptions(cfg)
	opt.SetClusterVersion(versioninfo.MinSupportedVersion(versioninfo.Version2_0))
	ctx, cancel := context.WithCancel(context.Background())
	mem := kv.NewMemoryKV()
	fkv := faultkv.New(mem)
	f := &fixture{cancel: cancel, opt: opt, mem: mem, fkv: fkv, enc: enc, km: km, rsMode: rsMode, bc: core.NewBasicCluster(), fresh: 1 << 40}
	if err := f.openStorage(); err != nil {
		cancel()
		f.rsClose()
		return nil, err
	}
	f.rc = cluster.NewRaftCluster(ctx, "", 1, nil, nil, nil)
	f.rc.InitCluster(mockid.NewIDAllocator(), opt, f.storage, f.bc)
	// a bootstrapped cluster: meta and stores are persisted (LoadClusterInfo needs them)
	if err := f.storage.SaveMeta(&metapb.Cluster{Id: 1, MaxPeerCount: 3}); err != nil {
		f.close()
		return nil, err
	}
	for i := 1; i <= stores; i++ {
		st := &metapb.Store{Id: uint64(i), Address: fmt.Sprintf("127.0.0.1:%d", i), State: metapb.StoreState_Up, Version: "4.0.0"}
		if err := f.storage.SaveStore(st); err != nil {
			f.close()
			return nil, err
		}
		f.bc.PutStore(core.NewStoreInfo(st))
	}
	fkv.ResetCounters()
	return f, nil
}

func (f *fixture) close() {
	f.cancel()
	f.rsClose()
}

// restart replaces the RaftCluster the way a PD restart (cold: empty cache) or a won
// leader election without region storage (warm: the cache object survives) does:
// InitCluster + LoadClusterInfo on the same storage.
func (f *fixture) restart(cold bool) error {
	ctx, cancel := context.WithCancel(context.Background())
	bc := f.bc
	if cold {
		bc = core.NewBasicCluster()
	}
	rc := cluster.NewRaftCluster(ctx, "", 1, nil, nil, nil)
	rc.InitCluster(mockid.NewIDAllocator(), f.opt, f.storage, bc)
	got, err := rc.LoadClusterInfo()
	if err != nil || got == nil {
		cancel()
		return fmt.Errorf("LoadClusterInfo = %v, %v", got != nil, err)
	}
	f.loadedOnce = true
	old := f.cancel
	f.rc, f.bc, f.cancel = rc, bc, cancel
	old()
	return nil
}

func (h *hb) metaPB() *metapb.Region {
	m := &metapb.Region{Id: h.ID, StartKey: []byte(h.Start), EndKey: []byte(h.End),
		RegionEpoch: &metapb.RegionEpoch{Version: h.Ver, ConfVer: h.Conf}}
	for _, p := range h.Peers {
		mp := &metapb.Peer{Id: p.ID, StoreId: p.Store}
		if p.Learner {
			mp.Role = metapb.PeerRole_Learner
		}
		m.Peers = append(m.Peers, mp)
	}
	return m
}

func (h *hb) peerPB(id uint64) *metapb.Peer {
	p := h.peerByID(id)
	if p == nil {
		return nil
	}
	mp := &metapb.Peer{Id: p.ID, StoreId: p.Store}
	if p.Learner {
		mp.Role = metapb.PeerRole_Learner
	}
	return mp
}

// region builds a brand new RegionInfo (nothing shared with earlier deliveries) the
// way the gRPC service does.
func (h *hb) region() *core.RegionInfo {
	req := &pdpb.RegionHeartbeatRequest{
		Region:          h.metaPB(),
		Leader:          h.peerPB(h.Leader),
		Term:            h.Term,
		ApproximateSize: h.SizeMB << 20,
		ApproximateKeys: h.Keys,
		BytesWritten:    h.Written,
		KeysWritten:     h.Written / 64,
		Interval:        &pdpb.TimeInterval{StartTimestamp: 1000, EndTimestamp: 1060},
	}
	for _, id := range h.Pending {
		if p := h.peerPB(id); p != nil {
			req.PendingPeers = append(req.PendingPeers, p)
		}
	}
	for _, id := range h.Down {
		if p := h.peerPB(id); p != nil {
			req.DownPeers = append(req.DownPeers, &pdpb.PeerStats{Peer: p, DownSeconds: 400})
		}
	}
	return core.RegionFromHeartbeat(req, core.WithFlowRoundByDigit(3))
}

func (h *hb) metaBytes() string {
	b, err := proto.Marshal(h.metaPB())
	if err != nil {
		panic(err)
	}
	return string(b)
}

func (h *hb) String() string {
	return fmt.Sprintf("{%s#%d id=%d [%q,%q) v%d c%d t%d peers=%d leader=%d}", h.Kind, h.Src, h.ID, h.Start, h.End, h.Ver, h.Conf, h.Term, len(h.Peers), h.Leader)
}

// ---------------------------------------------------------------- observation

// entry is one served region as observed through the public read API.
type entry struct {
	id              uint64
	start, end      string
	ver, conf, term uint64
	meta            string // marshalled metapb.Region
	ptr             *core.RegionInfo
}

func (e entry) String() string {
	return fmt.Sprintf("{id=%d [%q,%q) v%d c%d t%d}", e.id, e.start, e.end, e.ver, e.conf, e.term)
}

func mkEntry(r *core.RegionInfo, withMeta bool) entry {
	e := entry{id: r.GetID(), start: string(r.GetStartKey()), end: string(r.GetEndKey()),
		ver: r.GetRegionEpoch().GetVersion(), conf: r.GetRegionEpoch().GetConfVer(), term: r.GetTerm(), ptr: r}
	if withMeta {
		b, err := proto.Marshal(r.GetMeta())
		if err != nil {
			panic(err)
		}
		e.meta = string(b)
	}
	return e
}

func rangesOverlap(s1, e1, s2, e2 string) bool {
	return (e2 == "" || s1 < e2) && (e1 == "" || s2 < e1)
}

func sortEntries(es []entry) {
	sort.Slice(es, func(i, j int) bool {
		if es[i].start != es[j].start {
			return es[i].start < es[j].start
		}
		return es[i].id < es[j].id
	})
}

// firstOverlap: sorted linear scan.
func firstOverlap(es []entry) (a, b entry, bad bool) {
	for i := range es {
		if es[i].end != "" && es[i].end <= es[i].start {
			return es[i], es[i], true
		}
		if i == 0 {
			continue
		}
		p := es[i-1]
		if p.end == "" || p.end > es[i].start {
			return p, es[i], true
		}
	}
	return entry{}, entry{}, false
}

// cacheSnap reads the served set through the id map (GetRegions) and through the
// range tree (ScanRegions), demands they are the same set, without overlaps.
func (f *fixture) cacheSnap() ([]entry, error) {
	regs := f.rc.GetRegions()
	es := make([]entry, 0, len(regs))
	seen := map[uint64]bool{}
	for _, r := range regs {
		if seen[r.GetID()] {
			return nil, fmt.Errorf("GetRegions returns id %d twice", r.GetID())
		}
		seen[r.GetID()] = true
		es = append(es, mkEntry(r, true))
	}
	sortEntries(es)
	if a, b, bad := firstOverlap(es); bad {
		return nil, fmt.Errorf("served regions overlap: %v and %v", a, b)
	}
	tree := f.rc.ScanRegions(nil, nil, 0)
	if len(tree) != len(es) {
		return nil, fmt.Errorf("ScanRegions serves %d regions, GetRegions %d", len(tree), len(es))
	}
	for i, r := range tree {
		if r != es[i].ptr {
			return nil, fmt.Errorf("ScanRegions[%d] = id %d, GetRegions sorted by start has %v", i, r.GetID(), es[i])
		}
	}
	return es, nil
}

func find(es []entry, id uint64) (entry, bool) {
	for _, e := range es {
		if e.id == id {
			return e, true
		}
	}
	return entry{}, false
}

// staleWhy is the rejection rule of the property statement: staler than the cached
// region of the same id (version, conf_ver, reported term), or older in version than
// a cached region it overlaps. Returns "" when the heartbeat is not stale.
func staleWhy(h *hb, cached []entry) (string, entry) {
	for _, e := range cached {
		if e.id == h.ID {
			switch {
			case h.Ver < e.ver:
				return "same-id-version", e
			case h.Conf < e.conf:
				return "same-id-confver", e
			case h.Term > 0 && h.Term < e.term:
				return "same-id-term", e
			}
		} else if rangesOverlap(h.Start, h.End, e.start, e.end) && h.Ver < e.ver {
			return "overlap-version", e
		}
	}
	return "", entry{}
}

// resolve turns a delivery into a concrete heartbeat against the live cache.
func (f *fixture) resolve(d Dl, snaps []*hb, cached []entry, noTerm bool) *hb {
	if d.K == "snap" {
		h := snaps[mod(d.I, len(snaps))].clone()
		if noTerm {
			h.Term = 0
		}
		return h
	}
	if len(cached) == 0 {
		return nil
	}
	i := mod(d.I, len(cached))
	e := cached[i]
	h := &hb{ID: e.id, Start: e.start, End: e.end, Ver: e.ver, Conf: e.conf, Term: e.term, Kind: d.K, Src: i,
		SizeMB: uint64(e.ptr.GetApproximateSize()), Keys: uint64(e.ptr.GetApproximateKeys())}
	for _, p := range e.ptr.GetPeers() {
		h.Peers = append(h.Peers, speer{ID: p.GetId(), Store: p.GetStoreId(), Learner: p.GetRole() == metapb.PeerRole_Learner})
	}
	h.Leader = e.ptr.GetLeader().GetId()
	return fabricate(d, cached, i, h, func() uint64 { f.fresh++; return f.fresh })
}

// fabricate turns h (a copy of what is cached as cached[i]) into the fabricated heartbeat d.K.
func fabricate(d Dl, cached []entry, i int, h *hb, fresh func() uint64) *hb {
	switch d.K {
	case "uconf":
		if h.Conf == 0 {
			return nil
		}
		h.Conf--
	case "uterm":
		if h.Term <= 1 {
			return nil
		}
		h.Term = 1 + uint64(mod(d.A, int(h.Term-1)))
	case "uver":
		if h.Ver == 0 {
			return nil
		}
		h.Ver--
		if d.A%3 == 1 && i+1 < len(cached) {
			h.End = cached[i+1].end
		}
	case "vupcdn":
		// the two epoch components move in opposite directions: version ahead, conf_ver behind
		if h.Conf == 0 {
			return nil
		}
		h.Ver += 1 + uint64(mod(d.A, 3))
		h.Conf--
	case "cupvdn":
		if h.Ver == 0 {
			return nil
		}
		h.Conf += 1 + uint64(mod(d.A, 3))
		h.Ver--
	case "grow":
		// same id, same epoch, same peers; the range grows over a neighbour that is not newer and
		// something cache-only (the approximate size) differs, so that it is not "nothing changed"
		j := i + 1
		if d.A%2 == 1 {
			j = i - 1
		}
		if j < 0 || j >= len(cached) || cached[j].id == h.ID || cached[j].ver > h.Ver {
			return nil
		}
		if j > i {
			h.End = cached[j].end
		} else {
			h.Start = cached[j].start
		}
		h.SizeMB += 2 // +1 is not enough: a reported size of 0 is cached as 1 MB (an empty region)
	case "uover", "eqver":
		h.ID = fresh()
		switch d.A % 4 {
		case 1:
			if i+1 < len(cached) {
				h.End = cached[i+1].end
			}
		case 2:
			h.End = ""
		case 3:
			if i > 0 {
				h.Start = cached[i-1].start
			}
		}
		var maxV uint64
		for _, o := range cached {
			if rangesOverlap(h.Start, h.End, o.start, o.end) && o.ver > maxV {
				maxV = o.ver
			}
		}
		if d.K == "uover" {
			if maxV == 0 {
				return nil
			}
			h.Ver = maxV - 1
		} else {
			h.Ver = maxV
		}
	default:
		return nil
	}
	return h
}

type classSet struct {
	m    map[string]bool
	list []string
}

func (c *classSet) add(s string) {
	if c.m == nil {
		c.m = map[string]bool{}
	}
	if !c.m[s] {
		c.m[s] = true
		c.list = append(c.list, s)
	}
}

func (c *classSet) into(info *vkit.Info) {
	sort.Strings(c.list)
	for _, s := range c.list {
		info.Class(s)
	}
}
