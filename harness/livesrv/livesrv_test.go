package livesrv

import (
	"context"
	"testing"
	"time"

	"github.com/pingcap/kvproto/pkg/pdpb"
)

// Smoke test of the fixture itself (not a property): start, swap storage, call a handler, shut down.
func TestFixtureSmoke(t *testing.T) {
	f, err := Get()
	if err != nil {
		t.Skipf("fixture did not start: %v", err)
	}
	defer Shutdown()
	t.Logf("startup %.2fs", f.StartupS)
	w := f.SwapStorage()
	if err := f.ResetConfig(w); err != nil {
		t.Fatal(err)
	}
	resp, err := f.Svr.UpdateGCSafePoint(context.Background(), &pdpb.UpdateGCSafePointRequest{Header: f.Header(), SafePoint: 7})
	if err != nil || resp.GetHeader().GetError() != nil || resp.NewSafePoint != 7 {
		t.Fatalf("unexpected %v %v", resp, err)
	}
	if w.Writes() != 1 {
		t.Fatalf("writes=%d", w.Writes())
	}
	t0 := time.Now()
	for i := 0; i < 100; i++ {
		w = f.SwapStorage()
		if err := f.ResetConfig(w); err != nil {
			t.Fatal(err)
		}
	}
	t.Logf("reset cost %.2fms", float64(time.Since(t0).Microseconds())/100/1000)
	t0 = time.Now()
	Shutdown()
	t.Logf("shutdown %.2fs", time.Since(t0).Seconds())
}
