package livesrv

// Additions for the gRPC slices of C01 / C03 / C04 (nothing above is changed):
//
//   - Stamp: one machine-wide monotonic clock (CLOCK_MONOTONIC), so that send /
//     receive stamps taken in a helper process are comparable with ours;
//   - Node: one PD member as seen by the harness (gRPC connection, raw reads of
//     the leader record and of alloc_id through the member's own etcd client);
//   - StepDown: reset the member's leadership and measure an interval during
//     which the member PROVABLY was not the leader (see NotLeader);
//   - GetMulti: ONE real 3-member cluster per process (thorough tier of C03).

import (
	"context"
	"fmt"
	"os"
	"path"
	"strings"
	"sync"
	"syscall"
	"time"
	"unsafe"

	"github.com/pingcap/kvproto/pkg/pdpb"
	"github.com/tikv/pd/pkg/typeutil"
	"github.com/tikv/pd/server"
	"github.com/tikv/pd/server/config"
	"github.com/tikv/pd/tests"
	"go.etcd.io/etcd/clientv3"
	"google.golang.org/grpc"
)

// Stamp reads CLOCK_MONOTONIC in nanoseconds: never steps, shared by all processes of the machine.
func Stamp() int64 {
	var ts syscall.Timespec
	syscall.Syscall(syscall.SYS_CLOCK_GETTIME, 1 /* CLOCK_MONOTONIC */, uintptr(unsafe.Pointer(&ts)), 0)
	return ts.Sec*1e9 + ts.Nsec
}

// Node is one PD member.
type Node struct {
	Name   string
	Svr    *server.Server
	TS     *tests.TestServer
	Single bool // the only member of its cluster

	mu   sync.Mutex
	conn *grpc.ClientConn
}

// Node returns the single member of the live fixture.
func (f *Fixture) Node() *Node {
	nodeMu.Lock()
	defer nodeMu.Unlock()
	if fixNode == nil || fixNode.Svr != f.Svr {
		fixNode = &Node{Name: f.Svr.Name(), Svr: f.Svr, Single: true}
		for _, ts := range f.cluster.GetServers() {
			if ts.GetServer() == f.Svr {
				fixNode.TS = ts
			}
		}
	}
	return fixNode
}

var (
	nodeMu  sync.Mutex
	fixNode *Node
)

// Addr is the member's client URL without scheme.
func (n *Node) Addr() string { return strings.TrimPrefix(n.Svr.GetAddr(), "http://") }

// URL is the member's client URL (what a pd client is given).
func (n *Node) URL() string { return n.Svr.GetAddr() }

// Conn returns a (cached) real gRPC connection to the member's client URL.
func (n *Node) Conn() (*grpc.ClientConn, error) {
	n.mu.Lock()
	defer n.mu.Unlock()
	if n.conn != nil {
		return n.conn, nil
	}
	ctx, cancel := context.WithTimeout(context.Background(), 10*time.Second)
	defer cancel()
	c, err := grpc.DialContext(ctx, n.Addr(), grpc.WithInsecure(), grpc.WithBlock())
	if err != nil {
		return nil, err
	}
	n.conn = c
	return c, nil
}

// PD returns the gRPC client of the member.
func (n *Node) PD() (pdpb.PDClient, error) {
	c, err := n.Conn()
	if err != nil {
		return nil, err
	}
	return pdpb.NewPDClient(c), nil
}

func (n *Node) closeConn() {
	n.mu.Lock()
	defer n.mu.Unlock()
	if n.conn != nil {
		n.conn.Close()
		n.conn = nil
	}
}

// Header is the request header real clients send.
func (n *Node) Header() *pdpb.RequestHeader { return &pdpb.RequestHeader{ClusterId: n.Svr.ClusterID()} }

// Root is the etcd root path of the cluster (/pd/<cluster id>).
func (n *Node) Root() string { return path.Dir(n.Svr.GetMember().GetLeaderPath()) }

// Serving: leader with a running (bootstrapped) cluster.
func (n *Node) Serving() bool {
	return !n.Svr.IsClosed() && n.Svr.GetMember().IsLeader() && n.Svr.GetRaftCluster() != nil
}

// Record is what etcd holds at one instant: who owns the leader record and the stored id window end.
type Record struct {
	Holder    uint64 // member id in the leader record, 0 = no record
	CreateRev int64  // create revision of the leader record (changes with every election)
	AllocID   uint64 // stored alloc_id (0 = key absent)
	Rev       int64  // store revision of the read
}

// ReadRecord reads leader record and alloc_id in ONE read-only transaction (one snapshot)
// through the member's own etcd client, out of band of every code path under test.
func (n *Node) ReadRecord() (Record, error) {
	var r Record
	cli := n.Svr.GetClient()
	if cli == nil {
		return r, fmt.Errorf("no etcd client")
	}
	ctx, cancel := context.WithTimeout(context.Background(), 5*time.Second)
	defer cancel()
	root := n.Root()
	resp, err := cli.Txn(ctx).Then(clientv3.OpGet(path.Join(root, "leader")), clientv3.OpGet(path.Join(root, "alloc_id"))).Commit()
	if err != nil {
		return r, err
	}
	r.Rev = resp.Header.Revision
	if kvs := resp.Responses[0].GetResponseRange().Kvs; len(kvs) == 1 {
		m := &pdpb.Member{}
		if err := m.Unmarshal(kvs[0].Value); err != nil {
			return r, fmt.Errorf("leader record does not parse: %v", err)
		}
		r.Holder, r.CreateRev = m.GetMemberId(), kvs[0].CreateRevision
	}
	if kvs := resp.Responses[1].GetResponseRange().Kvs; len(kvs) == 1 {
		v, err := typeutil.BytesToUint64(kvs[0].Value)
		if err != nil {
			return r, fmt.Errorf("alloc_id does not parse: %v", err)
		}
		r.AllocID = v
	}
	return r, nil
}

// NotLeader is an interval of Stamp() time during which a member provably was not the
// leader: From is taken after ResetLeader() returned (lease closed, cached leader unset,
// leader record revoked), Until is the START stamp of the last out-of-band read that
// still found the leader record absent or owned by somebody else. A new campaign of
// the member commits after that read's linearization point, i.e. after Until; the
// member enables itself (EnableLeader) and initialises its TSO only after its campaign
// committed. A request sent after From whose answer arrived before Until was therefore
// handled entirely while the member was not leader. Until == 0: nothing proven.
type NotLeader struct {
	From, Until int64
	AllocAtFrom uint64 // stored alloc_id while there was provably no leader record of the member (first read)
	AllocMoved  string // non-empty: alloc_id changed between two reads that both saw no record of the member
	Polls       int
}

// Covers reports whether a request (send, recv stamps) was handled entirely inside the interval.
func (w NotLeader) Covers(send, recv int64) bool {
	return w.Until != 0 && send > w.From && recv != 0 && recv < w.Until
}

// StepDown makes the member give up its leadership the way the admin path and the
// integration tests do (Member.ResetLeader; resign also moves the etcd leadership away,
// a no-op on a 1-member cluster) and watches the leader record out of band until it is
// owned by this member again or stop is closed / d elapsed.
func (n *Node) StepDown(resign bool, stop <-chan struct{}, d time.Duration) (NotLeader, error) {
	var w NotLeader
	id := n.Svr.GetMember().ID()
	var err error
	if resign && n.TS != nil {
		err = n.TS.ResignLeader()
	} else {
		n.Svr.GetMember().ResetLeader()
	}
	w.From = Stamp()
	if err != nil {
		return w, err
	}
	deadline := time.Now().Add(d)
	last := int64(0)
	haveAlloc := false
	for {
		s := Stamp()
		if last != 0 && s-last > int64(2*time.Second) {
			// the harness itself was stalled: do not bridge the gap
			return w, nil
		}
		r, e := n.ReadRecord()
		if e != nil {
			return w, nil
		}
		if r.Holder == id {
			return w, nil
		}
		w.Polls++
		if n.Single && r.Holder == 0 {
			// the only campaigner is this member: between two reads without a record nobody was leader
			if !haveAlloc {
				w.AllocAtFrom, haveAlloc = r.AllocID, true
			} else if r.AllocID != w.AllocAtFrom && w.AllocMoved == "" {
				w.AllocMoved = fmt.Sprintf("alloc_id %d -> %d", w.AllocAtFrom, r.AllocID)
			}
		}
		w.Until, last = s, s
		select {
		case <-stop:
			return w, nil
		default:
		}
		if time.Now().After(deadline) {
			return w, nil
		}
		time.Sleep(300 * time.Microsecond)
	}
}

// WaitServing waits until the member is leader again with a running cluster.
func (n *Node) WaitServing(d time.Duration) bool {
	deadline := time.Now().Add(d)
	for {
		if n.Serving() {
			return true
		}
		if time.Now().After(deadline) {
			return false
		}
		time.Sleep(2 * time.Millisecond)
	}
}

// ---------------------------------------------------------------- real multi-member cluster (thorough tier)

// Multi is a real n-member cluster, bootstrapped.
type Multi struct {
	Nodes    []*Node
	cluster  *tests.TestCluster
	cancel   context.CancelFunc
	StartupS float64
}

var (
	multiMu  sync.Mutex
	multiCur *Multi
)

// GetMulti returns the process-wide 3-member cluster, starting it on first use
// (10-15 s). An error means "fixture not available" (inconclusive), never a violation.
func GetMulti() (*Multi, error) {
	multiMu.Lock()
	defer multiMu.Unlock()
	if multiCur != nil {
		return multiCur, nil
	}
	t0 := time.Now()
	var last error
	for i := 0; i < 3; i++ {
		m, err := startMulti(3)
		if err == nil {
			m.StartupS = time.Since(t0).Seconds()
			multiCur = m
			return m, nil
		}
		last = err
		fmt.Printf("livesrv: multi start attempt %d failed: %v\n", i+1, err)
		time.Sleep(time.Duration(300*(i+1)) * time.Millisecond)
	}
	return nil, last
}

func startMulti(n int) (m *Multi, err error) {
	ctx, cancel := context.WithCancel(context.Background())
	var cl *tests.TestCluster
	defer func() {
		if r := recover(); r != nil {
			err = fmt.Errorf("panic while starting: %v", r)
		}
		if err != nil {
			cancel()
			if cl != nil {
				cl.Destroy()
			}
		}
	}()
	cl, err = tests.NewTestCluster(ctx, n, func(conf *config.Config, _ string) {
		conf.Log.Level = "fatal"
		conf.LeaderLease = 10
	})
	if err != nil {
		return nil, err
	}
	errc := make(chan error, 1)
	go func() { errc <- cl.RunInitialServers() }()
	select {
	case err = <-errc:
		if err != nil {
			return nil, err
		}
	case <-time.After(90 * time.Second):
		return nil, fmt.Errorf("servers did not come up within 90s")
	}
	name := cl.WaitLeader()
	if name == "" {
		return nil, fmt.Errorf("no leader elected")
	}
	if err = cl.GetServer(name).BootstrapCluster(); err != nil {
		return nil, fmt.Errorf("bootstrap: %v", err)
	}
	m = &Multi{cluster: cl, cancel: cancel}
	for nm, ts := range cl.GetServers() {
		m.Nodes = append(m.Nodes, &Node{Name: nm, Svr: ts.GetServer(), TS: ts})
	}
	// deterministic order
	for i := range m.Nodes {
		for j := i + 1; j < len(m.Nodes); j++ {
			if m.Nodes[j].Name < m.Nodes[i].Name {
				m.Nodes[i], m.Nodes[j] = m.Nodes[j], m.Nodes[i]
			}
		}
	}
	if m.WaitLeader(30*time.Second) == nil {
		return nil, fmt.Errorf("cluster not serving 30s after bootstrap")
	}
	return m, nil
}

// Leader returns the member that currently serves as leader (nil if none).
func (m *Multi) Leader() *Node {
	for _, n := range m.Nodes {
		if n.Serving() {
			return n
		}
	}
	return nil
}

// WaitLeader waits for a serving leader that every member agrees on.
func (m *Multi) WaitLeader(d time.Duration) *Node {
	deadline := time.Now().Add(d)
	for {
		if l := m.Leader(); l != nil {
			agreed := true
			for _, n := range m.Nodes {
				if n.Svr.GetMember().GetLeaderID() != l.Svr.GetMember().ID() {
					agreed = false
				}
			}
			if agreed {
				return l
			}
		}
		if time.Now().After(deadline) {
			return nil
		}
		time.Sleep(5 * time.Millisecond)
	}
}

// ShutdownMulti stops the multi-member cluster and removes its data directories. Safe to call twice.
func ShutdownMulti() {
	multiMu.Lock()
	defer multiMu.Unlock()
	if multiCur == nil {
		return
	}
	m := multiCur
	multiCur = nil
	var dirs []string
	for _, n := range m.Nodes {
		n.closeConn()
		dirs = append(dirs, n.Svr.GetConfig().DataDir)
	}
	done := make(chan struct{})
	go func() {
		defer close(done)
		defer func() { recover() }()
		m.cluster.Destroy()
		m.cancel()
	}()
	select {
	case <-done:
	case <-time.After(20 * time.Second):
	}
	for _, d := range dirs {
		os.RemoveAll(d)
	}
}

// ShutdownAll closes the gRPC connection of the single-member node, stops the live server and the multi cluster.
func ShutdownAll() {
	nodeMu.Lock()
	if fixNode != nil {
		fixNode.closeConn()
		fixNode = nil
	}
	nodeMu.Unlock()
	Shutdown()
	ShutdownMulti()
}
