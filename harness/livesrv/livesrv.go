// Package livesrv is the shared fixture of the C15 and C18 checks: ONE live,
// bootstrapped, 1-member PD server per test process (embedded etcd, leader
// elected, one store + one region). Cases swap the server's storage for a
// fault/gate wrapper over a fresh memory KV and reset every piece of state the
// code under test can reach (persist options, default placement rule,
// replication-mode manager) to the base captured right after start-up, so that
// a case is a pure function of its data.
//
// A start-up failure (port clash between concurrently running shard processes,
// no leader within the deadline ...) is never a violation: the process prints
// VERIF-FIXTURE-FAILURE and exits with status 3, which the driver maps to
// "inconclusive" (non-zero exit without a failing case).
package livesrv

import (
	"bytes"
	"context"
	"encoding/json"
	"fmt"
	"os"
	"pdverif/vkit"
	"reflect"
	"runtime"
	"sync"
	"time"
	"unsafe"

	"github.com/coreos/go-semver/semver"
	"github.com/pingcap/kvproto/pkg/metapb"
	"github.com/pingcap/kvproto/pkg/pdpb"
	"github.com/tikv/pd/pkg/cache"
	"github.com/tikv/pd/pkg/tsoutil"
	"github.com/tikv/pd/server"
	"github.com/tikv/pd/server/config"
	"github.com/tikv/pd/server/core"
	"github.com/tikv/pd/server/kv"
	"github.com/tikv/pd/server/schedule/placement"
	"github.com/tikv/pd/server/tso"
	"github.com/tikv/pd/tests"
	"pdverif/vkit/faultkv"
)

// Fixture is the live server plus the base state captured after bootstrap.
type Fixture struct {
	Svr     *server.Server
	cluster *tests.TestCluster
	cancel  context.CancelFunc
	orig    *core.Storage // the storage object the server created for itself (restored before Close)
	// store is what the running server and its raft cluster (rule manager, replication-mode manager, ...) use
	// as their storage: the server's own etcd-backed kv.Base behind a fault wrapper (clusterKV), installed
	// BEFORE the cluster was bootstrapped so that the cluster's components were created on top of it. The
	// wrapper is a pass-through unless a case installs a gate with ClusterGate.
	store     *core.Storage
	clusterKV *faultkv.KV
	gateMu    sync.Mutex
	gateG     uint64
	gateFn    func(kind, key string) error
	gateAll   func(kind, key string) error

	// base state (JSON) of every configuration section, captured after bootstrap
	baseSchedule, baseReplication, basePDServer, baseReplMode, baseLabel []byte
	baseVersion                                                          semver.Version
	// StartupS is how long start-up took (reported once).
	StartupS float64
}

var (
	mu  sync.Mutex
	cur *Fixture
)

const startAttempts = 6

// Get returns the process-wide fixture, starting it on first use.
func Get() (*Fixture, error) {
	mu.Lock()
	defer mu.Unlock()
	if cur != nil {
		return cur, nil
	}
	t0 := time.Now()
	var last error
	for i := 0; i < startAttempts; i++ {
		f, err := start()
		if err == nil && os.Getenv("VERIF_LIVESRV_FAIL") != "" {
			// self-test of the failure path: pretend the start-up failed (must end as "inconclusive")
			f.Svr.SetStorage(f.orig)
			f.cluster.Destroy()
			f.cancel()
			f, err = nil, fmt.Errorf("forced by VERIF_LIVESRV_FAIL")
		}
		if err == nil {
			f.StartupS = time.Since(t0).Seconds()
			cur = f
			return f, nil
		}
		last = err
		fmt.Printf("livesrv: start attempt %d failed: %v\n", i+1, err)
		time.Sleep(time.Duration(200*(i+1)) * time.Millisecond)
	}
	return nil, fmt.Errorf("live server did not start in %d attempts: %v", startAttempts, last)
}

// MustGet is Get, but a failure ends the process as "inconclusive" (exit 3 and
// no failing case recorded), never as a violation.
func MustGet() *Fixture {
	f, err := Get()
	if err != nil {
		Fatal(err.Error())
	}
	return f
}

// Fatal ends the process because the fixture (not the property) is broken.
func Fatal(msg string) {
	if f := cur; f != nil {
		// best effort: do not leave the data directory behind (no locking: we are about to exit)
		os.RemoveAll(f.Svr.GetConfig().DataDir)
	}
	fmt.Printf("VERIF-FIXTURE-FAILURE (inconclusive, not a violation): %s\n", msg)
	vkit.FlushStats() // what the properties before this one found must not be lost
	os.Exit(3)
}

func start() (f *Fixture, err error) {
	ctx, cancel := context.WithCancel(context.Background())
	var cl *tests.TestCluster
	defer func() {
		if r := recover(); r != nil {
			err = fmt.Errorf("panic while starting: %v", r)
		}
		if err != nil {
			cancel()
			if cl != nil {
				cl.Destroy()
			}
		}
	}()
	cl, err = tests.NewTestCluster(ctx, 1, func(conf *config.Config, _ string) {
		conf.Log.Level = "fatal"
		// a long leader lease: a starved shard process must not lose leadership in the middle of a case
		conf.LeaderLease = 10
	})
	if err != nil {
		return nil, err
	}
	// RunInitialServers blocks until the embedded etcd is up; guard it with a deadline
	errc := make(chan error, 1)
	go func() { errc <- cl.RunInitialServers() }()
	select {
	case err = <-errc:
		if err != nil {
			return nil, err
		}
	case <-time.After(60 * time.Second):
		return nil, fmt.Errorf("server did not come up within 60s")
	}
	name := cl.WaitLeader()
	if name == "" {
		return nil, fmt.Errorf("no leader elected")
	}
	ts := cl.GetServer(name)
	svr := ts.GetServer()
	f = &Fixture{Svr: svr, cluster: cl, cancel: cancel, orig: svr.GetStorage()}
	// Put the fault wrapper under the server's storage before bootstrapping: RaftCluster.Start (run by the
	// bootstrap) hands s.GetStorage() to the rule manager, the replication-mode manager and the cluster itself.
	// The leader campaign (reloadConfigFromKV, createRaftCluster) is over once IsLeader is true, so nothing
	// else reads the field right now.
	f.clusterKV = faultkv.New(f.orig.Base)
	f.store = core.NewStorage(f.clusterKV, core.WithRegionStorage(f.orig.GetRegionStorage()))
	if svr.GetPersistOptions().IsUseRegionStorage() {
		f.store.SwitchToRegionStorage() // what reloadConfigFromKV did to the original object
	}
	f.clusterKV.SetGate(f.clusterGate)
	svr.SetStorage(f.store)
	if err = ts.BootstrapCluster(); err != nil {
		svr.SetStorage(f.orig)
		return nil, fmt.Errorf("bootstrap: %v", err)
	}
	deadline := time.Now().Add(30 * time.Second)
	for {
		if f.Healthy() {
			if _, e := f.Now(); e == nil {
				break
			}
		}
		if time.Now().After(deadline) {
			return nil, fmt.Errorf("cluster not serving 30s after bootstrap")
		}
		time.Sleep(20 * time.Millisecond)
	}
	// The coordinator starts its schedulers only once the cluster is "prepared" (enough regions have reported a
	// leader) or after 5 minutes, and when it does it writes a clone of the schedule configuration back into the
	// persist options. That one-shot background write must not land in the middle of a case (seen in a thorough
	// run: 7 of 16 shards reported phantom changes of the schedule section at the 5-minute mark). Report the
	// bootstrap region with a leader, then wait until coordinator.run has returned.
	peer := &metapb.Peer{Id: 3, StoreId: 1, Role: metapb.PeerRole_Voter}
	if err = cl.HandleRegionHeartbeat(core.NewRegionInfo(&metapb.Region{Id: 2, Peers: []*metapb.Peer{peer}}, peer)); err != nil {
		return nil, fmt.Errorf("region heartbeat: %v", err)
	}
	deadline = time.Now().Add(30 * time.Second)
	for coordinatorStarting() || len(svr.GetRaftCluster().GetSchedulers()) == 0 {
		if time.Now().After(deadline) {
			return nil, fmt.Errorf("coordinator did not start its schedulers within 30s")
		}
		time.Sleep(50 * time.Millisecond)
	}
	rm := svr.GetRaftCluster().GetRuleManager()
	if !rm.IsInitialized() {
		// placement rules are on by default; make the precondition explicit
		if err = rm.Initialize(int(svr.GetReplicationConfig().MaxReplicas), svr.GetReplicationConfig().LocationLabels); err != nil {
			return nil, fmt.Errorf("rule manager: %v", err)
		}
	}
	f.baseSchedule, _ = json.Marshal(svr.GetScheduleConfig())
	f.baseReplication, _ = json.Marshal(svr.GetReplicationConfig())
	f.basePDServer, _ = json.Marshal(svr.GetPDServerConfig())
	f.baseReplMode, _ = json.Marshal(svr.GetReplicationModeConfig())
	f.baseLabel, _ = json.Marshal(svr.GetLabelProperty())
	f.baseVersion = svr.GetClusterVersion()
	return f, nil
}

// coordinatorStarting reports whether some goroutine is still inside cluster.(*coordinator).run,
// i.e. the scheduler start-up (which ends with a write of the schedule configuration) is not over.
func coordinatorStarting() bool {
	buf := make([]byte, 8<<20)
	n := runtime.Stack(buf, true)
	return bytes.Contains(buf[:n], []byte("cluster.(*coordinator).run("))
}

// Shutdown stops the server and removes its data directory. Safe to call twice.
func Shutdown() {
	mu.Lock()
	defer mu.Unlock()
	if cur == nil {
		return
	}
	f := cur
	cur = nil
	f.Svr.SetStorage(f.orig)
	done := make(chan struct{})
	go func() {
		defer close(done)
		defer func() { recover() }()
		f.cluster.Destroy()
		f.cancel()
	}()
	select {
	case <-done:
	case <-time.After(15 * time.Second):
		// do not hang the test binary on a slow close; the data dir is removed anyway
		os.RemoveAll(f.Svr.GetConfig().DataDir)
	}
}

// Healthy reports whether the server is still leader with a running cluster.
func (f *Fixture) Healthy() bool {
	return !f.Svr.IsClosed() && f.Svr.GetMember().IsLeader() && f.Svr.GetRaftCluster() != nil
}

// Header is the request header real clients send.
func (f *Fixture) Header() *pdpb.RequestHeader {
	return &pdpb.RequestHeader{ClusterId: f.Svr.ClusterID()}
}

// Now reads the server's TSO clock — the clock UpdateServiceGCSafePoint uses for
// "now". It is monotone, so two readings bracket every reading taken in between.
func (f *Fixture) Now() (time.Time, error) {
	ts, err := f.Svr.GetTSOAllocatorManager().HandleTSORequest(tso.GlobalDCLocation, 1)
	if err != nil {
		return time.Time{}, err
	}
	t, _ := tsoutil.ParseTimestamp(ts)
	return t, nil
}

// SwapStorage installs a fresh, empty memory KV behind a fault wrapper as the
// server's storage and returns the wrapper. The oracle reads through
// core.NewStorage(w.Base()), which bypasses faults and gate.
func (f *Fixture) SwapStorage() *faultkv.KV {
	w := faultkv.New(kv.NewMemoryKV())
	f.Svr.SetStorage(core.NewStorage(w))
	return w
}

// RestoreStorage puts the server's own (etcd) storage back.
func (f *Fixture) RestoreStorage() { f.Svr.SetStorage(f.store) }

func goid() uint64 {
	b := make([]byte, 64)
	b = b[:runtime.Stack(b, false)]
	b = bytes.TrimPrefix(b, []byte("goroutine "))
	var id uint64
	for _, c := range b {
		if c < '0' || c > '9' {
			break
		}
		id = id*10 + uint64(c-'0')
	}
	return id
}

func (f *Fixture) clusterGate(kind, key string) error {
	f.gateMu.Lock()
	fn, g, all := f.gateFn, f.gateG, f.gateAll
	f.gateMu.Unlock()
	if all != nil {
		if err := all(kind, key); err != nil {
			return err
		}
	}
	if fn == nil || (kind != "save" && kind != "remove") || goid() != g {
		return nil
	}
	return fn(kind, key)
}

// ClusterGateAll installs fn as a gate for EVERY operation of EVERY goroutine on the cluster-level
// storage (fn runs on the goroutine that issues the operation and may block it: a scheduling point for
// background goroutines of the live server such as coordinator.run). nil removes it.
func (f *Fixture) ClusterGateAll(fn func(kind, key string) error) {
	f.gateMu.Lock()
	f.gateAll = fn
	f.gateMu.Unlock()
}

// ClusterBase is the cluster-level storage below the fault wrapper (for the oracle's own reads).
func (f *Fixture) ClusterBase() kv.Base { return f.clusterKV.Base() }

// OnCoordinatorRun reports whether the calling goroutine is inside cluster.(*coordinator).run.
func OnCoordinatorRun() bool {
	buf := make([]byte, 16<<10)
	n := runtime.Stack(buf, false)
	return bytes.Contains(buf[:n], []byte("cluster.(*coordinator).run("))
}

// CoordinatorStarting reports whether coordinator.run has not returned yet (it is waiting for the
// cluster to be "prepared", or creating its schedulers, or writing the schedule configuration back).
func CoordinatorStarting() bool { return coordinatorStarting() }

// RestartCluster stops the raft cluster and starts it again the way the leader callback does
// (RaftCluster.Start(server)): stores, regions and rules are loaded from the cluster-level storage, the
// loaded regions have no leader yet, so the new coordinator waits (up to 5 minutes) for region
// heartbeats before it starts its schedulers. The server's storage must be the cluster-level one.
func (f *Fixture) RestartCluster() error {
	rc := f.Svr.GetRaftCluster()
	if rc == nil {
		return fmt.Errorf("cluster not running")
	}
	f.Svr.SetStorage(f.store)
	rc.Stop()
	// The region cache (BasicCluster) belongs to the server object and survives the restart with the leader the
	// region reported earlier; a newly started process has only what storage holds: the region without a leader.
	// Put it back into that state, otherwise the next heartbeat is not "new" and the coordinator waits 5 minutes.
	peer := &metapb.Peer{Id: 3, StoreId: 1, Role: metapb.PeerRole_Voter}
	f.Svr.GetBasicCluster().PutRegion(core.NewRegionInfo(&metapb.Region{Id: 2, Peers: []*metapb.Peer{peer}}, nil))
	if err := rc.Start(f.Svr); err != nil {
		return fmt.Errorf("restart of the raft cluster: %v", err)
	}
	if f.Svr.GetRaftCluster() == nil {
		return fmt.Errorf("raft cluster did not come back")
	}
	// the coordinator goroutine is started by Start; give it a moment to show up
	for i := 0; i < 200 && !coordinatorStarting(); i++ {
		time.Sleep(10 * time.Millisecond)
	}
	return nil
}

// HeartbeatBootstrapRegion reports the bootstrap region (id 2, one voter on store 1) with a leader.
func (f *Fixture) HeartbeatBootstrapRegion() error {
	peer := &metapb.Peer{Id: 3, StoreId: 1, Role: metapb.PeerRole_Voter}
	return f.cluster.HandleRegionHeartbeat(core.NewRegionInfo(&metapb.Region{Id: 2, Peers: []*metapb.Peer{peer}}, peer))
}

// WaitCoordinator waits until coordinator.run has returned (the caller has seen it running before; the
// served scheduler list may legitimately be empty, so registered schedulers are no criterion).
func (f *Fixture) WaitCoordinator(d time.Duration) error {
	deadline := time.Now().Add(d)
	for {
		if f.Svr.GetRaftCluster() != nil && !coordinatorStarting() {
			return nil
		}
		if time.Now().After(deadline) {
			return fmt.Errorf("coordinator did not start its schedulers within %v", d)
		}
		time.Sleep(20 * time.Millisecond)
	}
}

// ClusterGate installs fn as a gate for the WRITES (save, remove) that the CALLING goroutine issues to
// the cluster-level storage — the etcd-backed storage used by the raft cluster's components (placement
// rule manager, replication-mode manager, store/region meta). fn returning an error fails that write
// cleanly (not applied). Writes of every other goroutine (background jobs of the live server, HTTP
// handlers) pass untouched, so an armed fault cannot be consumed by a background write. nil removes it.
func (f *Fixture) ClusterGate(fn func(kind, key string) error) {
	g := goid()
	f.gateMu.Lock()
	f.gateFn, f.gateG = fn, g
	f.gateMu.Unlock()
}

// BaseSections returns the base configuration sections as JSON
// (schedule, replication, pd-server, replication-mode, label-property).
func (f *Fixture) BaseSections() (schedule, replication, pdServer, replMode, label []byte, version semver.Version) {
	return f.baseSchedule, f.baseReplication, f.basePDServer, f.baseReplMode, f.baseLabel, f.baseVersion
}

// ResetConfig puts every piece of state the configuration setters can reach
// back to the base captured after bootstrap, WITHOUT going through the setters
// under test: the persist options are plain atomic stores; the default
// placement rule is re-set from a fresh object (the rule manager lives on the
// server's own etcd storage and survives SwapStorage); the replication-mode
// manager gets the base mode back. If persist is true the base is also written
// to the (already swapped) storage through the un-faulted base KV, as it is on a
// real leader (the configuration is persisted when the leader starts).
func (f *Fixture) ResetConfig(w *faultkv.KV) error {
	opt := f.Svr.GetPersistOptions()
	var sc config.ScheduleConfig
	var rc config.ReplicationConfig
	var pc config.PDServerConfig
	var mc config.ReplicationModeConfig
	lc := config.LabelPropertyConfig{}
	if err := json.Unmarshal(f.baseSchedule, &sc); err != nil {
		return err
	}
	if err := json.Unmarshal(f.baseReplication, &rc); err != nil {
		return err
	}
	if err := json.Unmarshal(f.basePDServer, &pc); err != nil {
		return err
	}
	if err := json.Unmarshal(f.baseReplMode, &mc); err != nil {
		return err
	}
	if err := json.Unmarshal(f.baseLabel, &lc); err != nil {
		return err
	}
	v := f.baseVersion
	// temporary (TTL) overrides live in an unexported cache of the options object: empty it
	if fv := reflect.ValueOf(opt).Elem().FieldByName("ttl"); fv.IsValid() && !fv.IsNil() {
		if c, ok := reflect.NewAt(fv.Type(), unsafe.Pointer(fv.UnsafeAddr())).Elem().Interface().(*cache.TTLString); ok && c != nil {
			c.Clear()
		}
	}
	opt.SetScheduleConfig(&sc)
	opt.SetReplicationConfig(&rc)
	opt.SetPDServerConfig(&pc)
	opt.SetReplicationModeConfig(&mc)
	opt.SetLabelPropertyConfig(lc)
	opt.SetClusterVersion(&v)

	rcl := f.Svr.GetRaftCluster()
	if rcl == nil {
		return fmt.Errorf("cluster not running")
	}
	rm := rcl.GetRuleManager()
	def := &placement.Rule{GroupID: "pd", ID: "default", Role: placement.Voter,
		Count: int(rc.MaxReplicas), LocationLabels: append([]string{}, rc.LocationLabels...)}
	if err := rm.SetRule(def); err != nil {
		return fmt.Errorf("reset default rule: %v", err)
	}
	// SetRule writes only what differs from what the manager serves; a stored record that differs from the served
	// rule (left by a case that found such a divergence) would survive: write the record itself too
	if r := rm.GetRule("pd", "default"); r != nil {
		raw := core.NewStorage(f.clusterKV.Base())
		if err := raw.SaveRule(r.StoreKey(), r); err != nil {
			return fmt.Errorf("reset stored default rule: %v", err)
		}
		// records of rules that are not served (left by a multi-rule update that failed half way) go as well
		var stale []string
		raw.LoadRules(func(k, _ string) {
			if k != r.StoreKey() {
				stale = append(stale, k)
			}
		})
		for _, k := range stale {
			raw.DeleteRule(k)
		}
	}
	// (the plain default rule first: it covers the whole key space, so the others can go in any order)
	for _, r := range rm.GetAllRules() {
		if !(r.GroupID == "pd" && r.ID == "default") {
			if err := rm.DeleteRule(r.GroupID, r.ID); err != nil {
				return err
			}
		}
	}
	if err := rcl.GetReplicationMode().UpdateConfig(mc); err != nil {
		return fmt.Errorf("reset replication mode: %v", err)
	}
	if w != nil {
		if err := opt.Persist(core.NewStorage(w.Base())); err != nil {
			return err
		}
	}
	return nil
}
