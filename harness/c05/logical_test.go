package c05

// Property "logical": the suffix arithmetic, reached through exported entries only.
//
// server side: differentiateLogical is a method of the unexported timestampOracle; the exported way
// to it is a real LocalTSOAllocator (tso.NewLocalTSOAllocator + CampaignAllocatorLeader + Initialize(suffix) +
// WriteTSO (what SyncMaxTS does) + GenerateTSO(count)) whose manager learnt the cluster's largest suffix from
// etcd through ClusterDCLocationChecker.
// client side: addLogical is unexported in package pd; the exported way to it is the real client
// (GetLocalTSAsync/Wait) talking to a scripted gRPC PD that answers a Tso request of count n with one
// (physical, logical, suffix_bits) triple.
//
// Oracle (from the comments in tso.go / client.go): a local timestamp is raw<<bits + suffix with
// 2^bits > every suffix; a response of count n stands for the n timestamps whose raw parts are the n
// consecutive integers ending at the returned one; the client hands them out in request order; order of raw
// parts is preserved; a logical part >= 2^18 is never handed out.

import (
	"context"
	"fmt"
	"net"
	"path"
	"sync"
	"sync/atomic"
	"time"

	"github.com/pingcap/kvproto/pkg/pdpb"
	pd "github.com/tikv/pd/client"
	"github.com/tikv/pd/server/election"
	"github.com/tikv/pd/server/tso"
	"google.golang.org/grpc"
	"google.golang.org/grpc/health"
	healthpb "google.golang.org/grpc/health/grpc_health_v1"
	"pdverif/vkit"
	"pgregory.net/rapid"
)

const maxLogical = int64(1) << 18

type LCase struct {
	Logical int64    `json:"logical"` // raw logical part written into the allocator before generating
	Suffix  int      `json:"suffix"`  // this dc-location's suffix
	MaxS    int      `json:"max_s"`   // largest suffix persisted in the cluster (>= Suffix)
	Counts  []uint32 `json:"counts"`  // successive GenerateTSO counts
	Batch   int      `json:"batch"`   // client: number of requests merged into one Tso request
}

func genLogical(t *rapid.T) LCase {
	c := LCase{}
	c.MaxS = rapid.SampledFrom([]int{1, 1, 2, 3, 3, 4, 5, 7, 8, 9, 15, 15, 16, 17, 31}).Draw(t, "max_s")
	if rapid.Bool().Draw(t, "isMax") {
		c.Suffix = c.MaxS
	} else {
		c.Suffix = rapid.IntRange(1, c.MaxS).Draw(t, "suffix")
	}
	b := needBits(int32(c.MaxS))
	top := maxLogical >> uint(b) // raw parts >= top overflow after differentiation
	switch rapid.IntRange(0, 5).Draw(t, "lkind") {
	case 0:
		c.Logical = 0
	case 1:
		c.Logical = rapid.Int64Range(0, 100).Draw(t, "l")
	case 2, 3:
		c.Logical = rapid.Int64Range(0, top-1).Draw(t, "l")
	default:
		c.Logical = top - rapid.Int64Range(1, 40).Draw(t, "below")
	}
	n := rapid.IntRange(1, 3).Draw(t, "ncounts")
	for i := 0; i < n; i++ {
		c.Counts = append(c.Counts, uint32(rapid.SampledFrom([]int{1, 1, 2, 3, 7, 10, 31, 100}).Draw(t, "count")))
	}
	c.Batch = rapid.SampledFrom([]int{1, 2, 3, 5, 8, 17, 40}).Draw(t, "batch")
	return c
}

// ---------------------------------------------------------------- scripted PD for the client side

type fakePD struct {
	pdpb.PDServer // only GetMembers and Tso are reached by the client
	addr          string
	srv           *grpc.Server
	mu            sync.Mutex
	physical      int64
	raw           int64
	bits          uint32
	suffix        int64
	gate          chan struct{}
	got           []uint32
	arrived       chan struct{}
}

func (s *fakePD) member() *pdpb.Member {
	return &pdpb.Member{Name: "fake", MemberId: 1, ClientUrls: []string{s.addr}, PeerUrls: []string{s.addr}}
}

func (s *fakePD) GetMembers(context.Context, *pdpb.GetMembersRequest) (*pdpb.GetMembersResponse, error) {
	m := s.member()
	return &pdpb.GetMembersResponse{
		Header:              &pdpb.ResponseHeader{ClusterId: 7},
		Members:             []*pdpb.Member{m},
		Leader:              m,
		EtcdLeader:          m,
		TsoAllocatorLeaders: map[string]*pdpb.Member{"dc-a": m},
	}, nil
}

func (s *fakePD) Tso(stream pdpb.PD_TsoServer) error {
	for {
		req, err := stream.Recv()
		if err != nil {
			return nil
		}
		s.mu.Lock()
		gate := s.gate
		s.got = append(s.got, req.GetCount())
		arrived := s.arrived
		s.mu.Unlock()
		if arrived != nil {
			select {
			case arrived <- struct{}{}:
			default:
			}
		}
		if gate != nil {
			select {
			case <-gate:
			case <-time.After(2 * time.Second):
			}
		}
		s.mu.Lock()
		s.raw += int64(req.GetCount())
		resp := &pdpb.TsoResponse{
			Header: &pdpb.ResponseHeader{ClusterId: 7},
			Count:  req.GetCount(),
			Timestamp: &pdpb.Timestamp{
				Physical:   s.physical,
				Logical:    s.raw<<s.bits + s.suffix,
				SuffixBits: s.bits,
			},
		}
		s.mu.Unlock()
		if err := stream.Send(resp); err != nil {
			return nil
		}
	}
}

var (
	fakeOnce   sync.Once
	fake       *fakePD
	fakeCli    pd.Client
	fakeErr    error
	fakeCancel context.CancelFunc
	lcaseNo    int64
)

func getFake() (*fakePD, pd.Client, error) {
	fakeOnce.Do(func() {
		lis, err := net.Listen("tcp", "127.0.0.1:0")
		if err != nil {
			fakeErr = err
			return
		}
		s := &fakePD{addr: "http://" + lis.Addr().String(), arrived: make(chan struct{}, 16)}
		s.srv = grpc.NewServer()
		pdpb.RegisterPDServer(s.srv, s)
		healthpb.RegisterHealthServer(s.srv, health.NewServer())
		go s.srv.Serve(lis)
		ctx, cancel := context.WithCancel(context.Background())
		cli, err := pd.NewClientWithContext(ctx, []string{s.addr}, pd.SecurityOption{}, pd.WithMaxErrorRetry(3))
		if err != nil {
			cancel()
			s.srv.Stop()
			fakeErr = err
			return
		}
		fake, fakeCli, fakeCancel = s, cli, cancel
	})
	return fake, fakeCli, fakeErr
}

func closeLogical() {
	if fakeCli != nil {
		fakeCancel()
		done := make(chan struct{})
		go func() { fakeCli.Close(); close(done) }()
		select {
		case <-done:
		case <-time.After(3 * time.Second):
		}
		fake.srv.Stop()
	}
}

func compose(physical, logical int64) uint64 { return uint64(physical)<<18 | uint64(logical) }

// ---------------------------------------------------------------- runner

func runLogical(c LCase) (vkit.Info, error) {
	var info vkit.Info
	if c.Suffix < 1 || c.MaxS < c.Suffix || c.MaxS > 31 || c.Logical < 0 || c.Logical >= maxLogical || c.Batch < 1 || c.Batch > 200 {
		return info, nil
	}
	inc, err := runLogicalServer(c, &info)
	if err != nil || inc {
		info.Inconclusive = inc
		return info, err
	}
	inc, err = runLogicalClient(c, &info)
	info.Inconclusive = inc
	info.NonTrivial = !inc
	return info, err
}

func runLogicalServer(c LCase, info *vkit.Info) (bool, error) {
	sl, f, err := getSSlots()
	if err != nil {
		return true, nil
	}
	w := &sworld{f: f, sl: sl, root: f.Root(), leader: -1, updInterval: time.Millisecond}
	n := w.newNode(0)
	defer func() {
		n.mb.ResetLeader()
		quiesce()
		f.DeleteRaw(w.root, true)
	}()
	if err := n.mb.CampaignLeader(600); err != nil {
		return true, nil
	}
	n.mb.EnableLeader()
	// the cluster as earlier PD leaders left it: this member in dc-a (suffix Suffix), another one in dc-z (suffix MaxS)
	put := func(k, v string) bool { return f.PutRaw(path.Join(w.root, k), v) == nil }
	ok := put(fmt.Sprintf("dc-location/%d", n.id), "dc-a") && put("local-tso-suffix/dc-a", fmt.Sprint(c.Suffix))
	if c.MaxS > c.Suffix {
		ok = ok && put("dc-location/200", "dc-z") && put("local-tso-suffix/dc-z", fmt.Sprint(c.MaxS))
	}
	if !ok {
		return true, nil
	}
	n.am.ClusterDCLocationChecker()
	if got, ok := n.am.GetDCLocationInfo("dc-a"); !ok || int(got.Suffix) != c.Suffix {
		return false, fmt.Errorf("server: the PD leader reports suffix %d (known=%v) for dc-a, etcd holds %d", got.Suffix, ok, c.Suffix)
	}
	bits := n.am.GetSuffixBits()
	if 1<<uint(bits) <= c.MaxS {
		return false, fmt.Errorf("server: GetSuffixBits()=%d cannot hold the largest persisted suffix %d", bits, c.MaxS)
	}
	// a local allocator for dc-a, built and elected the way allocatorPatroller / campaignAllocatorLeader do
	ls := election.NewLeadership(sl[0].client, path.Join(w.root, "dc-a"), "dc-a local allocator leader election")
	la, _ := tso.NewLocalTSOAllocator(n.am, ls, "dc-a").(*tso.LocalTSOAllocator)
	if la == nil {
		return true, nil
	}
	if err := la.CampaignAllocatorLeader(600); err != nil {
		return true, nil
	}
	defer ls.Reset()
	if err := la.Initialize(c.Suffix); err != nil {
		return true, nil
	}
	cur, err := la.GetCurrentTSO()
	if err != nil {
		return true, nil
	}
	physical := cur.GetPhysical() + 5000
	if err := la.WriteTSO(&pdpb.Timestamp{Physical: physical, Logical: c.Logical}); err != nil {
		return false, fmt.Errorf("server: WriteTSO(physical+5s, logical %d) failed: %v", c.Logical, err)
	}
	if cur, err = la.GetCurrentTSO(); err != nil || cur.GetPhysical() != physical || cur.GetLogical() != c.Logical {
		return false, fmt.Errorf("server: after WriteTSO(%d,%d) the allocator holds %v (err %v)", physical, c.Logical, cur, err)
	}
	la.EnableAllocatorLeader()
	raw := c.Logical
	var last uint64
	for i, cnt := range c.Counts {
		raw += int64(cnt)
		want := raw<<uint(bits) + int64(c.Suffix)
		ts, err := la.GenerateTSO(cnt)
		if want >= maxLogical {
			if err == nil {
				return false, fmt.Errorf("server: GenerateTSO #%d (count %d, raw part %d, %d suffix bits) returned logical %d; the differentiated logical %d does not fit 18 bits and must not be handed out",
					i, cnt, raw, bits, ts.GetLogical(), want)
			}
			info.Class("server-overflow-refused")
			break
		}
		if err != nil {
			return false, fmt.Errorf("server: GenerateTSO #%d (count %d, raw part %d, %d suffix bits) failed: %v", i, cnt, raw, bits, err)
		}
		if int(ts.GetSuffixBits()) != bits {
			return false, fmt.Errorf("server: response says %d suffix bits, the manager says %d", ts.GetSuffixBits(), bits)
		}
		if ts.GetPhysical() != physical {
			return false, fmt.Errorf("server: physical part moved from %d to %d without any update", physical, ts.GetPhysical())
		}
		lg := ts.GetLogical()
		if lg&(1<<uint(bits)-1) != int64(c.Suffix) {
			return false, fmt.Errorf("server: GenerateTSO #%d returned logical %d whose low %d bits are %d, the suffix is %d", i, lg, bits, lg&(1<<uint(bits)-1), c.Suffix)
		}
		if lg>>uint(bits) != raw {
			return false, fmt.Errorf("server: GenerateTSO #%d (count %d) returned logical %d = raw part %d, expected raw part %d (previous %d + count)", i, cnt, lg, lg>>uint(bits), raw, raw-int64(cnt))
		}
		first := compose(physical, (raw-int64(cnt)+1)<<uint(bits)+int64(c.Suffix))
		if first <= last {
			return false, fmt.Errorf("server: the first timestamp of response #%d (%d) is not above the last of the previous response (%d)", i, first, last)
		}
		last = compose(physical, lg)
		info.Class("server-generate")
	}
	return false, nil
}

func runLogicalClient(c LCase, info *vkit.Info) (bool, error) {
	s, cli, err := getFake()
	if err != nil {
		return true, nil
	}
	bits := uint32(needBits(int32(c.MaxS)))
	raw0 := c.Logical
	// keep the scripted answers inside 18 bits: the client side has no overflow rule of its own
	if lim := maxLogical>>bits - int64(c.Batch) - 2; raw0 > lim {
		raw0 = lim
	}
	if raw0 < 0 {
		return false, nil
	}
	physical := int64(1700000000000) + atomic.AddInt64(&lcaseNo, 1)
	gate := make(chan struct{})
	s.mu.Lock()
	s.physical, s.raw, s.bits, s.suffix = physical, raw0, bits, int64(c.Suffix)
	s.gate, s.got = gate, nil
	for len(s.arrived) > 0 {
		<-s.arrived
	}
	s.mu.Unlock()
	ctx, cancel := context.WithTimeout(context.Background(), 20*time.Second)
	defer cancel()
	// a first request occupies the stream while the next Batch requests queue up and get merged
	primer := cli.GetLocalTSAsync(ctx, "dc-a")
	select {
	case <-s.arrived:
	case <-time.After(10 * time.Second):
		s.mu.Lock()
		s.gate = nil
		s.mu.Unlock()
		close(gate)
		return true, nil
	}
	futs := make([]pd.TSFuture, c.Batch)
	for i := range futs {
		futs[i] = cli.GetLocalTSAsync(ctx, "dc-a")
	}
	s.mu.Lock()
	s.gate = nil
	s.mu.Unlock()
	close(gate)
	check := func(i int, fut pd.TSFuture) (bool, error) {
		p, l, err := fut.Wait()
		if err != nil {
			return true, nil
		}
		want := (raw0+int64(i)+1)<<bits + int64(c.Suffix)
		if p != physical || l != want {
			s.mu.Lock()
			got := append([]uint32(nil), s.got...)
			s.mu.Unlock()
			return false, fmt.Errorf("client: request #%d of the burst got (%d,%d); the PD answered Tso requests of counts %v starting from raw part %d with %d suffix bits and suffix %d, so this request owns (%d,%d)",
				i, p, l, got, raw0, bits, c.Suffix, physical, want)
		}
		if l&(1<<bits-1) != int64(c.Suffix) {
			return false, fmt.Errorf("client: request #%d got logical %d whose low %d bits are not the suffix %d", i, l, bits, c.Suffix)
		}
		return false, nil
	}
	if inc, err := check(0, primer); inc || err != nil {
		return inc, err
	}
	for i, fut := range futs {
		if inc, err := check(i+1, fut); inc || err != nil {
			return inc, err
		}
	}
	s.mu.Lock()
	got := append([]uint32(nil), s.got...)
	s.mu.Unlock()
	if len(got) == 2 && int(got[1]) == c.Batch {
		info.Class(fmt.Sprintf("client-merged-batch-%d", c.Batch))
	} else {
		info.Class("client-batch-split")
	}
	return false, nil
}
