package c05

import (
	"context"
	"fmt"
	"path"
	"strings"
	"sync"
	"testing"

	"github.com/tikv/pd/server/tso"
	"pdverif/vkit"
)

// TestFinding_stale_leader_suffix_duplicate: PD leader pd1 starts its dc-location check for the new
// dc-location dc-1 and stalls right before the create-if-absent txn of the suffix key (value max+1); pd2
// becomes PD leader; the only member of dc-1 is removed; dc-2 joins and pd2 gives it max+1; pd1 continues
// and persists max+1 for dc-1 as well: getOrCreateLocalTSOSuffix (allocator_manager.go:699-736) is not
// fenced by leadership and its txn only guards its own key.
func TestFinding_stale_leader_suffix_duplicate(t *testing.T) {
	ignoreKnown = true
	defer func() { ignoreKnown = false }()
	c := SCase{NM: 2, Ops: []SOp{
		{K: "leader", M: 0},
		{K: "race", L: 0, DC: 1, DC2: 2, X: 0, LV: true},
	}}
	reproduced, detail := false, "not reproduced"
	for i := 0; i < 3 && !reproduced; i++ {
		info, err := runSuffix(c)
		switch {
		case info.Inconclusive:
			detail = "inconclusive (fixture)"
		case err != nil && strings.Contains(err.Error(), "share suffix"):
			reproduced, detail = true, err.Error()
		case err != nil:
			detail = "other violation: " + err.Error()
		default:
			detail = "the stalled former leader's txn did not produce a second dc-location with the same suffix"
		}
	}
	vkit.Finding(t, keyStaleLeaderDup, reproduced, detail)
}

// TestFinding_concurrent_global_same_timestamp: with dc-locations configured, global requests that are in
// flight at the same time and both fall back to the collected local maximum compute the same value
// (max+count); the second resetUserTimestamp(..., ignoreSmaller=true) is silently ignored and both return it
// (global_allocator.go:193-243). One member, one dc-location; each round first moves the local allocator ahead,
// then sends 8 global requests of count 1 at once.
func TestFinding_concurrent_global_same_timestamp(t *testing.T) {
	xmu.Lock()
	x := getCluster([]int{0})
	xmu.Unlock()
	if x == nil {
		vkit.Finding(t, keyGlobalConcurrent, false, "inconclusive: the 1-member cluster did not start")
		return
	}
	ses := newSession(x)
	defer ses.close()
	id := 0
	reproduced, detail := false, "no two concurrent global requests got the same timestamp in 300 rounds"
	for round := 0; round < 300 && !reproduced; round++ {
		ses.do(round, 0, xdc(0), 50, id)
		id++
		evs := make([]*xev, 8)
		var wg sync.WaitGroup
		for k := range evs {
			wg.Add(1)
			go func(k, id int) {
				defer wg.Done()
				evs[k] = ses.do(round, k, "global", 1, id)
			}(k, id)
			id++
		}
		wg.Wait()
		seen := map[uint64]*xev{}
		for _, e := range evs {
			if e.Err != "" {
				continue
			}
			if o, dup := seen[e.last()]; dup {
				reproduced = true
				detail = fmt.Sprintf("round %d: two global requests in flight together both got (physical %d, logical %d): %s ;; %s", round, e.Physical, e.Logical, o, e)
				break
			}
			seen[e.last()] = e
		}
	}
	vkit.Finding(t, keyGlobalConcurrent, reproduced, detail)
}

const (
	keySlashName      = "C05/dc-location-name-with-slash-shares-suffix"
	keyNewLeaderPlain = "C05/new-pd-leader-serves-unsynchronized-global-before-first-dc-check"
)

// TestFinding_dc_location_name_with_slash: getDCLocationSuffixMapFromEtcd (allocator_manager.go) keys the persisted
// suffixes by the LAST path segment of the etcd key. The zone label of a PD is not validated, so "us/east" is a legal
// dc-location; its key <root>/local-tso-suffix/us/east is read back as dc-location "east", and a dc-location really
// called "east" that joins later is handed the same suffix (nothing is written for it).
func TestFinding_dc_location_name_with_slash(t *testing.T) {
	sl, f, err := getSSlots()
	if err != nil {
		vkit.Finding(t, keySlashName, false, "inconclusive (fixture)")
		return
	}
	w := &sworld{f: f, sl: sl, root: f.Root(), leader: -1, dcOf: map[uint64]string{}, hist: map[string]int32{}, values: map[uint64]string{}}
	w.nodes = []*snode{w.newNode(0), w.newNode(1)}
	defer func() {
		w.resign()
		quiesce()
		f.DeleteRaw(w.root, true)
	}()
	w.ctx, w.cancel = context.WithCancel(context.Background())
	defer w.cancel()
	w.setLeader(0)
	if w.incon {
		vkit.Finding(t, keySlashName, false, "inconclusive (election)")
		return
	}
	e1 := w.nodes[0].am.SetLocalTSOConfig("us/east")
	quiesce()
	w.nodes[0].am.ClusterDCLocationChecker()
	e2 := w.nodes[1].am.SetLocalTSOConfig("east")
	quiesce()
	w.nodes[0].am.ClusterDCLocationChecker()
	a, okA := w.nodes[0].am.GetDCLocationInfo("us/east")
	b, okB := w.nodes[0].am.GetDCLocationInfo("east")
	persisted, _ := w.etcdSuffixes()
	rep := e1 == nil && e2 == nil && okA && okB && a.Suffix > 0 && a.Suffix == b.Suffix
	vkit.Finding(t, keySlashName, rep, fmt.Sprintf("join errors %v/%v; the PD leader reports suffix %d for us/east and %d for east; persisted suffix keys: %v", e1, e2, a.Suffix, b.Suffix, persisted))
}

// TestFinding_new_pd_leader_plain_global: GenerateTSO takes the unsynchronized path while the manager's dc-location map
// is empty. A member whose map was never filled (it started while no PD leader was known: the checker returns at once)
// and that wins the election serves global timestamps as soon as the global allocator is initialised; campaignLeader
// (server/server.go) starts the first ClusterDCLocationChecker only later, after EnableLeader. Here: a dc-location is in
// use (its key is in etcd), the member campaigns and initialises the global allocator the way campaignLeader does, and
// a global request is answered without any synchronisation (0 suffix bits) before the first check has run.
func TestFinding_new_pd_leader_plain_global(t *testing.T) {
	sl, f, err := getSSlots()
	if err != nil {
		vkit.Finding(t, keyNewLeaderPlain, false, "inconclusive (fixture)")
		return
	}
	w := &sworld{f: f, sl: sl, root: f.Root(), leader: -1, dcOf: map[uint64]string{}, hist: map[string]int32{}, values: map[uint64]string{}}
	n := w.newNode(0)
	defer func() {
		n.mb.ResetLeader()
		quiesce()
		f.DeleteRaw(w.root, true)
	}()
	ctx, cancel := context.WithCancel(context.Background())
	defer cancel()
	n.am.SetUpAllocator(ctx, tso.GlobalDCLocation, n.mb.GetLeadership())
	// another member serves dc-9 (registered, suffix persisted by the previous PD leader)
	if f.PutRaw(path.Join(w.root, "dc-location", "200"), "dc-9") != nil || f.PutRaw(path.Join(w.root, "local-tso-suffix", "dc-9"), "1") != nil {
		vkit.Finding(t, keyNewLeaderPlain, false, "inconclusive (fixture)")
		return
	}
	if err := n.mb.CampaignLeader(600); err != nil {
		vkit.Finding(t, keyNewLeaderPlain, false, "inconclusive (election)")
		return
	}
	al, _ := n.am.GetAllocator(tso.GlobalDCLocation)
	if al == nil || al.Initialize(0) != nil {
		vkit.Finding(t, keyNewLeaderPlain, false, "inconclusive (global allocator)")
		return
	}
	ts, gerr := n.am.HandleTSORequest(tso.GlobalDCLocation, 1)
	n.mb.EnableLeader()
	n.am.ClusterDCLocationChecker()
	_, after := n.am.HandleTSORequest(tso.GlobalDCLocation, 1)
	rep := gerr == nil && ts.GetPhysical() > 0
	vkit.Finding(t, keyNewLeaderPlain, rep, fmt.Sprintf("before the first dc-location check the global request was answered (err %v, physical %d, logical %d, %d suffix bits) although dc-9 is in use; after the check the same request is synchronised/refused (err %v)", gerr, ts.GetPhysical(), ts.GetLogical(), ts.GetSuffixBits(), after))
}
