package c05

import (
	"fmt"
	"strings"
	"sync"
	"testing"

	"pdverif/vkit"
)

// TestFinding_stale_leader_suffix_duplicate: PD leader pd1 starts its dc-location check for the new
// dc-location dc-1 and stalls right before the create-if-absent txn of the suffix key (value max+1); pd2
// becomes PD leader; the only member of dc-1 is removed; dc-2 joins and pd2 gives it max+1; pd1 continues
// and persists max+1 for dc-1 as well: getOrCreateLocalTSOSuffix (allocator_manager.go:699-736) is not
// fenced by leadership and its txn only guards its own key.
func TestFinding_stale_leader_suffix_duplicate(t *testing.T) {
	ignoreKnown = true
	defer func() { ignoreKnown = false }()
	c := SCase{NM: 2, Ops: []SOp{
		{K: "leader", M: 0},
		{K: "race", L: 0, DC: 1, DC2: 2, X: 0, LV: true},
	}}
	reproduced, detail := false, "not reproduced"
	for i := 0; i < 3 && !reproduced; i++ {
		info, err := runSuffix(c)
		switch {
		case info.Inconclusive:
			detail = "inconclusive (fixture)"
		case err != nil && strings.Contains(err.Error(), "share suffix"):
			reproduced, detail = true, err.Error()
		case err != nil:
			detail = "other violation: " + err.Error()
		default:
			detail = "the stalled former leader's txn did not produce a second dc-location with the same suffix"
		}
	}
	vkit.Finding(t, keyStaleLeaderDup, reproduced, detail)
}

// TestFinding_concurrent_global_same_timestamp: with dc-locations configured, global requests that are in
// flight at the same time and both fall back to the collected local maximum compute the same value
// (max+count); the second resetUserTimestamp(..., ignoreSmaller=true) is silently ignored and both return it
// (global_allocator.go:193-243). One member, one dc-location; each round first moves the local allocator ahead,
// then sends 8 global requests of count 1 at once.
func TestFinding_concurrent_global_same_timestamp(t *testing.T) {
	xmu.Lock()
	x := getCluster([]int{0})
	xmu.Unlock()
	if x == nil {
		vkit.Finding(t, keyGlobalConcurrent, false, "inconclusive: the 1-member cluster did not start")
		return
	}
	ses := newSession(x)
	defer ses.close()
	id := 0
	reproduced, detail := false, "no two concurrent global requests got the same timestamp in 300 rounds"
	for round := 0; round < 300 && !reproduced; round++ {
		ses.do(round, 0, xdc(0), 50, id)
		id++
		evs := make([]*xev, 8)
		var wg sync.WaitGroup
		for k := range evs {
			wg.Add(1)
			go func(k, id int) {
				defer wg.Done()
				evs[k] = ses.do(round, k, "global", 1, id)
			}(k, id)
			id++
		}
		wg.Wait()
		seen := map[uint64]*xev{}
		for _, e := range evs {
			if e.Err != "" {
				continue
			}
			if o, dup := seen[e.last()]; dup {
				reproduced = true
				detail = fmt.Sprintf("round %d: two global requests in flight together both got (physical %d, logical %d): %s ;; %s", round, e.Physical, e.Logical, o, e)
				break
			}
			seen[e.last()] = e
		}
	}
	vkit.Finding(t, keyGlobalConcurrent, reproduced, detail)
}
