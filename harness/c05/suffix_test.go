package c05

// Property "suffix": once a dc-location has been given a suffix it keeps it, no two
// dc-locations share one, suffixes are > 0 (0 is the global allocator), whatever a
// manager reports equals etcd, the suffix width of a manager covers every suffix it
// has reported / every suffix in use it could read, and a 16th dc-location is refused.

import (
	"bytes"
	"context"
	"fmt"
	"math/bits"
	"path"
	"runtime"
	"sort"
	"strconv"
	"strings"
	"sync"
	"time"

	"github.com/pingcap/kvproto/pkg/pdpb"
	"github.com/tikv/pd/server/config"
	"github.com/tikv/pd/server/election"
	"github.com/tikv/pd/server/member"
	"github.com/tikv/pd/server/tso"
	"go.etcd.io/etcd/clientv3"
	"pdverif/vkit"
	"pdverif/vkit/etcdfix"
	"pdverif/vkit/gate"
	"pgregory.net/rapid"
)

// documented limit: 2^MaxSuffixBits - 1 dc-locations (suffix 0 is the global allocator)
const dcLimit = 1<<tso.MaxSuffixBits - 1

const (
	nDCNames = 19 // dc-0 .. dc-18: enough names to go beyond the limit
	nExtras  = 18 // additional member ids whose dc-location keys the harness writes
)

type SOp struct {
	K  string `json:"k"`            // join, extra, leave, leaveExtra, leader, resign, check, race, alloc, checkFault
	M  int    `json:"m"`            // member index (join/leave/leader/check/race) or extra index
	DC int    `json:"dc,omitempty"` // dc name index
	// race: stale leader M is parked inside its checker, leader moves to L, dc-location DC2 joins
	// (extra member X) and L's checker runs; then M's checker is released.
	L   int `json:"l,omitempty"`
	X   int `json:"x,omitempty"`
	DC2 int `json:"dc2,omitempty"`
	// race variant: the member that put DC in use is removed again while M is stalled
	LV bool `json:"lv,omitempty"`
	// leader: the dc-location checkers every member starts after an election have not run yet
	Late bool `json:"late,omitempty"`
	// checkFault: the first etcd request about suffixes of M's checker fails: range | txn | lostack
	Fail string `json:"fail,omitempty"`
	// crace: N new dc-locations join (extras X, X+1, ...), then T dc-location checker runs of the CURRENT PD
	// leader's manager overlap: released one etcd request at a time in the order Sched (an entry picks among the
	// parked requests, ordered by task), or, with Real, started together under the real scheduler
	N     int   `json:"n,omitempty"`
	T     int   `json:"t,omitempty"`
	Sched []int `json:"sched,omitempty"`
	Real  bool  `json:"real,omitempty"`
}

type SCase struct {
	NM  int   `json:"nm"`
	Ops []SOp `json:"ops"`
}

func genSuffix(t *rapid.T) SCase {
	c := SCase{NM: rapid.IntRange(2, 3).Draw(t, "nm")}
	mem := func(l string) int { return rapid.IntRange(0, c.NM-1).Draw(t, l) }
	// "big" cases walk towards the upper limit: many extras in distinct dc-locations first
	big := rapid.IntRange(0, 5).Draw(t, "big") == 0
	dcRange := 4
	if big {
		dcRange = nDCNames - 1
	}
	dc := func(l string) int { return rapid.IntRange(0, dcRange).Draw(t, l) }
	if rapid.IntRange(0, 5).Draw(t, "startLeader") != 0 {
		c.Ops = append(c.Ops, SOp{K: "leader", M: mem("l0")})
	}
	if big {
		n := rapid.IntRange(10, 16).Draw(t, "fill")
		for i := 0; i < n; i++ {
			c.Ops = append(c.Ops, SOp{K: "extra", M: i, DC: i + 1})
			if i%5 == 4 {
				c.Ops = append(c.Ops, SOp{K: "check", M: mem("fm")})
			}
		}
	}
	fails := []string{"range", "txn", "lostack"}
	n := rapid.IntRange(4, 24).Draw(t, "nops")
	for i := 0; i < n; i++ {
		switch rapid.IntRange(0, 25).Draw(t, "kind") {
		case 22, 23, 24:
			op := SOp{K: "crace", DC: dc("dc"), X: rapid.IntRange(0, nExtras-1).Draw(t, "x"),
				N: rapid.IntRange(2, 3).Draw(t, "newdcs"), T: rapid.IntRange(2, 3).Draw(t, "runs")}
			switch rapid.IntRange(0, 3).Draw(t, "mode") {
			case 0:
				op.Real = true
			case 1:
				// round robin: every run reads before any run writes
				for k := 0; k < 24; k++ {
					op.Sched = append(op.Sched, k%op.T)
				}
			default:
				op.Sched = rapid.SliceOfN(rapid.IntRange(0, 2), 0, 24).Draw(t, "sched")
			}
			if rapid.IntRange(0, 2).Draw(t, "withLeader") == 0 {
				c.Ops = append(c.Ops, SOp{K: "leader", M: mem("m")})
			}
			c.Ops = append(c.Ops, op)
		case 25:
			// a local allocator takes office while the suffix width is at a power-of-two boundary, then more dc-locations
			// join at runtime and the member learns about them: the allocator (still in office) must report the new width
			a := mem("a")
			x0 := rapid.IntRange(0, nExtras-4).Draw(t, "x")
			c.Ops = append(c.Ops, SOp{K: "leader", M: a}, SOp{K: "extra", M: x0, DC: dc("dc")}, SOp{K: "check", M: a}, SOp{K: "alloc", DC: dc("adc")})
			for k, more := 1, rapid.IntRange(1, 3).Draw(t, "more"); k <= more; k++ {
				c.Ops = append(c.Ops, SOp{K: "extra", M: x0 + k, DC: dc("dc")})
			}
			c.Ops = append(c.Ops, SOp{K: "check", M: a})
		case 16, 17:
			// the PD leader runs the real campaign path of a local allocator (allocatorLeaderLoop) for a dc-location it knows
			c.Ops = append(c.Ops, SOp{K: "alloc", DC: dc("dc")})
		case 18:
			c.Ops = append(c.Ops, SOp{K: "checkFault", M: mem("m"), Fail: rapid.SampledFrom(fails).Draw(t, "fail")})
		case 19:
			c.Ops = append(c.Ops, SOp{K: "leader", M: mem("m"), Late: true})
		case 20:
			// a follower that has looked at the dc-locations becomes PD leader and campaigns for a local allocator
			// before its own post-election check has run
			a := mem("a")
			c.Ops = append(c.Ops, SOp{K: "leader", M: a},
				SOp{K: "extra", M: rapid.IntRange(0, nExtras-1).Draw(t, "x"), DC: dc("dc")},
				SOp{K: "check", M: (a + 1) % c.NM},
				SOp{K: "leader", M: (a + 1) % c.NM, Late: true},
				SOp{K: "alloc", DC: dc("adc")})
		case 21:
			// the PD leader's suffix assignment for a new dc-location hits an etcd fault, then it campaigns
			a := mem("a")
			c.Ops = append(c.Ops, SOp{K: "leader", M: a},
				SOp{K: "extra", M: rapid.IntRange(0, nExtras-1).Draw(t, "x"), DC: dc("dc")},
				SOp{K: "checkFault", M: a, Fail: rapid.SampledFrom(fails).Draw(t, "fail")},
				SOp{K: "alloc", DC: dc("adc")})
		case 0, 1, 2:
			c.Ops = append(c.Ops, SOp{K: "join", M: mem("m"), DC: dc("dc")})
		case 3, 4:
			c.Ops = append(c.Ops, SOp{K: "extra", M: rapid.IntRange(0, nExtras-1).Draw(t, "x"), DC: dc("dc")})
		case 5:
			c.Ops = append(c.Ops, SOp{K: "leave", M: mem("m")})
		case 6, 7:
			c.Ops = append(c.Ops, SOp{K: "leaveExtra", M: rapid.IntRange(0, nExtras-1).Draw(t, "x")})
		case 8, 9:
			c.Ops = append(c.Ops, SOp{K: "leader", M: mem("m")})
		case 10:
			c.Ops = append(c.Ops, SOp{K: "resign"})
		case 11, 12, 13, 14:
			c.Ops = append(c.Ops, SOp{K: "check", M: mem("m")})
		default:
			c.Ops = append(c.Ops, SOp{K: "race", M: mem("m"), L: mem("l"), DC: dc("dc"), DC2: dc("dc2"),
				X: rapid.IntRange(0, nExtras-1).Draw(t, "x"), LV: rapid.Bool().Draw(t, "lv")})
		}
	}
	return c
}

// ---------------------------------------------------------------- fixture (per process)

type sslot struct {
	hooks  *etcdfix.Hooks
	client *clientv3.Client
}

var (
	sslotsOnce sync.Once
	sslots     []*sslot
	sslotsErr  error
	stackBuf   = make([]byte, 4<<20)
	stackMu    sync.Mutex
)

func getSSlots() ([]*sslot, *etcdfix.Fixture, error) {
	f, err := etcdfix.Get()
	if err != nil {
		return nil, nil, err
	}
	sslotsOnce.Do(func() {
		for i := 0; i < 3; i++ {
			h := &etcdfix.Hooks{}
			c, err := f.NewClient(h)
			if err != nil {
				sslotsErr = err
				return
			}
			sslots = append(sslots, &sslot{hooks: h, client: c})
		}
	})
	return sslots, f, sslotsErr
}

// checkersRunning reports whether any goroutine is inside ClusterDCLocationChecker, or was started by
// SetLocalTSOConfig and has not finished (a goroutine that has not run yet only shows the compiler's
// "SetLocalTSOConfig.gowrap" entry and its "created by ... SetLocalTSOConfig" line). The harness never calls
// this while one of its own synchronous calls of these functions is active.
func checkersRunning() bool {
	stackMu.Lock()
	defer stackMu.Unlock()
	n := runtime.Stack(stackBuf, true)
	return bytes.Contains(stackBuf[:n], []byte("AllocatorManager).ClusterDCLocationChecker")) ||
		bytes.Contains(stackBuf[:n], []byte("AllocatorManager).SetLocalTSOConfig"))
}

// quiesce waits until no background dc-location checker is running (SetLocalTSOConfig starts one).
func quiesce() bool {
	deadline := time.Now().Add(10 * time.Second)
	for checkersRunning() {
		if time.Now().After(deadline) {
			return false
		}
		time.Sleep(200 * time.Microsecond)
	}
	return true
}

type snode struct {
	idx         int
	id          uint64
	mb          *member.Member
	am          *tso.AllocatorManager
	watchDone   chan struct{}
	watchStop   context.CancelFunc
	maxReported int32
	bitsFloor   int // largest GetSuffixBits() this manager has shown
}

type sworld struct {
	f                           *etcdfix.Fixture
	sl                          []*sslot
	root                        string
	ctx                         context.Context
	cancel                      context.CancelFunc
	nodes                       []*snode
	leader                      int               // model: index of the member holding PD leadership, -1 none
	dcOf                        map[uint64]string // model of the dc-location keys: member id -> dc
	hist                        map[string]int32  // every suffix ever seen in etcd, per dc
	incon                       bool
	allocs                      []*salloc
	generated, elected, waiting int
	values                      map[uint64]string // composed timestamps handed out by local allocators -> dc-location
	// TSOUpdatePhysicalInterval of the members (also the pause between retries after a logical overflow)
	updInterval time.Duration
}

func dcName(i int) string    { return fmt.Sprintf("dc-%d", i) }
func extraID(i int) uint64   { return uint64(200 + i) }
func memberID(i int) uint64  { return uint64(101 + i) }
func needBits(max int32) int { return bits.Len32(uint32(max)) } // smallest b with 2^b > max

func (w *sworld) newNode(i int) *snode {
	cfg := config.NewConfig()
	cfg.EnableLocalTSO = true
	cfg.TSOSaveInterval.Duration = 3 * time.Second
	cfg.TSOUpdatePhysicalInterval.Duration = 50 * time.Millisecond
	if w.updInterval > 0 {
		cfg.TSOUpdatePhysicalInterval.Duration = w.updInterval
	}
	cfg.AdvertiseClientUrls = fmt.Sprintf("http://127.0.0.1:%d", 22000+i)
	cfg.AdvertisePeerUrls = fmt.Sprintf("http://127.0.0.1:%d", 23000+i)
	mb := member.NewMember(w.f.Etcd, w.sl[i].client, memberID(i))
	mb.MemberInfo(cfg, fmt.Sprintf("pd%d", i+1), w.root)
	am := tso.NewAllocatorManager(mb, w.root, cfg, func() time.Duration { return 24 * time.Hour })
	return &snode{idx: i, id: memberID(i), mb: mb, am: am}
}

func (w *sworld) resign() {
	if w.leader < 0 {
		return
	}
	w.nodes[w.leader].mb.ResetLeader()
	for _, n := range w.nodes {
		if n.watchDone != nil {
			// the follower stops watching (the DELETE event itself would only arrive with etcd's next
			// 100 ms watcher sync; what matters here is that the follower forgets the leader)
			n.watchStop()
			select {
			case <-n.watchDone:
			case <-time.After(10 * time.Second):
				w.incon = true
			}
			n.watchDone = nil
		}
	}
	w.leader = -1
}

func (w *sworld) setLeader(m int) {
	w.resign()
	if w.incon {
		return
	}
	n := w.nodes[m]
	if err := n.mb.CampaignLeader(600); err != nil {
		w.incon = true
		return
	}
	n.mb.EnableLeader()
	w.leader = m
	for _, f := range w.nodes {
		if f == n {
			continue
		}
		var leader *pdpb.Member
		var rev int64
		for try := 0; try < 50; try++ {
			l, r, again := f.mb.CheckLeader()
			if !again && l != nil {
				leader, rev = l, r
				break
			}
			time.Sleep(10 * time.Millisecond)
		}
		if leader == nil || leader.GetMemberId() != n.id {
			w.incon = true
			return
		}
		done := make(chan struct{})
		wctx, stop := context.WithCancel(w.ctx)
		f.watchDone, f.watchStop = done, stop
		go func(f *snode) {
			f.mb.WatchLeader(wctx, leader, rev)
			close(done)
		}(f)
		ok := false
		for try := 0; try < 2000; try++ {
			if f.mb.GetLeader().GetMemberId() == n.id {
				ok = true
				break
			}
			time.Sleep(100 * time.Microsecond)
		}
		if !ok {
			w.incon = true
			return
		}
	}
}

// etcdDCs reads the dc-location keys: member id -> dc.
func (w *sworld) etcdDCs() map[uint64]string {
	out := map[uint64]string{}
	pfx := path.Join(w.root, "dc-location") + "/"
	for k, v := range w.f.PrefixRaw(pfx) {
		id, err := strconv.ParseUint(strings.TrimPrefix(k, pfx), 10, 64)
		if err == nil {
			out[id] = v
		}
	}
	return out
}

// etcdSuffixes reads the persisted suffix keys: dc -> suffix.
func (w *sworld) etcdSuffixes() (map[string]int32, error) {
	out := map[string]int32{}
	pfx := path.Join(w.root, "local-tso-suffix") + "/"
	for k, v := range w.f.PrefixRaw(pfx) {
		s, err := strconv.ParseInt(v, 10, 32)
		if err != nil {
			return nil, fmt.Errorf("suffix key %s holds %q, not a number", k, v)
		}
		out[strings.TrimPrefix(k, pfx)] = int32(s)
	}
	return out, nil
}

func distinctDCs(m map[uint64]string) map[string]int {
	out := map[string]int{}
	for _, dc := range m {
		out[dc]++
	}
	return out
}

// observe: ask every manager first, read etcd afterwards (suffix keys are never deleted, so etcd
// must then contain whatever a manager reported).
func (w *sworld) observe(step int, what string) error {
	type rep struct {
		node   int
		dc     string
		suffix int32
	}
	var reps []rep
	for _, n := range w.nodes {
		infos := n.am.GetClusterDCLocations()
		names := make([]string, 0, len(infos))
		for dc := range infos {
			names = append(names, dc)
		}
		sort.Strings(names)
		for _, dc := range names {
			s := infos[dc].Suffix
			if one, ok := n.am.GetDCLocationInfo(dc); ok && one.Suffix > 0 && s > 0 && one.Suffix != s {
				return fmt.Errorf("op %d (%s): manager pd%d reports suffix %d and %d for %s", step, what, n.idx+1, s, one.Suffix, dc)
			}
			if s > 0 {
				reps = append(reps, rep{n.idx, dc, s})
				if s > n.maxReported {
					n.maxReported = s
				}
			}
		}
		b := n.am.GetSuffixBits()
		if b > n.bitsFloor {
			n.bitsFloor = b
		}
		if n.maxReported > 0 && 1<<uint(b) <= int(n.maxReported) {
			return fmt.Errorf("op %d (%s): manager pd%d has GetSuffixBits()=%d but has reported suffix %d (needs %d bits)",
				step, what, n.idx+1, b, n.maxReported, needBits(n.maxReported))
		}
	}
	// every local allocator that leads its dc-location hands out a few timestamps (before etcd is read)
	type gen struct {
		a     *salloc
		ts    pdpb.Timestamp
		n     uint32
		floor int // suffix width the member's manager was known to have before the request (it never shrinks)
	}
	var gens []gen
	for _, a := range w.allocs {
		if !(a.la.IsAllocatorLeader() && a.la.IsInitialize()) {
			continue
		}
		for _, cnt := range []uint32{1, 1, 2} {
			floor := w.nodes[a.node].bitsFloor
			ts, err := w.nodes[a.node].am.HandleTSORequest(a.dc, cnt)
			if err != nil {
				break
			}
			gens = append(gens, gen{a, ts, cnt, floor})
		}
	}
	cur, err := w.etcdSuffixes()
	if err != nil {
		return fmt.Errorf("op %d (%s): %v", step, what, err)
	}
	for _, g := range gens {
		sfx, ok := cur[g.a.dc]
		if !ok || sfx <= 0 {
			return fmt.Errorf("op %d (%s): the local allocator of %s on pd%d hands out timestamps (logical %d, %d suffix bits) but etcd holds no positive suffix for %s (%v)",
				step, what, g.a.dc, g.a.node+1, g.ts.GetLogical(), g.ts.GetSuffixBits(), g.a.dc, cur)
		}
		b := g.ts.GetSuffixBits()
		if int(b) < g.floor {
			return fmt.Errorf("op %d (%s): the local allocator of %s on pd%d reports %d suffix bits with a timestamp, but the manager of pd%d already had a suffix width of %d (dc-locations that joined since the allocator took office are in use): too narrow for every suffix in use",
				step, what, g.a.dc, g.a.node+1, b, g.a.node+1, g.floor)
		}
		// composed values of different allocators never coincide
		for i := uint32(0); i < g.n; i++ {
			v := compose(g.ts.GetPhysical(), g.ts.GetLogical()-int64(g.n-1-i)<<b)
			if o, dup := w.values[v]; dup && o != g.a.dc {
				return fmt.Errorf("op %d (%s): the local allocators of %s and %s both handed out timestamp %d (physical %d, logical %d)", step, what, o, g.a.dc, v, v>>18, v&(1<<18-1))
			}
			w.values[v] = g.a.dc
		}
		if 1<<b <= int64(sfx) {
			return fmt.Errorf("op %d (%s): the local allocator of %s on pd%d reports %d suffix bits, too narrow for its own suffix %d", step, what, g.a.dc, g.a.node+1, b, sfx)
		}
		if low := g.ts.GetLogical() & (1<<b - 1); low != int64(sfx) {
			return fmt.Errorf("op %d (%s): the local allocator of %s on pd%d handed out logical %d whose low %d bits are %d; the persisted suffix of %s is %d (0 is the global allocator's)",
				step, what, g.a.dc, g.a.node+1, g.ts.GetLogical(), b, low, g.a.dc, sfx)
		}
		w.generated++
	}
	// persisted suffixes: never change, never disappear, > 0, pairwise distinct
	for dc, s := range w.hist {
		now, ok := cur[dc]
		if !ok {
			return fmt.Errorf("op %d (%s): the persisted suffix of %s (%d) disappeared", step, what, dc, s)
		}
		if now != s {
			return fmt.Errorf("op %d (%s): the persisted suffix of %s changed from %d to %d", step, what, dc, s, now)
		}
	}
	names := make([]string, 0, len(cur))
	for dc := range cur {
		names = append(names, dc)
	}
	sort.Strings(names)
	owner := map[int32]string{}
	for _, dc := range names {
		s := cur[dc]
		if s <= 0 {
			return fmt.Errorf("op %d (%s): %s was given suffix %d (must be > 0; 0 is the global allocator)", step, what, dc, s)
		}
		if other, dup := owner[s]; dup {
			return fmt.Errorf("op %d (%s): %s and %s share suffix %d", step, what, other, dc, s)
		}
		owner[s] = dc
		w.hist[dc] = s
	}
	for _, r := range reps {
		if e, ok := cur[r.dc]; !ok || e != r.suffix {
			return fmt.Errorf("op %d (%s): manager pd%d reports suffix %d for %s but etcd holds %v (present=%v)",
				step, what, r.node+1, r.suffix, r.dc, e, ok)
		}
	}
	// the harness' model of the dc-location keys must be what etcd holds
	real := w.etcdDCs()
	if len(real) != len(w.dcOf) {
		return fmt.Errorf("op %d (%s): dc-location keys in etcd %v differ from the expected %v", step, what, real, w.dcOf)
	}
	for id, dc := range w.dcOf {
		if real[id] != dc {
			return fmt.Errorf("op %d (%s): dc-location keys in etcd %v differ from the expected %v", step, what, real, w.dcOf)
		}
	}
	return nil
}

func runSuffix(c SCase) (vkit.Info, error) {
	var info vkit.Info
	sl, f, err := getSSlots()
	if err != nil {
		info.Inconclusive = true
		return info, nil
	}
	if c.NM < 2 || c.NM > 3 {
		return info, nil
	}
	w := &sworld{f: f, sl: sl, root: f.Root(), leader: -1, dcOf: map[uint64]string{}, hist: map[string]int32{}, values: map[uint64]string{}}
	w.ctx, w.cancel = context.WithCancel(context.Background())
	for i := 0; i < c.NM; i++ {
		w.nodes = append(w.nodes, w.newNode(i))
	}
	defer func() {
		for _, s := range sl {
			s.hooks.Set(nil, nil)
		}
		w.resign()
		w.cancel()
		w.waitLoopsGone()
		quiesce()
		f.DeleteRaw(w.root, true)
	}()

	joined := map[string]bool{}
	leaderChanges, leaves, refused, races := 0, 0, 0, 0
	hadLeader := false
	// mayJoin mirrors the documented admission rule: an existing dc-location may always take another
	// member; a new one only while fewer than the limit exist.
	mayJoin := func(dc string) bool {
		d := distinctDCs(w.dcOf)
		if _, ok := d[dc]; ok {
			return true
		}
		return len(d) < dcLimit
	}
	leave := func(step int, id uint64) error {
		if _, ok := w.dcOf[id]; !ok {
			info.Class("leave-absent")
		}
		if w.leader < 0 {
			info.Class("leave-without-leader-skipped")
			return nil
		}
		// what DELETE /members does on the PD leader
		if err := w.nodes[w.leader].mb.DeleteMemberDCLocationInfo(id); err != nil {
			return fmt.Errorf("op %d: the PD leader pd%d could not delete the dc-location of member %d: %v", step, w.leader+1, id, err)
		}
		if _, ok := w.dcOf[id]; ok {
			delete(w.dcOf, id)
			leaves++
		}
		return nil
	}
	for step, op := range c.Ops {
		m := op.M
		switch op.K {
		case "join":
			n := w.nodes[m%c.NM]
			dc := dcName(op.DC)
			allowed := mayJoin(dc)
			err := n.am.SetLocalTSOConfig(dc)
			if allowed && err != nil {
				return info, fmt.Errorf("op %d: pd%d could not join %s although only %d dc-locations exist: %v", step, n.idx+1, dc, len(distinctDCs(w.dcOf)), err)
			}
			if !allowed {
				if err == nil {
					return info, fmt.Errorf("op %d: pd%d joined the new dc-location %s although %d dc-locations (the documented limit) already exist", step, n.idx+1, dc, len(distinctDCs(w.dcOf)))
				}
				refused++
				info.Class("join-refused-at-limit")
			} else {
				w.dcOf[n.id] = dc
				joined[dc] = true
			}
		case "extra":
			// an additional member writes its dc-location key the way SetLocalTSOConfig does (after the same admission check)
			id := extraID(m % nExtras)
			dc := dcName(op.DC)
			if !mayJoin(dc) {
				info.Class("extra-not-admitted")
				break
			}
			if err := f.PutRaw(path.Join(w.root, "dc-location", fmt.Sprint(id)), dc); err != nil {
				info.Inconclusive = true
				return info, nil
			}
			w.dcOf[id] = dc
			joined[dc] = true
		case "leave":
			if err := leave(step, w.nodes[m%c.NM].id); err != nil {
				return info, err
			}
		case "leaveExtra":
			if err := leave(step, extraID(m%nExtras)); err != nil {
				return info, err
			}
		case "leader":
			if w.leader == m%c.NM {
				info.Class("leader-same")
				break
			}
			w.setLeader(m % c.NM)
			if w.incon {
				info.Inconclusive = true
				return info, nil
			}
			if hadLeader {
				leaderChanges++
			}
			hadLeader = true
			// what the server does right after winning / noticing an election (Late: those goroutines have not run yet)
			if op.Late {
				info.Class("leader-before-its-first-check")
				break
			}
			for _, n := range w.nodes {
				n.am.ClusterDCLocationChecker()
			}
		case "resign":
			w.resign()
			if w.incon {
				info.Inconclusive = true
				return info, nil
			}
		case "check":
			n := w.nodes[m%c.NM]
			if err := w.checkOne(step, n); err != nil {
				return info, err
			}
		case "alloc":
			if err := w.alloc(step, op, &info); err != nil {
				return info, err
			}
			if w.incon {
				info.Inconclusive = true
				return info, nil
			}
		case "checkFault":
			w.checkFault(w.nodes[m%c.NM], op.Fail)
			info.Class("check-with-etcd-fault-" + op.Fail)
		case "crace":
			ran, err := w.crace(step, op, mayJoin, joined)
			if w.incon {
				info.Inconclusive = true
				return info, nil
			}
			if err != nil {
				return info, err
			}
			if ran && op.Real {
				info.Class("overlapping-leader-checkers-real-scheduler")
			} else if ran {
				info.Class("overlapping-leader-checkers-scheduled")
			}
		case "race":
			ran, err := w.race(step, op, c.NM, mayJoin, joined, &info)
			if w.incon {
				info.Inconclusive = true
				return info, nil
			}
			if err != nil {
				return info, err
			}
			if ran {
				races++
				leaderChanges++
			}
		}
		// SetLocalTSOConfig is the only call here that leaves a background checker behind
		if (op.K == "join" || op.K == "alloc") && !quiesce() {
			info.Inconclusive = true
			return info, nil
		}
		if err := w.observe(step, op.K); err != nil {
			return info, err
		}
	}
	var maxS int32
	for _, s := range w.hist {
		if s > maxS {
			maxS = s
		}
	}
	info.ClassIf(len(w.hist) >= 2, "two-suffixes-persisted")
	info.ClassIf(len(w.hist) >= 8, "eight-suffixes-persisted")
	info.ClassIf(len(w.hist) >= dcLimit, "limit-many-suffixes-persisted")
	info.ClassIf(maxS > dcLimit, "suffix-beyond-2^MaxSuffixBits-1")
	info.ClassIf(leaderChanges > 0, "leader-change")
	info.ClassIf(leaves > 0, "leave")
	info.ClassIf(races > 0, "stale-leader-race")
	info.ClassIf(refused > 0, "refused")
	info.ClassIf(w.elected > 0, "local-allocator-elected")
	info.ClassIf(w.waiting > 0, "local-allocator-campaign-waits")
	info.ClassIf(w.generated > 0, "local-allocator-generated")
	info.NonTrivial = len(joined) >= 2 && len(w.hist) >= 2 && (leaderChanges > 0 || leaves > 0)
	return info, nil
}

// checkOne runs the checker of one manager synchronously and states what it must know afterwards.
func (w *sworld) checkOne(step int, n *snode) error {
	knowsLeader := n.mb.GetLeader() != nil
	// suffixes in use that are persisted before the check starts
	before, err := w.etcdSuffixes()
	if err != nil {
		return fmt.Errorf("op %d: %v", step, err)
	}
	var inUseMax int32
	for _, dc := range w.dcOf {
		if s := before[dc]; s > inUseMax {
			inUseMax = s
		}
	}
	n.am.ClusterDCLocationChecker()
	if !knowsLeader {
		return nil
	}
	if b := n.am.GetSuffixBits(); 1<<uint(b) <= int(inUseMax) {
		return fmt.Errorf("op %d: after its dc-location check pd%d has GetSuffixBits()=%d, too narrow for suffix %d which is in use and was persisted before the check",
			step, n.idx+1, b, inUseMax)
	}
	// the PD leader must know (and have persisted) a suffix for every dc-location in use
	if w.leader == n.idx {
		infos := n.am.GetClusterDCLocations()
		for _, dc := range w.dcOf {
			if infos[dc].Suffix <= 0 {
				return fmt.Errorf("op %d: after its dc-location check the PD leader pd%d has no suffix for the dc-location %s in use (reports %d)",
					step, n.idx+1, dc, infos[dc].Suffix)
			}
		}
	}
	return nil
}

// ignoreKnown is set by the finding probes: they run the excluded trigger class on purpose.
var ignoreKnown bool

func known(key string) bool { return !ignoreKnown && vkit.Known(key) }

// keyStaleLeaderDup: a PD leader that lost leadership while its dc-location checker was between reading the
// suffix map and writing the new suffix can persist a suffix the new leader has meanwhile given to another
// dc-location, if the first dc-location is not in use at the moment the new leader looks.
const keyStaleLeaderDup = "C05/stale-leader-suffix-duplicate"

// race: PD leader M starts its checker for the new dc-location DC and is stalled right before the
// create-if-absent txn of the suffix; leadership moves to L; (variant LV: the member of DC is removed;)
// dc-location DC2 joins and every other manager checks; then M continues.
func (w *sworld) race(step int, op SOp, nm int, mayJoin func(string) bool, joined map[string]bool, info *vkit.Info) (bool, error) {
	// operands are relative: M is whoever leads now, L another member, DC/DC2 the next dc names that are
	// neither in use nor have a persisted suffix
	if w.leader < 0 {
		return false, nil
	}
	m := w.leader
	l := (m + 1 + op.L%(nm-1)) % nm
	xa, xb := extraID(op.X%nExtras), extraID((op.X+1)%nExtras)
	suff, err := w.etcdSuffixes()
	if err != nil {
		return false, fmt.Errorf("op %d: %v", step, err)
	}
	inUse := distinctDCs(w.dcOf)
	fresh := func(from int, not string) string {
		for i := 0; i < nDCNames; i++ {
			dc := dcName((from + i) % nDCNames)
			if _, used := inUse[dc]; !used && suff[dc] == 0 && dc != not {
				return dc
			}
		}
		return ""
	}
	dcA := fresh(op.DC, "")
	dcB := fresh(op.DC2, dcA)
	if dcA == "" || dcB == "" || !mayJoin(dcA) {
		return false, nil
	}
	// moving xb to DC2 takes its present dc-location out of use; that matters if the stalled leader still owes it a suffix
	oldB, bMember := w.dcOf[xb]
	vacates := bMember && oldB != dcB && suff[oldB] == 0 && distinctDCs(w.dcOf)[oldB] == 1
	skipB := false
	if (op.LV || vacates) && known(keyStaleLeaderDup) {
		// known finding: the variants in which a dc-location the stalled leader is writing for goes out of use
		// before the new leader looks (its member removed, or moved to DC2) are excluded; the race itself stays
		op.LV, skipB = false, vacates
		info.Exclude(keyStaleLeaderDup)
	}
	put := func(id uint64, dc string) bool {
		if w.f.PutRaw(path.Join(w.root, "dc-location", fmt.Sprint(id)), dc) != nil {
			w.incon = true
			return false
		}
		w.dcOf[id] = dc
		joined[dc] = true
		return true
	}
	if !put(xa, dcA) {
		return false, nil
	}
	parked, release, done := make(chan struct{}), make(chan struct{}), make(chan struct{})
	var once sync.Once
	pfx := path.Join(w.root, "local-tso-suffix") + "/"
	w.sl[m].hooks.Set(func(ev *etcdfix.Event) etcdfix.Action {
		if ev.Method == "Txn" {
			for k := range ev.Puts {
				if strings.HasPrefix(k, pfx) {
					hit := false
					once.Do(func() { hit = true })
					if hit {
						close(parked)
						select {
						case <-release:
						case <-time.After(20 * time.Second):
						}
					}
				}
			}
		}
		return etcdfix.Proceed
	}, nil)
	defer w.sl[m].hooks.Set(nil, nil)
	go func() {
		w.nodes[m].am.ClusterDCLocationChecker()
		close(done)
	}()
	select {
	case <-parked:
	case <-done:
		return false, nil
	case <-time.After(10 * time.Second):
		w.incon = true
		return false, nil
	}
	finish := func() {
		close(release)
		select {
		case <-done:
		case <-time.After(10 * time.Second):
			w.incon = true
		}
	}
	w.setLeader(l)
	if w.incon {
		finish()
		return false, nil
	}
	if op.LV {
		if err := w.nodes[l].mb.DeleteMemberDCLocationInfo(xa); err != nil {
			finish()
			return false, fmt.Errorf("op %d: the PD leader pd%d could not delete the dc-location of member %d: %v", step, l+1, xa, err)
		}
		delete(w.dcOf, xa)
	}
	if skipB {
		// excluded (see above): xb keeps its dc-location
	} else if mayJoin(dcB) {
		if !put(xb, dcB) {
			finish()
			return false, nil
		}
	}
	for i, n := range w.nodes {
		if i != m { // M's manager is inside its stalled checker
			n.am.ClusterDCLocationChecker()
		}
	}
	finish()
	return !w.incon, nil
}

// ---------------------------------------------------------------- local allocators (real campaign path)

type salloc struct {
	node int
	dc   string
	la   *tso.LocalTSOAllocator
}

// loopStates counts the allocatorLeaderLoop goroutines and those of them that are parked: sleeping until the next
// round (longSleep) or watching another member's allocator leadership.
func loopStates() (total, parked int) {
	stackMu.Lock()
	defer stackMu.Unlock()
	n := runtime.Stack(stackBuf, true)
	for _, g := range bytes.Split(stackBuf[:n], []byte("\n\n")) {
		if !bytes.Contains(g, []byte("AllocatorManager).allocatorLeaderLoop")) {
			continue
		}
		total++
		if bytes.Contains(g, []byte("tso.longSleep")) || bytes.Contains(g, []byte("Leadership).Watch")) {
			parked++
		}
	}
	return
}

func (w *sworld) waitLoopsGone() {
	deadline := time.Now().Add(10 * time.Second)
	for time.Now().Before(deadline) {
		if t, _ := loopStates(); t == 0 {
			return
		}
		time.Sleep(500 * time.Microsecond)
	}
}

// waitLoops waits until every campaign loop of this case either leads (initialised and enabled) or is parked.
func (w *sworld) waitLoops() bool {
	deadline := time.Now().Add(10 * time.Second)
	for time.Now().Before(deadline) {
		leading := 0
		for _, a := range w.allocs {
			if a.la.IsAllocatorLeader() && a.la.IsInitialize() {
				leading++
			}
		}
		if _, parked := loopStates(); leading+parked >= len(w.allocs) {
			return true
		}
		time.Sleep(300 * time.Microsecond)
	}
	return false
}

// alloc: the current PD leader sets up the local allocator of one of the dc-locations it knows, exactly as its
// allocatorPatroller would, which starts the real allocatorLeaderLoop -> campaignAllocatorLeader -> Initialize(suffix).
// Only the PD leader does it here (a follower would ask the leader over gRPC), and only while it leads no other local
// allocator (collecting the maximum of its other allocators would go over gRPC as well).
func (w *sworld) alloc(step int, op SOp, info *vkit.Info) error {
	if w.leader < 0 {
		info.Class("alloc-without-leader-skipped")
		return nil
	}
	n := w.nodes[w.leader]
	for _, a := range w.allocs {
		if a.node == n.idx {
			info.Class("alloc-second-on-member-skipped")
			return nil
		}
	}
	infos := n.am.GetClusterDCLocations()
	if len(infos) == 0 {
		info.Class("alloc-no-dc-known-skipped")
		return nil
	}
	names := make([]string, 0, len(infos))
	for dc := range infos {
		names = append(names, dc)
	}
	sort.Strings(names)
	dc := names[op.DC%len(names)]
	ls := election.NewLeadership(n.mb.Client(), path.Join(w.root, dc), fmt.Sprintf("%s local allocator leader election", dc))
	n.am.SetUpAllocator(w.ctx, dc, ls)
	al, err := n.am.GetAllocator(dc)
	if err != nil {
		return fmt.Errorf("op %d: SetUpAllocator(%s) on pd%d left no allocator behind: %v", step, dc, n.idx+1, err)
	}
	la, _ := al.(*tso.LocalTSOAllocator)
	if la == nil {
		return nil
	}
	a := &salloc{node: n.idx, dc: dc, la: la}
	w.allocs = append(w.allocs, a)
	if !w.waitLoops() {
		w.incon = true
		return nil
	}
	if la.IsAllocatorLeader() && la.IsInitialize() {
		w.elected++
		if infos[dc].Suffix <= 0 {
			info.Class("local-allocator-elected-while-leader-held-no-suffix")
		}
	} else {
		w.waiting++
	}
	return nil
}

// checkFault runs the checker of one manager while the first etcd request that concerns the suffixes fails
// (range: the read of the suffix map; txn: the create txn is not sent; lostack: it is applied but reported failed).
func (w *sworld) checkFault(n *snode, kind string) {
	pfx := path.Join(w.root, "local-tso-suffix")
	var once sync.Once
	w.sl[n.idx].hooks.Set(func(ev *etcdfix.Event) etcdfix.Action {
		hit := false
		switch {
		case kind == "range" && ev.Method == "Range":
			hit = len(ev.Keys) > 0 && strings.HasPrefix(ev.Keys[0], pfx)
		case kind != "range" && ev.Method == "Txn":
			for k := range ev.Puts {
				hit = hit || strings.HasPrefix(k, pfx)
			}
		}
		if !hit {
			return etcdfix.Proceed
		}
		first := false
		once.Do(func() { first = true })
		if !first {
			return etcdfix.Proceed
		}
		if kind == "lostack" {
			return etcdfix.LostAck
		}
		return etcdfix.FailBefore
	}, nil)
	n.am.ClusterDCLocationChecker()
	w.sl[n.idx].hooks.Set(nil, nil)
}

// crace: N dc-locations that have no suffix yet join, then T runs of the current PD leader's
// ClusterDCLocationChecker overlap. Scheduled mode: every etcd request of the runs (the range over the dc-location
// keys, the range over the suffix keys and the create txn of getOrCreateLocalTSOSuffix) is a scheduling point; a run
// that waits for the manager's lock held by a parked run is a normal settled state (non-strict gate).
func (w *sworld) crace(step int, op SOp, mayJoin func(string) bool, joined map[string]bool) (bool, error) {
	if w.leader < 0 {
		return false, nil
	}
	n := w.nodes[w.leader]
	suff, err := w.etcdSuffixes()
	if err != nil {
		return false, fmt.Errorf("op %d: %v", step, err)
	}
	added := 0
	for i, k := 0, 0; i < nDCNames && k < op.N; i++ {
		dc := dcName((op.DC + i) % nDCNames)
		if _, used := distinctDCs(w.dcOf)[dc]; used || suff[dc] != 0 || !mayJoin(dc) {
			continue
		}
		id := extraID((op.X + k) % nExtras)
		if w.f.PutRaw(path.Join(w.root, "dc-location", fmt.Sprint(id)), dc) != nil {
			w.incon = true
			return false, nil
		}
		w.dcOf[id] = dc
		joined[dc] = true
		k++
		added++
	}
	if added < 2 {
		return false, nil
	}
	runs := op.T
	if runs < 2 {
		runs = 2
	}
	if runs > 3 {
		runs = 3
	}
	if op.Real {
		start := make(chan struct{})
		var wg sync.WaitGroup
		for r := 0; r < runs; r++ {
			wg.Add(1)
			go func() {
				defer wg.Done()
				<-start
				n.am.ClusterDCLocationChecker()
			}()
		}
		close(start)
		done := make(chan struct{})
		go func() { wg.Wait(); close(done) }()
		select {
		case <-done:
		case <-time.After(20 * time.Second):
			w.incon = true
			return false, nil
		}
		return true, nil
	}
	sc := gate.New()
	sc.Watchdog = 10 * time.Second
	w.sl[n.idx].hooks.Set(func(ev *etcdfix.Event) etcdfix.Action {
		key := ""
		if len(ev.Keys) > 0 {
			key = strings.TrimPrefix(ev.Keys[0], w.root)
		}
		if sc.Enter(ev.Method, key) != nil {
			return etcdfix.FailBefore
		}
		return etcdfix.Proceed
	}, nil)
	for r := 0; r < runs; r++ {
		sc.Go(r+1, func() { n.am.ClusterDCLocationChecker() })
	}
	ok := sc.Run(op.Sched, nil)
	sc.Disable()
	finished := sc.Wait(20 * time.Second)
	w.sl[n.idx].hooks.Set(nil, nil)
	if !ok || !finished {
		w.incon = true
		return false, nil
	}
	return true, nil
}
