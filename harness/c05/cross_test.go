package c05

// Property "cross": on a real multi-member cluster with Local TSO enabled, a generated program of
// local(dc) and global timestamp requests (sequential steps, each step a group of concurrent requests)
// is sent on gRPC Tso streams to the member that leads the respective allocator. Oracle over the stamped
// history: all 64-bit values distinct; a global timestamp is above every local timestamp whose response
// was received before the global request was sent; a local timestamp requested after a global response
// was received is above it; the low suffix_bits bits of a local logical part are the dc-location's
// persisted suffix (0 for global); suffix_bits is wide enough for the largest persisted suffix.
//
// Real clock, real scheduler: the failing history is reported in full, not shrunk.

import (
	"context"
	"fmt"
	"os"
	"path"
	"sort"
	"strconv"
	"strings"
	"sync"
	"sync/atomic"
	"time"

	"github.com/pingcap/kvproto/pkg/pdpb"
	"github.com/tikv/pd/pkg/tsoutil"
	"github.com/tikv/pd/pkg/typeutil"
	"github.com/tikv/pd/server/config"
	"github.com/tikv/pd/server/tso"
	"github.com/tikv/pd/tests"
	"go.etcd.io/etcd/clientv3"
	"google.golang.org/grpc"
	"pdverif/vkit"
	"pgregory.net/rapid"
)

type XReq struct {
	DC int    `json:"dc"` // -1 = global, else index of the dc-location
	N  uint32 `json:"n"`
}

// XJump: the local allocator of a dc-location jumps ahead (the clock of the member serving it is ahead) while the
// members refuse to move a TSO by GapMs or more at once (max-gap-reset-ts); GapMs = 0 restores the default.
type XJump struct {
	DC      int `json:"dc"`
	AheadMs int `json:"ahead_ms"`
	GapMs   int `json:"gap_ms"`
	// RawBelow k > 0: the raw logical part of the allocator becomes rawLimit - k, rawLimit = 1 << (18 - suffix bits):
	// the last k raw values whose differentiated logical part still fits the 18-bit field
	RawBelow int `json:"raw_below,omitempty"`
	// All: the local allocators of all dc-locations jump (then only the global allocator refuses the write-back of the
	// collected maximum; otherwise a local allocator of another dc-location on another member refuses it first)
	All bool `json:"all,omitempty"`
}

// XLose: dc-X loses its allocator leader. Kind dead: handed over to a member id that does not exist (the
// next-leader key blocks every campaign until Restore deletes it); move: handed over to another live member;
// resign: the holder just resigns. Gather: before that, the PD leader is made allocator leader of every dc-location.
type XLose struct {
	DC     int    `json:"dc"`
	Kind   string `json:"kind"`
	Gather bool   `json:"gather,omitempty"`
}

type XStep struct {
	Par  []XReq `json:"par,omitempty"`
	Jump *XJump `json:"jump,omitempty"`
	Lose *XLose `json:"lose,omitempty"`
	// Lead "off": PD leadership is moved (by resignations) to a member that runs WITHOUT enable-local-tso (PDs entry -1:
	// a rolling enable/disable of the switch); "on": back to a member that runs with it
	Lead string `json:"lead,omitempty"`
	// Restore: pending hand-overs are unblocked (next-leader keys deleted) and every dc-location has a leader again
	Restore bool `json:"restore,omitempty"`
}

type XCase struct {
	Skip     bool    `json:"skip,omitempty"` // this shard does not run the expensive cluster (see genCross)
	PDs      []int   `json:"pds"`            // dc-location index of each PD member; -1 = a member started without enable-local-tso
	Steps    []XStep `json:"steps"`
	ResignAt int     `json:"resign_at"` // the PD leader resigns before this step (-1 = never)
}

// known finding: see findings_test.go
const keyGlobalConcurrent = "C05/concurrent-global-requests-same-timestamp"

// genCross: the quick tier runs ONE topology (2 dc-locations, chosen by the seed) in shard 0 only; the
// thorough tier runs one topology in every shard (1-3 dc-locations on 1-3 members, allocator leaders
// co-located with the PD leader or not as the elections decide, optional PD leader resignation).
func genCross(t *rapid.T) XCase {
	shard := envInt("VERIF_SHARD", 0)
	thorough := vkit.Thorough()
	c := XCase{ResignAt: -1}
	if !thorough && shard != 0 {
		c.Skip = true
		return c
	}
	if !thorough {
		c.PDs = rapid.SampledFrom([][]int{{0, 1, -1}, {1, 0, -1}, {0, -1, 1}, {-1, 0, 1}}).Draw(t, "pds")
	} else {
		c.PDs = rapid.SampledFrom([][]int{{0}, {0, 0}, {0, 1}, {0, 1}, {0, 1, 0}, {0, 1, 0}, {0, 1, 1}, {0, 1, 1}, {0, 1, 2}, {0, 1, 2}, {0, 1, 2},
			{0, 1, -1}, {0, -1, 1}, {0, 0, -1}}).Draw(t, "pds")
	}
	ndc := 0
	for _, d := range c.PDs {
		if d+1 > ndc {
			ndc = d + 1
		}
	}
	nsteps := 240
	if thorough {
		nsteps = 900
	}
	nsteps = rapid.IntRange(nsteps*2/3, nsteps).Draw(t, "nsteps")
	counts := []int{1, 1, 1, 2, 3, 5, 10, 30}
	for i := 0; i < nsteps; i++ {
		if rapid.IntRange(0, 5).Draw(t, "pattern") == 0 {
			// a global, k local timestamps right behind it, then a global of count n: the estimate of the second
			// global lands below (n < k), exactly on (n == k) or above (n > k) the local allocator's position
			k := rapid.SampledFrom([]int{1, 2, 3, 5, 10}).Draw(t, "k")
			n := k
			switch rapid.IntRange(0, 3).Draw(t, "rel") {
			case 0:
				n = rapid.SampledFrom([]int{1, 2, 5, 30}).Draw(t, "gn")
			case 1:
				n = k + 1
			}
			c.Steps = append(c.Steps, XStep{Par: []XReq{{DC: -1, N: 1}}},
				XStep{Par: []XReq{{DC: rapid.IntRange(0, ndc-1).Draw(t, "dc"), N: uint32(k)}}},
				XStep{Par: []XReq{{DC: -1, N: uint32(n)}}})
			i += 2
			continue
		}
		var st XStep
		w := 1
		if rapid.IntRange(0, 2).Draw(t, "par") == 0 {
			w = rapid.IntRange(2, 4).Draw(t, "width")
		}
		for k := 0; k < w; k++ {
			r := XReq{DC: -1, N: uint32(rapid.SampledFrom(counts).Draw(t, "n"))}
			if rapid.IntRange(0, 9).Draw(t, "local") < 6 {
				r.DC = rapid.IntRange(0, ndc-1).Draw(t, "dc")
			}
			st.Par = append(st.Par, r)
		}
		c.Steps = append(c.Steps, st)
	}
	// a few times: dc-X jumps ahead by d with max-gap-reset-ts g (d around and above g), a local request of dc-X,
	// global requests (they fail while the collected maximum cannot be written back), then g is restored
	// patterns are placed between steps of the basic program and never inside each other (an episode sets and
	// restores cluster-wide settings)
	nbase := len(c.Steps)
	type placed struct {
		at    int
		steps []XStep
	}
	var pats []placed
	insert := func(label string, pat []XStep) {
		pats = append(pats, placed{rapid.IntRange(0, nbase).Draw(t, label), pat})
	}
	njump := rapid.IntRange(2, 3).Draw(t, "njump")
	if thorough {
		njump = rapid.IntRange(3, 6).Draw(t, "njump_t")
	}
	for j := 0; j < njump; j++ {
		d, g := 1500, 1000
		if j > 0 {
			d = rapid.SampledFrom([]int{300, 900, 1100, 1500, 2500}).Draw(t, "ahead")
			g = rapid.SampledFrom([]int{1000, 2000}).Draw(t, "gap")
		}
		dcx := rapid.IntRange(0, ndc-1).Draw(t, "jdc")
		all := j == 0 || rapid.Bool().Draw(t, "jall")
		pat := []XStep{{Jump: &XJump{DC: dcx, AheadMs: d, GapMs: g, All: all}},
			{Par: []XReq{{DC: dcx, N: uint32(rapid.IntRange(1, 3).Draw(t, "jn"))}}}}
		for k, ng := 0, rapid.IntRange(1, 3).Draw(t, "jglobals"); k < ng; k++ {
			pat = append(pat, XStep{Par: []XReq{{DC: -1, N: uint32(rapid.SampledFrom([]int{1, 1, 5}).Draw(t, "jgn"))}}})
			if rapid.Bool().Draw(t, "jlocal") {
				pat = append(pat, XStep{Par: []XReq{{DC: rapid.IntRange(0, ndc-1).Draw(t, "jldc"), N: 1}}})
			}
		}
		pat = append(pat, XStep{Jump: &XJump{GapMs: 0}}, XStep{Par: []XReq{{DC: -1, N: 1}}})
		insert("jat", pat)
	}
	// mixed switch: PD leadership moves to the member without enable-local-tso while dc-X is ahead; global requests must
	// be refused (or synchronized) there; then leadership moves back
	hasOff := false
	for _, d := range c.PDs {
		hasOff = hasOff || d < 0
	}
	if hasOff {
		nm := 1
		if thorough {
			nm = rapid.IntRange(1, 3).Draw(t, "nmixed")
		}
		for j := 0; j < nm; j++ {
			dcx := rapid.IntRange(0, ndc-1).Draw(t, "xdc")
			pat := []XStep{{Jump: &XJump{DC: dcx, AheadMs: rapid.SampledFrom([]int{1500, 2500}).Draw(t, "xahead")}},
				{Par: []XReq{{DC: dcx, N: 1}}}, {Lead: "off"}, {Par: []XReq{{DC: dcx, N: 1}}}}
			for k, ng := 0, rapid.IntRange(1, 3).Draw(t, "xglobals"); k < ng; k++ {
				pat = append(pat, XStep{Par: []XReq{{DC: -1, N: uint32(rapid.SampledFrom([]int{1, 1, 5}).Draw(t, "xgn"))}}},
					XStep{Par: []XReq{{DC: rapid.IntRange(0, ndc-1).Draw(t, "xldc"), N: 1}}})
			}
			pat = append(pat, XStep{Lead: "on"}, XStep{Par: []XReq{{DC: -1, N: 1}}}, XStep{Par: []XReq{{DC: dcx, N: 1}}})
			insert("xat", pat)
		}
	}
	// dc-X sits d ahead with only k raw logical values left in its millisecond; global requests of count around k must
	// move on to the next millisecond instead of returning a logical part that does not fit 18 bits
	nedge := rapid.IntRange(2, 3).Draw(t, "nedge")
	if thorough {
		nedge = rapid.IntRange(3, 6).Draw(t, "nedge_t")
	}
	for j := 0; j < nedge; j++ {
		k := rapid.SampledFrom([]int{1, 2, 5, 10, 30}).Draw(t, "ek")
		n := k
		switch rapid.IntRange(0, 3).Draw(t, "erel") {
		case 0:
			n = k + 1
		case 1:
			if k > 1 {
				n = k - 1
			}
		case 2:
			n = rapid.SampledFrom([]int{1, 5, 30}).Draw(t, "en")
		}
		dcx := rapid.IntRange(0, ndc-1).Draw(t, "edc")
		pat := []XStep{{Jump: &XJump{DC: dcx, AheadMs: rapid.SampledFrom([]int{50, 500, 1500}).Draw(t, "eahead"), RawBelow: k}},
			{Par: []XReq{{DC: -1, N: uint32(n)}}}, {Par: []XReq{{DC: -1, N: 1}}}, {Par: []XReq{{DC: dcx, N: 1}}}}
		insert("eat", pat)
	}
	// dc-X (ahead by d, local timestamps issued) loses its allocator leader; 1-3 global requests while it has none
	// (or a moving one); restore; local requests of dc-X and a global one
	if ndc >= 2 && len(c.PDs) >= 2 {
		nlose := 1
		if thorough {
			nlose = rapid.IntRange(2, 4).Draw(t, "nlose")
		}
		for j := 0; j < nlose; j++ {
			l := XLose{DC: rapid.IntRange(0, ndc-1).Draw(t, "ldc"), Kind: "dead", Gather: true}
			d := 2500
			if j > 0 {
				l.Kind = rapid.SampledFrom([]string{"dead", "dead", "move", "resign"}).Draw(t, "lkind")
				l.Gather = rapid.Bool().Draw(t, "lgather")
				d = rapid.SampledFrom([]int{300, 1500, 2500, 10000}).Draw(t, "lahead")
			}
			pat := []XStep{}
			if l.Gather {
				// gathering first, so that the timestamps of dc-X are issued by the member that loses it
				pat = append(pat, XStep{Lose: &XLose{DC: l.DC, Kind: "gather", Gather: true}})
			}
			pat = append(pat, XStep{Jump: &XJump{DC: l.DC, AheadMs: d}},
				XStep{Par: []XReq{{DC: l.DC, N: uint32(rapid.IntRange(1, 3).Draw(t, "ln"))}}},
				XStep{Lose: &XLose{DC: l.DC, Kind: l.Kind}})
			for k, ng := 0, rapid.IntRange(1, 3).Draw(t, "lglobals"); k < ng; k++ {
				pat = append(pat, XStep{Par: []XReq{{DC: -1, N: uint32(rapid.SampledFrom([]int{1, 1, 5}).Draw(t, "lgn"))}}})
				if rapid.Bool().Draw(t, "llocal") {
					pat = append(pat, XStep{Par: []XReq{{DC: rapid.IntRange(0, ndc-1).Draw(t, "lldc"), N: 1}}})
				}
			}
			pat = append(pat, XStep{Restore: true}, XStep{Par: []XReq{{DC: l.DC, N: 1}}}, XStep{Par: []XReq{{DC: -1, N: 1}}},
				XStep{Par: []XReq{{DC: l.DC, N: 2}}})
			insert("lat", pat)
		}
	}
	base := c.Steps
	c.Steps = nil
	for i := 0; i <= nbase; i++ {
		for _, p := range pats {
			if p.at == i {
				c.Steps = append(c.Steps, p.steps...)
			}
		}
		if i < nbase {
			c.Steps = append(c.Steps, base[i])
		}
	}
	if thorough && len(c.PDs) >= 2 && rapid.Bool().Draw(t, "resign") {
		c.ResignAt = rapid.IntRange(nsteps/4, 3*nsteps/4).Draw(t, "resign_at")
	}
	return c
}

// ---------------------------------------------------------------- cluster (kept per process, keyed by topology)

type xcluster struct {
	key     string
	cancel  context.CancelFunc
	cluster *tests.TestCluster
	cid     uint64
	conns   map[string]*grpc.ClientConn // by server address
}

var (
	xmu  sync.Mutex
	xcur *xcluster
)

// closeCross runs right before the process exits: only the data directories have to go.
func closeCross() {
	xmu.Lock()
	defer xmu.Unlock()
	if xcur != nil {
		for _, s := range xcur.cluster.GetServers() {
			os.RemoveAll(s.GetConfig().DataDir)
		}
		xcur = nil
	}
}

func (x *xcluster) destroy() {
	for _, c := range x.conns {
		c.Close()
	}
	done := make(chan struct{})
	go func() {
		x.cluster.Destroy()
		close(done)
	}()
	select {
	case <-done:
	case <-time.After(30 * time.Second):
	}
	x.cancel()
}

func xdc(i int) string { return fmt.Sprintf("dc-%d", i+1) }

func within(d time.Duration, f func()) bool {
	done := make(chan struct{})
	go func() {
		defer func() { recover() }()
		f()
		close(done)
	}()
	select {
	case <-done:
		return true
	case <-time.After(d):
		return false
	}
}

// getCluster returns a running cluster of the given topology with all allocator leaders elected, or nil.
func getCluster(pds []int) *xcluster {
	key := fmt.Sprint(pds)
	if xcur != nil && xcur.key == key {
		return xcur
	}
	if xcur != nil {
		xcur.destroy()
		xcur = nil
	}
	ctx, cancel := context.WithCancel(context.Background())
	var cl *tests.TestCluster
	var err error
	// the hand-overs of local allocators are driven by the program, not by the periodic priority check
	tso.PriorityCheck = 30 * time.Minute
	ok := within(90*time.Second, func() {
		cl, err = tests.NewTestCluster(ctx, len(pds), func(conf *config.Config, name string) {
			i, _ := strconv.Atoi(strings.TrimPrefix(name, "pd"))
			conf.EnableLocalTSO = pds[i-1] >= 0
			if conf.Labels == nil {
				conf.Labels = map[string]string{}
			}
			if pds[i-1] >= 0 {
				conf.Labels[config.ZoneLabel] = xdc(pds[i-1])
			} else {
				// the zone label stays in the configuration file, only the switch is off
				conf.Labels[config.ZoneLabel] = xdc(0)
			}
			conf.Log.Level = "error"
		})
		if err == nil {
			err = cl.RunInitialServers()
		}
	})
	if !ok || err != nil || cl == nil {
		fmt.Printf("C05 cross: cluster %v did not start: ok=%v err=%v\n", pds, ok, err)
		cancel()
		if cl != nil && ok {
			go cl.Destroy()
		}
		return nil
	}
	x := &xcluster{key: key, cancel: cancel, cluster: cl, conns: map[string]*grpc.ClientConn{}}
	if !x.waitLeaders(pds, 90*time.Second) {
		fmt.Printf("C05 cross: cluster %v did not elect all leaders in time\n", pds)
		x.destroy()
		return nil
	}
	x.cid = cl.GetServer(cl.GetLeader()).GetClusterID()
	xcur = x
	return x
}

func dcsOf(pds []int) []string {
	seen := map[int]bool{}
	var out []string
	for _, d := range pds {
		if d >= 0 && !seen[d] {
			seen[d] = true
			out = append(out, xdc(d))
		}
	}
	sort.Strings(out)
	return out
}

func (x *xcluster) waitLeaders(pds []int, d time.Duration) bool {
	deadline := time.Now().Add(d)
	for time.Now().Before(deadline) {
		if x.cluster.WaitLeader(tests.WithRetryTimes(1), tests.WithWaitInterval(50*time.Millisecond)) == "" {
			time.Sleep(100 * time.Millisecond)
			continue
		}
		x.cluster.CheckClusterDCLocation()
		all := true
		for _, dc := range dcsOf(pds) {
			if x.cluster.WaitAllocatorLeader(dc, tests.WithRetryTimes(1), tests.WithWaitInterval(50*time.Millisecond)) == "" {
				all = false
			}
		}
		if all {
			return true
		}
		time.Sleep(200 * time.Millisecond)
	}
	return false
}

func (x *xcluster) conn(addr string) (*grpc.ClientConn, error) {
	xmu.Lock()
	defer xmu.Unlock()
	if c, ok := x.conns[addr]; ok {
		return c, nil
	}
	ctx, cancel := context.WithTimeout(context.Background(), 5*time.Second)
	defer cancel()
	c, err := grpc.DialContext(ctx, strings.TrimPrefix(addr, "http://"), grpc.WithInsecure(), grpc.WithBlock())
	if err != nil {
		return nil, err
	}
	x.conns[addr] = c
	return c, nil
}

// target returns the address of the member that leads the allocator of dc ("global" = PD leader).
func (x *xcluster) target(dc string) string {
	leader := x.cluster.GetLeader()
	if leader == "" {
		return ""
	}
	ls := x.cluster.GetServer(leader)
	if dc == tso.GlobalDCLocation {
		return ls.GetAddr()
	}
	// (the PD leader may run without Local TSO and then knows no allocator leaders: ask the members)
	name := x.holder(dc)
	if name == "" || x.cluster.GetServer(name) == nil {
		return ""
	}
	return x.cluster.GetServer(name).GetAddr()
}

func (x *xcluster) holders(dcs []string) map[string]string {
	out := map[string]string{}
	for _, dc := range dcs {
		out[dc] = x.holder(dc)
	}
	return out
}

func (x *xcluster) isOff(name string) bool {
	s := x.cluster.GetServer(name)
	return s != nil && !s.GetConfig().EnableLocalTSO
}

// lead moves PD leadership by resignations until a member with (off=false) / without (off=true) enable-local-tso leads.
func (x *xcluster) lead(off bool, pds []int) bool {
	for try := 0; try < 10; try++ {
		l := x.cluster.GetLeader()
		if l != "" && x.isOff(l) == off {
			return true
		}
		if l != "" && !within(30*time.Second, func() { x.cluster.ResignLeader() }) {
			return false
		}
		if !x.waitLeaders(pds, 60*time.Second) {
			return false
		}
	}
	return false
}

func (x *xcluster) holder(dc string) string {
	return x.cluster.WaitAllocatorLeader(dc, tests.WithRetryTimes(1), tests.WithWaitInterval(time.Millisecond))
}

// handOver moves the local allocator of dc to the member target the way the priority checker does: write the
// next-leader key, then the current holder resigns. wait: until target leads.
func (x *xcluster) handOver(dc, target string, wait bool) bool {
	h := x.holder(dc)
	if h == "" || x.cluster.GetServer(target) == nil {
		return false
	}
	if h == target {
		return true
	}
	am := x.cluster.GetServer(h).GetTSOAllocatorManager()
	if am.TransferAllocatorForDCLocation(dc, x.cluster.GetServer(target).GetServerID()) != nil {
		return false
	}
	am.ResetAllocatorGroup(dc)
	if !wait {
		return true
	}
	for deadline := time.Now().Add(15 * time.Second); time.Now().Before(deadline); time.Sleep(30 * time.Millisecond) {
		if x.holder(dc) == target {
			return true
		}
	}
	return false
}

// lose: see XLose. Returns whether the step did what it says.
func (x *xcluster) lose(dcs []string, l *XLose) bool {
	dc := dcs[l.DC%len(dcs)]
	leader := x.cluster.GetLeader()
	if leader == "" || x.isOff(leader) {
		// a PD leader without Local TSO cannot take over local allocators
		return false
	}
	switch l.Kind {
	case "gather":
		ok := true
		for _, d := range dcs {
			ok = x.handOver(d, leader, true) && ok
		}
		return ok
	case "move":
		h := x.holder(dc)
		var names []string
		for name := range x.cluster.GetServers() {
			if name != h {
				names = append(names, name)
			}
		}
		sort.Strings(names)
		return h != "" && len(names) > 0 && x.handOver(dc, names[l.DC%len(names)], false)
	case "resign":
		h := x.holder(dc)
		if h == "" {
			return false
		}
		x.cluster.GetServer(h).GetTSOAllocatorManager().ResetAllocatorGroup(dc)
		return true
	default: // dead
		h := x.holder(dc)
		if h == "" {
			return false
		}
		am := x.cluster.GetServer(h).GetTSOAllocatorManager()
		if am.TransferAllocatorForDCLocation(dc, 1234567) != nil {
			return false
		}
		am.ResetAllocatorGroup(dc)
		for deadline := time.Now().Add(5 * time.Second); time.Now().Before(deadline); time.Sleep(20 * time.Millisecond) {
			none := true
			for _, s := range x.cluster.GetServers() {
				none = none && !s.IsAllocatorLeader(dc)
			}
			if none {
				return true
			}
		}
		return false
	}
}

// restore deletes every next-leader key that names a member which does not exist and waits for all leaders.
func (x *xcluster) restore(dcs []string, pds []int) bool {
	leader := x.cluster.GetLeader()
	if leader == "" {
		return x.waitLeaders(pds, 30*time.Second)
	}
	ls := x.cluster.GetServer(leader)
	root := path.Join("/pd", strconv.FormatUint(x.cid, 10))
	for _, dc := range dcs {
		ctx, cancel := context.WithTimeout(context.Background(), 5*time.Second)
		key := path.Join(root, dc, "next-leader")
		if resp, err := ls.GetEtcdClient().Get(ctx, key); err == nil && len(resp.Kvs) > 0 && string(resp.Kvs[0].Value) == "1234567" {
			ls.GetEtcdClient().Delete(ctx, key)
		}
		cancel()
	}
	return x.waitLeaders(pds, 30*time.Second)
}

// setGap sets max-gap-reset-ts on every member (0 = the default of 24h).
func (x *xcluster) setGap(ms int) {
	d := 24 * time.Hour
	if ms > 0 {
		d = time.Duration(ms) * time.Millisecond
	}
	for _, s := range x.cluster.GetServers() {
		opts := s.GetPersistOptions()
		cfg := opts.GetPDServerConfig().Clone()
		cfg.MaxResetTSGap = typeutil.NewDuration(d)
		opts.SetPDServerConfig(cfg)
	}
}

// jump moves the TSO of dc's local allocator AheadMs ahead of where it is (as a fast clock on its member would)
// and then sets max-gap-reset-ts. Returns 1 if the allocator moved.
func (x *xcluster) jump(dcs []string, j *XJump) int {
	moved := 0
	if j.AheadMs > 0 {
		x.setGap(0)
		which := []string{dcs[j.DC%len(dcs)]}
		if j.All {
			which = dcs
		}
		for _, dc := range which {
			if x.cluster.GetLeader() == "" {
				break
			}
			name := x.holder(dc)
			if srv := x.cluster.GetServer(name); name != "" && srv != nil {
				if al, err := srv.GetTSOAllocatorManager().GetAllocator(dc); err == nil {
					if la, ok := al.(*tso.LocalTSOAllocator); ok {
						if cur, err := la.GetCurrentTSO(); err == nil {
							now := time.Now().UnixNano() / int64(time.Millisecond)
							base := cur.GetPhysical()
							if now > base {
								base = now
							}
							logical := int64(0)
							if j.RawBelow > 0 {
								logical = maxLogical>>uint(srv.GetTSOAllocatorManager().GetSuffixBits()) - int64(j.RawBelow)
							}
							if la.SetTSO(compose(base+int64(j.AheadMs), logical)) == nil {
								moved = 1
							}
						}
					}
				}
			}
		}
	}
	x.setGap(j.GapMs)
	return moved
}

// suffixes reads the persisted suffix keys through the cluster's own etcd.
func (x *xcluster) suffixes() (map[string]int64, error) {
	leader := x.cluster.GetLeader()
	if leader == "" {
		return nil, fmt.Errorf("no leader")
	}
	ls := x.cluster.GetServer(leader)
	pfx := ls.GetTSOAllocatorManager().GetLocalTSOSuffixPathPrefix() + "/"
	ctx, cancel := context.WithTimeout(context.Background(), 5*time.Second)
	defer cancel()
	resp, err := ls.GetEtcdClient().Get(ctx, pfx, clientv3.WithPrefix())
	if err != nil {
		return nil, err
	}
	out := map[string]int64{}
	for _, kv := range resp.Kvs {
		v, err := strconv.ParseInt(string(kv.Value), 10, 64)
		if err != nil {
			return nil, err
		}
		out[strings.TrimPrefix(string(kv.Key), pfx)] = v
	}
	return out, nil
}

// ---------------------------------------------------------------- history

type xev struct {
	ID         int    `json:"id"`
	Step       int    `json:"step"`
	DC         string `json:"dc"`
	N          int64  `json:"n"`
	Send, Recv int64  // stamps of one global counter
	Physical   int64  `json:"physical"`
	Logical    int64  `json:"logical"`
	Bits       uint32 `json:"bits"`
	Err        string `json:"err,omitempty"`
}

func (e *xev) String() string {
	if e.Err != "" {
		return fmt.Sprintf("#%d step %d %s n=%d sent@%d FAILED %s", e.ID, e.Step, e.DC, e.N, e.Send, e.Err)
	}
	return fmt.Sprintf("#%d step %d %s n=%d sent@%d received@%d -> (physical %d, logical %d = raw %d | suffix %d, %d suffix bits)",
		e.ID, e.Step, e.DC, e.N, e.Send, e.Recv, e.Physical, e.Logical, e.Logical>>e.Bits, e.Logical&(1<<e.Bits-1), e.Bits)
}

// value i (0-based) of the n timestamps a response stands for: the n consecutive raw parts ending at the returned one
func (e *xev) value(i int64) uint64 {
	return compose(e.Physical, e.Logical-(e.N-1-i)<<e.Bits)
}
func (e *xev) first() uint64 { return e.value(0) }
func (e *xev) last() uint64  { return e.value(e.N - 1) }

type xstream struct {
	addr   string
	stream pdpb.PD_TsoClient
	cancel context.CancelFunc
}

// xsession sends Tso requests on long-lived streams (one per worker slot and allocator) and stamps them.
type xsession struct {
	x       *xcluster
	clock   int64
	hmu     sync.Mutex
	hist    []*xev
	smu     sync.Mutex
	streams map[string]*xstream // key: slot/dc
}

func newSession(x *xcluster) *xsession { return &xsession{x: x, streams: map[string]*xstream{}} }

func (s *xsession) close() {
	s.smu.Lock()
	defer s.smu.Unlock()
	for _, st := range s.streams {
		st.stream.CloseSend()
		st.cancel()
	}
	s.streams = map[string]*xstream{}
}

func (s *xsession) history() []*xev {
	s.hmu.Lock()
	defer s.hmu.Unlock()
	h := append([]*xev(nil), s.hist...)
	sort.Slice(h, func(i, j int) bool { return h[i].ID < h[j].ID })
	return h
}

func (s *xsession) getStream(slot int, dc string) (*xstream, error) {
	addr := s.x.target(dc)
	if addr == "" {
		return nil, fmt.Errorf("no allocator leader known for %s", dc)
	}
	k := fmt.Sprintf("%d/%s", slot, dc)
	s.smu.Lock()
	st := s.streams[k]
	s.smu.Unlock()
	if st != nil && st.addr == addr {
		return st, nil
	}
	if st != nil {
		st.stream.CloseSend()
		st.cancel()
	}
	cc, err := s.x.conn(addr)
	if err != nil {
		return nil, err
	}
	ctx, cancel := context.WithCancel(context.Background())
	ts, err := pdpb.NewPDClient(cc).Tso(ctx)
	if err != nil {
		cancel()
		return nil, err
	}
	st = &xstream{addr: addr, stream: ts, cancel: cancel}
	s.smu.Lock()
	s.streams[k] = st
	s.smu.Unlock()
	return st, nil
}

func (s *xsession) dropStream(slot int, dc string) {
	k := fmt.Sprintf("%d/%s", slot, dc)
	s.smu.Lock()
	if st := s.streams[k]; st != nil {
		st.cancel()
		delete(s.streams, k)
	}
	s.smu.Unlock()
}

// do sends one request of count n to the allocator of dc and records the stamped outcome.
func (s *xsession) do(step, slot int, dc string, n uint32, id int) *xev {
	ev := &xev{ID: id, Step: step, DC: dc, N: int64(n)}
	defer func() {
		s.hmu.Lock()
		s.hist = append(s.hist, ev)
		s.hmu.Unlock()
	}()
	st, err := s.getStream(slot, dc)
	if err != nil {
		ev.Send = atomic.AddInt64(&s.clock, 1)
		ev.Err = err.Error()
		return ev
	}
	req := &pdpb.TsoRequest{Header: &pdpb.RequestHeader{ClusterId: s.x.cid}, Count: n, DcLocation: dc}
	type res struct {
		resp *pdpb.TsoResponse
		err  error
	}
	ch := make(chan res, 1)
	ev.Send = atomic.AddInt64(&s.clock, 1)
	go func() {
		if err := st.stream.Send(req); err != nil {
			ch <- res{nil, err}
			return
		}
		resp, err := st.stream.Recv()
		ch <- res{resp, err}
	}()
	var rr res
	select {
	case rr = <-ch:
	case <-time.After(15 * time.Second):
		rr = res{nil, fmt.Errorf("no response in 15s")}
	}
	ev.Recv = atomic.AddInt64(&s.clock, 1)
	if rr.err != nil {
		ev.Err = rr.err.Error()
		s.dropStream(slot, dc)
		return ev
	}
	ts := rr.resp.GetTimestamp()
	if rr.resp.GetCount() != n {
		ev.Err = fmt.Sprintf("response count %d for request count %d", rr.resp.GetCount(), n)
		return ev
	}
	ev.Physical, ev.Logical, ev.Bits = ts.GetPhysical(), ts.GetLogical(), ts.GetSuffixBits()
	return ev
}

func runCross(c XCase) (vkit.Info, error) {
	var info vkit.Info
	if c.Skip {
		info.Class("skipped-in-this-shard")
		return info, nil
	}
	if len(c.PDs) < 1 || len(c.PDs) > 3 {
		return info, nil
	}
	xmu.Lock()
	x := getCluster(c.PDs)
	if x == nil {
		// one more attempt: a start-up that fails under load (port clash, slow election) is the usual reason
		x = getCluster(c.PDs)
	}
	xmu.Unlock()
	if x == nil {
		info.Inconclusive = true
		return info, nil
	}
	dcs := dcsOf(c.PDs)
	suf, err := x.suffixes()
	if err != nil {
		info.Inconclusive = true
		return info, nil
	}
	var maxSuffix int64
	owner := map[int64]string{}
	for _, dc := range dcs {
		s, ok := suf[dc]
		if !ok || s <= 0 {
			return info, fmt.Errorf("all allocator leaders are elected but etcd holds no positive suffix for %s: %v", dc, suf)
		}
		if o, dup := owner[s]; dup {
			return info, fmt.Errorf("%s and %s share the persisted suffix %d", o, dc, s)
		}
		owner[s] = dc
	}
	for _, s := range suf {
		if s > maxSuffix {
			maxSuffix = s
		}
	}
	info.Class(fmt.Sprintf("topology-%dpd-%ddc", len(c.PDs), len(dcs)))
	for _, dc := range dcs {
		if x.target(dc) == x.target(tso.GlobalDCLocation) {
			info.Class("allocator-leader-on-pd-leader")
		} else {
			info.Class("allocator-leader-elsewhere")
		}
	}
	excludeConc := known(keyGlobalConcurrent)
	excludedConc := 0

	ses := newSession(x)
	defer ses.close()
	do := func(step, slot int, r XReq, id int) {
		dc := tso.GlobalDCLocation
		if r.DC >= 0 {
			dc = dcs[r.DC%len(dcs)]
		}
		n := r.N
		if n == 0 {
			n = 1
		}
		ses.do(step, slot, dc, n, id)
	}

	id := 0
	resigned := false
	jumps := 0
	debug := os.Getenv("VERIF_X_DEBUG") != ""
	dbg := func(f string, a ...interface{}) {
		if debug {
			fmt.Printf("X-DEBUG "+f+"\n", a...)
		}
	}
	lostPending := false
	hasOff := false
	for _, d := range c.PDs {
		hasOff = hasOff || d < 0
	}
	if hasOff && !x.lead(false, c.PDs) {
		info.Inconclusive = true
		return info, nil
	}
	defer x.setGap(0)
	// the cluster is in an unknown state: do not reuse it
	unusable := func() {
		xmu.Lock()
		x.destroy()
		xcur = nil
		xmu.Unlock()
	}
	defer func() {
		if lostPending && xcur == x && !x.restore(dcs, c.PDs) {
			unusable()
		}
	}()
	for si, st := range c.Steps {
		if si == c.ResignAt && len(c.PDs) >= 2 {
			if lostPending && !x.restore(dcs, c.PDs) {
				unusable()
				info.Inconclusive = true
				return info, nil
			}
			lostPending = false
			old := x.cluster.GetLeader()
			okr := within(30*time.Second, func() { x.cluster.ResignLeader() })
			if !okr || !x.waitLeaders(c.PDs, 60*time.Second) {
				// the cluster is in an unknown state: do not reuse it
				xmu.Lock()
				x.destroy()
				xcur = nil
				xmu.Unlock()
				info.Inconclusive = true
				return info, nil
			}
			resigned = x.cluster.GetLeader() != old
			info.ClassIf(resigned, "pd-leader-moved")
		}
		if st.Jump != nil {
			mv := x.jump(dcs, st.Jump)
			jumps += mv
			dbg("step %d jump %+v moved=%d leader=%s holders=%v", si, *st.Jump, mv, x.cluster.GetLeader(), x.holders(dcs))
			continue
		}
		if st.Lead != "" {
			if !hasOff {
				continue
			}
			if lostPending && !x.restore(dcs, c.PDs) || !x.lead(st.Lead == "off", c.PDs) {
				unusable()
				info.Inconclusive = true
				return info, nil
			}
			lostPending = false
			info.Class("pd-leader-with-local-tso-" + st.Lead)
			dbg("step %d lead %s -> leader %s", si, st.Lead, x.cluster.GetLeader())
			continue
		}
		if st.Lose != nil {
			if x.lose(dcs, st.Lose) {
				info.Class("dc-loses-allocator-leader-" + st.Lose.Kind)
				lostPending = lostPending || st.Lose.Kind != "gather"
			}
			dbg("step %d lose %+v leader=%s holders=%v", si, *st.Lose, x.cluster.GetLeader(), x.holders(dcs))
			continue
		}
		if st.Restore {
			if !x.restore(dcs, c.PDs) {
				unusable()
				info.Inconclusive = true
				return info, nil
			}
			lostPending = false
			continue
		}
		var wg sync.WaitGroup
		globals := 0
		for k, r := range st.Par {
			if k >= 4 {
				break
			}
			if r.DC < 0 {
				globals++
				if globals > 1 && excludeConc {
					// known finding: two global requests in flight at the same time are excluded
					r.DC = k % len(dcs)
					excludedConc++
				}
			}
			wg.Add(1)
			go func(k int, r XReq, id int) {
				defer wg.Done()
				do(si, k, r, id)
			}(k, r, id)
			id++
		}
		wg.Wait()
		if debug {
			for _, e := range ses.history() {
				if e.Step == si && e.DC == tso.GlobalDCLocation {
					dbg("  %s", e)
				}
			}
		}
	}
	if excludedConc > 0 {
		info.Exclude(keyGlobalConcurrent)
	}

	// ---------------------------------------------------------------- oracle over the history
	hist := ses.history()
	var okEv []*xev
	failed := 0
	for _, e := range hist {
		if e.Err != "" {
			failed++
			continue
		}
		okEv = append(okEv, e)
	}
	info.ClassIf(failed > 0, "some-requests-failed")
	info.ClassIf(jumps > 0, "local-allocator-jumped-ahead")
	if len(okEv)*4 < len(hist) || len(okEv) == 0 {
		fmt.Printf("C05 cross: %d of %d requests failed, e.g. %v\n", failed, len(hist), firstErr(hist))
		info.Inconclusive = true
		return info, nil
	}
	dump := func(es ...*xev) string {
		var b strings.Builder
		for _, e := range es {
			b.WriteString("\n    " + e.String())
		}
		return b.String()
	}
	need := needBits(int32(maxSuffix))
	seen := map[uint64]*xev{}
	for _, e := range okEv {
		if int(e.Bits) < need {
			return info, fmt.Errorf("suffix_bits=%d in a response while etcd holds suffix %d (needs %d bits): %s", e.Bits, maxSuffix, need, dump(e))
		}
		// clause of C01 that every response must satisfy as well: the logical part fits its 18-bit field, so that the
		// timestamps a response owns compose (tsoutil.ComposeTS) to strictly increasing values that parse back
		if e.Physical <= 0 || e.Logical < 0 || e.Logical >= maxLogical {
			return info, fmt.Errorf("[C01 clause: the logical part fits its 18-bit field] returned logical part %d is outside [0, 2^18): %s", e.Logical, dump(e))
		}
		var prev uint64
		for i := int64(0); i < e.N; i++ {
			lg := e.Logical - (e.N-1-i)<<e.Bits
			v := tsoutil.ComposeTS(e.Physical, lg)
			pt, pl := tsoutil.ParseTS(v)
			if pt.UnixNano()/int64(time.Millisecond) != e.Physical || int64(pl) != lg || (i > 0 && v <= prev) {
				return info, fmt.Errorf("[C01 clause: composed timestamps preserve the order] timestamp %d of %d of a response (physical %d, logical %d) composes to %d which parses back to (%d, %d) / is not above the previous one %d: %s",
					i+1, e.N, e.Physical, lg, v, pt.UnixNano()/int64(time.Millisecond), pl, prev, dump(e))
			}
			prev = v
		}
		want := int64(0)
		if e.DC != tso.GlobalDCLocation {
			want = suf[e.DC]
		}
		if got := e.Logical & (1<<e.Bits - 1); got != want {
			return info, fmt.Errorf("the low %d bits of the logical part are %d, the suffix of %s is %d: %s", e.Bits, got, e.DC, want, dump(e))
		}
		if e.Logical>>e.Bits < e.N {
			return info, fmt.Errorf("a response of count %d whose raw logical part is %d cannot stand for %d timestamps: %s", e.N, e.Logical>>e.Bits, e.N, dump(e))
		}
		for i := int64(0); i < e.N; i++ {
			v := e.value(i)
			if o, dup := seen[v]; dup {
				return info, fmt.Errorf("timestamp %d (physical %d, logical %d) was handed out twice: %s", v, v>>18, v&(1<<18-1), dump(o, e))
			}
			seen[v] = e
		}
	}
	dcsBefore := map[string]bool{}
	globalsAfter := 0
	for _, g := range okEv {
		if g.DC != tso.GlobalDCLocation {
			continue
		}
		before := map[string]bool{}
		for _, l := range okEv {
			if l.DC == tso.GlobalDCLocation {
				continue
			}
			if l.Recv < g.Send {
				before[l.DC] = true
				if g.first() <= l.last() {
					which := "the global timestamp"
					if g.last() > l.last() {
						which = fmt.Sprintf("the first of the %d global timestamps of one response", g.N)
					}
					return info, fmt.Errorf("%s (%d) is not above a local timestamp (%d) whose response was received before the global request was sent: %s",
						which, g.first(), l.last(), dump(l, g))
				}
			}
			if g.Recv < l.Send && l.first() <= g.last() {
				return info, fmt.Errorf("a local timestamp (%d) requested after a global response was received is not above that global timestamp (%d): %s",
					l.first(), g.last(), dump(g, l))
			}
		}
		if len(before) >= 2 {
			globalsAfter++
		}
		for d := range before {
			dcsBefore[d] = true
		}
	}
	info.ClassIf(globalsAfter > 0, "global-after-locals-of-two-dcs")
	info.ClassIf(len(dcsBefore) >= 1, "global-after-locals")
	info.NonTrivial = globalsAfter > 0
	info.Sample = map[string]interface{}{"pds": c.PDs, "steps": len(c.Steps), "requests": len(hist), "failed": failed,
		"resign_at": c.ResignAt, "suffixes": suf, "timestamps": len(seen)}
	return info, nil
}

func firstErr(h []*xev) string {
	for _, e := range h {
		if e.Err != "" {
			return e.String()
		}
	}
	return ""
}
