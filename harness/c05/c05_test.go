// C05 — local and global timestamps are mutually consistent.
//
// Three registered properties:
//
//	suffix  (suffix_test.go)  in-process: 2-3 tso.AllocatorManager objects (each with its own member.Member)
//	                          on one root of the per-process embedded etcd; dc-locations join and leave, PD
//	                          leadership moves, the dc-location checker runs; oracle over the persisted
//	                          local-tso-suffix keys and over what every manager reports.
//	logical (logical_test.go) the suffix arithmetic, through exported entries only: a real LocalTSOAllocator
//	                          (WriteTSO + GenerateTSO) for the server side (differentiateLogical), and the real
//	                          pd client against a scripted gRPC PD for the client side (addLogical).
//	cross   (cross_test.go)   a real multi-member cluster (tests.NewTestCluster) with Local TSO enabled; a
//	                          generated program of local(dc)/global requests, sequential and in parallel, on
//	                          gRPC Tso streams; oracle over the stamped request history.
package c05

import (
	"os"
	"strconv"
	"testing"

	"pdverif/vkit"
	"pdverif/vkit/etcdfix"
)

func TestMain(m *testing.M) {
	vkit.Quiet()
	vkit.MainWith(m, "C05", func() {
		closeCross()
		closeLogical()
		etcdfix.Close()
	})
}

func TestProp(t *testing.T)   { vkit.RunAll(t) }
func TestReplay(t *testing.T) { vkit.RunReplay(t) }

func init() {
	vkit.Register("suffix", vkit.N{Quick: 1000, Thorough: 32000}, genSuffix, runSuffix)
	vkit.Register("logical", vkit.N{Quick: 1600, Thorough: 60000}, genLogical, runLogical)
	// one case per shard; the case itself says whether this shard runs it (see genCross)
	vkit.Register("cross", vkit.N{Quick: 4, Thorough: 16}, genCross, runCross)
}

func envInt(k string, def int) int {
	if v := os.Getenv(k); v != "" {
		if n, err := strconv.Atoi(v); err == nil {
			return n
		}
	}
	return def
}
