// C12 — rule fitting partitions peers correctly and picks the best assignment.
//
// Differential property: generated stores (labels incl. exclusive ones), regions
// (0–6 peers, learners, joint roles, leader, peers on unknown stores) and ordered
// rule lists (1–4) are given to placement.FitRegion. The returned fit is checked
//
//	(a) against validity predicates written from the property text (partition,
//	    label constraints, loose role, count cap, exact role-mismatch list,
//	    independently recomputed isolation score, IsSatisfied definition);
//	(b) against an independent brute force over ALL valid assignments
//	    (each peer → one rule or orphan), compared in the documented
//	    lexicographic order (rule by rule: more peers, fewer role mismatches,
//	    higher isolation score; finally fewer orphans);
//	(c) metamorphic: permuting the store order, the peer order and the peer ids
//	    leaves the comparison key (per-rule count / mismatches / score, orphans,
//	    satisfaction) unchanged;
//	(d) placement.CompareRegionFit agrees with the independent comparator on the
//	    returned fit versus a generated alternative valid assignment.
//
// The oracle never calls the code under test: label lookup, constraint matching,
// exclusive labels, role matching and location comparison are re-implemented
// here from the documentation (label_constraint.go op comments,
// matchRoleLoose comment, StoreInfo.CompareLocation comment).
package c12

import (
	"encoding/hex"
	"fmt"
	"sort"
	"strings"
	"testing"
	"time"

	"github.com/pingcap/kvproto/pkg/metapb"
	"github.com/tikv/pd/server/core"
	"github.com/tikv/pd/server/kv"
	"github.com/tikv/pd/server/schedule/placement"
	"pdverif/vkit"
	"pgregory.net/rapid"
)

func TestMain(m *testing.M)   { vkit.Quiet(); vkit.Main(m, "C12") }
func TestProp(t *testing.T)   { vkit.RunAll(t) }
func TestReplay(t *testing.T) { vkit.RunReplay(t) }

func init() {
	vkit.Register("fit", vkit.N{Quick: 100000, Thorough: 3000000}, genCase, runCase)
}

// FuzzFit is the optional native-fuzzing campaign of DESIGN §4/C12 (not run by
// ./check): the fuzzer's bytes drive the same generator through rapid.MakeFuzz.
//
//	go test -tags verif,without_dashboard -vet=off ./c12 -run '^$' -fuzz FuzzFit -fuzztime 60s
func FuzzFit(f *testing.F) {
	f.Fuzz(rapid.MakeFuzz(func(t *rapid.T) {
		c := genCase(t)
		if _, err := runCase(c); err != nil {
			t.Fatalf("C12 violated: %v", err)
		}
	}))
}

// ---------------------------------------------------------------- case data

type Label struct {
	K string `json:"k"`
	V string `json:"v"`
}

// State of a store: 0 Up, 1 Offline, 2 Offline and physically destroyed,
// 3 Tombstone. Alive: the store's last heartbeat is recent (otherwise it never
// sent one: disconnected / down). Neither plays a part in whether an existing
// peer satisfies a rule (constraints and role only), so the oracle ignores both.
type Store struct {
	ID     uint64  `json:"id"`
	Labels []Label `json:"labels,omitempty"`
	State  int     `json:"state,omitempty"`
	Alive  bool    `json:"alive,omitempty"`
}

// Role of a peer: 0 voter, 1 learner, 2 incoming voter, 3 demoting voter.
type Peer struct {
	ID    uint64 `json:"id"`
	Store uint64 `json:"store"`
	Role  int    `json:"role,omitempty"`
}

type Cons struct {
	Key    string   `json:"key"`
	Op     string   `json:"op"`
	Values []string `json:"values,omitempty"`
}

type Rule struct {
	Role  string   `json:"role"`
	Count int      `json:"count"`
	Cons  []Cons   `json:"cons,omitempty"`
	Loc   []string `json:"loc,omitempty"`
}

type Case struct {
	Stores []Store `json:"stores"`
	Peers  []Peer  `json:"peers"`
	Leader int     `json:"leader"` // index into Peers, -1 = region has no leader
	Rules  []Rule  `json:"rules"`
	// metamorphic variant: orders in which stores / peers are presented, and the
	// peer ids of the variant (PeerIDs[i] is the id peer i gets in the variant).
	StorePerm []int    `json:"store_perm"`
	PeerPerm  []int    `json:"peer_perm"`
	PeerIDs   []uint64 `json:"peer_ids"`
	// alternative assignment for the CompareRegionFit check: Alt[i] in -1..len(Rules)-1,
	// entries that are not valid when applied in peer order become orphans.
	Alt []int `json:"alt"`
	// how the RegionInfo of each of the 4 FitRegion calls of the case is
	// constructed (missing entries = directly). The logical region (peers, stores,
	// roles, leader peer id) is the same whatever the construction.
	Build []Build `json:"build,omitempty"`
	// the path through a real placement.RuleManager (nil = not in this case)
	Mgr *Mgr `json:"mgr,omitempty"`
}

// Mgr: the case's rules become key-ranged rules of group "pd" in a RuleManager
// (memory storage, store-set informer = the case's stores) next to the default
// rule "pd/default" (voter x DefCount over the whole key space, created by
// Initialize). Points = "" + Bounds + "" (unbounded end); rule i covers
// [Points[Ranges[i][0]], Points[Ranges[i][1]]). DefLast: the case's rules are
// ordered before the default rule (negative indexes) instead of after it.
// Regions are the key ranges of the regions fitted through RuleManager.FitRegion.
type Mgr struct {
	Bounds   []string    `json:"bounds"`
	Ranges   [][2]int    `json:"ranges"`
	DefCount int         `json:"def_count"`
	DefLast  bool        `json:"def_last,omitempty"`
	Regions  [][2]string `json:"regions"`
}

// Build: How 0 = core.NewRegionInfo(meta, leader peer) as from a heartbeat;
// 1 = the way filter.ruleFitFilter.Target does it: copies of the peers of a
// region in which peer From still sits on store Old, a separate copy of the
// leader record, core.NewRegionInfo(..., core.WithReplacePeerStore(Old, final store));
// 2 = the same move by RegionInfo.Clone(core.WithReplacePeerStore(Old, final store));
// 3 = the way filter.ruleLeaderFitFilter.Target does it: copies of the peers of a
// region led by peer From (or by nobody), core.WithLeader(peer object of the
// original region). From is taken modulo the number of peers of the call; Old is
// replaced by an unused store id if a peer of the call sits on it.
// With 1 and 2 the leader RECORD (region.GetLeader()) keeps naming store Old when
// From is the leader; the leader PEER is the one whose id equals GetLeader().GetId().
type Build struct {
	How  int    `json:"how"`
	From int    `json:"from,omitempty"`
	Old  uint64 `json:"old,omitempty"`
}

// ---------------------------------------------------------------- generator

// label universe. Keys of exclusive labels ('$' prefix, legacy "engine" and
// "exclusive") are always written in lower case, on stores and in rules.
var (
	locKeys   = []string{"zone", "rack", "host"}
	locValues = map[string][]string{
		"zone": {"z1", "z2", "z3"},
		"rack": {"r1", "r2", "r3"},
		"host": {"h1", "h2", "h3", "h4"},
	}
	keyValues = map[string][]string{
		"zone":      {"z1", "z2", "z3", "Z1"},
		"rack":      {"r1", "r2", "r3"},
		"host":      {"h1", "h2", "h3", "h4"},
		"disk":      {"ssd", "hdd"},
		"engine":    {"tiflash", "tikv"},
		"exclusive": {"a", "b"},
		"$dc":       {"x", "y"},
		"nolabel":   {"q"},
	}
	consKeys = []string{"zone", "zone", "zone", "rack", "rack", "host", "disk", "disk", "engine", "engine", "exclusive", "$dc", "$dc", "nolabel"}
)

// chance is true with probability about num/den. rapid favours small values of
// an integer draw, so the rare outcome is mapped to the large values: rare
// features stay rare and shrinking moves towards "feature absent".
func chance(t *rapid.T, num, den int, label string) bool {
	return rapid.IntRange(0, den-1).Draw(t, label) >= den-num
}

// mixCase returns the key with its first letter in upper case (store label keys
// and rule keys are matched case-insensitively for ordinary labels).
func mixCase(k string) string { return strings.ToUpper(k[:1]) + k[1:] }

// per-case flavour: how many stores carry exclusive labels, whether label
// keys/values appear in mixed case.
type flavour struct {
	excl  int // 0 none, 1 sparse, 2 dense
	mixed bool
	decom bool // every store satisfying some rule is being removed (non-Up) and holds a peer
	sched bool // regions are built the way the schedulers build candidate copies; leader/follower rules frequent
}

func genStore(t *rapid.T, id uint64, fl flavour) Store {
	s := Store{ID: id}
	s.Alive = !chance(t, 1, 4, "neverHeartbeat")
	if chance(t, 1, 10, "notUp") {
		s.State = rapid.IntRange(1, 3).Draw(t, "state")
	}
	for _, k := range locKeys {
		if chance(t, 4, 5, "has-"+k) {
			v := rapid.SampledFrom(locValues[k]).Draw(t, "v-"+k)
			key := k
			if fl.mixed && chance(t, 1, 6, "upK") {
				key = mixCase(k)
			}
			if fl.mixed && chance(t, 1, 4, "upV") {
				v = strings.ToUpper(v)
			}
			s.Labels = append(s.Labels, Label{key, v})
		}
	}
	if chance(t, 1, 2, "has-disk") {
		s.Labels = append(s.Labels, Label{"disk", rapid.SampledFrom(keyValues["disk"]).Draw(t, "v-disk")})
	}
	if fl.excl > 0 {
		den := []int{0, 8, 3}[fl.excl]
		if chance(t, 1, den, "has-engine") {
			s.Labels = append(s.Labels, Label{"engine", rapid.SampledFrom([]string{"tiflash", "tiflash", "tikv"}).Draw(t, "v-engine")})
		}
		if chance(t, 1, den+2, "has-$dc") {
			s.Labels = append(s.Labels, Label{"$dc", rapid.SampledFrom(keyValues["$dc"]).Draw(t, "v-$dc")})
		}
		if chance(t, 1, den*3, "has-exclusive") {
			s.Labels = append(s.Labels, Label{"exclusive", rapid.SampledFrom(keyValues["exclusive"]).Draw(t, "v-excl")})
		}
	}
	if len(s.Labels) > 1 && chance(t, 1, 4, "shuffle") {
		// label order on the store is irrelevant for every documented notion
		i := rapid.IntRange(0, len(s.Labels)-1).Draw(t, "rot")
		s.Labels = append(append([]Label(nil), s.Labels[i:]...), s.Labels[:i]...)
	}
	return s
}

func genRule(t *rapid.T, fl flavour) Rule {
	var r Rule
	roles := []string{"voter", "voter", "voter", "voter", "follower", "follower", "leader", "leader", "learner", "learner", "learner"}
	if fl.sched {
		roles = []string{"leader", "follower", "follower", "leader", "voter", "follower", "learner"}
	}
	r.Role = rapid.SampledFrom(roles).Draw(t, "role")
	if r.Role == "leader" {
		r.Count = 1 // adjustRule rejects leader rules with count > 1
	} else {
		r.Count = rapid.SampledFrom([]int{1, 2, 3, 1, 2, 3, 1, 2, 3, 4, 5}).Draw(t, "count")
	}
	nc := rapid.SampledFrom([]int{0, 0, 0, 1, 1, 1, 2, 3}).Draw(t, "ncons")
	keys := consKeys
	if fl.excl == 0 {
		keys = consKeys[:8] // zone/rack/host/disk only
		if chance(t, 1, 8, "exclKeyAnyway") {
			keys = consKeys
		}
	}
	for i := 0; i < nc; i++ {
		var c Cons
		c.Key = rapid.SampledFrom(keys).Draw(t, "ckey")
		c.Op = rapid.SampledFrom([]string{"in", "in", "in", "notIn", "notIn", "exists", "notExists"}).Draw(t, "op")
		if c.Op == "in" || c.Op == "notIn" {
			vals := keyValues[c.Key]
			nv := rapid.IntRange(0, 2).Draw(t, "nvals")
			if nv == 0 && !chance(t, 1, 6, "emptyVals") {
				nv = 1
			}
			for j := 0; j < nv; j++ {
				c.Values = append(c.Values, rapid.SampledFrom(vals).Draw(t, "cval"))
			}
		}
		if fl.mixed && !isExclusive(c.Key) && chance(t, 1, 6, "upCK") {
			c.Key = mixCase(c.Key)
		}
		r.Cons = append(r.Cons, c)
	}
	switch rapid.IntRange(0, 9).Draw(t, "locKind") {
	case 0, 1:
		// no location labels
	case 2, 3, 4, 5:
		r.Loc = append(r.Loc, locKeys[:rapid.IntRange(1, 3).Draw(t, "nloc")]...)
	case 6, 7:
		r.Loc = rapid.Permutation(locKeys).Draw(t, "locPerm")[:rapid.IntRange(1, 3).Draw(t, "nloc")]
	case 8:
		r.Loc = []string{"zone", "nolabel", "host"}
	default:
		r.Loc = []string{"disk", "zone", "rack", "host"}
	}
	if fl.mixed && len(r.Loc) > 0 && chance(t, 1, 6, "upLoc") {
		r.Loc = append([]string(nil), r.Loc...)
		r.Loc[0] = mixCase(r.Loc[0])
	}
	return r
}

func genCase(t *rapid.T) Case {
	var c Case
	fl := flavour{excl: rapid.SampledFrom([]int{0, 0, 1, 1, 2}).Draw(t, "exclFlavour"), mixed: chance(t, 1, 4, "mixedFlavour"), sched: chance(t, 1, 3, "schedFlavour")}
	fl.decom = chance(t, 1, 4, "decomFlavour")
	mgr := chance(t, 1, 4, "managerPath")
	ns := rapid.IntRange(3, 8).Draw(t, "nstores")
	for i := 0; i < ns; i++ {
		c.Stores = append(c.Stores, genStore(t, uint64(i+1), fl))
	}
	nr := rapid.SampledFrom([]int{1, 2, 2, 2, 3, 3, 4}).Draw(t, "nrules")
	for i := 0; i < nr; i++ {
		c.Rules = append(c.Rules, genRule(t, fl))
	}
	// peers: distinct stores, a few on stores the cluster does not know
	pool := make([]uint64, 0, ns+2)
	for i := 0; i < ns; i++ {
		pool = append(pool, uint64(i+1))
	}
	if chance(t, 1, 5, "unknown") {
		pool = append(pool, 101, 102)
	}
	c.Leader = -1
	if fl.decom && chance(t, 3, 4, "decomTemplate") || chance(t, 1, 2, "template") {
		// peers made to measure for the rules: one per rule slot with the rule's role,
		// preferably on a store satisfying the rule; then one dropped / one added.
		type slot struct {
			rule int
			role string
		}
		var slots []slot
		for r, rule := range c.Rules {
			for k := 0; k < rule.Count; k++ {
				slots = append(slots, slot{r, rule.Role})
			}
		}
		if len(slots) > 1 && chance(t, 1, 3, "drop") {
			d := rapid.IntRange(0, len(slots)-1).Draw(t, "dropAt")
			slots = append(slots[:d:d], slots[d+1:]...)
		}
		if chance(t, 1, 3, "extra") {
			slots = append(slots, slot{-1, rapid.SampledFrom([]string{"voter", "learner", "leader"}).Draw(t, "extraRole")})
		}
		if len(slots) > 6 {
			slots = slots[:6]
		}
		free := append([]uint64(nil), pool...)
		for _, sl := range slots {
			if len(free) == 0 {
				break
			}
			cand := free
			if sl.rule >= 0 && chance(t, 4, 5, "fitting") {
				var m []uint64
				for _, id := range free {
					if id <= uint64(ns) && storeMatches(&c.Rules[sl.rule], &c.Stores[id-1]) {
						m = append(m, id)
					}
				}
				if len(m) > 0 {
					cand = m
				}
			}
			id := rapid.SampledFrom(cand).Draw(t, "slotStore")
			for i, f := range free {
				if f == id {
					free = append(free[:i:i], free[i+1:]...)
					break
				}
			}
			p := Peer{Store: id}
			switch sl.role {
			case "learner":
				p.Role = 1
			case "leader":
				if c.Leader < 0 {
					c.Leader = len(c.Peers)
				}
			}
			if p.Role == 0 && chance(t, 1, 12, "joint") {
				p.Role = rapid.IntRange(2, 3).Draw(t, "jointRole")
			}
			c.Peers = append(c.Peers, p)
		}
		if c.Leader < 0 && (fl.sched || !chance(t, 1, 8, "leaderless")) {
			var voters []int
			for i, p := range c.Peers {
				if p.Role != 1 {
					voters = append(voters, i)
				}
			}
			if len(voters) > 0 {
				c.Leader = rapid.SampledFrom(voters).Draw(t, "leader")
			}
		}
	} else {
		np := rapid.SampledFrom([]int{3, 3, 4, 2, 5, 1, 6, 0, 4, 5, 6}).Draw(t, "npeers")
		if np > len(pool) {
			np = len(pool)
		}
		where := rapid.Permutation(pool).Draw(t, "peerStores")[:np]
		var voters []int
		for i := 0; i < np; i++ {
			role := rapid.SampledFrom([]int{0, 0, 0, 0, 0, 0, 0, 0, 0, 0, 0, 1, 1, 1, 1, 2, 3}).Draw(t, "prole")
			c.Peers = append(c.Peers, Peer{Store: where[i], Role: role})
			if role != 1 {
				voters = append(voters, i)
			}
		}
		if len(voters) > 0 && (fl.sched || !chance(t, 1, 8, "leaderless")) {
			c.Leader = rapid.SampledFrom(voters).Draw(t, "leader")
		}
	}
	np := len(c.Peers)
	ids := rapid.Permutation(seqU(np, 11)).Draw(t, "peerIDs")
	for i := range c.Peers {
		c.Peers[i].ID = ids[i]
	}
	c.StorePerm = rapid.Permutation(seq(ns)).Draw(t, "storePerm")
	c.PeerPerm = rapid.Permutation(seq(np)).Draw(t, "peerPerm")
	c.PeerIDs = rapid.Permutation(seqU(np, 21)).Draw(t, "peerIDs2")
	for i := 0; i < np; i++ {
		c.Alt = append(c.Alt, rapid.IntRange(0, nr).Draw(t, "alt")-1)
	}
	if fl.decom {
		// decommissioning the only stores behind a rule: every store satisfying the
		// constraints of one rule (preferably a label-pinned one) is non-Up, and one
		// of them holds a peer the rule's role accepts.
		var pinned []int
		for r := range c.Rules {
			if len(c.Rules[r].Cons) > 0 {
				pinned = append(pinned, r)
			}
		}
		if len(pinned) == 0 || chance(t, 1, 6, "anyRule") {
			pinned = seq(nr)
		}
		r := rapid.SampledFrom(pinned).Draw(t, "decomRule")
		var m []int
		holds := false
		for i := range c.Stores {
			if storeMatches(&c.Rules[r], &c.Stores[i]) {
				m = append(m, i)
				c.Stores[i].State = rapid.SampledFrom([]int{1, 1, 3, 2}).Draw(t, "decomState")
				for _, p := range c.Peers {
					holds = holds || p.Store == c.Stores[i].ID
				}
			}
		}
		if !holds && len(m) > 0 {
			for i := range c.Peers {
				if c.Rules[r].Role != "learner" || c.Peers[i].Role == 1 {
					c.Peers[i].Store = c.Stores[rapid.SampledFrom(m).Draw(t, "decomHome")].ID
					break
				}
			}
		}
	}
	if mgr {
		c.Mgr = genMgr(t, nr)
	}
	if fl.sched && np > 0 {
		// stores without a peer (plus one id the cluster does not know)
		free := []uint64{201}
		for i := 1; i <= ns; i++ {
			used := false
			for _, p := range c.Peers {
				used = used || p.Store == uint64(i)
			}
			if !used {
				free = append(free, uint64(i))
			}
		}
		for call := 0; call < 4; call++ {
			var b Build
			// first call built the scheduler way in most sched cases, later calls in about half
			if call == 0 && !chance(t, 1, 4, "firstDirect") || call > 0 && chance(t, 1, 2, "laterSched") {
				b.How = rapid.SampledFrom([]int{1, 1, 2, 3}).Draw(t, "how")
				b.From = rapid.IntRange(0, np-1).Draw(t, "from")
				if c.Leader >= 0 && b.How != 3 && !chance(t, 1, 4, "moveNonLeader") {
					b.From = c.Leader // the replaced store held the leader
				}
				b.Old = rapid.SampledFrom(free).Draw(t, "old")
			}
			c.Build = append(c.Build, b)
		}
	}
	return c
}

func genMgr(t *rapid.T, nr int) *Mgr {
	m := &Mgr{DefCount: rapid.SampledFrom([]int{3, 1, 2}).Draw(t, "defCount"), DefLast: chance(t, 1, 3, "defLast")}
	nb := rapid.IntRange(1, 3).Draw(t, "nbounds")
	pick := rapid.Permutation([]string{"b", "d", "f", "h"}).Draw(t, "bounds")[:nb]
	sort.Strings(pick)
	m.Bounds = pick
	for i := 0; i < nr; i++ {
		lo := rapid.IntRange(0, nb).Draw(t, "lo")
		hi := lo + 1
		if !chance(t, 2, 3, "oneSegment") {
			hi = rapid.IntRange(lo+1, nb+1).Draw(t, "hi")
		}
		m.Ranges = append(m.Ranges, [2]int{lo, hi})
	}
	// key table: every range start key k, and two keys strictly inside the segment after it
	table := []string{"", "3", "7"}
	for _, b := range m.Bounds {
		table = append(table, b, b+"3", b+"7")
	}
	nreg := rapid.IntRange(1, 3).Draw(t, "nregions")
	for i := 0; i < nreg; i++ {
		var st, en string
		switch rapid.SampledFrom([]int{0, 1, 0, 1, 2, 3}).Draw(t, "regionKind") {
		case 0: // between two neighbouring keys of the table: inside a segment, or exactly one
			si := rapid.IntRange(0, len(table)-1).Draw(t, "si")
			st = table[si]
			if si+1 < len(table) {
				en = table[si+1]
			}
			if st == table[si/3*3] && chance(t, 1, 2, "wholeSegment") {
				en = ""
				if si+3 < len(table) {
					en = table[si+3]
				}
			}
		case 1: // from some key over one or two boundaries
			si := rapid.IntRange(0, len(table)-4).Draw(t, "si")
			st = table[si]
			ei := si/3*3 + 3*rapid.IntRange(1, 2).Draw(t, "over") + rapid.IntRange(0, 2).Draw(t, "into")
			if ei < len(table) {
				en = table[ei]
			}
		case 2: // the whole key space
		default: // any pair
			si := rapid.IntRange(0, len(table)-1).Draw(t, "si")
			st = table[si]
			if si+1 < len(table) && chance(t, 3, 4, "bounded") {
				en = table[rapid.IntRange(si+1, len(table)-1).Draw(t, "ei")]
			}
		}
		m.Regions = append(m.Regions, [2]string{st, en})
	}
	return m
}

func seq(n int) []int {
	s := make([]int, n)
	for i := range s {
		s[i] = i
	}
	return s
}

func seqU(n int, from uint64) []uint64 {
	s := make([]uint64, n)
	for i := range s {
		s[i] = from + uint64(i)
	}
	return s
}

// ---------------------------------------------------------------- oracle

// labelValue: label keys are case-insensitive; "" means the label is not set.
func labelValue(s *Store, key string) string {
	for _, l := range s.Labels {
		if strings.EqualFold(l.K, key) {
			return l.V
		}
	}
	return ""
}

// "If a store has exclusiveLabels, it can only be selected when the label is
// explicitly specified in constraints": keys with '$' prefix, "engine", "exclusive".
func isExclusive(key string) bool {
	return strings.HasPrefix(key, "$") || key == "engine" || key == "exclusive"
}

func consMatch(c *Cons, s *Store) bool {
	v := labelValue(s, c.Key)
	in := false
	for _, x := range c.Values {
		if x == v {
			in = true
		}
	}
	switch c.Op {
	case "in": // "If label does not exist, `in` is always false."
		return v != "" && in
	case "notIn": // "If label does not exist, `notIn` is always true."
		return v == "" || !in
	case "exists":
		return v != ""
	case "notExists":
		return v == ""
	}
	return false
}

func storeMatches(r *Rule, s *Store) bool {
	if s == nil {
		return false // a peer on a store the cluster does not know satisfies nothing
	}
	for _, l := range s.Labels {
		if !isExclusive(l.K) {
			continue
		}
		named := false
		for i := range r.Cons {
			if r.Cons[i].Key == l.K {
				named = true
			}
		}
		if !named {
			return false
		}
	}
	for i := range r.Cons {
		if !consMatch(&r.Cons[i], s) {
			return false
		}
	}
	return true
}

type opeer struct {
	id      uint64
	store   *Store // nil = unknown
	learner bool
	leader  bool
}

// "non-learner cannot become learner. All other roles can migrate to others by scheduling."
func roleLoose(role string, p *opeer) bool { return role != "learner" || p.learner }

func roleStrict(role string, p *opeer) bool {
	switch role {
	case "voter":
		return !p.learner
	case "leader":
		return p.leader
	case "follower":
		return !p.learner && !p.leader
	case "learner":
		return p.learner
	}
	return false
}

// compareLocation as documented at StoreInfo.CompareLocation: the first level
// at which both stores carry the label and the values differ (case-insensitively);
// "If label is not set, the store is considered at the same location with any
// other store". -1 = same location.
func compareLocation(a, b *Store, labels []string) int {
	for i, k := range labels {
		v1, v2 := labelValue(a, k), labelValue(b, k)
		if v1 != "" && v2 != "" && !strings.EqualFold(v1, v2) {
			return i
		}
	}
	return -1
}

// isolation score in exact integer arithmetic: Σ over pairs 100^(levels-1-firstDifferentLevel).
func isolation(ps []*opeer, labels []string) int64 {
	if len(labels) == 0 || len(ps) <= 1 {
		return 0
	}
	var score int64
	for i := range ps {
		for j := i + 1; j < len(ps); j++ {
			if lv := compareLocation(ps[i].store, ps[j].store, labels); lv >= 0 {
				w := int64(1)
				for k := 0; k < len(labels)-lv-1; k++ {
					w *= 100
				}
				score += w
			}
		}
	}
	return score
}

// key of one rule fit / of a whole fit in the documented order.
type rkey struct {
	n, mism int
	iso     int64
}

type fkey struct {
	rules   []rkey
	orphans int
}

func cmpInt64(a, b int64) int {
	switch {
	case a < b:
		return -1
	case a > b:
		return 1
	}
	return 0
}

// cmpKey returns 1 when a is better: rule by rule more peers, then fewer role
// mismatches, then higher isolation score; finally fewer orphans.
func cmpKey(a, b fkey) int {
	for i := range a.rules {
		x, y := a.rules[i], b.rules[i]
		if c := cmpInt64(int64(x.n), int64(y.n)); c != 0 {
			return c
		}
		if c := cmpInt64(int64(y.mism), int64(x.mism)); c != 0 {
			return c
		}
		if c := cmpInt64(x.iso, y.iso); c != 0 {
			return c
		}
	}
	return cmpInt64(int64(b.orphans), int64(a.orphans))
}

func (k fkey) String() string {
	s := ""
	for i, r := range k.rules {
		s += fmt.Sprintf("rule%d{peers=%d mismatches=%d isolation=%d} ", i, r.n, r.mism, r.iso)
	}
	return s + fmt.Sprintf("orphans=%d", k.orphans)
}

type world struct {
	rules []Rule
	peers []*opeer
	elig  [][]bool // elig[p][r]
}

func newWorld(c *Case) *world {
	w := &world{rules: c.Rules}
	byID := map[uint64]*Store{}
	for i := range c.Stores {
		byID[c.Stores[i].ID] = &c.Stores[i]
	}
	for i, p := range c.Peers {
		w.peers = append(w.peers, &opeer{id: p.ID, store: byID[p.Store], learner: p.Role == 1, leader: i == c.Leader})
	}
	for _, p := range w.peers {
		row := make([]bool, len(w.rules))
		for r := range w.rules {
			row[r] = storeMatches(&w.rules[r], p.store) && roleLoose(w.rules[r].Role, p)
		}
		w.elig = append(w.elig, row)
	}
	return w
}

// keyOf computes the comparison key of an assignment (asg[p] = rule or -1).
func (w *world) keyOf(asg []int) fkey {
	k := fkey{rules: make([]rkey, len(w.rules))}
	for r := range w.rules {
		var in []*opeer
		for p, a := range asg {
			if a == r {
				in = append(in, w.peers[p])
				if !roleStrict(w.rules[r].Role, w.peers[p]) {
					k.rules[r].mism++
				}
			}
		}
		k.rules[r].n = len(in)
		k.rules[r].iso = isolation(in, w.rules[r].Loc)
	}
	for _, a := range asg {
		if a < 0 {
			k.orphans++
		}
	}
	return k
}

// best enumerates every valid assignment (each peer to an eligible rule with
// room left, or to the orphan list) and returns the best key, one assignment
// reaching it, the number of valid assignments and of optimal ones.
func (w *world) best() (bk fkey, basg []int, total, ties int) {
	asg := make([]int, len(w.peers))
	used := make([]int, len(w.rules))
	first := true
	var rec func(p int)
	rec = func(p int) {
		if p == len(w.peers) {
			total++
			k := w.keyOf(asg)
			c := 1
			if !first {
				c = cmpKey(k, bk)
			}
			switch {
			case c > 0:
				bk, basg, ties, first = k, append([]int(nil), asg...), 1, false
			case c == 0:
				ties++
			}
			return
		}
		for r := -1; r < len(w.rules); r++ {
			if r >= 0 && (!w.elig[p][r] || used[r] >= w.rules[r].Count) {
				continue
			}
			asg[p] = r
			if r >= 0 {
				used[r]++
			}
			rec(p + 1)
			if r >= 0 {
				used[r]--
			}
		}
	}
	rec(0)
	return
}

// ---------------------------------------------------------------- fixture

type storeSet struct {
	list []*core.StoreInfo
	byID map[uint64]*core.StoreInfo
}

func (s *storeSet) GetStores() []*core.StoreInfo { return s.list }
func (s *storeSet) GetStore(id uint64) *core.StoreInfo {
	if st, ok := s.byID[id]; ok {
		return st
	}
	return nil
}

// the rest of core.StoreSetInformer (the rule manager only calls GetStores).
func (s *storeSet) GetRegionStores(r *core.RegionInfo) []*core.StoreInfo {
	var out []*core.StoreInfo
	for _, p := range r.GetPeers() {
		if st := s.GetStore(p.GetStoreId()); st != nil {
			out = append(out, st)
		}
	}
	return out
}
func (s *storeSet) GetFollowerStores(r *core.RegionInfo) []*core.StoreInfo {
	var out []*core.StoreInfo
	for _, p := range r.GetPeers() {
		if st := s.GetStore(p.GetStoreId()); st != nil && p.GetId() != r.GetLeader().GetId() {
			out = append(out, st)
		}
	}
	return out
}
func (s *storeSet) GetLeaderStore(r *core.RegionInfo) *core.StoreInfo {
	for _, p := range r.GetPeers() {
		if p.GetId() == r.GetLeader().GetId() {
			return s.GetStore(p.GetStoreId())
		}
	}
	return nil
}

func buildStores(c *Case, order []int) *storeSet {
	ss := &storeSet{byID: map[uint64]*core.StoreInfo{}}
	for _, i := range order {
		s := c.Stores[i]
		meta := &metapb.Store{Id: s.ID}
		for _, l := range s.Labels {
			meta.Labels = append(meta.Labels, &metapb.StoreLabel{Key: l.K, Value: l.V})
		}
		var opts []core.StoreCreateOption
		switch s.State {
		case 1:
			opts = append(opts, core.OfflineStore(false))
		case 2:
			opts = append(opts, core.OfflineStore(true))
		case 3:
			opts = append(opts, core.TombstoneStore())
		}
		if s.Alive {
			// a constant far in the future: "recent" for ever, no wall clock in the case
			opts = append(opts, core.SetLastHeartbeatTS(heartbeatRecent))
		}
		si := core.NewStoreInfo(meta, opts...)
		ss.list = append(ss.list, si)
		ss.byID[s.ID] = si
	}
	return ss
}

var heartbeatRecent = time.Date(2200, 1, 1, 0, 0, 0, 0, time.UTC)

var metaRoles = []metapb.PeerRole{metapb.PeerRole_Voter, metapb.PeerRole_Learner, metapb.PeerRole_IncomingVoter, metapb.PeerRole_DemotingVoter}

// buildRegion presents the peers in the given order with the given ids
// (ids[i] belongs to case peer i), constructed as bld says (see Build). idx maps
// a peer id back to the case peer index. The second result tells whether the
// leader record of the region names another store than the leader peer.
func buildRegion(c *Case, order []int, ids []uint64, bld Build) (*core.RegionInfo, map[uint64]int, bool) {
	idx := map[uint64]int{}
	for _, i := range order {
		idx[ids[i]] = i
	}
	mk := func(store func(i int) uint64, leaderIdx int) *core.RegionInfo {
		meta := &metapb.Region{Id: 1, RegionEpoch: &metapb.RegionEpoch{Version: 1, ConfVer: 1}}
		var leader *metapb.Peer
		for _, i := range order {
			mp := &metapb.Peer{Id: ids[i], StoreId: store(i), Role: metaRoles[c.Peers[i].Role]}
			meta.Peers = append(meta.Peers, mp)
			if i == leaderIdx {
				leader = mp
			}
		}
		return core.NewRegionInfo(meta, leader)
	}
	final := func(i int) uint64 { return c.Peers[i].Store }
	if bld.How == 0 || len(order) == 0 {
		return mk(final, c.Leader), idx, false
	}
	// the way the schedule filters copy a region before fitting a candidate
	copyFor := func(r *core.RegionInfo, opts ...core.RegionCreateOption) *core.RegionInfo {
		var copyLeader *metapb.Peer
		if l := r.GetLeader(); l != nil {
			copyLeader = &metapb.Peer{Id: l.Id, StoreId: l.StoreId, Role: l.Role}
		}
		var copyPeers []*metapb.Peer
		for _, p := range r.GetPeers() {
			copyPeers = append(copyPeers, &metapb.Peer{Id: p.Id, StoreId: p.StoreId, Role: p.Role})
		}
		return core.NewRegionInfo(&metapb.Region{Id: r.GetID(), Peers: copyPeers}, copyLeader, opts...)
	}
	from := order[bld.From%len(order)]
	if bld.How == 3 {
		// transfer-leader candidate: the original region is led by peer `from` (if it
		// can lead and is not the final leader) or by nobody; the copy's leader is
		// the original region's peer object of the final leader.
		if c.Leader < 0 {
			return mk(final, c.Leader), idx, false
		}
		pre := -1
		if from != c.Leader && c.Peers[from].Role != 1 {
			pre = from
		}
		orig := mk(final, pre)
		target := orig.GetStorePeer(c.Peers[c.Leader].Store)
		return copyFor(orig, core.WithLeader(target)), idx, false
	}
	old := bld.Old
	for _, i := range order {
		if c.Peers[i].Store == old || old == 0 {
			old = 9001 // a store id nobody uses
		}
	}
	orig := mk(func(i int) uint64 {
		if i == from {
			return old
		}
		return c.Peers[i].Store
	}, c.Leader)
	var region *core.RegionInfo
	if bld.How == 1 {
		region = copyFor(orig, core.WithReplacePeerStore(old, c.Peers[from].Store))
	} else {
		region = orig.Clone(core.WithReplacePeerStore(old, c.Peers[from].Store))
	}
	return region, idx, from == c.Leader
}

func buildRules(c *Case) []*placement.Rule {
	var out []*placement.Rule
	for i, r := range c.Rules {
		pr := &placement.Rule{GroupID: "pd", ID: fmt.Sprintf("r%d", i), Index: i,
			Role: placement.PeerRoleType(r.Role), Count: r.Count,
			LocationLabels: append([]string(nil), r.Loc...)}
		for _, cs := range r.Cons {
			pr.LabelConstraints = append(pr.LabelConstraints, placement.LabelConstraint{
				Key: cs.Key, Op: placement.LabelConstraintOp(cs.Op), Values: append([]string(nil), cs.Values...)})
		}
		out = append(out, pr)
	}
	return out
}

// ---------------------------------------------------------------- checks

// checkValid checks the validity predicates (a) of a returned fit and returns
// the assignment it encodes (per case peer index) and its comparison key.
func checkValid(w *world, fit *placement.RegionFit, rules []*placement.Rule, idx map[uint64]int) ([]int, fkey, error) {
	var key fkey
	if fit == nil {
		return nil, key, fmt.Errorf("FitRegion returned nil")
	}
	if len(fit.RuleFits) != len(rules) {
		return nil, key, fmt.Errorf("fit has %d rule fits for %d rules", len(fit.RuleFits), len(rules))
	}
	asg := make([]int, len(w.peers))
	for i := range asg {
		asg[i] = -2 // not placed yet
	}
	place := func(p *metapb.Peer, where int, what string) error {
		if p == nil {
			return fmt.Errorf("%s contains a nil peer", what)
		}
		i, ok := idx[p.GetId()]
		if !ok {
			return fmt.Errorf("%s contains peer %d which is not a peer of the region", what, p.GetId())
		}
		if asg[i] != -2 {
			return fmt.Errorf("peer %d (case peer %d) appears twice: in %s and in %s", p.GetId(), i, where2s(asg[i]), what)
		}
		asg[i] = where
		return nil
	}
	for r, rf := range fit.RuleFits {
		if rf == nil {
			return nil, key, fmt.Errorf("rule fit %d is nil", r)
		}
		if rf.Rule != rules[r] {
			return nil, key, fmt.Errorf("rule fit %d does not refer to rule %d of the list", r, r)
		}
		if len(rf.Peers) > w.rules[r].Count {
			return nil, key, fmt.Errorf("rule %d (count %d) got %d peers", r, w.rules[r].Count, len(rf.Peers))
		}
		var in []*opeer
		wantMism := map[uint64]bool{}
		for _, p := range rf.Peers {
			if err := place(p, r, fmt.Sprintf("rule %d", r)); err != nil {
				return nil, key, err
			}
			i := idx[p.GetId()]
			op := w.peers[i]
			if !storeMatches(&w.rules[r], op.store) {
				return nil, key, fmt.Errorf("peer %d (case peer %d, store %s) is in rule %d whose label constraints %v its store does not satisfy",
					p.GetId(), i, fmtStore(op.store), r, w.rules[r].Cons)
			}
			if !roleLoose(w.rules[r].Role, op) {
				return nil, key, fmt.Errorf("peer %d (case peer %d, non-learner) is in %s rule %d: a voter cannot be converted to a learner",
					p.GetId(), i, w.rules[r].Role, r)
			}
			if !roleStrict(w.rules[r].Role, op) {
				wantMism[p.GetId()] = true
			}
			in = append(in, op)
		}
		gotMism := map[uint64]bool{}
		for _, p := range rf.PeersWithDifferentRole {
			if p == nil {
				return nil, key, fmt.Errorf("rule %d: nil peer in PeersWithDifferentRole", r)
			}
			if gotMism[p.GetId()] {
				return nil, key, fmt.Errorf("rule %d: peer %d listed twice in PeersWithDifferentRole", r, p.GetId())
			}
			gotMism[p.GetId()] = true
		}
		if !sameIDSet(gotMism, wantMism) {
			return nil, key, fmt.Errorf("rule %d (%s): PeersWithDifferentRole = %v, the peers of the rule whose role differs are %v",
				r, w.rules[r].Role, idList(gotMism), idList(wantMism))
		}
		iso := isolation(in, w.rules[r].Loc)
		if rf.IsolationScore != float64(iso) {
			return nil, key, fmt.Errorf("rule %d: IsolationScore = %v, recomputed from location labels %v over peers %v: %d",
				r, rf.IsolationScore, w.rules[r].Loc, peerIDs(rf.Peers), iso)
		}
		wantSat := len(rf.Peers) == w.rules[r].Count && len(wantMism) == 0
		if rf.IsSatisfied() != wantSat {
			return nil, key, fmt.Errorf("rule %d: RuleFit.IsSatisfied() = %v, but it has %d/%d peers and %d role mismatches",
				r, rf.IsSatisfied(), len(rf.Peers), w.rules[r].Count, len(wantMism))
		}
	}
	for _, p := range fit.OrphanPeers {
		if err := place(p, -1, "the orphan list"); err != nil {
			return nil, key, err
		}
	}
	for i, a := range asg {
		if a == -2 {
			return nil, key, fmt.Errorf("peer %d (case peer %d) is neither in a rule nor in the orphan list", w.peers[i].id, i)
		}
	}
	key = w.keyOf(asg)
	wantSat := key.orphans == 0
	for r, rk := range key.rules {
		if rk.n != w.rules[r].Count || rk.mism != 0 {
			wantSat = false
		}
	}
	if len(rules) == 0 {
		// outside the property (it speaks of 1..4 rules): pd reports a fit against an
		// empty rule list as not satisfied whatever the peers; nothing is asserted.
		wantSat = fit.IsSatisfied()
	}
	if fit.IsSatisfied() != wantSat {
		return nil, key, fmt.Errorf("RegionFit.IsSatisfied() = %v, but the fit is %v with rule counts %v", fit.IsSatisfied(), key, counts(w.rules))
	}
	return asg, key, nil
}

func checkGetRuleFit(fit *placement.RegionFit, asg []int, ids []uint64) error {
	for i, a := range asg {
		got := fit.GetRuleFit(ids[i])
		var want *placement.RuleFit
		if a >= 0 {
			want = fit.RuleFits[a]
		}
		if got != want {
			return fmt.Errorf("GetRuleFit(peer %d) does not return the rule fit (%s) that contains the peer", ids[i], where2s(a))
		}
	}
	if fit.GetRuleFit(9999) != nil {
		return fmt.Errorf("GetRuleFit of an id that is no peer of the region returned a rule fit")
	}
	return nil
}

// fitFromAssignment builds a RegionFit value for an assignment with the
// oracle's own numbers (used only as the second argument of CompareRegionFit).
func fitFromAssignment(w *world, asg []int, rules []*placement.Rule, region *core.RegionInfo, idx map[uint64]int) *placement.RegionFit {
	f := &placement.RegionFit{}
	byCase := map[int]*metapb.Peer{}
	for _, p := range region.GetPeers() {
		byCase[idx[p.GetId()]] = p
	}
	for r := range rules {
		rf := &placement.RuleFit{Rule: rules[r]}
		var in []*opeer
		for i, a := range asg {
			if a != r {
				continue
			}
			rf.Peers = append(rf.Peers, byCase[i])
			in = append(in, w.peers[i])
			if !roleStrict(w.rules[r].Role, w.peers[i]) {
				rf.PeersWithDifferentRole = append(rf.PeersWithDifferentRole, byCase[i])
			}
		}
		rf.IsolationScore = float64(isolation(in, w.rules[r].Loc))
		f.RuleFits = append(f.RuleFits, rf)
	}
	for i, a := range asg {
		if a < 0 {
			f.OrphanPeers = append(f.OrphanPeers, byCase[i])
		}
	}
	return f
}

// ---------------------------------------------------------------- held results
//
// A RegionFit is kept and used by its caller (rule checker, filters, operator
// builder) while other fits run. Every result of the case is therefore held,
// snapshotted at return time, and re-validated after every later FitRegion call
// with exactly the same validity predicates and comparison key; it must also be
// deep-equal to its snapshot (same peer objects with the same content in every
// rule fit, mismatch list and the orphan list, same isolation scores).

type peerSnap struct {
	p     *metapb.Peer
	id    uint64
	store uint64
	role  metapb.PeerRole
}

type fitSnap struct {
	ruleFits []*placement.RuleFit
	rules    []*placement.Rule
	peers    [][]peerSnap
	diff     [][]peerSnap
	iso      []float64
	orphans  []peerSnap
}

func snapPeers(ps []*metapb.Peer) []peerSnap {
	out := make([]peerSnap, 0, len(ps))
	for _, p := range ps {
		out = append(out, peerSnap{p, p.GetId(), p.GetStoreId(), p.GetRole()})
	}
	return out
}

func takeSnap(f *placement.RegionFit) fitSnap {
	var s fitSnap
	for _, rf := range f.RuleFits {
		s.ruleFits = append(s.ruleFits, rf)
		s.rules = append(s.rules, rf.Rule)
		s.peers = append(s.peers, snapPeers(rf.Peers))
		s.diff = append(s.diff, snapPeers(rf.PeersWithDifferentRole))
		s.iso = append(s.iso, rf.IsolationScore)
	}
	s.orphans = snapPeers(f.OrphanPeers)
	return s
}

func samePeers(what string, was []peerSnap, now []*metapb.Peer) error {
	ids := func(ps []peerSnap) []uint64 {
		var out []uint64
		for _, p := range ps {
			out = append(out, p.id)
		}
		return out
	}
	if len(was) != len(now) {
		return fmt.Errorf("%s was %v when returned and is %v now", what, ids(was), peerIDs(now))
	}
	for i, p := range now {
		if p != was[i].p || p.GetId() != was[i].id || p.GetStoreId() != was[i].store || p.GetRole() != was[i].role {
			return fmt.Errorf("%s was %v when returned and is %v now (entry %d is another peer object or its content changed)", what, ids(was), peerIDs(now), i)
		}
	}
	return nil
}

type held struct {
	name  string
	fit   *placement.RegionFit
	w     *world
	rules []*placement.Rule
	idx   map[uint64]int
	key   fkey
	snap  fitSnap
}

func hold(name string, fit *placement.RegionFit, w *world, rules []*placement.Rule, idx map[uint64]int, key fkey) *held {
	return &held{name, fit, w, rules, idx, key, takeSnap(fit)}
}

// recheck re-validates a held result after a later FitRegion call.
func (h *held) recheck(after string) error {
	wrap := func(err error) error {
		return fmt.Errorf("the %s, still held by its caller, changed after %s: %v", h.name, after, err)
	}
	if len(h.fit.RuleFits) != len(h.snap.ruleFits) {
		return wrap(fmt.Errorf("it had %d rule fits and has %d now", len(h.snap.ruleFits), len(h.fit.RuleFits)))
	}
	for r, rf := range h.fit.RuleFits {
		if rf != h.snap.ruleFits[r] || rf.Rule != h.snap.rules[r] {
			return wrap(fmt.Errorf("rule fit %d is another object now", r))
		}
		if err := samePeers(fmt.Sprintf("rule %d: Peers", r), h.snap.peers[r], rf.Peers); err != nil {
			return wrap(err)
		}
		if err := samePeers(fmt.Sprintf("rule %d: PeersWithDifferentRole", r), h.snap.diff[r], rf.PeersWithDifferentRole); err != nil {
			return wrap(err)
		}
		if rf.IsolationScore != h.snap.iso[r] {
			return wrap(fmt.Errorf("rule %d: IsolationScore was %v and is %v now", r, h.snap.iso[r], rf.IsolationScore))
		}
	}
	if err := samePeers("OrphanPeers", h.snap.orphans, h.fit.OrphanPeers); err != nil {
		return wrap(err)
	}
	_, key, err := checkValid(h.w, h.fit, h.rules, h.idx)
	if err != nil {
		return wrap(fmt.Errorf("it is not valid any more: %v", err))
	}
	if cmpKey(key, h.key) != 0 || len(key.rules) != len(h.key.rules) {
		return wrap(fmt.Errorf("its comparison key was {%v} and is {%v} now", h.key, key))
	}
	return nil
}

func recheckAll(hs []*held, after string) error {
	for _, h := range hs {
		if err := h.recheck(after); err != nil {
			return err
		}
	}
	return nil
}

// ---------------------------------------------------------------- rule manager path

var defaultLoc = []string{"zone", "rack", "host"}

// checkManager builds a real RuleManager holding the case's rules as key-ranged
// rules plus the default rule and fits regions with generated key ranges through
// RuleManager.FitRegion. Oracle: against the ordered rule list the manager applies
// to the region (GetRulesForApplyRegion; empty when the region crosses a range
// boundary => every peer an orphan) the fit satisfies the same validity predicates
// and optimality as any other fit, and it has the same comparison key as
// placement.FitRegion(stores, region, that list) computed by the harness.
func checkManager(c *Case, stores *storeSet, base *core.RegionInfo, idx map[uint64]int, holds *[]*held, info *vkit.Info) error {
	m := c.Mgr
	points := append(append([]string{""}, m.Bounds...), "")
	// rules the manager is documented to accept: valid content (guaranteed by the
	// generator), some store satisfies the label constraints (adjustRule), at most
	// one leader replica in any range (checkApplyRules; only the first leader rule is kept)
	data := map[string]Rule{"default": {Role: "voter", Count: m.DefCount, Loc: defaultLoc}}
	var set []*placement.Rule
	used := map[string]bool{}
	leaderSeen := false
	for i, r := range c.Rules {
		matches := false
		for si := range c.Stores {
			matches = matches || storeMatches(&c.Rules[i], &c.Stores[si])
		}
		if !matches || (r.Role == "leader" && leaderSeen) {
			continue
		}
		leaderSeen = leaderSeen || r.Role == "leader"
		lo, hi := points[m.Ranges[i][0]], ""
		if m.Ranges[i][1] < len(points)-1 {
			hi = points[m.Ranges[i][1]]
		}
		index := i + 1
		if m.DefLast {
			index = i - 10
		}
		id := fmt.Sprintf("r%d", i)
		pr := &placement.Rule{GroupID: "pd", ID: id, Index: index,
			StartKeyHex: hex.EncodeToString([]byte(lo)), EndKeyHex: hex.EncodeToString([]byte(hi)),
			Role: placement.PeerRoleType(r.Role), Count: r.Count, LocationLabels: append([]string(nil), r.Loc...)}
		for _, cs := range r.Cons {
			pr.LabelConstraints = append(pr.LabelConstraints, placement.LabelConstraint{
				Key: cs.Key, Op: placement.LabelConstraintOp(cs.Op), Values: append([]string(nil), cs.Values...)})
		}
		set = append(set, pr)
		data[id] = r
		used[lo], used[hi] = true, true
	}
	mgr := placement.NewRuleManager(core.NewStorage(kv.NewMemoryKV()), stores)
	if err := mgr.Initialize(m.DefCount, defaultLoc); err != nil {
		return fmt.Errorf("RuleManager.Initialize(%d, %v) failed: %v", m.DefCount, defaultLoc, err)
	}
	if len(set) > 0 {
		if err := mgr.SetRules(set); err != nil {
			// not this property's business (C13): the manager path is skipped and counted
			info.Class("manager-rejected-the-rules")
			return nil
		}
	}
	info.Class("manager-path")
	for ri, keys := range m.Regions {
		st, en := keys[0], keys[1]
		what := fmt.Sprintf("region [%q,%q) through the rule manager (range keys %v)", st, en, m.Bounds)
		region := base.Clone(core.WithStartKey([]byte(st)), core.WithEndKey([]byte(en)))
		// does the region cross a range boundary (a start or end key of some rule)?
		spanning := false
		for k := range used {
			if k != "" && st < k && (en == "" || k < en) {
				spanning = true
			}
		}
		applied := mgr.GetRulesForApplyRegion(region)
		if (len(applied) == 0) != spanning {
			return fmt.Errorf("%s: the manager applies %d rules, but the region %s a rule-range boundary", what, len(applied),
				map[bool]string{true: "crosses", false: "does not cross"}[spanning])
		}
		mc := *c
		mc.Rules = nil
		for _, pr := range applied {
			r, ok := data[pr.ID]
			if !ok || string(pr.Role) != r.Role || pr.Count != r.Count {
				return fmt.Errorf("%s: the manager applies rule %s/%s (%s x%d) which is not one of the rules it was given", what, pr.GroupID, pr.ID, pr.Role, pr.Count)
			}
			mc.Rules = append(mc.Rules, r)
		}
		wm := newWorld(&mc)
		mfit := mgr.FitRegion(stores, region)
		if mfit == nil {
			return fmt.Errorf("%s: RuleManager.FitRegion returned nil", what)
		}
		if len(mfit.RuleFits) != len(applied) {
			return fmt.Errorf("%s: the fit has %d rule fits, the manager applies %d rules", what, len(mfit.RuleFits), len(applied))
		}
		_, mkey, err := checkValid(wm, mfit, applied, idx)
		if err != nil {
			return fmt.Errorf("%s, %d rules applied: returned fit is not valid: %v", what, len(applied), err)
		}
		if bk, basg, total, _ := wm.best(); cmpKey(bk, mkey) != 0 {
			return fmt.Errorf("%s: returned fit {%v} is not the best of the %d valid assignments: %v = {%v} is better", what, mkey, total, basg, bk)
		}
		if err := recheckAll(*holds, "fitting "+what); err != nil {
			return err
		}
		*holds = append(*holds, hold("fit of "+what, mfit, wm, applied, idx, mkey))
		// the same rule list given to placement.FitRegion by the harness
		hfit := placement.FitRegion(stores, region, applied)
		_, hkey, err := checkValid(wm, hfit, applied, idx)
		if err != nil {
			return fmt.Errorf("%s: FitRegion with the %d rules the manager applies: returned fit is not valid: %v", what, len(applied), err)
		}
		if cmpKey(mkey, hkey) != 0 || len(mkey.rules) != len(hkey.rules) {
			return fmt.Errorf("%s: RuleManager.FitRegion gives {%v}, FitRegion with the rules the manager applies gives {%v}", what, mkey, hkey)
		}
		if got := placement.CompareRegionFit(mfit, hfit); got != 0 {
			return fmt.Errorf("%s: CompareRegionFit(RuleManager.FitRegion, FitRegion with the rules the manager applies) = %d although both have key {%v}", what, got, mkey)
		}
		if err := recheckAll(*holds, "fitting the same region with the applied rules directly"); err != nil {
			return err
		}
		switch {
		case spanning:
			info.Class("manager:region-spans-rule-ranges")
			info.ClassIf(len(c.Peers) > 0, "manager:spanning-region-all-peers-orphans")
		case st == "" && en == "":
			info.Class("manager:unbounded-region-one-range")
		default:
			info.Class("manager:region-inside-one-range")
		}
		info.ClassIf(len(applied) > 1, "manager:ranged-rules-applied")
		_ = ri
	}
	return nil
}

// ---------------------------------------------------------------- runner

func runCase(c Case) (vkit.Info, error) {
	var info vkit.Info
	if err := sane(&c); err != nil {
		return info, err
	}
	w := newWorld(&c)
	rules := buildRules(&c)

	// ---- base run
	ids := make([]uint64, len(c.Peers))
	for i, p := range c.Peers {
		ids[i] = p.ID
	}
	stores := buildStores(&c, seq(len(c.Stores)))
	bld := func(call int) Build {
		if call < len(c.Build) {
			return c.Build[call]
		}
		return Build{}
	}
	staleLeaderRecord := false
	region, idx, stale := buildRegion(&c, seq(len(c.Peers)), ids, bld(0))
	staleLeaderRecord = staleLeaderRecord || stale
	fit := placement.FitRegion(stores, region, rules)
	asg, key, err := checkValid(w, fit, rules, idx)
	if err != nil {
		return info, fmt.Errorf("returned fit is not valid: %v", err)
	}
	if err := checkGetRuleFit(fit, asg, ids); err != nil {
		return info, err
	}
	holds := []*held{hold("fit of the region", fit, w, rules, idx, key)}

	// ---- (b) optimality against the brute force
	bk, basg, total, ties := w.best()
	if cmpKey(bk, key) != 0 {
		return info, fmt.Errorf("returned assignment %v = {%v} is not the best of the %d valid assignments: assignment %v = {%v} is better "+
			"(entry i = rule index of peer i, -1 = orphan; order: per rule more peers, fewer role mismatches, higher isolation; then fewer orphans)",
			asg, key, total, basg, bk)
	}

	// ---- (d) CompareRegionFit against the independent comparator
	alt := make([]int, len(c.Peers))
	used := make([]int, len(c.Rules))
	for i := range alt {
		a := -1
		if i < len(c.Alt) {
			a = c.Alt[i]
		}
		if a >= len(c.Rules) || a < -1 {
			a = -1
		}
		if a >= 0 && (!w.elig[i][a] || used[a] >= c.Rules[a].Count) {
			a = -1
		}
		if a >= 0 {
			used[a]++
		}
		alt[i] = a
	}
	altKey := w.keyOf(alt)
	altFit := fitFromAssignment(w, alt, rules, region, idx)
	want := cmpKey(key, altKey)
	if got := placement.CompareRegionFit(fit, altFit); got != want {
		return info, fmt.Errorf("CompareRegionFit(returned fit {%v}, alternative %v {%v}) = %d, documented order gives %d", key, alt, altKey, got, want)
	}
	if got := placement.CompareRegionFit(altFit, fit); got != -want {
		return info, fmt.Errorf("CompareRegionFit(alternative %v {%v}, returned fit {%v}) = %d, documented order gives %d", alt, altKey, key, got, -want)
	}
	if want < 0 {
		return info, fmt.Errorf("alternative valid assignment %v {%v} is better than the returned one %v {%v}", alt, altKey, asg, key)
	}
	bestFit := fitFromAssignment(w, basg, rules, region, idx)
	if got := placement.CompareRegionFit(fit, bestFit); got != 0 {
		return info, fmt.Errorf("CompareRegionFit(returned fit, brute-force optimum %v) = %d although both have key {%v}", basg, got, key)
	}

	// ---- (d') CompareRegionFit across two regions under the same rules: the region
	// without its last peer is fitted (and checked) on its own; the two fits may
	// differ in any rule and in the number of orphans.
	if n := len(c.Peers); n > 0 {
		c3 := c
		c3.Peers = c.Peers[:n-1]
		if c3.Leader == n-1 {
			c3.Leader = -1
		}
		w3 := newWorld(&c3)
		region3, idx3, stale := buildRegion(&c3, seq(n-1), ids[:n-1], bld(1))
		staleLeaderRecord = staleLeaderRecord || stale
		fit3 := placement.FitRegion(stores, region3, rules)
		_, key3, err := checkValid(w3, fit3, rules, idx3)
		if err != nil {
			return info, fmt.Errorf("without the last peer the returned fit is not valid: %v", err)
		}
		if err := recheckAll(holds, "fitting the region without its last peer"); err != nil {
			return info, err
		}
		holds = append(holds, hold("fit of the region without its last peer", fit3, w3, rules, idx3, key3))
		if bk3, basg3, total3, _ := w3.best(); cmpKey(bk3, key3) != 0 {
			return info, fmt.Errorf("without the last peer the returned fit {%v} is not the best of the %d valid assignments: %v = {%v} is better", key3, total3, basg3, bk3)
		}
		want := cmpKey(key, key3)
		if got := placement.CompareRegionFit(fit, fit3); got != want {
			return info, fmt.Errorf("CompareRegionFit(fit of the region {%v}, fit of the region without its last peer {%v}) = %d, documented order gives %d", key, key3, got, want)
		}
		if got := placement.CompareRegionFit(fit3, fit); got != -want {
			return info, fmt.Errorf("CompareRegionFit(fit of the region without its last peer {%v}, fit of the region {%v}) = %d, documented order gives %d", key3, key, got, -want)
		}
		sameRules := true
		for r := range key.rules {
			if key.rules[r] != key3.rules[r] {
				sameRules = false
			}
		}
		info.ClassIf(sameRules && key.orphans != key3.orphans, "compare-decided-by-orphans")
	}

	// ---- (c) metamorphic: permuted stores, permuted peers, other peer ids
	if len(c.StorePerm) == len(c.Stores) && len(c.PeerPerm) == len(c.Peers) && len(c.PeerIDs) == len(c.Peers) {
		stores2 := buildStores(&c, c.StorePerm)
		region2, idx2, stale := buildRegion(&c, c.PeerPerm, c.PeerIDs, bld(2))
		staleLeaderRecord = staleLeaderRecord || stale
		rules2 := buildRules(&c)
		fit2 := placement.FitRegion(stores2, region2, rules2)
		_, key2, err := checkValid(w, fit2, rules2, idx2)
		if err != nil {
			return info, fmt.Errorf("with stores in order %v, peers in order %v and peer ids %v the returned fit is not valid: %v", c.StorePerm, c.PeerPerm, c.PeerIDs, err)
		}
		if err := recheckAll(holds, "fitting the permuted region"); err != nil {
			return info, err
		}
		holds = append(holds, hold("fit of the permuted region", fit2, w, rules2, idx2, key2))
		if cmpKey(key, key2) != 0 {
			return info, fmt.Errorf("permuting stores (%v) and peers (%v, ids %v) changed the result: {%v} became {%v}", c.StorePerm, c.PeerPerm, c.PeerIDs, key, key2)
		}
		if fit.IsSatisfied() != fit2.IsSatisfied() {
			return info, fmt.Errorf("permuting stores and peers changed IsSatisfied from %v to %v", fit.IsSatisfied(), fit2.IsSatisfied())
		}
		if got := placement.CompareRegionFit(fit, fit2); got != 0 {
			return info, fmt.Errorf("CompareRegionFit(fit, fit of the permuted input) = %d", got)
		}
	}

	// ---- (e) one more fit of the same peers (reverse order, fresh peer objects and
	// ids 31..): same key as the first fit, and every result held so far is unchanged.
	{
		n := len(c.Peers)
		rev := make([]int, n)
		for i := range rev {
			rev[i] = n - 1 - i
		}
		region4, idx4, stale := buildRegion(&c, rev, seqU(n, 31), bld(3))
		staleLeaderRecord = staleLeaderRecord || stale
		fit4 := placement.FitRegion(stores, region4, rules)
		_, key4, err := checkValid(w, fit4, rules, idx4)
		if err != nil {
			return info, fmt.Errorf("fitting the same peers again (reverse order, ids 31..) the returned fit is not valid: %v", err)
		}
		if cmpKey(key, key4) != 0 {
			return info, fmt.Errorf("fitting the same peers again (reverse order, ids 31..) changed the result: {%v} became {%v}", key, key4)
		}
		if err := recheckAll(holds, "fitting the same peers again"); err != nil {
			return info, err
		}
		held4 := hold("last fit", fit4, w, rules, idx4, key4)
		if err := held4.recheck("re-validating the other held results"); err != nil {
			return info, err
		}
		withOrphans := 0
		for _, h := range holds {
			if h.key.orphans > 0 {
				withOrphans++
			}
		}
		info.ClassIf(withOrphans >= 2, "held-results-with-orphans>=2")
	}

	// ---- (f) the path through the rule manager
	if c.Mgr != nil {
		if err := checkManager(&c, stores, region, idx, &holds, &info); err != nil {
			return info, err
		}
	}

	// ---- classification
	multi := false
	for p := range w.peers {
		n := 0
		for r := range w.rules {
			if w.elig[p][r] {
				n++
			}
		}
		if n > 1 {
			multi = true
		}
	}
	info.NonTrivial = len(c.Rules) >= 2 && multi
	choice := false
	for r := range w.rules {
		n := 0
		for p := range w.peers {
			if w.elig[p][r] {
				n++
			}
		}
		if n > w.rules[r].Count {
			choice = true
		}
	}
	info.ClassIf(choice, "more-candidates-than-count")
	info.Class(fmt.Sprintf("rules=%d", len(c.Rules)))
	info.Class(fmt.Sprintf("peers=%d", len(c.Peers)))
	info.ClassIf(info.NonTrivial, "competition")
	info.ClassIf(ties > 1, "tie-for-best")
	info.ClassIf(total >= 1000, "assignments>=1000")
	info.ClassIf(fit.IsSatisfied(), "satisfied")
	info.ClassIf(key.orphans > 0, "orphans")
	var anyMism, anyIso, anyUnfilled, anyLearnerRule, anyLeaderRule bool
	for r, rk := range key.rules {
		anyMism = anyMism || rk.mism > 0
		anyIso = anyIso || rk.iso > 0
		anyUnfilled = anyUnfilled || rk.n < c.Rules[r].Count
		anyLearnerRule = anyLearnerRule || (c.Rules[r].Role == "learner" && rk.n > 0)
		anyLeaderRule = anyLeaderRule || (c.Rules[r].Role == "leader" && rk.n > 0)
	}
	info.ClassIf(anyMism, "role-mismatch")
	info.ClassIf(anyIso, "isolation>0")
	info.ClassIf(anyUnfilled, "rule-unfilled")
	info.ClassIf(anyLearnerRule, "learner-rule-used")
	info.ClassIf(anyLeaderRule, "leader-rule-used")
	var learner, joint, unknown, excl, exclPlaced, mixed bool
	for i, p := range c.Peers {
		learner = learner || p.Role == 1
		joint = joint || p.Role >= 2
		if w.peers[i].store == nil {
			unknown = true
			continue
		}
		for _, l := range w.peers[i].store.Labels {
			if isExclusive(l.K) {
				excl = true
				exclPlaced = exclPlaced || asg[i] >= 0
			}
			if l.K != strings.ToLower(l.K) || l.V != strings.ToLower(l.V) {
				mixed = true
			}
		}
	}
	info.ClassIf(learner, "learner-peer")
	info.ClassIf(joint, "joint-role-peer")
	info.ClassIf(unknown, "peer-on-unknown-store")
	info.ClassIf(excl, "peer-on-exclusive-store")
	info.ClassIf(exclPlaced, "exclusive-store-peer-placed")
	info.ClassIf(mixed, "mixed-case-label")
	info.ClassIf(c.Leader < 0 && len(c.Peers) > 0, "leaderless")
	info.ClassIf(len(c.Build) > 0, "scheduler-built-region")
	// store state classes
	nonUpPeer, deadPeer, ruleOnlyNonUp := false, false, false
	for i := range c.Peers {
		if st := w.peers[i].store; st != nil {
			nonUpPeer = nonUpPeer || st.State != 0
			deadPeer = deadPeer || !st.Alive
		}
	}
	for r := range c.Rules {
		up, placedOnNonUp := false, false
		for si := range c.Stores {
			if storeMatches(&c.Rules[r], &c.Stores[si]) && c.Stores[si].State == 0 {
				up = true
			}
		}
		for i, a := range asg {
			if a == r && w.peers[i].store.State != 0 {
				placedOnNonUp = true
			}
		}
		ruleOnlyNonUp = ruleOnlyNonUp || (!up && placedOnNonUp)
	}
	info.ClassIf(nonUpPeer, "peer-on-non-up-store")
	info.ClassIf(deadPeer, "peer-on-never-heartbeating-store")
	info.ClassIf(ruleOnlyNonUp, "rule-filled-from-non-up-stores-only")
	info.ClassIf(staleLeaderRecord, "leader-record-names-old-store")
	strictLeaderRule := false
	for _, r := range c.Rules {
		strictLeaderRule = strictLeaderRule || r.Role == "leader" || r.Role == "follower"
	}
	info.ClassIf(staleLeaderRecord && strictLeaderRule, "leader-record-names-old-store+leader/follower-rule")
	return info, nil
}

// sane rejects replay files that are not in the input domain (generated cases always are).
func sane(c *Case) error {
	if len(c.Rules) == 0 {
		return fmt.Errorf("bad case: no rules")
	}
	if m := c.Mgr; m != nil {
		if len(m.Ranges) != len(c.Rules) || m.DefCount < 1 || !sort.StringsAreSorted(m.Bounds) {
			return fmt.Errorf("bad case: manager spec")
		}
		for i, b := range m.Bounds {
			if b == "" || (i > 0 && b == m.Bounds[i-1]) {
				return fmt.Errorf("bad case: manager range keys %v", m.Bounds)
			}
		}
		for _, r := range m.Ranges {
			if r[0] < 0 || r[1] <= r[0] || r[1] > len(m.Bounds)+1 {
				return fmt.Errorf("bad case: manager rule range %v", r)
			}
		}
		for _, r := range m.Regions {
			if r[1] != "" && r[1] <= r[0] {
				return fmt.Errorf("bad case: manager region keys %v", r)
			}
		}
	}
	seenP, seenS, seenStore := map[uint64]bool{}, map[uint64]bool{}, map[uint64]bool{}
	for _, s := range c.Stores {
		if seenStore[s.ID] {
			return fmt.Errorf("bad case: duplicate store id %d", s.ID)
		}
		seenStore[s.ID] = true
	}
	for _, p := range c.Peers {
		if seenP[p.ID] || seenS[p.Store] {
			return fmt.Errorf("bad case: duplicate peer id or two peers on one store")
		}
		if p.Role < 0 || p.Role > 3 {
			return fmt.Errorf("bad case: peer role %d", p.Role)
		}
		seenP[p.ID], seenS[p.Store] = true, true
	}
	if c.Leader >= len(c.Peers) || (c.Leader >= 0 && c.Peers[c.Leader].Role == 1) {
		return fmt.Errorf("bad case: leader index %d", c.Leader)
	}
	for _, r := range c.Rules {
		if r.Count <= 0 || (r.Role == "leader" && r.Count > 1) {
			return fmt.Errorf("bad case: rule count %d for role %s", r.Count, r.Role)
		}
	}
	return nil
}

// ---------------------------------------------------------------- formatting

func where2s(a int) string {
	if a < 0 {
		return "the orphan list"
	}
	return fmt.Sprintf("rule %d", a)
}

func fmtStore(s *Store) string {
	if s == nil {
		return "unknown"
	}
	return fmt.Sprintf("%d%v", s.ID, s.Labels)
}

func sameIDSet(a, b map[uint64]bool) bool {
	if len(a) != len(b) {
		return false
	}
	for k := range a {
		if !b[k] {
			return false
		}
	}
	return true
}

func idList(m map[uint64]bool) []uint64 {
	out := make([]uint64, 0, len(m))
	for k := range m {
		out = append(out, k)
	}
	sort.Slice(out, func(i, j int) bool { return out[i] < out[j] })
	return out
}

func peerIDs(ps []*metapb.Peer) []uint64 {
	var out []uint64
	for _, p := range ps {
		out = append(out, p.GetId())
	}
	return out
}

func counts(rs []Rule) []int {
	var out []int
	for _, r := range rs {
		out = append(out, r.Count)
	}
	return out
}
