// C14 — store life-cycle is a one-way state machine and stays durable.
//
// Property "lifecycle": stateful property-based test. A generated history of store
// registrations, removals, ups, background store checks, weight / label updates,
// tombstone clean-ups, region placements and injected storage write failures is run
// against a real cluster.RaftCluster (memory kv behind faultkv) and against a small
// reference model of (state, destroyed, address, labels, weights) per store. After
// every step the served stores are compared with (a) the invariants of the property
// statement, (b) the records loaded back from storage, (c) the model.
//
// Property "race" (race_test.go): the background store check against a concurrent
// UpStore of a burial candidate, with an order-independent oracle.
//
// Property "grpc" (grpc_test.go): a real 1-member server; PutStore / StoreHeartbeat
// of a tombstone store must be answered with STORE_TOMBSTONE and change nothing.
package c14

import (
	"context"
	"fmt"
	"runtime/debug"
	"sort"
	"strings"
	"testing"

	"github.com/coreos/go-semver/semver"
	"github.com/gogo/protobuf/proto"
	"github.com/pingcap/kvproto/pkg/metapb"
	"github.com/pingcap/kvproto/pkg/pdpb"
	"github.com/tikv/pd/pkg/mock/mockid"
	"github.com/tikv/pd/server/cluster"
	"github.com/tikv/pd/server/config"
	"github.com/tikv/pd/server/core"
	"github.com/tikv/pd/server/kv"
	"pdverif/vkit"
	"pdverif/vkit/faultkv"
	"pgregory.net/rapid"
)

func TestMain(m *testing.M)   { vkit.Main(m, "C14") }
func TestProp(t *testing.T)   { t.Cleanup(stopServer); vkit.RunAll(t) }
func TestReplay(t *testing.T) { t.Cleanup(stopServer); vkit.RunReplay(t) }

// KeyMergeLabels names the known finding "a rejected / failed label merge is visible
// in the served store" (see TestFinding_failed_label_merge_visible).
const KeyMergeLabels = "C14/failed-label-merge-visible"

// KeyHeartbeatPanic names the known finding "store heartbeat panics after the record of
// a tombstone store was removed" (see TestFinding_heartbeat_panics_after_tombstone_removed).
const KeyHeartbeatPanic = "C14/heartbeat-panics-after-tombstone-removed"

// KeyWeightKeys names the finding "a failed SetStoreWeight leaves the weight keys it already
// wrote in storage" (see TestFinding_failed_setstoreweight_leaves_weight_keys).
const KeyWeightKeys = "C14/failed-setstoreweight-leaves-weight-keys"

// KeyStaleDeleted names the finding "a store whose record was removed while another member
// led is served again when this member becomes leader again" (see
// TestFinding_removed_store_served_again_after_leader_round_trip).
const KeyStaleDeleted = "C14/removed-store-served-again-after-leader-round-trip"

func init() {
	quiet()
	vkit.Register("lifecycle", vkit.N{Quick: 2400, Thorough: 40000}, genCase, runCase)
	vkit.Register("race", vkit.N{Quick: 640, Thorough: 12000}, genRace, runRace)
	vkit.Register("grpc", vkit.N{Quick: 80, Thorough: 2400}, genGrpc, runGrpc)
}

func quiet() {
	vkit.SilenceLog()
}

// ---------------------------------------------------------------- case data

type Label struct {
	K string `json:"k"`
	V string `json:"v"`
}

// Op is one step of a history. Stores are addressed by (Want, Pick): Pick indexes
// the id-sorted list of served stores that are in the wanted state (all stores when
// there is none in that state); Want "gone" addresses an id that is not registered.
type Op struct {
	Kind      string  `json:"k"`
	Want      string  `json:"want,omitempty"` // "", up, off, tomb, live, gone
	Pick      int     `json:"pick,omitempty"`
	Pick2     int     `json:"pick2,omitempty"`
	Addr      string  `json:"addr,omitempty"` // putSame: keep | new | dup
	Ver       int     `json:"ver,omitempty"`  // index into versions
	Labels    []Label `json:"labels,omitempty"`
	Force     bool    `json:"force,omitempty"`
	Destroyed bool    `json:"destroyed,omitempty"`
	LW        int     `json:"lw,omitempty"` // index into weights
	RW        int     `json:"rw,omitempty"`
	Bad       string  `json:"bad,omitempty"`    // putBad: id0 | badver | incompat
	Stores    []int   `json:"stores,omitempty"` // place: picks of the peers' stores
	Roles     []int   `json:"roles,omitempty"`  // place: role of each peer (metapb.PeerRole: 0 voter, 1 learner, 2 incoming voter, 3 demoting voter)
	Role      int     `json:"role,omitempty"`   // role: the new role of the picked peer
	N         int     `json:"n,omitempty"`      // fail: which write of the next storage-writing op fails
}

type Case struct {
	Strict     bool `json:"strict,omitempty"` // strictly-match-label with location labels zone,host
	ClusterVer int  `json:"cv"`               // index into clusterVersions
	Init       int  `json:"init"`             // stores registered before the history starts
	Ops        []Op `json:"ops"`
}

var (
	clusterVersions = []string{"2.0.0", "4.0.0"}
	// what a store may report; "" is documented as "old store without version" = 1.0.0
	versions    = []string{"2.0.0", "4.0.0", "v4.0.5", "5.0.0", "5.0.0-rc.1", "2.1.0", "3.0.0", "v4.0.0-beta", "", "1.0.0"}
	badVersions = []string{"abc", "4.x.1", "v", "5.0"}
	weights     = []float64{1, 0, 0.5, 2, 10, 0.001, 123.456}
	labelKeys   = []string{"zone", "host", "rack"}
	labelVals   = map[string][]string{"zone": {"z1", "z2", "z3"}, "host": {"h1", "h2"}, "rack": {"r1", "r2"}}
)

func genLabels(t *rapid.T, strict, allowEmpty bool) []Label {
	var out []Label
	mode := rapid.IntRange(0, 9).Draw(t, "labelMode")
	switch {
	case mode <= 4 || (strict && mode <= 7):
		// the two location labels
		out = append(out, Label{"zone", rapid.SampledFrom(labelVals["zone"]).Draw(t, "zone")})
		out = append(out, Label{"host", rapid.SampledFrom(labelVals["host"]).Draw(t, "host")})
	case mode == 5:
		// none
	default:
		for _, k := range labelKeys {
			if rapid.IntRange(0, 1).Draw(t, "has_"+k) == 0 {
				continue
			}
			v := rapid.SampledFrom(labelVals[k]).Draw(t, "val_"+k)
			if allowEmpty && rapid.IntRange(0, 3).Draw(t, "empty_"+k) == 0 {
				v = "" // documented: an empty value marks the label as deleted
			}
			out = append(out, Label{k, v})
		}
	}
	return out
}

var kinds = []string{
	"putNew", "putNew", "putNew", "putNew",
	"putSame", "putSame", "putSame", "putSame",
	"putDup", "putDup",
	"putBad", "putBad",
	"remove", "remove", "remove", "remove", "remove", "remove",
	"up", "up", "up", "up",
	"check", "check", "check", "check", "check", "check",
	"weight", "weight", "weight",
	"labels", "labels", "labels",
	"rmTomb", "rmTomb",
	"place", "place", "place",
	"drop", "drop", "drop",
	"role", "role", "role", "role",
	"hb", "hb",
	"restart", "restart",
	"handover", "handover", "handover", "handover",
	"fail", "fail", "fail",
}

func genWant(t *rapid.T, choices ...string) string {
	return rapid.SampledFrom(choices).Draw(t, "want")
}

func genCase(t *rapid.T) Case {
	var c Case
	c.Strict = rapid.IntRange(0, 3).Draw(t, "strict") == 0
	c.ClusterVer = rapid.IntRange(0, len(clusterVersions)-1).Draw(t, "cv")
	c.Init = rapid.IntRange(1, 4).Draw(t, "init")
	n := rapid.IntRange(10, 50).Draw(t, "nOps")
	for i := 0; i < n; i++ {
		op := Op{Kind: kinds[vkit.Uni(t, len(kinds), "kind")]}
		op.Pick = rapid.IntRange(0, 15).Draw(t, "pick")
		switch op.Kind {
		case "putNew":
			op.Ver = genVer(t, c.ClusterVer)
			op.Labels = genLabels(t, c.Strict, false)
		case "putSame":
			op.Want = genWant(t, "live", "live", "up", "off")
			op.Addr = rapid.SampledFrom([]string{"keep", "keep", "new", "dup"}).Draw(t, "addr")
			op.Pick2 = rapid.IntRange(0, 15).Draw(t, "pick2")
			op.Ver = genVer(t, c.ClusterVer)
			op.Labels = genLabels(t, c.Strict, true)
		case "putDup":
			// a new store that claims the address of an existing one
			op.Want = genWant(t, "", "up", "off", "tomb", "tomb")
			op.Ver = genVer(t, c.ClusterVer)
			op.Labels = genLabels(t, c.Strict, false)
		case "putBad":
			op.Bad = rapid.SampledFrom([]string{"id0", "badver", "incompat"}).Draw(t, "bad")
			op.Ver = rapid.IntRange(0, 3).Draw(t, "badIdx")
			op.Labels = genLabels(t, c.Strict, false)
		case "remove":
			op.Want = genWant(t, "up", "up", "up", "off", "tomb", "", "gone")
			op.Destroyed = rapid.IntRange(0, 2).Draw(t, "destroyed") == 0
		case "up":
			op.Want = genWant(t, "off", "off", "off", "tomb", "tomb", "up", "", "gone")
		case "weight":
			op.Want = genWant(t, "", "", "up", "off", "tomb", "gone")
			op.LW = rapid.IntRange(0, len(weights)-1).Draw(t, "lw")
			op.RW = rapid.IntRange(0, len(weights)-1).Draw(t, "rw")
		case "labels":
			op.Want = genWant(t, "", "", "up", "off", "tomb", "gone")
			op.Force = rapid.Bool().Draw(t, "force")
			// with force the labels replace the old ones verbatim; "empty value = delete" is only
			// documented for the merge, so forced updates carry non-empty values only
			op.Labels = genLabels(t, c.Strict, !op.Force)
		case "place":
			op.Want = genWant(t, "live", "off", "off", "off", "tomb")
			k := rapid.IntRange(1, 4).Draw(t, "npeers")
			if k == 4 {
				k = 2
			}
			for j := 0; j < k; j++ {
				op.Stores = append(op.Stores, rapid.IntRange(0, 15).Draw(t, "peerStore"))
				roles := []int{0, 0, 0, 0, 0, 0, 0, 1, 2, 3}
				if j == 0 {
					// the addressed (often offline) store frequently holds a learner only (TiFlash-like)
					roles = []int{0, 0, 0, 0, 1, 1, 1, 1, 2, 3}
				}
				op.Roles = append(op.Roles, rapid.SampledFrom(roles).Draw(t, "peerRole"))
			}
			if op.Roles[0] == 1 && k == 1 {
				// a learner needs a voter elsewhere
				op.Stores = append(op.Stores, rapid.IntRange(0, 15).Draw(t, "peerStore"))
				op.Roles = append(op.Roles, 0)
			}
		case "drop":
			op.Want = genWant(t, "off", "off", "")
		case "role":
			// promote / demote step on a peer, preferably the one on an offline store
			op.Want = genWant(t, "off", "off", "off", "")
			op.Pick2 = rapid.IntRange(0, 15).Draw(t, "pick2")
			op.Role = rapid.SampledFrom([]int{1, 1, 1, 1, 0, 0, 2, 3}).Draw(t, "newRole")
		case "hb":
			op.Want = genWant(t, "live", "off")
		case "fail":
			op.N = rapid.SampledFrom([]int{1, 1, 1, 1, 1, 1, 2, 2, 3, 3, 4}).Draw(t, "n")
		case "restart", "handover":
			// every other reload meets a failing storage read
			if rapid.Bool().Draw(t, "readFault") {
				op.N = rapid.IntRange(1, 60).Draw(t, "readN")
			}
		}
		c.Ops = append(c.Ops, op)
		// the background store check often is the first thing that runs after a restart
		if (op.Kind == "restart" || op.Kind == "handover") && rapid.IntRange(0, 2).Draw(t, "checkAfterRestart") > 0 {
			c.Ops = append(c.Ops, Op{Kind: "check", Pick: rapid.IntRange(0, 15).Draw(t, "pick")})
		}
	}
	return c
}

func genVer(t *rapid.T, cv int) int {
	switch m := rapid.IntRange(0, 9).Draw(t, "verMode"); {
	case m < 5:
		return cv // versions[0..1] == clusterVersions[0..1]
	case m < 8:
		return rapid.IntRange(1, 4).Draw(t, "verNew") // 4.0.0 and later: always acceptable
	}
	return rapid.IntRange(0, len(versions)-1).Draw(t, "ver")
}

// ---------------------------------------------------------------- model

const (
	stUp = iota
	stOffline
	stTombstone
)

var stName = []string{"Up", "Offline", "Tombstone"}

type mstore struct {
	id        uint64
	state     int
	destroyed bool
	addr      string
	status    string
	peer      string
	version   string
	git       string
	startTS   int64
	deploy    string
	labels    []Label
	lw, rw    float64
	// weights as the weight keys in storage must have them (== served weights: a failed
	// SetStoreWeight must not leave half of itself in storage, where the next successful change of
	// the store or a reload would expose it)
	slw, srw float64
}

func (s *mstore) clone() *mstore {
	c := *s
	c.labels = append([]Label(nil), s.labels...)
	return &c
}

func (s *mstore) live() bool { return s.state != stTombstone && !s.destroyed }

type mregion struct {
	id      uint64
	stores  []uint64 // one peer per entry
	roles   []int    // metapb.PeerRole of each peer
	leader  int      // index of the leader peer (never a learner)
	confVer uint64
}

// meta builds the region as its leader reports it.
func (r *mregion) meta() *metapb.Region {
	meta := &metapb.Region{Id: r.id, StartKey: []byte(fmt.Sprintf("k%08d", r.id)), EndKey: []byte(fmt.Sprintf("k%08d", r.id+1)),
		RegionEpoch: &metapb.RegionEpoch{Version: 1, ConfVer: r.confVer}}
	for j, s := range r.stores {
		role := 0
		if j < len(r.roles) {
			role = r.roles[j]
		}
		meta.Peers = append(meta.Peers, &metapb.Peer{Id: r.id*10 + uint64(j) + 100000, StoreId: s, Role: metapb.PeerRole(role)})
	}
	return meta
}

func (r *mregion) info() *core.RegionInfo {
	meta := r.meta()
	return core.NewRegionInfo(meta, meta.Peers[r.leader], core.SetApproximateSize(10))
}

// learnerOnly: the store holds peers and every one of them is a learner.
func (m *model) learnerOnly(id uint64) bool {
	n := 0
	for _, r := range m.regions {
		for j, s := range r.stores {
			if s != id {
				continue
			}
			n++
			if j >= len(r.roles) || r.roles[j] != 1 {
				return false
			}
		}
	}
	return n > 0
}

// cachePeers counts the peers on a store in the region cache by walking the regions
// (independent of the per-store counters and sub-trees the code under test maintains).
func cachePeers(bc *core.BasicCluster, id uint64) int {
	n := 0
	for _, r := range bc.GetRegions() {
		for _, p := range r.GetPeers() {
			if p.GetStoreId() == id {
				n++
			}
		}
	}
	return n
}

type model struct {
	stores  map[uint64]*mstore
	regions []*mregion
	nextID  uint64
	nextReg uint64
	gone    []uint64 // ids whose record was removed by RemoveTombStoneRecords (never reused)
	addrSeq int
	// trigger tracking of KeyHeartbeatPanic: tombstone stores that were written again after
	// their burial (weight / label update) with no store heartbeat since; orphan: the record
	// of such a store has been removed
	residue map[uint64]bool
	orphan  bool
	// the per-store region counter cached in StoreInfo as the code maintains it: refreshed for
	// the stores of a region whenever that region changes in the cache and for every store at
	// the end of a reload, i.e. always the number of cached regions with a peer on the store
	// (RemoveTombStoneRecords documents that it skips tombstones by this counter)
	cached map[uint64]int
}

func (m *model) ids() []uint64 {
	out := make([]uint64, 0, len(m.stores))
	for id := range m.stores {
		out = append(out, id)
	}
	sort.Slice(out, func(i, j int) bool { return out[i] < out[j] })
	return out
}

func matches(s *mstore, want string) bool {
	switch want {
	case "up":
		return s.state == stUp
	case "off":
		return s.state == stOffline
	case "tomb":
		return s.state == stTombstone
	case "live":
		return s.state != stTombstone
	}
	return true
}

// pick resolves (want, pick). strictWant: do not fall back to "any store".
func (m *model) pick(want string, pick int, strictWant bool) (uint64, bool) {
	if want == "gone" {
		if len(m.gone) > 0 && pick%2 == 0 {
			return m.gone[pick%len(m.gone)], true
		}
		return 9000 + uint64(pick%3), true
	}
	var cand []uint64
	for _, id := range m.ids() {
		if matches(m.stores[id], want) {
			cand = append(cand, id)
		}
	}
	if len(cand) == 0 && !strictWant {
		cand = m.ids()
	}
	if len(cand) == 0 {
		return 0, false
	}
	return cand[pick%len(cand)], true
}

func (m *model) regionCount(id uint64) int {
	n := 0
	for _, r := range m.regions {
		for _, s := range r.stores {
			if s == id {
				n++
			}
		}
	}
	return n
}

// mergeLabels: documented semantics of a non-forced label update — given labels
// override labels with the same key, new keys are added, an empty value deletes.
func mergeLabels(old, given []Label) []Label {
	out := append([]Label(nil), old...)
	for _, g := range given {
		found := false
		for i := range out {
			if strings.EqualFold(out[i].K, g.K) {
				out[i].V = g.V
				found = true
				break
			}
		}
		if !found {
			out = append(out, g)
		}
	}
	res := out[:0]
	for _, l := range out {
		if l.V != "" {
			res = append(res, l)
		}
	}
	return res
}

func parseVer(v string) (*semver.Version, bool) {
	if v == "" {
		return semver.New("1.0.0"), true
	}
	if v[0] == 'v' {
		v = v[1:]
	}
	sv, err := semver.NewVersion(v)
	if err != nil {
		return nil, false
	}
	return sv, true
}

// compatible: a store may join when it is not older than the cluster version, or
// when it shares major.minor with it.
func compatible(clusterV, storeV semver.Version) bool {
	return clusterV.LessThan(storeV) || (clusterV.Major == storeV.Major && clusterV.Minor == storeV.Minor)
}

func labelsOK(labels []Label) string {
	loc := map[string]bool{"zone": false, "host": false}
	for _, l := range labels {
		if _, ok := loc[l.K]; !ok {
			return "labels: label key " + l.K + " is not a location label"
		}
		if l.V != "" {
			loc[l.K] = true
		}
	}
	for _, k := range []string{"zone", "host"} {
		if !loc[k] {
			return "labels: location label " + k + " missing"
		}
	}
	return ""
}

// expectPut says whether a registration must be refused, and what the record must
// be when it is accepted.
func (m *model) expectPut(req *mstore, force bool, cv semver.Version, strict bool) (string, *mstore) {
	if req.id == 0 {
		return "id-0: store id 0", nil
	}
	sv, ok := parseVer(req.version)
	if !ok {
		return "bad-version: unparsable version " + req.version, nil
	}
	if !compatible(cv, *sv) {
		return fmt.Sprintf("incompatible-version: version %s incompatible with cluster version %s", sv, cv.String()), nil
	}
	for _, id := range m.ids() {
		o := m.stores[id]
		if o.live() && o.id != req.id && o.addr == req.addr {
			return fmt.Sprintf("duplicate-address: address %s already used by live store %d", req.addr, o.id), nil
		}
	}
	var rec *mstore
	if old := m.stores[req.id]; old != nil {
		rec = old.clone()
		rec.addr, rec.status, rec.peer = req.addr, req.status, req.peer
		rec.version, rec.git = req.version, req.git
		rec.startTS, rec.deploy = req.startTS, req.deploy
		if force {
			rec.labels = append([]Label(nil), req.labels...)
		} else {
			rec.labels = mergeLabels(old.labels, req.labels)
		}
	} else {
		rec = req.clone()
		rec.state, rec.destroyed, rec.lw, rec.rw, rec.slw, rec.srw = stUp, false, 1, 1, 1, 1
	}
	if strict {
		if why := labelsOK(rec.labels); why != "" {
			return why, nil
		}
	}
	return "", rec
}

// ---------------------------------------------------------------- observation

type rec struct {
	meta   *metapb.Store
	lw, rw float64
}

func canonLabels(ls []*metapb.StoreLabel) string {
	var parts []string
	for _, l := range ls {
		parts = append(parts, l.GetKey()+"="+l.GetValue())
	}
	sort.Strings(parts)
	return strings.Join(parts, ",")
}

func canonMeta(s *metapb.Store) string {
	return fmt.Sprintf("id=%d state=%s destroyed=%v addr=%q status=%q peer=%q ver=%q git=%q start=%d deploy=%q labels=[%s]",
		s.GetId(), s.GetState(), s.GetPhysicallyDestroyed(), s.GetAddress(), s.GetStatusAddress(), s.GetPeerAddress(),
		s.GetVersion(), s.GetGitHash(), s.GetStartTimestamp(), s.GetDeployPath(), canonLabels(s.GetLabels()))
}

func (r rec) String() string { return fmt.Sprintf("%s lw=%v rw=%v", canonMeta(r.meta), r.lw, r.rw) }

func (s *mstore) String() string {
	var ls []*metapb.StoreLabel
	for _, l := range s.labels {
		ls = append(ls, &metapb.StoreLabel{Key: l.K, Value: l.V})
	}
	return rec{meta: &metapb.Store{Id: s.id, State: metapb.StoreState(s.state), PhysicallyDestroyed: s.destroyed,
		Address: s.addr, StatusAddress: s.status, PeerAddress: s.peer, Version: s.version, GitHash: s.git,
		StartTimestamp: s.startTS, DeployPath: s.deploy, Labels: ls}, lw: s.lw, rw: s.rw}.String()
}

// snapshot deep-copies what the cluster serves.
func snapshot(rc *cluster.RaftCluster) map[uint64]rec {
	out := map[uint64]rec{}
	for _, s := range rc.GetStores() {
		out[s.GetID()] = rec{meta: proto.Clone(s.GetMeta()).(*metapb.Store), lw: s.GetLeaderWeight(), rw: s.GetRegionWeight()}
	}
	return out
}

func sortedIDs(m map[uint64]rec) []uint64 {
	out := make([]uint64, 0, len(m))
	for id := range m {
		out = append(out, id)
	}
	sort.Slice(out, func(i, j int) bool { return out[i] < out[j] })
	return out
}

// ---------------------------------------------------------------- fixture

type fault struct {
	mode     string // nth | key | storeRemoves | firstConfig | park (race property: block, do not fail)
	parked   chan struct{}
	release  chan struct{}
	n        int
	key      string
	count    int
	fired    bool
	firedKey string
}

func keyClass(key string) string {
	switch {
	case strings.HasPrefix(key, "raft/s/"):
		return "store"
	case strings.HasPrefix(key, "schedule/store_weight/"):
		return "weight"
	case key == "config":
		return "config"
	case strings.HasPrefix(key, "raft/r/"):
		return "region"
	case key == "raft":
		return "meta"
	}
	return "other"
}

func storeKey(id uint64) string { return fmt.Sprintf("raft/s/%020d", id) }

type fixture struct {
	cancel  context.CancelFunc
	rc      *cluster.RaftCluster
	opt     *config.PersistOptions
	fkv     *faultkv.KV
	oracle  *core.Storage      // reads the backend directly
	bc      *core.BasicCluster // the cache of the serving member (== members[cur])
	pending *fault
	// two PD members of one process lifetime each: a member's BasicCluster is created once per
	// process (Server.basicCluster) and handed to InitCluster on every leadership term, so it
	// still holds whatever the member cached during its last term. Regions reach the idle
	// member through the region syncer (mirrored by the harness), stores do not.
	members [2]*core.BasicCluster
	cur     int
	// storage READ fault during the next reload: readN > 0 = the (1 + (readN-1) mod R)-th
	// Load / LoadRange of the reload fails once, R = reads of a fault-free reload of this state
	readN          int
	reads          *readFault
	reloadFailed   bool   // the faulted reload failed as a whole and was retried without fault
	reloadFaultKey string // the key whose read failed
}

type readFault struct {
	n, count int
	firedKey string
}

func newFixture(c Case) (*fixture, error) {
	cfg := config.NewConfig()
	if err := cfg.Adjust(nil, false); err != nil {
		return nil, err
	}
	if c.Strict {
		cfg.Replication.LocationLabels = []string{"zone", "host"}
		cfg.Replication.StrictlyMatchLabel = true
	}
	opt := config.NewPersistOptions(cfg)
	opt.SetClusterVersion(semver.New(clusterVersions[c.ClusterVer]))
	mem := kv.NewMemoryKV()
	f := &fixture{opt: opt, fkv: faultkv.New(mem), oracle: core.NewStorage(mem)}
	f.members = [2]*core.BasicCluster{core.NewBasicCluster(), core.NewBasicCluster()}
	f.bc = f.members[0]
	ctx, cancel := context.WithCancel(context.Background())
	f.cancel = cancel
	f.rc = cluster.NewRaftCluster(ctx, "/pd/c14", 1, nil, nil, nil)
	f.rc.InitCluster(mockid.NewIDAllocator(), opt, core.NewStorage(f.fkv), f.bc)
	// what bootstrap leaves in storage; LoadClusterInfo refuses to load without it
	if err := f.oracle.SaveMeta(&metapb.Cluster{Id: 1, MaxPeerCount: 3}); err != nil {
		cancel()
		return nil, err
	}
	f.fkv.SetGate(func(kind, key string) error {
		if kind != "save" && kind != "remove" {
			if r := f.reads; r != nil {
				r.count++
				if r.n > 0 && r.count == r.n {
					r.firedKey = key
					return faultkv.ErrInjected
				}
			}
			return nil
		}
		p := f.pending
		if p == nil || p.fired && p.mode != "storeRemoves" {
			return nil
		}
		p.count++
		hit := false
		switch p.mode {
		case "park":
			if kind == "save" && keyClass(key) == "store" {
				p.fired, p.firedKey = true, key
				close(p.parked)
				<-p.release
			}
			return nil
		case "nth":
			hit = p.count == p.n
		case "key":
			hit = key == p.key
		case "storeRemoves":
			hit = kind == "remove" && keyClass(key) == "store"
		case "firstConfig":
			hit = key == "config"
		}
		if hit {
			p.fired, p.firedKey = true, key
			return faultkv.ErrInjected
		}
		return nil
	})
	return f, nil
}

func newRegion(meta *metapb.Region) *core.RegionInfo {
	return core.NewRegionInfo(meta, meta.Peers[0], core.SetApproximateSize(10))
}

// restart models a PD restart / leader change: a new RaftCluster with a new cache over the
// same storage, filled by LoadClusterInfo (stores via LoadStores, regions via LoadRegions).
// The options object is kept (a member keeps its options and reloads them from the same storage).
func (f *fixture) restart() error {
	// a process restart of the serving member: its cache starts empty; it catches up with the
	// regions from storage (LoadClusterInfo) like a restarted PD
	f.members[f.cur] = core.NewBasicCluster()
	return f.start()
}

// handover models a leadership change to the other member of the same deployment: the
// serving cluster stops and a new RaftCluster starts on the OTHER member's BasicCluster as it
// is, by InitCluster + LoadClusterInfo — what RaftCluster.Start does with Server.basicCluster.
func (f *fixture) handover() error {
	f.cur = 1 - f.cur
	return f.start()
}

// load is what RaftCluster.Start does to serve: InitCluster on the member's cache + LoadClusterInfo.
func (f *fixture) load(bc *core.BasicCluster) (*cluster.RaftCluster, context.CancelFunc, error) {
	ctx, cancel := context.WithCancel(context.Background())
	rc := cluster.NewRaftCluster(ctx, "/pd/c14", 1, nil, nil, nil)
	rc.InitCluster(mockid.NewIDAllocator(), f.opt, core.NewStorage(f.fkv), bc)
	got, err := rc.LoadClusterInfo()
	if err == nil && got == nil {
		err = fmt.Errorf("LoadClusterInfo found no cluster meta")
	}
	if err != nil {
		cancel()
		return nil, nil, err
	}
	return rc, cancel, nil
}

func (f *fixture) start() error {
	f.cancel()
	f.cancel = func() {}
	f.bc = f.members[f.cur]
	f.reloadFailed, f.reloadFaultKey = false, ""
	if n := f.readN; n > 0 {
		f.readN = 0
		// how many reads a fault-free reload of this state issues (on a scratch cache)
		f.reads = &readFault{}
		_, c0, err := f.load(core.NewBasicCluster())
		total := f.reads.count
		f.reads = nil
		if err != nil {
			return fmt.Errorf("a reload without any fault failed: %v", err)
		}
		c0()
		f.reads = &readFault{n: 1 + (n-1)%total}
		rc, cancel, err := f.load(f.bc)
		f.reloadFaultKey = f.reads.firedKey
		f.reads = nil
		if err == nil {
			// served despite the failed read: the caller's comparison decides whether that is right
			f.rc, f.cancel = rc, cancel
			return nil
		}
		// failed as a whole: nothing is served by that object; the caller retries
		f.reloadFailed = true
	}
	rc, cancel, err := f.load(f.bc)
	if err != nil {
		return fmt.Errorf("a reload without any fault failed: %v", err)
	}
	f.rc, f.cancel = rc, cancel
	return nil
}

// syncRegion: the region syncer forwards every changed region to the other member's cache.
func (f *fixture) syncRegion(r *core.RegionInfo) {
	f.members[1-f.cur].CheckAndPutRegion(r)
}

// syncStatus does what processRegionHeartbeat does after it changed the region cache.
func (f *fixture) syncStatus(ids ...uint64) {
	for _, id := range ids {
		f.bc.UpdateStoreStatus(id, f.bc.GetStoreLeaderCount(id), f.bc.GetStoreRegionCount(id),
			f.bc.GetStorePendingPeerCount(id), f.bc.GetStoreLeaderRegionSize(id), f.bc.GetStoreRegionSize(id))
	}
}

// loadStored reads every store back the way a restarting PD does.
func (f *fixture) loadStored() (map[uint64]rec, error) {
	fresh := core.NewBasicCluster()
	if err := f.oracle.LoadStores(fresh.PutStore); err != nil {
		return nil, err
	}
	out := map[uint64]rec{}
	for _, s := range fresh.GetStores() {
		out[s.GetID()] = rec{meta: s.GetMeta(), lw: s.GetLeaderWeight(), rw: s.GetRegionWeight()}
	}
	return out, nil
}

// ---------------------------------------------------------------- runner

func mkReq(id uint64, addr, ver string, labels []Label, gen int) *mstore {
	return &mstore{id: id, addr: addr, status: "status-" + addr, peer: "peer-" + addr, version: ver,
		git: fmt.Sprintf("git%d", gen), startTS: int64(1600000000 + gen), deploy: fmt.Sprintf("/deploy/%d", id),
		labels: append([]Label(nil), labels...)}
}

func toMeta(r *mstore) *metapb.Store {
	s := &metapb.Store{Id: r.id, Address: r.addr, StatusAddress: r.status, PeerAddress: r.peer, Version: r.version,
		GitHash: r.git, StartTimestamp: r.startTS, DeployPath: r.deploy, State: metapb.StoreState_Up}
	for _, l := range r.labels {
		s.Labels = append(s.Labels, &metapb.StoreLabel{Key: l.K, Value: l.V})
	}
	return s
}

func toPB(ls []Label) []*metapb.StoreLabel {
	var out []*metapb.StoreLabel
	for _, l := range ls {
		out = append(out, &metapb.StoreLabel{Key: l.K, Value: l.V})
	}
	return out
}

// mergeTouches reports whether a non-forced update with these labels changes or
// deletes a label the store already has (trigger class of KeyMergeLabels).
func mergeTouches(old, given []Label) bool {
	for _, g := range given {
		for _, o := range old {
			if strings.EqualFold(o.K, g.K) && o.V != g.V {
				return true
			}
		}
	}
	return false
}

func runCase(c Case) (vkit.Info, error) { return runHistory(c, 0) }

// runHistory executes a history; with spinners > 0 background goroutines keep calling the
// cache-level store entry points that real callers use without the cluster lock (race mode
// "spin", see race_test.go) while the history runs.
func runHistory(c Case, spinners int) (vkit.Info, error) {
	var info vkit.Info
	f, err := newFixture(c)
	if err != nil {
		return info, fmt.Errorf("fixture: %v", err)
	}
	defer func() { f.cancel() }()
	rc := f.rc
	stopSpin := func() {}
	if spinners > 0 {
		stopSpin = startSpinners(f, uint64(c.Init+len(c.Ops)+1), spinners)
		defer stopSpin()
	}
	m := &model{stores: map[uint64]*mstore{}, nextID: 1, nextReg: 1, residue: map[uint64]bool{}, cached: map[uint64]int{}}
	info.ClassIf(c.Strict, "strict-labels")
	knownMerge := vkit.Known(KeyMergeLabels)
	knownHbPanic := vkit.Known(KeyHeartbeatPanic)

	validLabels := []Label{{"zone", "z1"}, {"host", "h1"}}
	for i := 0; i < c.Init; i++ {
		id := m.nextID
		m.nextID++
		req := mkReq(id, fmt.Sprintf("addr-%d", id), clusterVersions[c.ClusterVer], validLabels, 0)
		if err := rc.PutStore(toMeta(req)); err != nil {
			return info, fmt.Errorf("initial registration of store %d refused: %v", id, err)
		}
		_, r := m.expectPut(req, false, *f.opt.GetClusterVersion(), c.Strict)
		m.stores[id] = r
	}
	if err := f.compare(m, "after the initial registrations"); err != nil {
		return info, err
	}

	reachedTomb, tombAddressed, rejected := false, false, false
	afterRestart := false // no store operation since the last restart
	terms := [2]int{1, 0} // leadership terms served by each member so far
	knownStale := vkit.Known(KeyStaleDeleted)
	knownWeightKeys := vkit.Known(KeyWeightKeys)
	pendingN := 0
	for i, op := range c.Ops {
		if op.Kind == "fail" {
			pendingN = op.N
			continue
		}
		at := fmt.Sprintf("op %d %s", i, op.Kind)
		if op.Kind == "place" || op.Kind == "drop" || op.Kind == "role" {
			afterRestart = false // region traffic refreshes counters
		}
		switch op.Kind {
		case "place":
			first, ok := m.pick(op.Want, op.Pick, false)
			if !ok {
				continue
			}
			stores := []uint64{first}
			all := m.ids()
			for _, p := range op.Stores[1:] {
				id := all[p%len(all)]
				dup := false
				for _, s := range stores {
					dup = dup || s == id
				}
				// a region peer is never created on a tombstone store by a scheduler; a stale
				// peer may be reported on one, which the first pick (Want tomb) covers
				if !dup && m.stores[id].state != stTombstone {
					stores = append(stores, id)
				}
			}
			rid := m.nextReg
			m.nextReg++
			mr := &mregion{id: rid, stores: stores, confVer: 1, leader: -1}
			for j := range stores {
				role := 0
				if j < len(op.Roles) {
					role = op.Roles[j] % 4
				}
				mr.roles = append(mr.roles, role)
			}
			// a region is reported by its leader, and a learner is never the leader: at least one
			// peer (the last one) is a voter
			for j, role := range mr.roles {
				if role != 1 && mr.leader < 0 {
					mr.leader = j
				}
			}
			if mr.leader < 0 {
				mr.leader = len(mr.roles) - 1
				mr.roles[mr.leader] = 0
			}
			// the real path of a region heartbeat: cache, per-store counters and storage
			if err := rc.VerifProcessRegionHeartbeat(mr.info()); err != nil {
				return info, fmt.Errorf("%s: harness: heartbeat of new region %d refused: %v", at, rid, err)
			}
			f.syncRegion(mr.info())
			m.regions = append(m.regions, mr)
			if mr.roles[0] == 1 {
				info.Class("learner-peer-placed")
			}
			for _, s := range stores {
				m.cached[s] = m.regionCount(s)
			}
			if m.stores[first].state == stTombstone {
				tombAddressed = true
				info.Class("region-on-tombstone")
			}
			for _, s := range stores {
				if got := cachePeers(f.bc, s); got != m.regionCount(s) {
					return info, fmt.Errorf("%s: harness: store %d has %d peers in the region cache, model %d", at, s, got, m.regionCount(s))
				}
			}
			continue
		case "role":
			if len(m.regions) == 0 {
				continue
			}
			// a region with a peer on a store in the wanted state, and that peer
			idx, pj := op.Pick%len(m.regions), -1
			if op.Want != "" {
				var cand [][2]int
				for k, r := range m.regions {
					for j, s := range r.stores {
						if m.stores[s] != nil && matches(m.stores[s], op.Want) {
							cand = append(cand, [2]int{k, j})
						}
					}
				}
				if len(cand) > 0 {
					c := cand[op.Pick%len(cand)]
					idx, pj = c[0], c[1]
				}
			}
			r := m.regions[idx]
			if pj < 0 {
				pj = op.Pick2 % len(r.stores)
			}
			newRole := op.Role % 4
			if newRole == r.roles[pj] {
				newRole = 1
				if r.roles[pj] == 1 {
					newRole = 0
				}
			}
			if newRole == 1 {
				// demote: another peer must be able to lead
				other := -1
				for j, role := range r.roles {
					if j != pj && role != 1 {
						other = j
						break
					}
				}
				if other < 0 {
					continue // the only voter of a region is never demoted
				}
				if r.leader == pj {
					r.leader = other
				}
				info.Class("peer-demoted-to-learner")
				if m.stores[r.stores[pj]] != nil && m.stores[r.stores[pj]].state == stOffline {
					info.Class("peer-on-offline-store-demoted-to-learner")
				}
			} else if r.roles[pj] == 1 {
				info.Class("learner-promoted")
			}
			r.roles[pj] = newRole
			r.confVer++
			// a conf change is reported by the next heartbeat of the region with a bumped conf_ver
			if err := rc.VerifProcessRegionHeartbeat(r.info()); err != nil {
				return info, fmt.Errorf("%s: harness: heartbeat of region %d (conf_ver %d) refused: %v", at, r.id, r.confVer, err)
			}
			f.syncRegion(r.info())
			for _, s := range r.stores {
				if m.stores[s] != nil {
					m.cached[s] = m.regionCount(s)
				}
				if got := cachePeers(f.bc, s); got != m.regionCount(s) {
					return info, fmt.Errorf("%s: harness: store %d has %d peers in the region cache, model %d", at, s, got, m.regionCount(s))
				}
			}
			continue
		case "drop":
			if len(m.regions) == 0 {
				continue
			}
			// prefer a region that has a peer on a store in the wanted state
			idx := op.Pick % len(m.regions)
			if op.Want != "" {
				var cand []int
				for k, r := range m.regions {
					for _, s := range r.stores {
						if m.stores[s] != nil && matches(m.stores[s], op.Want) {
							cand = append(cand, k)
							break
						}
					}
				}
				if len(cand) > 0 {
					idx = cand[op.Pick%len(cand)]
				}
			}
			r := m.regions[idx]
			cur := f.bc.GetRegion(r.id)
			if cur == nil {
				return info, fmt.Errorf("%s: harness: region %d of the model is not in the cache", at, r.id)
			}
			f.bc.RemoveRegion(cur)
			if o := f.members[1-f.cur].GetRegion(r.id); o != nil {
				f.members[1-f.cur].RemoveRegion(o) // a vanished region vanishes on both members
			}
			if err := f.oracle.DeleteRegion(cur.GetMeta()); err != nil {
				return info, fmt.Errorf("%s: harness: %v", at, err)
			}
			m.regions = append(m.regions[:idx:idx], m.regions[idx+1:]...)
			var still []uint64
			for _, s := range r.stores {
				if m.stores[s] != nil {
					still = append(still, s)
					m.cached[s] = m.regionCount(s)
				}
			}
			f.syncStatus(still...)
			continue
		case "restart", "handover":
			if spinners > 0 {
				continue // the spinners work on the current cluster object
			}
			if op.Kind == "handover" {
				// what the member that takes over still has cached from its last term
				stale := f.members[1-f.cur]
				differs := false
				for _, st := range stale.GetStores() {
					ms := m.stores[st.GetID()]
					if ms == nil {
						differs = true
						info.Class("stale-cache-holds-removed-store-at-handover")
						if knownStale {
							// known finding: exactly these histories are excluded by dropping the entry
							stale.DeleteStore(st)
							info.Exclude(KeyStaleDeleted)
						}
						continue
					}
					if (rec{meta: st.GetMeta(), lw: st.GetLeaderWeight(), rw: st.GetRegionWeight()}).String() != ms.String() {
						differs = true
					}
				}
				f.readN = op.N
				terms[1-f.cur]++
				info.ClassIf(differs, "stale-cache-differs-at-handover")
				info.ClassIf(terms[1-f.cur] > 1, "handover-round-trip")
				if err := f.handover(); err != nil {
					return info, fmt.Errorf("%s: %v", at, err)
				}
				info.Class("handover")
			} else {
				f.readN = op.N
				if err := f.restart(); err != nil {
					return info, fmt.Errorf("%s: %v", at, err)
				}
			}
			rc = f.rc
			if f.reloadFaultKey != "" {
				at += fmt.Sprintf(" [read of %s failed during the load]", f.reloadFaultKey)
				info.Class("reload-read-fault-on-" + keyClass(f.reloadFaultKey) + "-key")
				if f.reloadFailed {
					at += " -> load failed as a whole, retried"
					info.Class("reload-failed-then-retried")
				} else {
					at += " -> load succeeded"
					info.Class("reload-succeeded-despite-read-fault")
				}
			}
			// LoadClusterInfo derives the per-store counters from the loaded region cache
			m.cached = map[uint64]int{}
			for _, id := range m.ids() {
				m.cached[id] = m.regionCount(id)
			}
			m.orphan = false
			offlineWithPeers := false
			for _, id := range m.ids() {
				s := m.stores[id]
				s.lw, s.rw = s.slw, s.srw // the weight keys are what a restart serves
				if s.state == stTombstone {
					m.residue[id] = true // LoadClusterInfo creates a statistics entry for every loaded store
				}
				if got := cachePeers(f.bc, id); got != m.regionCount(id) {
					return info, fmt.Errorf("%s: harness: after the reload store %d has %d region peers in the cache, model %d", at, id, got, m.regionCount(id))
				}
				offlineWithPeers = offlineWithPeers || (s.state == stOffline && m.regionCount(id) > 0)
			}
			info.ClassIf(op.Kind == "restart", "restart")
			info.ClassIf(offlineWithPeers, "restart-with-offline-store-holding-peers")
			afterRestart = true
			if err := f.compare(m, at); err != nil {
				return info, err
			}
			continue
		}

		// ---- a storage-writing operation of the store API
		justRestarted := afterRestart
		afterRestart = false
		before := snapshot(rc)
		cv := *f.opt.GetClusterVersion()
		var (
			target       uint64 // addressed store (0: none)
			call         func() error
			expectErr    string          // non-empty: the model says the op must be refused
			apply        func()          // model transition when the op succeeds
			noResult     bool            // checkStores has no result
			hbOp         bool            // store heartbeat: the record write is best-effort
			buryCand     map[uint64]bool // check: stores that may be buried
			rmEligible   []uint64        // rmTomb: records that must go
			attLW, attRW float64         // weight: the attempted values
			touchTomb    = func(id uint64) {
				if s := m.stores[id]; s != nil && s.state == stTombstone {
					tombAddressed = true
				}
			}
			mergeRisk bool // non-forced label merge that changes/deletes an existing label
		)
		fl := (*fault)(nil)
		if pendingN > 0 {
			fl = &fault{mode: "nth", n: pendingN}
			pendingN = 0
		}

		switch op.Kind {
		case "putNew", "putDup", "putBad":
			id := m.nextID
			m.nextID++
			addr := fmt.Sprintf("addr-%d", id)
			ver := versions[op.Ver%len(versions)]
			if op.Kind == "putDup" {
				src, ok := m.pick(op.Want, op.Pick, false)
				if !ok {
					continue
				}
				addr = m.stores[src].addr
				touchTomb(src)
				at += fmt.Sprintf("(new id %d, address of store %d)", id, src)
			}
			if op.Kind == "putBad" {
				switch op.Bad {
				case "id0":
					id = 0
				case "badver":
					ver = badVersions[op.Ver%len(badVersions)]
				case "incompat":
					// strictly older than the cluster version with another major.minor
					ver = ""
					if cv.Major > 2 {
						ver = []string{"", "2.0.0", "2.1.0", "1.0.0"}[op.Ver%4]
					}
				}
				at += "(" + op.Bad + ")"
			}
			req := mkReq(id, addr, ver, op.Labels, i+1)
			target = id
			expectErr, _ = m.expectPut(req, false, cv, c.Strict)
			call = func() error { return rc.PutStore(toMeta(req)) }
			apply = func() { _, r := m.expectPut(req, false, cv, c.Strict); m.stores[id] = r }
		case "putSame":
			// the gRPC front end refuses re-registration of a tombstone store before it reaches the
			// cluster (covered by the grpc property), so only non-tombstone stores are addressed
			id, ok := m.pick(op.Want, op.Pick, false)
			if !ok || m.stores[id].state == stTombstone {
				id, ok = m.pick("live", op.Pick, true)
				if !ok {
					continue
				}
			}
			old := m.stores[id]
			addr := old.addr
			switch op.Addr {
			case "new":
				m.addrSeq++
				addr = fmt.Sprintf("addr-%d-r%d", id, m.addrSeq)
			case "dup":
				src, _ := m.pick("", op.Pick2, false)
				addr = m.stores[src].addr
				touchTomb(src)
			}
			req := mkReq(id, addr, versions[op.Ver%len(versions)], op.Labels, i+1)
			target = id
			mergeRisk = mergeTouches(old.labels, op.Labels)
			expectErr, _ = m.expectPut(req, false, cv, c.Strict)
			call = func() error { return rc.PutStore(toMeta(req)) }
			apply = func() { _, r := m.expectPut(req, false, cv, c.Strict); m.stores[id] = r }
			at += fmt.Sprintf("(store %d, address %s)", id, op.Addr)
		case "labels":
			id, ok := m.pick(op.Want, op.Pick, false)
			if !ok {
				id, _ = m.pick("gone", op.Pick, false)
			}
			target = id
			touchTomb(id)
			at += fmt.Sprintf("(store %d, force=%v, %v)", id, op.Force, op.Labels)
			call = func() error { return rc.UpdateStoreLabels(id, toPB(op.Labels), op.Force) }
			if old := m.stores[id]; old == nil {
				expectErr = "not-found: store not found"
			} else {
				req := old.clone()
				req.labels = append([]Label(nil), op.Labels...)
				mergeRisk = !op.Force && mergeTouches(old.labels, op.Labels)
				expectErr, _ = m.expectPut(req, op.Force, cv, c.Strict)
				apply = func() { _, r := m.expectPut(req, op.Force, cv, c.Strict); m.stores[id] = r }
			}
		case "remove":
			id, ok := m.pick(op.Want, op.Pick, false)
			if !ok {
				id, _ = m.pick("gone", op.Pick, false)
			}
			target = id
			touchTomb(id)
			at += fmt.Sprintf("(store %d, physicallyDestroyed=%v)", id, op.Destroyed)
			call = func() error { return rc.RemoveStore(id, op.Destroyed) }
			s := m.stores[id]
			switch {
			case s == nil:
				expectErr = "not-found: store not found"
			case s.state == stOffline && s.destroyed == op.Destroyed:
				apply = func() {} // removing an offline store again: nothing to do
			case s.state == stTombstone:
				expectErr = "tombstone: store is tombstone"
			case s.destroyed:
				expectErr = "destroyed: store was declared physically destroyed"
			default:
				apply = func() { s.state, s.destroyed = stOffline, op.Destroyed }
			}
		case "up":
			id, ok := m.pick(op.Want, op.Pick, false)
			if !ok {
				id, _ = m.pick("gone", op.Pick, false)
			}
			target = id
			touchTomb(id)
			at += fmt.Sprintf("(store %d)", id)
			call = func() error { return rc.UpStore(id) }
			s := m.stores[id]
			switch {
			case s == nil:
				expectErr = "not-found: store not found"
			case s.state == stTombstone:
				expectErr = "tombstone: store is tombstone"
			case s.destroyed:
				expectErr = "destroyed: store was declared physically destroyed"
				info.Class("up-of-destroyed-refused")
			default:
				if s.state == stOffline {
					info.Class("offline->up")
				}
				apply = func() { s.state = stUp }
			}
		case "weight":
			id, ok := m.pick(op.Want, op.Pick, false)
			if !ok {
				id, _ = m.pick("gone", op.Pick, false)
			}
			target = id
			touchTomb(id)
			lw, rw := weights[op.LW%len(weights)], weights[op.RW%len(weights)]
			at += fmt.Sprintf("(store %d, %v, %v)", id, lw, rw)
			call = func() error { return rc.SetStoreWeight(id, lw, rw) }
			if s := m.stores[id]; s == nil {
				expectErr = "not-found: store not found"
			} else {
				attLW, attRW = lw, rw
				apply = func() { s.lw, s.rw, s.slw, s.srw = lw, rw, lw, rw }
			}
		case "hb":
			id, ok := m.pick(op.Want, op.Pick, false)
			if !ok || m.stores[id].state == stTombstone {
				continue // the gRPC front end refuses heartbeats of tombstone stores
			}
			if m.orphan {
				info.Class("heartbeat-after-orphaned-stats")
				if knownHbPanic {
					info.Exclude(KeyHeartbeatPanic)
					continue
				}
			}
			target = id
			hbOp = true
			at += fmt.Sprintf("(store %d)", id)
			call = func() error {
				return rc.HandleStoreHeartbeat(&pdpb.StoreStats{StoreId: id, Capacity: 100 << 30, Available: 60 << 30,
					UsedSize: 40 << 30, RegionCount: uint32(m.regionCount(id))})
			}
			apply = func() {}
		case "check":
			noResult = true
			buryCand = map[uint64]bool{}
			var cands []uint64
			for _, id := range m.ids() {
				s := m.stores[id]
				if s.state == stTombstone {
					tombAddressed = true
				}
				if s.state == stOffline {
					if m.regionCount(id) == 0 {
						buryCand[id] = true
						cands = append(cands, id)
					} else {
						info.Class("bury-blocked-by-region")
						if m.learnerOnly(id) {
							info.Class("learner-only-at-tick")
						}
						if justRestarted {
							info.Class("check-right-after-restart-offline-store-holds-peers")
						}
					}
				}
			}
			if fl != nil {
				// checkStores walks a Go map: make the fault independent of the order
				if len(cands) == 0 {
					fl = nil
				} else if fl.n <= 3 {
					fl = &fault{mode: "key", key: storeKey(cands[op.Pick%len(cands)])}
				} else {
					fl = &fault{mode: "firstConfig"}
				}
			}
			call = func() error { rc.VerifCheckStores(); return nil }
			at += fmt.Sprintf("(candidates %v)", cands)
		case "rmTomb":
			for _, id := range m.ids() {
				s := m.stores[id]
				if s.state == stTombstone {
					tombAddressed = true
					if m.cached[id] == 0 {
						rmEligible = append(rmEligible, id)
						if m.regionCount(id) > 0 {
							info.Class("tombstone-record-with-stale-counter-removable")
						}
					}
				}
			}
			if fl != nil {
				// RemoveTombStoneRecords walks a Go map and stops at the first failure: to keep the
				// history deterministic the failure hits the only record, or every record
				switch len(rmEligible) {
				case 0:
					fl = nil
				case 1:
					fl = &fault{mode: "key", key: storeKey(rmEligible[0])}
				default:
					fl = &fault{mode: "storeRemoves"}
				}
			}
			call = func() error { return rc.RemoveTombStoneRecords() }
			elig := rmEligible
			apply = func() {
				for _, id := range elig {
					delete(m.stores, id)
					m.gone = append(m.gone, id)
				}
			}
			at += fmt.Sprintf("(eligible %v)", rmEligible)
		default:
			return info, fmt.Errorf("harness: unknown op kind %q", op.Kind)
		}

		// known finding: SetStoreWeight failing at its 2nd or 3rd write (region weight key, store record)
		if knownWeightKeys && op.Kind == "weight" && fl != nil && fl.mode == "nth" && (fl.n == 2 || fl.n == 3) && m.stores[target] != nil {
			fl = nil
			info.Exclude(KeyWeightKeys)
		}
		// known finding: a label merge that fails after it touched an existing label
		if knownMerge && mergeRisk {
			if fl != nil && fl.n == 1 {
				// the first write of a registration / label update is the store record
				fl = nil
				info.Exclude(KeyMergeLabels)
			}
			if strings.HasPrefix(expectErr, "labels:") {
				info.Exclude(KeyMergeLabels)
				continue
			}
		}

		f.pending = fl
		err, panicked := guarded(call)
		f.pending = nil
		if panicked != "" {
			return info, fmt.Errorf("%s: panic: %s", at, panicked)
		}
		after := snapshot(rc)

		fired, firedClass := false, ""
		if fl != nil && fl.fired {
			fired, firedClass = true, keyClass(fl.firedKey)
			info.Class("fault-on-" + firedClass + "-key")
			at += fmt.Sprintf(" [write of %s failed]", fl.firedKey)
		}
		if err != nil {
			rejected = true
			at += fmt.Sprintf(" -> error %q", err.Error())
		} else if !noResult {
			at += " -> ok"
		}

		// ---- (a) the statement's invariants on what is served
		if err := checkStep(op.Kind, target, before, after, buryCand, err); err != nil {
			return info, fmt.Errorf("%s: %v", at, err)
		}
		if err != nil {
			if d := diffSnap(before, after); d != "" {
				return info, fmt.Errorf("%s: the operation failed but the served stores changed: %s", at, d)
			}
		}

		// ---- (c) model
		storeWriteFailed := fired && (firedClass == "store" || firedClass == "weight") && !hbOp
		switch {
		case noResult:
			for id := range buryCand {
				if fired && fl.firedKey == storeKey(id) {
					continue // its record could not be written: must stay offline (checked below through the model)
				}
				m.stores[id].state = stTombstone
				reachedTomb = true
				info.Class("buried")
			}
		case storeWriteFailed:
			if err == nil {
				return info, fmt.Errorf("%s: the write of a store key failed but the operation reported success", at)
			}
			if op.Kind == "weight" && fl.count > 1 {
				// the operation failed after it had written weight keys: the stored weights must
				// still be what is served (the model's slw / srw stay as they are)
				info.Class("setstoreweight-failed-after-writing-weight-keys")
				_, _ = attLW, attRW
			}
		case expectErr != "":
			if err == nil {
				return info, fmt.Errorf("%s: must be refused (%s) but was accepted", at, expectErr)
			}
			info.Class("refused:" + strings.SplitN(expectErr, ":", 2)[0])
		default:
			if err != nil {
				if fired && firedClass == "config" {
					// a failing configuration write may fail the op; then nothing may have changed (checked above)
					break
				}
				return info, fmt.Errorf("%s: the model accepts this operation (no fault hit a store key)", at)
			}
			if op.Kind == "putDup" {
				info.Class("address-of-dead-store-reused")
			}
			if op.Kind == "rmTomb" && len(rmEligible) > 0 {
				info.Class("tombstone-records-removed")
			}
			if op.Kind == "remove" && op.Destroyed {
				info.Class("physically-destroyed")
			}
			apply()
			switch op.Kind {
			case "weight", "labels":
				if s := m.stores[target]; s != nil && s.state == stTombstone {
					m.residue[target] = true
				}
			case "hb":
				m.residue = map[uint64]bool{}
			case "rmTomb":
				for _, id := range rmEligible {
					if m.residue[id] {
						m.orphan = true
					}
				}
			}
		}
		if err := f.compare(m, at); err != nil {
			return info, err
		}
	}
	if spinners > 0 {
		stopSpin()
		if err := f.compare(m, "after the history, spinners joined"); err != nil {
			return info, err
		}
	}
	info.ClassIf(reachedTomb, "tombstone-reached")
	info.ClassIf(reachedTomb && tombAddressed, "tombstone-addressed-later")
	info.ClassIf(rejected, "rejected-op")
	info.NonTrivial = reachedTomb && tombAddressed && rejected
	return info, nil
}

// guarded runs an operation of the code under test and turns a panic into a report.
func guarded(call func() error) (err error, panicked string) {
	defer func() {
		if r := recover(); r != nil {
			st := string(debug.Stack())
			// keep the frames of the code under test
			var keep []string
			for _, l := range strings.Split(st, "\n") {
				if strings.Contains(l, "/repo/") {
					keep = append(keep, strings.TrimSpace(l))
				}
			}
			if len(keep) > 6 {
				keep = keep[:6]
			}
			panicked = fmt.Sprintf("%v at %s", r, strings.Join(keep, " <- "))
		}
	}()
	return call(), ""
}

// checkStep: transitions allowed by the statement, address uniqueness.
func checkStep(kind string, target uint64, before, after map[uint64]rec, buryCand map[uint64]bool, opErr error) error {
	for _, id := range sortedIDs(before) {
		b := before[id]
		a, ok := after[id]
		if !ok {
			if kind != "rmTomb" {
				return fmt.Errorf("store %d is no longer served", id)
			}
			if b.meta.GetState() != metapb.StoreState_Tombstone {
				return fmt.Errorf("record of store %d removed although it was %s", id, b.meta.GetState())
			}
			continue
		}
		bs, as := b.meta.GetState(), a.meta.GetState()
		if bs == as {
			continue
		}
		switch {
		case bs == metapb.StoreState_Up && as == metapb.StoreState_Offline:
		case bs == metapb.StoreState_Offline && as == metapb.StoreState_Up:
			if b.meta.GetPhysicallyDestroyed() {
				return fmt.Errorf("store %d was declared physically destroyed and went Offline -> Up", id)
			}
		case bs == metapb.StoreState_Offline && as == metapb.StoreState_Tombstone:
			if kind != "check" {
				return fmt.Errorf("store %d became Tombstone outside the store check", id)
			}
			if !buryCand[id] {
				return fmt.Errorf("store %d was buried while it held region peers", id)
			}
		default:
			return fmt.Errorf("store %d moved %s -> %s", id, bs, as)
		}
	}
	for _, id := range sortedIDs(after) {
		if _, ok := before[id]; ok {
			continue
		}
		if !strings.HasPrefix(kind, "put") || id != target {
			return fmt.Errorf("store %d appeared", id)
		}
		if st := after[id].meta.GetState(); st != metapb.StoreState_Up || after[id].meta.GetPhysicallyDestroyed() {
			return fmt.Errorf("new store %d starts as %s destroyed=%v", id, st, after[id].meta.GetPhysicallyDestroyed())
		}
	}
	byAddr := map[string]uint64{}
	for _, id := range sortedIDs(after) {
		s := after[id].meta
		if s.GetState() == metapb.StoreState_Tombstone || s.GetPhysicallyDestroyed() {
			continue
		}
		if o, dup := byAddr[s.GetAddress()]; dup {
			return fmt.Errorf("stores %d and %d are both neither tombstone nor destroyed and share address %s", o, id, s.GetAddress())
		}
		byAddr[s.GetAddress()] = id
	}
	return nil
}

func diffSnap(before, after map[uint64]rec) string {
	for _, id := range sortedIDs(before) {
		a, ok := after[id]
		if !ok {
			return fmt.Sprintf("store %d vanished", id)
		}
		if before[id].String() != a.String() {
			return fmt.Sprintf("store %d was {%s}, now {%s}", id, before[id], a)
		}
	}
	for _, id := range sortedIDs(after) {
		if _, ok := before[id]; !ok {
			return fmt.Sprintf("store %d appeared", id)
		}
	}
	return ""
}

// sameRecord compares two store records. The time of the last heartbeat is part of the
// protobuf record but is persisted lazily by design (at most every few minutes), so it
// is not part of the comparison.
func sameRecord(a, b *metapb.Store) bool {
	x, y := proto.Clone(a).(*metapb.Store), proto.Clone(b).(*metapb.Store)
	x.LastHeartbeat, y.LastHeartbeat = 0, 0
	return proto.Equal(x, y)
}

// compare: served == stored (LoadStores into a fresh cache, and LoadStore) == model.
func (f *fixture) compare(m *model, at string) error {
	served := snapshot(f.rc)
	stored, err := f.loadStored()
	if err != nil {
		return fmt.Errorf("%s: LoadStores failed: %v", at, err)
	}
	for _, id := range sortedIDs(served) {
		sv := served[id]
		ms := m.stores[id]
		if ms == nil {
			return fmt.Errorf("%s: store %d is served {%s} but the model has no such store", at, id, sv)
		}
		if sv.String() != ms.String() {
			return fmt.Errorf("%s: store %d served {%s}, model {%s}", at, id, sv, ms)
		}
		st, ok := stored[id]
		if !ok {
			return fmt.Errorf("%s: store %d is served {%s} but LoadStores does not return it", at, id, sv)
		}
		if !sameRecord(st.meta, sv.meta) {
			return fmt.Errorf("%s: store %d served {%s}, stored {%s}", at, id, canonMeta(sv.meta), canonMeta(st.meta))
		}
		if st.lw != ms.slw || st.rw != ms.srw {
			return fmt.Errorf("%s: store %d stored weights (%v,%v), expected (%v,%v) (served (%v,%v))", at, id, st.lw, st.rw, ms.slw, ms.srw, sv.lw, sv.rw)
		}
		one := &metapb.Store{}
		found, err := f.oracle.LoadStore(id, one)
		if err != nil || !found || !sameRecord(one, sv.meta) {
			return fmt.Errorf("%s: LoadStore(%d) = (%v, %v) {%s}, served {%s}", at, id, found, err, canonMeta(one), canonMeta(sv.meta))
		}
	}
	for _, id := range m.ids() {
		if _, ok := served[id]; !ok {
			return fmt.Errorf("%s: store %d {%s} of the model is not served", at, id, m.stores[id])
		}
	}
	for _, id := range sortedIDs(stored) {
		if _, ok := served[id]; !ok {
			return fmt.Errorf("%s: store %d is stored {%s} but not served", at, id, stored[id])
		}
	}
	return nil
}
