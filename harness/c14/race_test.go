package c14

// Property "race": operations on ONE store run concurrently; every one of them is atomic
// under the cluster lock, so whatever the interleaving, afterwards
//   - every completed operation returned what it returns in SOME serial order of them, and
//   - the served stores are what that serial order gives (Tombstone is absorbing, a
//     physically-destroyed declaration stays, weights / labels of the last writer), and
//   - served == stored == model, as in the lifecycle property.
// The oracle enumerates the serial orders; it never depends on which interleaving the Go
// scheduler actually produced.
//
// mode "park": the background store check is parked at its first store-record write (storage
// gate) while UpStore of a burial candidate queues on the cluster lock.
// mode "lock": the harness holds the cluster lock while the participants queue on it in a
// generated order, then releases it. Participants: the store check, RemoveStore (with /
// without physically-destroyed), UpStore, SetStoreWeight, UpdateStoreLabels — 1 or 2 of them —
// and a store heartbeat of the same store (persisting: first heartbeat since the record was
// loaded / more than 5 minutes after the last persist; or not persisting).
// mode "spin": 1-2 background goroutines keep calling the cache-level store entry points that
// real callers use WITHOUT the cluster lock — AttachAvailableFunc (operator controller, once
// per store and limit type after every restart / limit re-creation; one caller at a time as
// under the operator-controller lock) and Pause/ResumeLeaderTransfer (evict-/grant-leader
// schedulers) — on all stores, while the main goroutine runs a sequential lifecycle history of
// 60-200 operations through the lifecycle runner: after every operation (spinners running) and
// at the end (spinners joined) served == stored == model. Those entry points never change a
// lifecycle field, so the sequential model is exact whatever the interleaving. Not shrinkable
// by schedule; the report carries the op index, the op and the case.

import (
	"fmt"
	"sort"
	"strings"
	"sync"
	"time"

	"github.com/pingcap/kvproto/pkg/metapb"
	"github.com/pingcap/kvproto/pkg/pdpb"
	"github.com/tikv/pd/server/core"
	"github.com/tikv/pd/server/core/storelimit"
	"pdverif/vkit"
	"pgregory.net/rapid"
)

type RaceCase struct {
	Mode      string `json:"mode,omitempty"` // "" = park | lock
	Stores    int    `json:"stores"`         // 3..8 stores
	Target    int    `json:"target"`         // the store the racing operations address
	Regions   []int  `json:"regions"`        // stores that still hold a region peer (not the target)
	Destroyed []int  `json:"destroyed"`      // stores removed as physically destroyed (not the target)
	StayUp    []int  `json:"stayUp"`         // stores that are not removed at all (not the target)
	// lock mode
	TargetState   string   `json:"targetState,omitempty"`   // off (default) | up | offD
	TargetRegion  bool     `json:"targetRegion,omitempty"`  // the target still holds a region peer
	TargetLearner bool     `json:"targetLearner,omitempty"` // ... and that peer is a learner (the voter is on the next store)
	Ops           []string `json:"ops,omitempty"`           // 1-2 of check, remove, removeD, up, weight, labels
	Hb            string   `json:"hb,omitempty"`            // "", persist, nopersist
	Order         []int    `json:"order,omitempty"`         // queue order: permutation of the participants (ops..., hb last index)
	// spin mode
	Spinners int   `json:"spinners,omitempty"`
	History  *Case `json:"history,omitempty"`
}

var raceOps = []string{"check", "check", "check", "remove", "removeD", "removeD", "up", "up", "weight", "labels"}

func genRace(t *rapid.T) RaceCase {
	var c RaceCase
	c.Stores = rapid.IntRange(3, 8).Draw(t, "stores")
	c.Target = rapid.IntRange(0, c.Stores-1).Draw(t, "target")
	for i := 0; i < c.Stores; i++ {
		if i == c.Target {
			continue
		}
		switch rapid.IntRange(0, 9).Draw(t, "role") {
		case 0:
			c.Regions = append(c.Regions, i)
		case 1:
			c.Destroyed = append(c.Destroyed, i)
		case 2:
			c.StayUp = append(c.StayUp, i)
		}
	}
	switch rapid.IntRange(0, 7).Draw(t, "mode") {
	case 0, 1:
		return c // park
	case 2:
		return genSpin(t)
	}
	c.Mode = "lock"
	c.TargetState = rapid.SampledFrom([]string{"off", "off", "off", "up", "up", "offD"}).Draw(t, "targetState")
	c.TargetRegion = rapid.IntRange(0, 4).Draw(t, "targetRegion") == 0
	c.TargetLearner = c.TargetRegion && rapid.Bool().Draw(t, "targetLearner")
	n := rapid.IntRange(1, 2).Draw(t, "nOps")
	for len(c.Ops) < n {
		op := rapid.SampledFrom(raceOps).Draw(t, "op")
		dup := false
		for _, o := range c.Ops {
			dup = dup || o == op
		}
		if !dup {
			c.Ops = append(c.Ops, op)
		}
	}
	c.Hb = rapid.SampledFrom([]string{"persist", "persist", "nopersist", "nopersist", ""}).Draw(t, "hb")
	k := len(c.Ops)
	if c.Hb != "" {
		k++
	}
	idx := make([]int, k)
	for i := range idx {
		idx[i] = i
	}
	c.Order = rapid.Permutation(idx).Draw(t, "order")
	return c
}

var spinKinds = []string{"remove", "remove", "remove", "remove", "up", "up", "up", "up", "check", "weight", "labels", "putSame", "putNew"}

func genSpin(t *rapid.T) RaceCase {
	h := &Case{Init: rapid.IntRange(3, 5).Draw(t, "init")}
	n := rapid.IntRange(60, 160).Draw(t, "nOps")
	for i := 0; i < n; i++ {
		op := Op{Kind: rapid.SampledFrom(spinKinds).Draw(t, "kind"), Pick: rapid.IntRange(0, 15).Draw(t, "pick")}
		switch op.Kind {
		case "remove":
			op.Want = genWant(t, "up", "up", "up", "off", "")
			op.Destroyed = rapid.IntRange(0, 5).Draw(t, "destroyed") == 0
		case "up":
			op.Want = genWant(t, "off", "off", "off", "tomb", "")
		case "weight":
			op.LW = rapid.IntRange(0, len(weights)-1).Draw(t, "lw")
			op.RW = rapid.IntRange(0, len(weights)-1).Draw(t, "rw")
		case "labels":
			op.Force = rapid.Bool().Draw(t, "force")
			op.Labels = genLabels(t, false, !op.Force)
		case "putSame":
			op.Want = "live"
			op.Addr = rapid.SampledFrom([]string{"keep", "new"}).Draw(t, "addr")
			op.Labels = genLabels(t, false, true)
		case "putNew":
			op.Labels = genLabels(t, false, false)
		}
		h.Ops = append(h.Ops, op)
	}
	return RaceCase{Mode: "spin", Spinners: rapid.IntRange(1, 2).Draw(t, "spinners"), History: h}
}

// startSpinners: spinner 0 attaches availability callbacks, spinner 1 pauses / resumes leader
// transfer, both cycling over store ids 1..maxID until stopped. Returns stop-and-join.
func startSpinners(f *fixture, maxID uint64, n int) func() {
	rc := f.rc
	stop := make(chan struct{})
	var wg sync.WaitGroup
	avail := func() bool { return true }
	spin := func(body func(id uint64, k int)) {
		defer wg.Done()
		for k := 0; ; k++ {
			select {
			case <-stop:
				return
			default:
			}
			body(uint64(k)%maxID+1, k)
		}
	}
	wg.Add(1)
	go spin(func(id uint64, k int) {
		typ := storelimit.AddPeer
		if (k/int(maxID))%2 == 1 {
			typ = storelimit.RemovePeer
		}
		rc.AttachAvailableFunc(id, typ, avail)
	})
	if n > 1 {
		wg.Add(1)
		go spin(func(id uint64, k int) {
			if (k/int(maxID))%2 == 0 {
				_ = rc.PauseLeaderTransfer(id)
			} else {
				rc.ResumeLeaderTransfer(id)
			}
		})
	}
	var once sync.Once
	return func() { once.Do(func() { close(stop); wg.Wait() }) }
}

func has(xs []int, x int) bool {
	for _, v := range xs {
		if v == x {
			return true
		}
	}
	return false
}

func runRace(c RaceCase) (vkit.Info, error) {
	var info vkit.Info
	if c.Mode == "spin" {
		if c.History == nil {
			return info, fmt.Errorf("harness: spin case without a history")
		}
		hi, err := runHistory(*c.History, c.Spinners)
		if err != nil {
			return info, fmt.Errorf("spin mode (%d background goroutine(s) calling AttachAvailableFunc / Pause-ResumeLeaderTransfer): %v", c.Spinners, err)
		}
		info.Class("mode-spin")
		info.Class(fmt.Sprintf("spinners-%d", c.Spinners))
		for _, cl := range hi.Classes {
			if cl == "buried" || cl == "offline->up" || cl == "physically-destroyed" {
				info.Class("spin-" + cl)
			}
		}
		info.NonTrivial = true
		return info, nil
	}
	f, err := newFixture(Case{})
	if err != nil {
		return info, fmt.Errorf("fixture: %v", err)
	}
	defer func() { f.cancel() }()
	rc := f.rc
	m := &model{stores: map[uint64]*mstore{}, nextReg: 1, residue: map[uint64]bool{}, cached: map[uint64]int{}}
	for i := 0; i < c.Stores; i++ {
		id := uint64(i + 1)
		req := mkReq(id, fmt.Sprintf("addr-%d", id), "2.0.0", nil, 0)
		if err := rc.PutStore(toMeta(req)); err != nil {
			return info, fmt.Errorf("registration of store %d refused: %v", id, err)
		}
		_, r := m.expectPut(req, false, *f.opt.GetClusterVersion(), false)
		m.stores[id] = r
	}
	target := uint64(c.Target + 1)
	for i := 0; i < c.Stores; i++ {
		id := uint64(i + 1)
		if id == target && c.TargetRegion && c.TargetLearner {
			placeLearner(f, m, id, uint64((c.Target+1)%c.Stores+1))
		} else if has(c.Regions, i) || (id == target && c.TargetRegion) {
			placeOne(f, m, id)
		}
		d := has(c.Destroyed, i)
		if id == target {
			if c.TargetState == "up" {
				continue
			}
			d = c.TargetState == "offD"
		} else if has(c.StayUp, i) {
			continue
		}
		if err := rc.RemoveStore(id, d); err != nil {
			return info, fmt.Errorf("RemoveStore(%d,%v) of an up store failed: %v", id, d, err)
		}
		m.stores[id].state, m.stores[id].destroyed = stOffline, d
	}
	if err := f.compare(m, "before the race"); err != nil {
		return info, err
	}
	if c.Mode == "lock" {
		return runLockRace(c, f, m, target, info)
	}

	parked, release := make(chan struct{}), make(chan struct{})
	f.pending = &fault{mode: "park", parked: parked, release: release}
	doneCheck, doneUp := make(chan struct{}), make(chan struct{})
	go func() { rc.VerifCheckStores(); close(doneCheck) }()
	select {
	case <-parked:
	case <-doneCheck:
		return info, fmt.Errorf("harness: the store check finished without writing a record")
	case <-time.After(10 * time.Second):
		close(release)
		info.Inconclusive = true
		return info, nil
	}
	var errUp error
	go func() { errUp = rc.UpStore(target); close(doneUp) }()
	// let UpStore queue up on the cluster lock (shapes the schedule only; the oracle does not depend on it)
	time.Sleep(2 * time.Millisecond)
	close(release)
	for _, ch := range []chan struct{}{doneCheck, doneUp} {
		select {
		case <-ch:
		case <-time.After(10 * time.Second):
			info.Inconclusive = true
			return info, nil
		}
	}
	f.pending = nil

	got := rc.GetStore(target)
	if got == nil {
		return info, fmt.Errorf("store %d vanished", target)
	}
	switch st := got.GetState(); {
	case errUp == nil && st == metapb.StoreState_Up:
		m.stores[target].state = stUp
		info.Class("up-won")
	case errUp != nil && st == metapb.StoreState_Tombstone:
		m.stores[target].state = stTombstone
		info.Class("bury-won")
	default:
		return info, fmt.Errorf("store check || UpStore(%d): UpStore returned %v and the store is %s; no order of the two explains that "+
			"(up first: ok and Up, the check must not bury an up store; bury first: refused and Tombstone)", target, errUp, st)
	}
	for _, id := range m.ids() {
		s := m.stores[id]
		if id != target && s.state == stOffline && m.regionCount(id) == 0 {
			s.state = stTombstone
		}
	}
	if err := f.compare(m, fmt.Sprintf("after store check || UpStore(%d) -> %v", target, errUp)); err != nil {
		return info, err
	}
	info.Class("mode-park")
	info.NonTrivial = true
	return info, nil
}

// racer is one participant: the real call and its effect on the target in the model
// (apply returns whether the operation must be refused in that state).
type racer struct {
	name  string
	call  func() error
	apply func(s *mstore) bool
	err   error
	panic string
	done  chan struct{}
}

func runLockRace(c RaceCase, f *fixture, m *model, target uint64, info vkit.Info) (vkit.Info, error) {
	rc := f.rc
	empty := m.regionCount(target) == 0
	hasCheck := false
	var ops []*racer
	for _, name := range c.Ops {
		r := &racer{name: name}
		switch name {
		case "check":
			hasCheck = true
			r.call = func() error { rc.VerifCheckStores(); return nil }
			r.apply = func(s *mstore) bool {
				if s.state == stOffline && empty {
					s.state = stTombstone
				}
				return false
			}
		case "remove", "removeD":
			d := name == "removeD"
			r.name = fmt.Sprintf("RemoveStore(%d,%v)", target, d)
			r.call = func() error { return rc.RemoveStore(target, d) }
			r.apply = func(s *mstore) bool {
				switch {
				case s.state == stOffline && s.destroyed == d:
					return false
				case s.state == stTombstone, s.destroyed:
					return true
				}
				s.state, s.destroyed = stOffline, d
				return false
			}
		case "up":
			r.name = fmt.Sprintf("UpStore(%d)", target)
			r.call = func() error { return rc.UpStore(target) }
			r.apply = func(s *mstore) bool {
				if s.state == stTombstone || s.destroyed {
					return true
				}
				s.state = stUp
				return false
			}
		case "weight":
			r.name = fmt.Sprintf("SetStoreWeight(%d,3,7)", target)
			r.call = func() error { return rc.SetStoreWeight(target, 3, 7) }
			r.apply = func(s *mstore) bool { s.lw, s.rw, s.slw, s.srw = 3, 7, 3, 7; return false }
		case "labels":
			r.name = fmt.Sprintf("UpdateStoreLabels(%d,{zone=z9},force)", target)
			r.call = func() error {
				return rc.UpdateStoreLabels(target, []*metapb.StoreLabel{{Key: "zone", Value: "z9"}}, true)
			}
			r.apply = func(s *mstore) bool { s.labels = []Label{{"zone", "z9"}}; return false }
		default:
			return info, fmt.Errorf("harness: unknown racing op %q", name)
		}
		ops = append(ops, r)
	}
	all := append([]*racer(nil), ops...)
	if c.Hb != "" {
		if c.Hb == "nopersist" {
			// persisted a moment ago: the next heartbeat does not write the record
			f.bc.PutStore(rc.GetStore(target).Clone(core.SetLastPersistTime(time.Now())))
		}
		all = append(all, &racer{name: fmt.Sprintf("HandleStoreHeartbeat(%d,%s)", target, c.Hb), call: func() error {
			return rc.HandleStoreHeartbeat(&pdpb.StoreStats{StoreId: target, Capacity: 100 << 30, Available: 60 << 30, UsedSize: 40 << 30})
		}})
	}
	if len(c.Order) != len(all) {
		return info, fmt.Errorf("harness: order %v does not match %d participants", c.Order, len(all))
	}

	// the cluster lock is held while the participants queue on it in the generated order
	rc.Lock()
	var queued []string
	for _, k := range c.Order {
		r := all[k%len(all)]
		r.done = make(chan struct{})
		queued = append(queued, r.name)
		go func() {
			defer close(r.done)
			r.err, r.panic = guarded(r.call)
		}()
		time.Sleep(1500 * time.Microsecond) // shapes the schedule only
	}
	rc.Unlock()
	for _, r := range all {
		select {
		case <-r.done:
		case <-time.After(10 * time.Second):
			info.Inconclusive = true
			return info, nil
		}
	}
	at := "queued on the cluster lock: " + strings.Join(queued, ", ")
	var results []string
	for _, r := range all {
		if r.panic != "" {
			return info, fmt.Errorf("%s: %s panicked: %s", at, r.name, r.panic)
		}
		results = append(results, fmt.Sprintf("%s -> %v", r.name, r.err))
		if r.apply == nil && r.err != nil {
			return info, fmt.Errorf("%s: %s of an existing store failed: %v", at, r.name, r.err)
		}
	}
	at += "; results: " + strings.Join(results, ", ")

	served := snapshot(rc)
	got, ok := served[target]
	if !ok {
		return info, fmt.Errorf("%s: store %d vanished", at, target)
	}
	// serial orders of the lifecycle operations (the heartbeat changes nothing the model tracks)
	var explained *mstore
	var outcomes []string
	permute(len(ops), func(p []int) {
		s := m.stores[target].clone()
		okp := true
		var desc []string
		for _, k := range p {
			refused := ops[k].apply(s)
			desc = append(desc, ops[k].name)
			if refused != (ops[k].err != nil) {
				okp = false
			}
		}
		outcomes = append(outcomes, fmt.Sprintf("[%s] => {%s}", strings.Join(desc, "; "), s))
		if okp && explained == nil && s.String() == got.String() {
			explained = s
		}
	})
	if explained == nil {
		sort.Strings(outcomes)
		return info, fmt.Errorf("%s: store %d is served as {%s}; no serial order of the completed operations gives that with these results: %s",
			at, target, got, strings.Join(outcomes, " | "))
	}
	m.stores[target] = explained
	if hasCheck {
		for _, id := range m.ids() {
			s := m.stores[id]
			if id != target && s.state == stOffline && m.regionCount(id) == 0 {
				s.state = stTombstone
			}
		}
	}
	if err := f.compare(m, at); err != nil {
		return info, err
	}
	info.Class("mode-lock")
	info.ClassIf(c.TargetLearner, "target-holds-learner-only")
	for _, o := range c.Ops {
		info.Class("racer-" + o)
	}
	info.ClassIf(c.Hb != "", "racer-heartbeat-"+c.Hb)
	info.Class("final-" + stName[explained.state])
	info.NonTrivial = true
	return info, nil
}

// permute calls fn with every permutation of 0..n-1.
func permute(n int, fn func([]int)) {
	p := make([]int, n)
	for i := range p {
		p[i] = i
	}
	var rec func(k int)
	rec = func(k int) {
		if k == n {
			fn(p)
			return
		}
		for i := k; i < n; i++ {
			p[k], p[i] = p[i], p[k]
			rec(k + 1)
			p[k], p[i] = p[i], p[k]
		}
	}
	rec(0)
}

func placeOne(f *fixture, m *model, store uint64) {
	rid := m.nextReg
	m.nextReg++
	meta := &metapb.Region{Id: rid, StartKey: []byte(fmt.Sprintf("k%08d", rid)), EndKey: []byte(fmt.Sprintf("k%08d", rid+1)),
		RegionEpoch: &metapb.RegionEpoch{Version: 1, ConfVer: 1},
		Peers:       []*metapb.Peer{{Id: rid + 100000, StoreId: store}}}
	f.bc.PutRegion(newRegion(meta))
	m.regions = append(m.regions, &mregion{id: rid, stores: []uint64{store}})
	f.syncStatus(store)
}

// placeLearner: a region with a learner on store and its voter (leader) on voterStore.
func placeLearner(f *fixture, m *model, store, voterStore uint64) {
	rid := m.nextReg
	m.nextReg++
	mr := &mregion{id: rid, stores: []uint64{store, voterStore}, roles: []int{1, 0}, leader: 1, confVer: 1}
	f.bc.PutRegion(mr.info())
	m.regions = append(m.regions, mr)
	f.syncStatus(store, voterStore)
}
