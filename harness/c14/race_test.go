package c14

// Property "race": the background store check (checkStores) runs concurrently with an
// administrator's UpStore of one of the stores it is about to bury. Both are atomic
// under the cluster lock, so whatever the order the outcome must be one of
//   UpStore ok    and the store is Up        (the check then must not bury an up store)
//   UpStore error and the store is Tombstone (buried first; tombstone is absorbing)
// The check is parked at its first store-record write so that UpStore is queued on the
// cluster lock while other stores are still to be buried. Which order happens is up to
// the Go scheduler; the oracle only states facts that hold for both orders.

import (
	"fmt"
	"time"

	"github.com/pingcap/kvproto/pkg/metapb"
	"pdverif/vkit"
	"pgregory.net/rapid"
)

type RaceCase struct {
	Stores    int   `json:"stores"`    // 3..8 stores, all removed (offline) before the race
	Target    int   `json:"target"`    // the store the administrator brings up again
	Regions   []int `json:"regions"`   // stores that still hold a region peer (never the target)
	Destroyed []int `json:"destroyed"` // stores removed as physically destroyed (never the target)
	StayUp    []int `json:"stayUp"`    // stores that are not removed at all (never the target)
}

func genRace(t *rapid.T) RaceCase {
	var c RaceCase
	c.Stores = rapid.IntRange(3, 8).Draw(t, "stores")
	c.Target = rapid.IntRange(0, c.Stores-1).Draw(t, "target")
	for i := 0; i < c.Stores; i++ {
		if i == c.Target {
			continue
		}
		switch rapid.IntRange(0, 9).Draw(t, "role") {
		case 0:
			c.Regions = append(c.Regions, i)
		case 1:
			c.Destroyed = append(c.Destroyed, i)
		case 2:
			c.StayUp = append(c.StayUp, i)
		}
	}
	return c
}

func has(xs []int, x int) bool {
	for _, v := range xs {
		if v == x {
			return true
		}
	}
	return false
}

func runRace(c RaceCase) (vkit.Info, error) {
	var info vkit.Info
	f, err := newFixture(Case{})
	if err != nil {
		return info, fmt.Errorf("fixture: %v", err)
	}
	defer f.cancel()
	rc := f.rc
	m := &model{stores: map[uint64]*mstore{}, nextReg: 1, residue: map[uint64]bool{}, cached: map[uint64]int{}}
	for i := 0; i < c.Stores; i++ {
		id := uint64(i + 1)
		req := mkReq(id, fmt.Sprintf("addr-%d", id), "2.0.0", nil, 0)
		if err := rc.PutStore(toMeta(req)); err != nil {
			return info, fmt.Errorf("registration of store %d refused: %v", id, err)
		}
		_, r := m.expectPut(req, false, *f.opt.GetClusterVersion(), false)
		m.stores[id] = r
	}
	for i := 0; i < c.Stores; i++ {
		id := uint64(i + 1)
		if has(c.Regions, i) {
			placeOne(f, m, id)
		}
		if has(c.StayUp, i) {
			continue
		}
		d := has(c.Destroyed, i)
		if err := rc.RemoveStore(id, d); err != nil {
			return info, fmt.Errorf("RemoveStore(%d,%v) of an up store failed: %v", id, d, err)
		}
		m.stores[id].state, m.stores[id].destroyed = stOffline, d
	}
	if err := f.compare(m, "before the race"); err != nil {
		return info, err
	}
	target := uint64(c.Target + 1)

	parked, release := make(chan struct{}), make(chan struct{})
	f.pending = &fault{mode: "park", parked: parked, release: release}
	doneCheck, doneUp := make(chan struct{}), make(chan struct{})
	go func() { rc.VerifCheckStores(); close(doneCheck) }()
	select {
	case <-parked:
	case <-doneCheck:
		return info, fmt.Errorf("harness: the store check finished without writing a record")
	case <-time.After(10 * time.Second):
		close(release)
		info.Inconclusive = true
		return info, nil
	}
	var errUp error
	go func() { errUp = rc.UpStore(target); close(doneUp) }()
	// let UpStore queue up on the cluster lock (shapes the schedule only; the oracle does not depend on it)
	time.Sleep(2 * time.Millisecond)
	close(release)
	for _, ch := range []chan struct{}{doneCheck, doneUp} {
		select {
		case <-ch:
		case <-time.After(10 * time.Second):
			info.Inconclusive = true
			return info, nil
		}
	}
	f.pending = nil

	got := rc.GetStore(target)
	if got == nil {
		return info, fmt.Errorf("store %d vanished", target)
	}
	switch st := got.GetState(); {
	case errUp == nil && st == metapb.StoreState_Up:
		m.stores[target].state = stUp
		info.Class("up-won")
	case errUp != nil && st == metapb.StoreState_Tombstone:
		m.stores[target].state = stTombstone
		info.Class("bury-won")
	default:
		return info, fmt.Errorf("store check || UpStore(%d): UpStore returned %v and the store is %s; no order of the two explains that "+
			"(up first: ok and Up, the check must not bury an up store; bury first: refused and Tombstone)", target, errUp, st)
	}
	for _, id := range m.ids() {
		s := m.stores[id]
		if id != target && s.state == stOffline && m.regionCount(id) == 0 {
			s.state = stTombstone
		}
	}
	if err := f.compare(m, fmt.Sprintf("after store check || UpStore(%d) -> %v", target, errUp)); err != nil {
		return info, err
	}
	info.NonTrivial = true
	return info, nil
}

func placeOne(f *fixture, m *model, store uint64) {
	rid := m.nextReg
	m.nextReg++
	meta := &metapb.Region{Id: rid, StartKey: []byte(fmt.Sprintf("k%08d", rid)), EndKey: []byte(fmt.Sprintf("k%08d", rid+1)),
		RegionEpoch: &metapb.RegionEpoch{Version: 1, ConfVer: 1},
		Peers:       []*metapb.Peer{{Id: rid + 100000, StoreId: store}}}
	f.bc.PutRegion(newRegion(meta))
	m.regions = append(m.regions, &mregion{id: rid, stores: []uint64{store}})
	f.syncStatus(store)
}
