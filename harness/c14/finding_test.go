package c14

import (
	"fmt"
	"testing"

	"github.com/pingcap/kvproto/pkg/metapb"
	"github.com/pingcap/kvproto/pkg/pdpb"
	"pdverif/vkit"
)

// TestFinding_failed_label_merge_visible: a store re-registers (same id) with a changed
// label value and (a) the write of its record fails, or (b) strictly-match-label refuses
// the merged labels. The call returns an error, yet the served store already shows the
// new label value: core.StoreInfo.MergeLabels edits the labels of the served record in
// place before anything is validated or saved.
func TestFinding_failed_label_merge_visible(t *testing.T) {
	quiet()
	hostOf := func(f *fixture) string { return f.rc.GetStore(1).GetLabelValue("host") }
	reg := func(labels ...Label) *metapb.Store {
		return toMeta(mkReq(1, "addr-1", "2.0.0", labels, 0))
	}

	// (a) failing write
	fa, err := newFixture(Case{})
	if err != nil {
		t.Fatal(err)
	}
	defer fa.cancel()
	if err := fa.rc.PutStore(reg(Label{"zone", "z1"}, Label{"host", "h1"})); err != nil {
		t.Fatal(err)
	}
	fa.pending = &fault{mode: "nth", n: 1}
	errA := fa.rc.PutStore(reg(Label{"host", "h2"}))
	fa.pending = nil
	stored := &metapb.Store{}
	fa.oracle.LoadStore(1, stored)
	storedHost := ""
	for _, l := range stored.GetLabels() {
		if l.GetKey() == "host" {
			storedHost = l.GetValue()
		}
	}
	a := errA != nil && hostOf(fa) == "h2"

	// (b) refused by strictly-match-label (no storage fault at all)
	fb, err := newFixture(Case{Strict: true})
	if err != nil {
		t.Fatal(err)
	}
	defer fb.cancel()
	if err := fb.rc.PutStore(reg(Label{"zone", "z1"}, Label{"host", "h1"})); err != nil {
		t.Fatal(err)
	}
	errB := fb.rc.PutStore(reg(Label{"host", "h2"}, Label{"rack", "r1"}))
	b := errB != nil && hostOf(fb) == "h2"

	vkit.Finding(t, KeyMergeLabels, a || b, fmt.Sprintf(
		"store 1 {zone=z1,host=h1}; (a) PutStore(id 1, host=h2) with the record write failing: err=%v, served host=%s, stored host=%s; "+
			"(b) strictly-match-label, PutStore(id 1, host=h2, rack=r1): err=%v, served host=%s",
		errA, hostOf(fa), storedHost, errB, hostOf(fb)))
}

// TestFinding_heartbeat_panics_after_tombstone_removed: store 1 is removed and buried;
// an administrator sets its weight (any write of a tombstone store re-creates its rolling
// statistics entry: putStoreLocked -> GetOrCreateRollingStoreStats); the tombstone records
// are removed before any store heartbeat arrives; the next heartbeat of ANY store panics in
// statistics.(*StoresStats).FilterUnhealthyStore (GetStore returns nil for the removed id).
func TestFinding_heartbeat_panics_after_tombstone_removed(t *testing.T) {
	quiet()
	f, err := newFixture(Case{})
	if err != nil {
		t.Fatal(err)
	}
	defer f.cancel()
	rc := f.rc
	for id := uint64(1); id <= 2; id++ {
		if err := rc.PutStore(toMeta(mkReq(id, fmt.Sprintf("addr-%d", id), "2.0.0", nil, 0))); err != nil {
			t.Fatal(err)
		}
	}
	steps := []error{rc.RemoveStore(1, false)}
	rc.VerifCheckStores()
	buried := rc.GetStore(1).IsTombstone()
	steps = append(steps, rc.SetStoreWeight(1, 2, 2), rc.RemoveTombStoneRecords())
	_, panicked := guarded(func() error {
		return rc.HandleStoreHeartbeat(&pdpb.StoreStats{StoreId: 2, Capacity: 100 << 30, Available: 60 << 30})
	})
	vkit.Finding(t, KeyHeartbeatPanic, panicked != "", fmt.Sprintf(
		"stores 1,2; RemoveStore(1), checkStores (buried=%v), SetStoreWeight(1,2,2), RemoveTombStoneRecords (errors %v); HandleStoreHeartbeat(store 2): panic=%q",
		buried, steps, panicked))
}

// TestFinding_removed_store_served_again_after_leader_round_trip: member A leads and caches
// store 1 (Up). Leadership moves to member B (A keeps running and keeps its cache — the
// BasicCluster is created once per process and RaftCluster.Stop does not clear it). On B store 1
// is removed, buried and its record removed (RemoveTombStoneRecords). Leadership returns to A:
// RaftCluster.Start -> LoadClusterInfo only puts the stores found in storage into the cache,
// so A serves store 1 as Up again although storage has no such store.
func TestFinding_removed_store_served_again_after_leader_round_trip(t *testing.T) {
	quiet()
	f, err := newFixture(Case{})
	if err != nil {
		t.Fatal(err)
	}
	defer func() { f.cancel() }()
	for id := uint64(1); id <= 2; id++ {
		if err := f.rc.PutStore(toMeta(mkReq(id, fmt.Sprintf("addr-%d", id), "2.0.0", nil, 0))); err != nil {
			t.Fatal(err)
		}
	}
	if err := f.handover(); err != nil { // A -> B
		t.Fatal(err)
	}
	steps := []error{f.rc.RemoveStore(1, false)}
	f.rc.VerifCheckStores()
	buried := f.rc.GetStore(1).IsTombstone()
	steps = append(steps, f.rc.RemoveTombStoneRecords())
	goneOnB := f.rc.GetStore(1) == nil
	if err := f.handover(); err != nil { // B -> A
		t.Fatal(err)
	}
	served := f.rc.GetStore(1)
	stored := &metapb.Store{}
	inStorage, _ := f.oracle.LoadStore(1, stored)
	state := "not served"
	if served != nil {
		state = served.GetState().String()
	}
	vkit.Finding(t, KeyStaleDeleted, served != nil && !inStorage, fmt.Sprintf(
		"member A: stores 1,2 up; handover to B; RemoveStore(1), checkStores (buried=%v), RemoveTombStoneRecords (errors %v, gone on B=%v); handover back to A: store 1 served as %s, record in storage=%v",
		buried, steps, goneOnB, state, inStorage))
}

// TestFinding_failed_setstoreweight_leaves_weight_keys: SetStoreWeight writes the leader weight
// key, the region weight key and then the store record. When the 2nd or 3rd write fails it
// returns the error and the served weights are unchanged, but the keys already written stay:
// after the next successful change of that store the stored weights still differ from the
// served ones, and a reload (restart / leader change) serves weights of a change that was
// reported as failed (or half of it).
func TestFinding_failed_setstoreweight_leaves_weight_keys(t *testing.T) {
	quiet()
	f, err := newFixture(Case{})
	if err != nil {
		t.Fatal(err)
	}
	defer func() { f.cancel() }()
	if err := f.rc.PutStore(toMeta(mkReq(1, "addr-1", "2.0.0", nil, 0))); err != nil {
		t.Fatal(err)
	}
	f.pending = &fault{mode: "nth", n: 3} // the store record write
	errW := f.rc.SetStoreWeight(1, 2, 3)
	f.pending = nil
	s := f.rc.GetStore(1)
	servedLW, servedRW := s.GetLeaderWeight(), s.GetRegionWeight()
	errRemove := f.rc.RemoveStore(1, false) // a later successful change of the same store
	stored, _ := f.loadStored()
	if err := f.restart(); err != nil {
		t.Fatal(err)
	}
	r := f.rc.GetStore(1)
	vkit.Finding(t, KeyWeightKeys, errW != nil && (stored[1].lw != servedLW || stored[1].rw != servedRW), fmt.Sprintf(
		"store 1 weights (1,1); SetStoreWeight(1,2,3) with the 3rd write (store record) failing: err=%v, served (%v,%v); RemoveStore(1) -> %v, stored weights (%v,%v); after a restart served (%v,%v)",
		errW, servedLW, servedRW, errRemove, stored[1].lw, stored[1].rw, r.GetLeaderWeight(), r.GetRegionWeight()))
}
