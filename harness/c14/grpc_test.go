package c14

// Property "grpc": the gRPC front end of a real 1-member PD refuses PutStore and
// StoreHeartbeat of a tombstone store with STORE_TOMBSTONE and changes nothing.
// One server per test process, started lazily; every case works on fresh store ids.

import (
	"context"
	"fmt"
	"os"
	"strings"
	"sync"
	"time"

	"github.com/gogo/protobuf/proto"
	"github.com/pingcap/kvproto/pkg/metapb"
	"github.com/pingcap/kvproto/pkg/pdpb"
	"github.com/pingcap/log"
	"github.com/tikv/pd/pkg/tempurl"
	"github.com/tikv/pd/pkg/typeutil"
	"github.com/tikv/pd/server"
	"github.com/tikv/pd/server/cluster"
	"github.com/tikv/pd/server/config"
	"go.etcd.io/etcd/clientv3"
	"go.etcd.io/etcd/embed"
	"google.golang.org/grpc"
	"pdverif/vkit"
	"pgregory.net/rapid"
)

type GrpcCase struct {
	Stores    int    `json:"stores"`              // fresh stores registered through gRPC (1..3)
	Victim    int    `json:"victim"`              // which of them is removed and buried
	Destroyed bool   `json:"destroyed"`           // removed as physically destroyed
	HbOffline bool   `json:"hbOffline"`           // a heartbeat while it is offline
	Change    string `json:"change"`              // what the re-registration changes: same | addr | labels | version
	HbFirst   bool   `json:"hbFirst"`             // heartbeat before the re-registration
	Admin     bool   `json:"admin"`               // afterwards also try UpStore / RemoveStore on it
	Reload    bool   `json:"reload,omitempty"`    // then the raft cluster is reloaded from storage (leadership term restart): still tombstone, still refused
	BootRound bool   `json:"bootRound,omitempty"` // first: the BOOTSTRAP store goes Offline, reload, Up, reload
}

func genGrpc(t *rapid.T) GrpcCase {
	var c GrpcCase
	c.Stores = rapid.IntRange(1, 3).Draw(t, "stores")
	c.Victim = rapid.IntRange(0, c.Stores-1).Draw(t, "victim")
	c.Destroyed = rapid.Bool().Draw(t, "destroyed")
	c.HbOffline = rapid.Bool().Draw(t, "hbOffline")
	c.Change = rapid.SampledFrom([]string{"same", "addr", "labels", "version"}).Draw(t, "change")
	c.HbFirst = rapid.Bool().Draw(t, "hbFirst")
	c.Admin = rapid.Bool().Draw(t, "admin")
	c.Reload = rapid.Bool().Draw(t, "reload")
	c.BootRound = rapid.IntRange(0, 2).Draw(t, "bootRound") == 0
	return c
}

var (
	srvOnce     sync.Once
	srvErr      error
	srv         *server.Server
	srvCancel   context.CancelFunc
	srvDataDir  string
	srvConn     *grpc.ClientConn
	srvCli      pdpb.PDClient
	bootStoreID uint64
)

func startServer() error {
	srvOnce.Do(func() {
		cfg := &config.Config{
			Name:                "pd",
			ClientUrls:          tempurl.Alloc(),
			PeerUrls:            tempurl.Alloc(),
			InitialClusterState: embed.ClusterStateFlagNew,
			LeaderLease:         5,
			TSOSaveInterval:     typeutil.NewDuration(200 * time.Millisecond),
		}
		cfg.AdvertiseClientUrls = cfg.ClientUrls
		cfg.AdvertisePeerUrls = cfg.PeerUrls
		cfg.DataDir, _ = os.MkdirTemp("", "verif_c14_pd")
		srvDataDir = cfg.DataDir
		cfg.InitialCluster = fmt.Sprintf("pd=%s", cfg.PeerUrls)
		cfg.DisableStrictReconfigCheck = true
		cfg.TickInterval = typeutil.NewDuration(100 * time.Millisecond)
		cfg.ElectionInterval = typeutil.NewDuration(3 * time.Second)
		cfg.LeaderPriorityCheckInterval = typeutil.NewDuration(100 * time.Millisecond)
		cfg.Log.Level = "fatal"
		if srvErr = cfg.SetupLogger(); srvErr != nil {
			return
		}
		log.ReplaceGlobals(cfg.GetZapLogger(), cfg.GetZapLogProperties())
		if srvErr = cfg.Adjust(nil, false); srvErr != nil {
			return
		}
		ctx, cancel := context.WithCancel(context.Background())
		srvCancel = cancel
		srv, srvErr = server.CreateServer(ctx, cfg)
		if srvErr != nil {
			return
		}
		if srvErr = srv.Run(); srvErr != nil {
			return
		}
		deadline := time.Now().Add(40 * time.Second)
		for !srv.GetMember().IsLeader() {
			if time.Now().After(deadline) {
				srvErr = fmt.Errorf("the server did not become leader within 40 s")
				return
			}
			time.Sleep(50 * time.Millisecond)
		}
		srvConn, srvErr = grpc.Dial(strings.TrimPrefix(srv.GetAddr(), "http://"), grpc.WithInsecure())
		if srvErr != nil {
			return
		}
		srvCli = pdpb.NewPDClient(srvConn)
		cctx, ccancel := context.WithTimeout(context.Background(), 20*time.Second)
		defer ccancel()
		// ids come from the server's allocator, as a TiKV would obtain them
		var boot [3]uint64
		for i := range boot {
			if boot[i], srvErr = srv.GetAllocator().Alloc(); srvErr != nil {
				return
			}
		}
		bootStoreID = boot[0]
		resp, err := srvCli.Bootstrap(cctx, &pdpb.BootstrapRequest{
			Header: &pdpb.RequestHeader{ClusterId: srv.ClusterID()},
			Store:  &metapb.Store{Id: boot[0], Address: "c14-boot:20160", Version: "4.0.0"},
			Region: &metapb.Region{Id: boot[1], Peers: []*metapb.Peer{{Id: boot[2], StoreId: boot[0], Role: metapb.PeerRole_Voter}}},
		})
		if err != nil {
			srvErr = fmt.Errorf("bootstrap: %v", err)
			return
		}
		if e := resp.GetHeader().GetError(); e != nil {
			srvErr = fmt.Errorf("bootstrap: %v", e)
			return
		}
		for srv.GetRaftCluster() == nil {
			if time.Now().After(deadline) {
				srvErr = fmt.Errorf("no running cluster after bootstrap")
				return
			}
			time.Sleep(20 * time.Millisecond)
		}
	})
	return srvErr
}

func stopServer() {
	if srv == nil && srvDataDir == "" {
		return
	}
	if srvConn != nil {
		srvConn.Close()
	}
	if srvCancel != nil {
		srvCancel()
	}
	if srv != nil {
		srv.Close()
	}
	if srvDataDir != "" {
		os.RemoveAll(srvDataDir)
	}
	srv, srvDataDir = nil, ""
}

// waitLeader returns the running cluster once this member is leader (nil after d).
func waitLeader(d time.Duration) *cluster.RaftCluster {
	deadline := time.Now().Add(d)
	for {
		if srv.GetMember().IsLeader() {
			if rc := srv.GetRaftCluster(); rc != nil {
				return rc
			}
		}
		if time.Now().After(deadline) {
			return nil
		}
		time.Sleep(50 * time.Millisecond)
	}
}

// reloadCluster ends the leadership term of the raft cluster and starts the next one: Stop, then
// Start on the server's BasicCluster with everything loaded from storage again (what the
// leader loop does with stopRaftCluster / createRaftCluster).
func reloadCluster(rc *cluster.RaftCluster) error {
	rc.Stop()
	return rc.Start(srv)
}

// checkStoreKeys: every record under <root>/raft/s/ sits at the key core.Storage uses for that
// store id (20-digit zero padded), one record per store id. The bootstrap handler writes the
// first store record itself; all later writes and LoadStore(id) go through core.Storage.
func checkStoreKeys() error {
	prefix := srv.GetClusterRootPath() + "/s/"
	ctx, cancel := context.WithTimeout(context.Background(), 15*time.Second)
	defer cancel()
	resp, err := srv.GetClient().Get(ctx, prefix, clientv3.WithPrefix())
	if err != nil {
		return errInconclusive
	}
	seen := map[uint64]string{}
	for _, kv := range resp.Kvs {
		st := &metapb.Store{}
		if err := st.Unmarshal(kv.Value); err != nil {
			return fmt.Errorf("storage key %s does not hold a store record: %v", kv.Key, err)
		}
		want := fmt.Sprintf("%s%020d", prefix, st.GetId())
		if string(kv.Key) != want {
			return fmt.Errorf("the record of store %d {%s} is stored at key %s; core.Storage reads and writes store %d at %s", st.GetId(), canonMeta(st), kv.Key, st.GetId(), want)
		}
		if other, dup := seen[st.GetId()]; dup {
			return fmt.Errorf("store %d has two records in storage: %s and %s", st.GetId(), other, kv.Key)
		}
		seen[st.GetId()] = string(kv.Key)
	}
	return nil
}

// servedEqualsStored: after a reload every served store equals its stored record.
func servedEqualsStored(rc *cluster.RaftCluster, when string) error {
	for _, s := range rc.GetStores() {
		st := &metapb.Store{}
		ok, err := srv.GetStorage().LoadStore(s.GetID(), st)
		if err != nil {
			return errInconclusive
		}
		if !ok {
			return fmt.Errorf("%s: store %d is served {%s} but has no stored record", when, s.GetID(), canonMeta(s.GetMeta()))
		}
		if !sameRecord(st, s.GetMeta()) {
			return fmt.Errorf("%s: store %d served {%s}, stored {%s}", when, s.GetID(), canonMeta(s.GetMeta()), canonMeta(st))
		}
	}
	return nil
}

// bootRound: lifecycle changes of the bootstrap store survive a reload.
func bootRound(rc *cluster.RaftCluster) error {
	boot := rc.GetStore(bootStoreID)
	if boot == nil {
		return fmt.Errorf("the bootstrap store %d is not served", bootStoreID)
	}
	if !boot.IsUp() {
		if err := rc.UpStore(bootStoreID); err != nil {
			return errInconclusive // left behind by an aborted case
		}
	}
	steps := []struct {
		name string
		do   func() error
		want metapb.StoreState
	}{
		{"RemoveStore", func() error { return rc.RemoveStore(bootStoreID, false) }, metapb.StoreState_Offline},
		{"UpStore", func() error { return rc.UpStore(bootStoreID) }, metapb.StoreState_Up},
	}
	for _, st := range steps {
		if err := st.do(); err != nil {
			return fmt.Errorf("%s(bootstrap store %d) failed: %v", st.name, bootStoreID, err)
		}
		if err := reloadCluster(rc); err != nil {
			return fmt.Errorf("reload of the raft cluster after %s(bootstrap store) failed: %v", st.name, err)
		}
		got := rc.GetStore(bootStoreID)
		if got == nil || got.GetState() != st.want {
			state := "not served"
			if got != nil {
				state = got.GetState().String()
			}
			return fmt.Errorf("after %s(bootstrap store %d) and a reload from storage the store is %s, want %s", st.name, bootStoreID, state, st.want)
		}
		when := fmt.Sprintf("after %s(bootstrap store %d) and a reload", st.name, bootStoreID)
		if err := servedEqualsStored(rc, when); err != nil {
			return err
		}
		if err := checkStoreKeys(); err != nil {
			return err
		}
	}
	return nil
}

func hdr() *pdpb.RequestHeader { return &pdpb.RequestHeader{ClusterId: srv.ClusterID()} }

func rpcPut(s *metapb.Store) (*pdpb.PutStoreResponse, error) {
	ctx, cancel := context.WithTimeout(context.Background(), 15*time.Second)
	defer cancel()
	return srvCli.PutStore(ctx, &pdpb.PutStoreRequest{Header: hdr(), Store: s})
}

func rpcHeartbeat(id uint64) (*pdpb.StoreHeartbeatResponse, error) {
	ctx, cancel := context.WithTimeout(context.Background(), 15*time.Second)
	defer cancel()
	return srvCli.StoreHeartbeat(ctx, &pdpb.StoreHeartbeatRequest{Header: hdr(),
		Stats: &pdpb.StoreStats{StoreId: id, Capacity: 100 << 30, Available: 70 << 30, UsedSize: 30 << 30}})
}

// what must not change for a tombstone store
type tombView struct {
	meta   *metapb.Store
	stored *metapb.Store
	lastHB time.Time
	stats  *pdpb.StoreStats
}

func viewOf(rc *cluster.RaftCluster, id uint64) (tombView, error) {
	s := rc.GetStore(id)
	if s == nil {
		return tombView{}, fmt.Errorf("store %d is not served", id)
	}
	v := tombView{meta: proto.Clone(s.GetMeta()).(*metapb.Store), lastHB: s.GetLastHeartbeatTS(),
		stats: proto.Clone(s.GetStoreStats()).(*pdpb.StoreStats), stored: &metapb.Store{}}
	ok, err := srv.GetStorage().LoadStore(id, v.stored)
	if err != nil {
		return v, fmt.Errorf("LoadStore(%d): %v", id, err)
	}
	if !ok {
		v.stored = nil
	}
	return v, nil
}

func (v tombView) diff(w tombView) string {
	switch {
	case !proto.Equal(v.meta, w.meta):
		return fmt.Sprintf("served record {%s} -> {%s}", canonMeta(v.meta), canonMeta(w.meta))
	case (v.stored == nil) != (w.stored == nil) || (v.stored != nil && !proto.Equal(v.stored, w.stored)):
		return fmt.Sprintf("stored record {%v} -> {%v}", v.stored, w.stored)
	case !v.lastHB.Equal(w.lastHB):
		return fmt.Sprintf("last heartbeat %v -> %v", v.lastHB, w.lastHB)
	case !proto.Equal(v.stats, w.stats):
		return fmt.Sprintf("store stats {%v} -> {%v}", v.stats, w.stats)
	}
	return ""
}

func runGrpc(c GrpcCase) (info vkit.Info, err error) {
	inconclusive := func(why string) (vkit.Info, error) {
		info.Inconclusive = true
		info.Class("inconclusive:" + why)
		return info, nil
	}
	if e := startServer(); e != nil {
		fmt.Println("C14 grpc: server fixture not available:", e)
		return inconclusive("no-server")
	}
	rc := waitLeader(15 * time.Second)
	if rc == nil {
		return inconclusive("not-leader")
	}
	// a verdict is only meaningful when the member was leader with the same running cluster
	// throughout the case (on a very busy machine the 1-member server can lose its lease;
	// writes of a deposed leader fail and the cluster object is replaced)
	defer func() {
		if err != nil && (!srv.GetMember().IsLeader() || srv.GetRaftCluster() != rc) {
			info, err = vkit.Info{Inconclusive: true, Classes: []string{"inconclusive:leader-changed"}}, nil
		}
	}()
	if e := checkStoreKeys(); e == errInconclusive {
		return inconclusive("rpc-error")
	} else if e != nil {
		return info, e
	}
	if c.BootRound {
		if e := bootRound(rc); e == errInconclusive {
			return inconclusive("rpc-error")
		} else if e != nil {
			return info, e
		}
		info.Class("bootstrap-store-offline-reload-up-reload")
	}
	var ids []uint64
	metas := map[uint64]*metapb.Store{}
	for i := 0; i < c.Stores; i++ {
		id, e := rc.AllocID()
		if e != nil {
			return inconclusive("alloc-id")
		}
		ids = append(ids, id)
		metas[id] = &metapb.Store{Id: id, Address: fmt.Sprintf("c14-%d:20160", id), StatusAddress: fmt.Sprintf("c14-%d:20180", id),
			Version: "4.0.0", Labels: []*metapb.StoreLabel{{Key: "zone", Value: "z1"}}, StartTimestamp: 1600000000}
	}
	// whatever happens, leave no live stores of this case behind (addresses and cache stay small)
	defer func() {
		for _, id := range ids {
			if s := rc.GetStore(id); s != nil && !s.IsTombstone() {
				_ = rc.RemoveStore(id, true)
			}
		}
		rc.VerifCheckStores()
		// a heartbeat of the bootstrap store first: if a defect let a write of a tombstone store
		// through, removing its record now would make the next heartbeat crash the whole
		// process (finding C14/heartbeat-panics-after-tombstone-removed) before this case is reported
		_, _ = rpcHeartbeat(bootStoreID)
		_ = rc.RemoveTombStoneRecords()
	}()
	for _, id := range ids {
		resp, e := rpcPut(metas[id])
		if e != nil {
			return inconclusive("rpc-error")
		}
		if pe := resp.GetHeader().GetError(); pe != nil {
			return info, fmt.Errorf("registration of fresh store %d answered with %v", id, pe)
		}
		hb, e := rpcHeartbeat(id)
		if e != nil {
			return inconclusive("rpc-error")
		}
		if pe := hb.GetHeader().GetError(); pe != nil {
			return info, fmt.Errorf("heartbeat of up store %d answered with %v", id, pe)
		}
	}
	victim := ids[c.Victim]
	if e := rc.RemoveStore(victim, c.Destroyed); e != nil {
		return info, fmt.Errorf("RemoveStore(%d, %v) of an up store failed: %v", victim, c.Destroyed, e)
	}
	if s := rc.GetStore(victim); s == nil || !(s.IsOffline() || s.IsTombstone()) {
		return info, fmt.Errorf("store %d is not offline after RemoveStore", victim)
	}
	if c.HbOffline {
		hb, e := rpcHeartbeat(victim)
		if e != nil {
			return inconclusive("rpc-error")
		}
		// (the background job may already have buried it)
		if pe := hb.GetHeader().GetError(); pe != nil && !rc.GetStore(victim).IsTombstone() {
			return info, fmt.Errorf("heartbeat of offline store %d answered with %v", victim, pe)
		}
		info.Class("heartbeat-while-offline")
	}
	rc.VerifCheckStores()
	if s := rc.GetStore(victim); s == nil || !s.IsTombstone() {
		return inconclusive("not-buried")
	}
	before, e := viewOf(rc, victim)
	if e != nil {
		return info, e
	}
	again := proto.Clone(metas[victim]).(*metapb.Store)
	switch c.Change {
	case "addr":
		again.Address = fmt.Sprintf("c14-%d-moved:20160", victim)
	case "labels":
		again.Labels = []*metapb.StoreLabel{{Key: "zone", Value: "z2"}, {Key: "host", Value: "h1"}}
	case "version":
		again.Version = "4.0.1"
	}
	info.Class("reregister-" + c.Change)
	doPut := func() error {
		resp, e := rpcPut(again)
		if e != nil {
			return errInconclusive
		}
		if pe := resp.GetHeader().GetError(); pe == nil || pe.GetType() != pdpb.ErrorType_STORE_TOMBSTONE {
			return fmt.Errorf("PutStore of tombstone store %d answered with header error %v, want STORE_TOMBSTONE", victim, pe)
		}
		return nil
	}
	doHB := func() error {
		hb, e := rpcHeartbeat(victim)
		if e != nil {
			return errInconclusive
		}
		if pe := hb.GetHeader().GetError(); pe == nil || pe.GetType() != pdpb.ErrorType_STORE_TOMBSTONE {
			return fmt.Errorf("StoreHeartbeat of tombstone store %d answered with header error %v, want STORE_TOMBSTONE", victim, pe)
		}
		return nil
	}
	steps := []func() error{doPut, doHB}
	if c.HbFirst {
		steps = []func() error{doHB, doPut}
	}
	for _, st := range steps {
		if e := st(); e == errInconclusive {
			return inconclusive("rpc-error")
		} else if e != nil {
			return info, e
		}
		after, e := viewOf(rc, victim)
		if e != nil {
			return info, e
		}
		if d := before.diff(after); d != "" {
			return info, fmt.Errorf("a refused request of tombstone store %d changed it: %s", victim, d)
		}
	}
	if c.Admin {
		if e := rc.UpStore(victim); e == nil {
			return info, fmt.Errorf("UpStore of tombstone store %d succeeded", victim)
		}
		if e := rc.RemoveStore(victim, false); e == nil {
			return info, fmt.Errorf("RemoveStore of tombstone store %d succeeded", victim)
		}
		after, e := viewOf(rc, victim)
		if e != nil {
			return info, e
		}
		if d := before.diff(after); d != "" {
			return info, fmt.Errorf("refused admin commands changed tombstone store %d: %s", victim, d)
		}
		info.Class("admin-after-tombstone")
	}
	if c.Reload {
		if e := reloadCluster(rc); e != nil {
			return info, fmt.Errorf("reload of the raft cluster failed: %v", e)
		}
		after, e := viewOf(rc, victim)
		if e != nil {
			return info, fmt.Errorf("after a reload from storage: %v", e)
		}
		if !sameRecord(before.meta, after.meta) || after.meta.GetState() != metapb.StoreState_Tombstone {
			return info, fmt.Errorf("after a reload from storage tombstone store %d is served as {%s}, before {%s}", victim, canonMeta(after.meta), canonMeta(before.meta))
		}
		if e := servedEqualsStored(rc, "after a reload"); e == errInconclusive {
			return inconclusive("rpc-error")
		} else if e != nil {
			return info, e
		}
		if e := doPut(); e == errInconclusive {
			return inconclusive("rpc-error")
		} else if e != nil {
			return info, fmt.Errorf("after a reload from storage: %v", e)
		}
		if e := checkStoreKeys(); e == errInconclusive {
			return inconclusive("rpc-error")
		} else if e != nil {
			return info, e
		}
		info.Class("reload-after-tombstone")
	}
	// the others are still served normally
	for _, id := range ids {
		if id == victim {
			continue
		}
		resp, e := rpcPut(metas[id])
		if e != nil {
			return inconclusive("rpc-error")
		}
		if pe := resp.GetHeader().GetError(); pe != nil {
			return info, fmt.Errorf("re-registration of up store %d answered with %v", id, pe)
		}
		info.Class("control-store-accepted")
	}
	info.ClassIf(c.Destroyed, "physically-destroyed")
	info.NonTrivial = true
	return info, nil
}

var errInconclusive = fmt.Errorf("inconclusive")
