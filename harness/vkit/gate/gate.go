// Package gate is a harness-owned scheduler at storage-operation granularity.
// Tasks (one goroutine per logical request) park when they call Enter from an
// intercepted storage operation; the case contains the order (a list of small
// integers) in which parked tasks are released.
package gate

import (
	"bytes"
	"fmt"
	"runtime"
	"strings"
	"sync"
	"time"
)

// Decision for a parked operation.
type Decision int

const (
	Proceed Decision = iota // run the operation
	Fail                    // fail before applying
)

type parked struct {
	task int
	kind string
	key  string
	wake chan Decision
}

// Sched runs tasks under a schedule.
type Sched struct {
	mu      sync.Mutex
	parked  []*parked
	live    map[int]bool
	done    map[int]bool
	current map[uint64]int // goroutine id -> task (tasks register themselves)
	Trace   []string
	// Watchdog is the no-progress timeout after which Run gives up (inconclusive).
	Watchdog time.Duration
	disabled bool
	wg       sync.WaitGroup
	// Strict: a decision point is reached only when EVERY live task is parked (or finished).
	// Use it when tasks never block on each other: then one released operation has fully
	// completed (including its After hook / model update) before the next one is released.
	// Without it a task that is blocked on a lock held by a parked task counts as settled.
	Strict bool
}

// New creates a scheduler.
func New() *Sched {
	return &Sched{live: map[int]bool{}, done: map[int]bool{}, current: map[uint64]int{}, Watchdog: 20 * time.Second}
}

func goid() uint64 {
	b := make([]byte, 64)
	b = b[:runtime.Stack(b, false)]
	b = bytes.TrimPrefix(b, []byte("goroutine "))
	var id uint64
	for _, c := range b {
		if c < '0' || c > '9' {
			break
		}
		id = id*10 + uint64(c-'0')
	}
	return id
}

// Enter is called from an intercepted operation. Operations issued by goroutines
// that are not registered tasks pass through. Returns an error if the decision is Fail.
func (s *Sched) Enter(kind, key string) error {
	g := goid()
	s.mu.Lock()
	task, ok := s.current[g]
	if !ok || s.disabled {
		s.mu.Unlock()
		return nil
	}
	p := &parked{task: task, kind: kind, key: key, wake: make(chan Decision, 1)}
	s.parked = append(s.parked, p)
	s.mu.Unlock()
	d := <-p.wake
	if d == Fail {
		return fmt.Errorf("verif: injected failure at gate (%s %s)", kind, key)
	}
	return nil
}

// Go starts a task. fn runs on its own goroutine; storage operations it issues on
// that goroutine park at the gate.
func (s *Sched) Go(task int, fn func()) {
	s.mu.Lock()
	s.live[task] = true
	s.mu.Unlock()
	ready := make(chan struct{})
	s.wg.Add(1)
	go func() {
		defer s.wg.Done()
		g := goid()
		s.mu.Lock()
		s.current[g] = task
		s.mu.Unlock()
		close(ready)
		defer func() {
			s.mu.Lock()
			delete(s.current, g)
			delete(s.live, task)
			s.done[task] = true
			s.mu.Unlock()
		}()
		fn()
	}()
	<-ready
}

// Adopt registers the calling goroutine as task (for code that spawns its own goroutine).
func (s *Sched) Adopt(task int) func() {
	g := goid()
	s.mu.Lock()
	s.current[g] = task
	s.mu.Unlock()
	return func() { s.mu.Lock(); delete(s.current, g); s.mu.Unlock() }
}

// quiescent: every live task is parked or blocked on a lock/channel.
func (s *Sched) snapshot() (nParked, nLive int) {
	s.mu.Lock()
	defer s.mu.Unlock()
	return len(s.parked), len(s.live)
}

// blockedTasks counts goroutines that are in a blocked state and mention fn marker;
// cheap heuristic: total goroutines in lock/chan wait. Used only for settling.
func blockedCount() int {
	buf := make([]byte, 1<<20)
	buf = buf[:runtime.Stack(buf, true)]
	n := 0
	for _, l := range strings.Split(string(buf), "\n") {
		if strings.HasPrefix(l, "goroutine ") && (strings.Contains(l, "[sync.Mutex.Lock") || strings.Contains(l, "[sync.RWMutex.") || strings.Contains(l, "[semacquire")) {
			n++
		}
	}
	return n
}

// settle waits until the set of parked operations is stable: all live tasks
// parked, or no change for a few polls while the rest is blocked on locks.
func (s *Sched) settle() (parkedN, live int) {
	deadline := time.Now().Add(s.Watchdog)
	stable := 0
	lastP, lastL := -1, -1
	for time.Now().Before(deadline) {
		p, l := s.snapshot()
		if l == 0 || p == l {
			return p, l
		}
		if p == lastP && l == lastL {
			stable++
		} else {
			stable = 0
		}
		lastP, lastL = p, l
		if s.Strict {
			time.Sleep(200 * time.Microsecond)
			continue
		}
		if stable >= 4 && p > 0 {
			// some task neither parked nor finished: accept if it is blocked on a lock
			if blockedCount() >= l-p {
				return p, l
			}
		}
		if stable >= 40 && p > 0 {
			return p, l
		}
		time.Sleep(500 * time.Microsecond)
	}
	return s.snapshot()
}

// Run releases parked operations following schedule until every task is done.
// decide (optional) maps (step, parked op) to a Decision. Returns false if the
// watchdog fired (inconclusive).
func (s *Sched) Run(schedule []int, decide func(step int, task int, kind, key string) Decision) bool {
	step := 0
	for {
		p, l := s.settle()
		if l == 0 {
			return true
		}
		if p == 0 {
			// live tasks but nothing parked within the watchdog: stuck
			return false
		}
		choice := 0
		if step < len(schedule) {
			choice = schedule[step]
		}
		s.mu.Lock()
		// deterministic order: by task id, then arrival
		idx := orderByTask(s.parked)
		k := idx[((choice%len(idx))+len(idx))%len(idx)]
		pk := s.parked[k]
		s.parked = append(s.parked[:k], s.parked[k+1:]...)
		s.mu.Unlock()
		d := Proceed
		if decide != nil {
			d = decide(step, pk.task, pk.kind, pk.key)
		}
		s.Trace = append(s.Trace, fmt.Sprintf("%d:%s:%s:%d", pk.task, pk.kind, pk.key, d))
		pk.wake <- d
		step++
	}
}

// Disable lets every later operation pass (used after the scheduled part).
func (s *Sched) Disable() {
	s.mu.Lock()
	s.disabled = true
	ps := s.parked
	s.parked = nil
	s.mu.Unlock()
	for _, p := range ps {
		p.wake <- Proceed
	}
}

func orderByTask(ps []*parked) []int {
	idx := make([]int, len(ps))
	for i := range idx {
		idx[i] = i
	}
	for i := 1; i < len(idx); i++ {
		for j := i; j > 0 && ps[idx[j]].task < ps[idx[j-1]].task; j-- {
			idx[j], idx[j-1] = idx[j-1], idx[j]
		}
	}
	return idx
}

// Wait blocks until every task started with Go has returned (call after Disable, also on
// the inconclusive path: a task that is still running would issue its late operations
// into the next case). Returns false if they did not finish within the timeout.
func (s *Sched) Wait(timeout time.Duration) bool {
	done := make(chan struct{})
	go func() { s.wg.Wait(); close(done) }()
	select {
	case <-done:
		return true
	case <-time.After(timeout):
		return false
	}
}
