// Package etcdfix provides one embedded etcd per test process, clients whose every
// unary RPC (Range, Txn, Put, DeleteRange, LeaseGrant, LeaseRevoke) passes through a
// harness interceptor (count / log / fail-before / lost-ack / gate), and a raw
// client for the oracle's own reads and out-of-band writes.
package etcdfix

import (
	"context"
	"errors"
	"fmt"
	"os"
	"strings"
	"sync"
	"sync/atomic"
	"time"

	"github.com/tikv/pd/pkg/etcdutil"
	"go.etcd.io/etcd/clientv3"
	"go.etcd.io/etcd/embed"
	pb "go.etcd.io/etcd/etcdserver/etcdserverpb"
	"google.golang.org/grpc"
)

// ErrInjected is returned for an injected RPC failure.
var ErrInjected = errors.New("verif: injected etcd failure")

// Fixture is the per-process etcd.
type Fixture struct {
	Etcd     *embed.Etcd
	Endpoint string
	cfg      *embed.Config
	Raw      *clientv3.Client
	caseNo   int64
}

var (
	once sync.Once
	fix  *Fixture
	ferr error
)

// Get starts (once) and returns the per-process etcd. An error means the fixture
// could not be started (inconclusive, never a violation).
func Get() (*Fixture, error) {
	once.Do(func() {
		for attempt := 0; attempt < 5; attempt++ {
			cfg := etcdutil.NewTestSingleConfig()
			cfg.LogOutputs = []string{"/dev/null"}
			cfg.LogLevel = "error"
			e, err := embed.StartEtcd(cfg)
			if err != nil {
				os.RemoveAll(cfg.Dir)
				ferr = err
				time.Sleep(200 * time.Millisecond)
				continue
			}
			select {
			case <-e.Server.ReadyNotify():
			case <-time.After(30 * time.Second):
				e.Close()
				os.RemoveAll(cfg.Dir)
				ferr = errors.New("etcd not ready in 30s")
				continue
			}
			f := &Fixture{Etcd: e, Endpoint: cfg.LCUrls[0].String(), cfg: cfg}
			raw, err := clientv3.New(clientv3.Config{Endpoints: []string{f.Endpoint}, DialTimeout: 5 * time.Second})
			if err != nil {
				e.Close()
				os.RemoveAll(cfg.Dir)
				ferr = err
				continue
			}
			f.Raw = raw
			fix, ferr = f, nil
			return
		}
	})
	return fix, ferr
}

// Close stops etcd and removes its directory (call from TestMain after m.Run()).
func Close() {
	if fix != nil {
		fix.Raw.Close()
		fix.Etcd.Close()
		os.RemoveAll(fix.cfg.Dir)
	}
}

// Root returns a fresh root path for a case.
func (f *Fixture) Root() string {
	return fmt.Sprintf("/pd/c%d", atomic.AddInt64(&f.caseNo, 1))
}

// Action decided by a Before hook.
type Action int

const (
	Proceed    Action = iota
	FailBefore        // return an error, do not send
	LostAck           // send and apply, then return an error
)

// Event is one intercepted unary RPC.
type Event struct {
	Seq     int
	Method  string // Range, Txn, Put, DeleteRange, LeaseGrant, LeaseRevoke
	Req     interface{}
	Keys    []string          // keys written (Put / Txn success ops) or read (Range)
	Puts    map[string]string // key -> value for puts of a Txn's success branch or a Put
	Write   bool
	Action  Action
	Err     error
	Applied bool // for Txn: Succeeded; for Put/Delete: sent without transport error
	Resp    interface{}
}

// Hooks is the per-client interception state.
type Hooks struct {
	mu     sync.Mutex
	seq    int
	Before func(*Event) Action
	After  func(*Event)
	Log    []*Event
	Keep   bool
	// Streams: also deliver lease keep-alive round trips (method "LeaseKeepAlive": Before runs on the sending
	// goroutine before the request is sent, After once the response was received or the receive failed).
	Streams bool
}

// TakeLog returns and clears the log.
func (h *Hooks) TakeLog() []*Event {
	h.mu.Lock()
	defer h.mu.Unlock()
	l := h.Log
	h.Log = nil
	return l
}

// SetStreams switches the delivery of lease keep-alive round trips on or off.
func (h *Hooks) SetStreams(on bool) {
	h.mu.Lock()
	h.Streams = on
	h.mu.Unlock()
}

// Set replaces the hook functions.
func (h *Hooks) Set(before func(*Event) Action, after func(*Event)) {
	h.mu.Lock()
	h.Before, h.After = before, after
	h.mu.Unlock()
}

func describe(method string, req interface{}) *Event {
	ev := &Event{Req: req}
	switch r := req.(type) {
	case *pb.RangeRequest:
		ev.Method = "Range"
		ev.Keys = []string{string(r.Key)}
	case *pb.PutRequest:
		ev.Method, ev.Write = "Put", true
		ev.Keys = []string{string(r.Key)}
		ev.Puts = map[string]string{string(r.Key): string(r.Value)}
	case *pb.DeleteRangeRequest:
		ev.Method, ev.Write = "DeleteRange", true
		ev.Keys = []string{string(r.Key)}
	case *pb.TxnRequest:
		ev.Method = "Txn"
		ev.Puts = map[string]string{}
		for _, op := range r.Success {
			if p := op.GetRequestPut(); p != nil {
				ev.Write = true
				ev.Keys = append(ev.Keys, string(p.Key))
				ev.Puts[string(p.Key)] = string(p.Value)
			}
			if d := op.GetRequestDeleteRange(); d != nil {
				ev.Write = true
				ev.Keys = append(ev.Keys, string(d.Key))
			}
		}
		if !ev.Write {
			for _, c := range r.Compare {
				ev.Keys = append(ev.Keys, string(c.Key))
			}
		}
	case *pb.LeaseGrantRequest:
		ev.Method = "LeaseGrant"
	case *pb.LeaseRevokeRequest:
		ev.Method = "LeaseRevoke"
	default:
		ev.Method = method
	}
	return ev
}

func (h *Hooks) interceptor() grpc.UnaryClientInterceptor {
	return func(ctx context.Context, method string, req, reply interface{}, cc *grpc.ClientConn, invoker grpc.UnaryInvoker, opts ...grpc.CallOption) error {
		ev := describe(method, req)
		h.mu.Lock()
		h.seq++
		ev.Seq = h.seq
		before, after := h.Before, h.After
		h.mu.Unlock()
		if before != nil {
			ev.Action = before(ev)
		}
		var err error
		if ev.Action == FailBefore {
			err = ErrInjected
		} else {
			err = invoker(ctx, method, req, reply, cc, opts...)
			if err == nil {
				ev.Applied = true
				if tr, ok := reply.(*pb.TxnResponse); ok {
					ev.Applied = tr.Succeeded
				}
				ev.Resp = reply
				if ev.Action == LostAck {
					err = ErrInjected
				}
			}
		}
		ev.Err = err
		h.mu.Lock()
		if h.Keep {
			h.Log = append(h.Log, ev)
		}
		h.mu.Unlock()
		if after != nil {
			after(ev)
		}
		return err
	}
}

// keepAliveStream wraps the LeaseKeepAlive bidi stream of a client: one Event per request/response pair.
type keepAliveStream struct {
	grpc.ClientStream
	h   *Hooks
	mu  sync.Mutex
	evs []*Event // sent, response not yet seen
}

func (s *keepAliveStream) SendMsg(m interface{}) error {
	h := s.h
	h.mu.Lock()
	on, before := h.Streams, h.Before
	h.seq++
	ev := &Event{Seq: h.seq, Method: "LeaseKeepAlive", Req: m}
	h.mu.Unlock()
	if !on {
		return s.ClientStream.SendMsg(m)
	}
	if before != nil {
		ev.Action = before(ev)
	}
	if ev.Action == FailBefore {
		ev.Err = ErrInjected
		h.mu.Lock()
		after := h.After
		h.mu.Unlock()
		if after != nil {
			after(ev)
		}
		return ErrInjected
	}
	s.mu.Lock()
	s.evs = append(s.evs, ev)
	s.mu.Unlock()
	return s.ClientStream.SendMsg(m)
}

func (s *keepAliveStream) RecvMsg(m interface{}) error {
	err := s.ClientStream.RecvMsg(m)
	s.mu.Lock()
	var ev *Event
	if len(s.evs) > 0 {
		ev = s.evs[0]
		s.evs = s.evs[1:]
	}
	s.mu.Unlock()
	if ev == nil {
		return err
	}
	if err == nil {
		ev.Applied, ev.Resp = true, m
		if ev.Action == LostAck {
			err = ErrInjected
		}
	}
	ev.Err = err
	s.h.mu.Lock()
	after := s.h.After
	s.h.mu.Unlock()
	if after != nil {
		after(ev)
	}
	return err
}

func (h *Hooks) streamInterceptor() grpc.StreamClientInterceptor {
	return func(ctx context.Context, desc *grpc.StreamDesc, cc *grpc.ClientConn, method string, streamer grpc.Streamer, opts ...grpc.CallOption) (grpc.ClientStream, error) {
		cs, err := streamer(ctx, desc, cc, method, opts...)
		if err != nil || !strings.HasSuffix(method, "/LeaseKeepAlive") {
			return cs, err
		}
		return &keepAliveStream{ClientStream: cs, h: h}, nil
	}
}

// NewClient creates a client whose unary RPCs pass through hooks.
func (f *Fixture) NewClient(h *Hooks) (*clientv3.Client, error) {
	cfg := clientv3.Config{Endpoints: []string{f.Endpoint}, DialTimeout: 5 * time.Second}
	if h != nil {
		cfg.DialOptions = []grpc.DialOption{grpc.WithChainUnaryInterceptor(h.interceptor()), grpc.WithChainStreamInterceptor(h.streamInterceptor())}
	}
	return clientv3.New(cfg)
}

// GetRaw reads a key through the raw client: value, mod revision, lease, found.
func (f *Fixture) GetRaw(key string) (val string, modRev int64, lease int64, ok bool) {
	ctx, cancel := context.WithTimeout(context.Background(), 10*time.Second)
	defer cancel()
	resp, err := f.Raw.Get(ctx, key)
	if err != nil || len(resp.Kvs) == 0 {
		return "", 0, 0, false
	}
	kv := resp.Kvs[0]
	return string(kv.Value), kv.ModRevision, kv.Lease, true
}

// PrefixRaw reads all keys under a prefix through the raw client.
func (f *Fixture) PrefixRaw(prefix string) map[string]string {
	ctx, cancel := context.WithTimeout(context.Background(), 10*time.Second)
	defer cancel()
	out := map[string]string{}
	resp, err := f.Raw.Get(ctx, prefix, clientv3.WithPrefix())
	if err != nil {
		return out
	}
	for _, kv := range resp.Kvs {
		out[string(kv.Key)] = string(kv.Value)
	}
	return out
}

// PutRaw / DeleteRaw are out-of-band writes by the harness.
func (f *Fixture) PutRaw(key, val string) error {
	ctx, cancel := context.WithTimeout(context.Background(), 10*time.Second)
	defer cancel()
	_, err := f.Raw.Put(ctx, key, val)
	return err
}

// DeleteRaw deletes a key (or prefix when prefix is true).
func (f *Fixture) DeleteRaw(key string, prefix bool) error {
	ctx, cancel := context.WithTimeout(context.Background(), 10*time.Second)
	defer cancel()
	var err error
	if prefix {
		_, err = f.Raw.Delete(ctx, key, clientv3.WithPrefix())
	} else {
		_, err = f.Raw.Delete(ctx, key)
	}
	return err
}

// RevokeRaw revokes a lease out of band (etcd-side expiry).
func (f *Fixture) RevokeRaw(lease int64) error {
	ctx, cancel := context.WithTimeout(context.Background(), 10*time.Second)
	defer cancel()
	_, err := f.Raw.Revoke(ctx, clientv3.LeaseID(lease))
	return err
}
