// Package faultkv wraps a kv.Base: it counts and logs operations, fails the n-th
// write (clean failure: the write is not applied), limits LoadRange by a byte
// budget and can park every operation at a gate.
package faultkv

import (
	"errors"
	"fmt"
	"sync"

	"github.com/tikv/pd/server/kv"
)

// ErrInjected is returned by a failed operation.
var ErrInjected = errors.New("verif: injected storage failure")

// Event is one storage operation as seen by the wrapper.
type Event struct {
	Kind    string // load, range, save, remove
	Key     string
	Value   string
	Applied bool
	Failed  bool
}

// Gate is called before an operation is executed; it may block (scheduling point).
// Returning an error fails the operation without applying it.
type Gate func(kind, key string) error

// KV is the wrapper.
type KV struct {
	mu         sync.Mutex
	base       kv.Base
	writes     int  // number of writes seen since ResetCounters
	FailWrite  int  // 1-based index of the write to fail, 0 = none
	FailAllW   bool // fail every write
	FailLoads  bool // fail every Load/LoadRange
	RangeBytes int  // >0: LoadRange fails when the result exceeds this many bytes (simulates the message size limit)
	Log        []Event
	KeepLog    bool
	gate       Gate
}

// New wraps base.
func New(base kv.Base) *KV { return &KV{base: base} }

// Base returns the wrapped store (for the oracle's own reads).
func (k *KV) Base() kv.Base { return k.base }

// SetGate installs a gate (nil removes it).
func (k *KV) SetGate(g Gate) { k.mu.Lock(); k.gate = g; k.mu.Unlock() }

// ResetCounters restarts write numbering and clears the fail index.
func (k *KV) ResetCounters() {
	k.mu.Lock()
	k.writes, k.FailWrite, k.FailAllW = 0, 0, false
	k.mu.Unlock()
}

// FailNth arms a failure of the n-th write from now (1-based).
func (k *KV) FailNth(n int) {
	k.mu.Lock()
	k.writes, k.FailWrite = 0, n
	k.mu.Unlock()
}

// Writes returns the number of writes seen since the last reset.
func (k *KV) Writes() int { k.mu.Lock(); defer k.mu.Unlock(); return k.writes }

// TakeLog returns and clears the event log.
func (k *KV) TakeLog() []Event {
	k.mu.Lock()
	defer k.mu.Unlock()
	l := k.Log
	k.Log = nil
	return l
}

func (k *KV) enter(kind, key string) error {
	k.mu.Lock()
	g := k.gate
	k.mu.Unlock()
	if g != nil {
		return g(kind, key)
	}
	return nil
}

func (k *KV) logEv(e Event) {
	if k.KeepLog {
		k.Log = append(k.Log, e)
	}
}

// Load implements kv.Base.
func (k *KV) Load(key string) (string, error) {
	if err := k.enter("load", key); err != nil {
		return "", err
	}
	k.mu.Lock()
	fl := k.FailLoads
	k.logEv(Event{Kind: "load", Key: key, Failed: fl})
	k.mu.Unlock()
	if fl {
		return "", ErrInjected
	}
	return k.base.Load(key)
}

// LoadRange implements kv.Base.
func (k *KV) LoadRange(key, endKey string, limit int) ([]string, []string, error) {
	if err := k.enter("range", key); err != nil {
		return nil, nil, err
	}
	k.mu.Lock()
	fl, budget := k.FailLoads, k.RangeBytes
	k.logEv(Event{Kind: "range", Key: key, Value: fmt.Sprintf("%s|%d", endKey, limit), Failed: fl})
	k.mu.Unlock()
	if fl {
		return nil, nil, ErrInjected
	}
	ks, vs, err := k.base.LoadRange(key, endKey, limit)
	if err == nil && budget > 0 {
		n := 0
		for i := range ks {
			n += len(ks[i]) + len(vs[i])
		}
		if n > budget {
			// same text as gRPC's message-size error, which loadRegions reacts to
			return nil, nil, fmt.Errorf("rpc error: code = ResourceExhausted desc = grpc: received message larger than max (%d vs. %d)", n, budget)
		}
	}
	return ks, vs, err
}

func (k *KV) write(kind, key, value string, do func() error) error {
	if err := k.enter(kind, key); err != nil {
		return err
	}
	k.mu.Lock()
	k.writes++
	fail := k.FailAllW || (k.FailWrite != 0 && k.writes == k.FailWrite)
	k.logEv(Event{Kind: kind, Key: key, Value: value, Applied: !fail, Failed: fail})
	k.mu.Unlock()
	if fail {
		return ErrInjected
	}
	return do()
}

// Save implements kv.Base.
func (k *KV) Save(key, value string) error {
	return k.write("save", key, value, func() error { return k.base.Save(key, value) })
}

// Remove implements kv.Base.
func (k *KV) Remove(key string) error {
	return k.write("remove", key, "", func() error { return k.base.Remove(key) })
}

// Dump returns the whole content of a store as a map (oracle helper).
func Dump(b kv.Base) map[string]string {
	out := map[string]string{}
	start := ""
	for {
		ks, vs, err := b.LoadRange(start, "\xff\xff\xff\xff\xff\xff\xff\xff", 1000)
		if err != nil || len(ks) == 0 {
			return out
		}
		for i := range ks {
			out[ks[i]] = vs[i]
		}
		start = ks[len(ks)-1] + "\x00"
	}
}
