// Package vkit is the shared kit of the pdverif harness: registration of
// generated properties, seeding, statistics for the evidence file, replay
// files, known-finding probes.
//
// A property is a pair (gen, run): gen draws a plain-data case with rapid, run
// executes the case against the real code and an explicit oracle and returns an
// error for a violation. Cases are JSON-serialisable so that a failing (shrunk)
// case becomes the replay file and is re-executed without the library.
package vkit

import (
	"encoding/binary"
	"encoding/json"
	"flag"
	"fmt"
	"hash/fnv"
	"io"
	"os"
	"path/filepath"
	"runtime/debug"
	"sort"
	"strconv"
	"strings"
	"sync"
	"testing"
	"time"

	pdlog "github.com/pingcap/log"
	"go.uber.org/zap"
	"go.uber.org/zap/zapcore"
	"pgregory.net/rapid"
)

// N is the number of cases for a property per tier (whole run, all shards).
type N struct{ Quick, Thorough int }

// Info is what a passing execution reports about itself.
type Info struct {
	NonTrivial   bool
	Classes      []string
	Excluded     []string    // known-finding trigger classes that were excluded by construction in this case
	Inconclusive bool        // the case could not be decided (e.g. gate watchdog); never a violation
	Sample       interface{} // optional: what to show as a sample instead of the case itself
}

func (i *Info) Class(c string)   { i.Classes = append(i.Classes, c) }
func (i *Info) Exclude(k string) { i.Excluded = append(i.Excluded, k) }
func (i *Info) ClassIf(b bool, c string) {
	if b {
		i.Classes = append(i.Classes, c)
	}
}

type prop struct {
	name   string
	n      N
	check  func(t *testing.T, p *prop)
	replay func(raw json.RawMessage) error
}

var (
	props      []*prop
	propertyID string
)

type stats struct {
	mu           sync.Mutex
	Evaluations  int            `json:"evaluations"`
	NonTrivial   int            `json:"nontrivial"`
	Inconclusive int            `json:"inconclusive"`
	Requested    int            `json:"requested"`
	Classes      map[string]int `json:"classes"`
	Excluded     map[string]int `json:"excluded_known"`
	Samples      []sample       `json:"samples"`
	PerProp      map[string]int `json:"per_prop"`
	Seeds        []uint64       `json:"seeds"`
	Failures     []string       `json:"failures"`
	ElapsedS     float64        `json:"elapsed_s"`
	hashes       map[uint64]struct{}
	shrinking    bool
}

type sample struct {
	Prop    string          `json:"prop"`
	Classes []string        `json:"classes,omitempty"`
	Case    json.RawMessage `json:"case"`
}

var st = &stats{Classes: map[string]int{}, Excluded: map[string]int{}, PerProp: map[string]int{}, hashes: map[uint64]struct{}{}}

func envInt(k string, def int) int {
	if v := os.Getenv(k); v != "" {
		if n, err := strconv.Atoi(v); err == nil {
			return n
		}
	}
	return def
}

// Tier returns "quick" or "thorough".
func Tier() string {
	if os.Getenv("VERIF_TIER") == "thorough" {
		return "thorough"
	}
	return "quick"
}

// Thorough reports whether the thorough tier is running.
func Thorough() bool { return Tier() == "thorough" }

func shardInfo() (idx, total int) {
	return envInt("VERIF_SHARD", 0), envInt("VERIF_SHARDS", 1)
}

func seedFor(name string) uint64 {
	vs := uint64(envInt("VERIF_SEED", 1))
	idx, _ := shardInfo()
	h := fnv.New32a()
	h.Write([]byte(name))
	s := 1 + (vs*1000003+uint64(idx)*7919+uint64(h.Sum32()%1000)*104729)%(uint64(1)<<31-2)
	return s
}

// Register adds a generated property to the package under test. gen draws a
// case, run executes it. n is the case budget per tier over all shards.
func Register[C any](name string, n N, gen func(*rapid.T) C, run func(C) (Info, error)) {
	p := &prop{name: name, n: n}
	p.check = func(t *testing.T, p *prop) {
		idx, total := shardInfo()
		cnt := p.n.Quick
		if Thorough() {
			cnt = p.n.Thorough
		}
		if sc := os.Getenv("VERIF_SCALE"); sc != "" {
			if f, err := strconv.ParseFloat(sc, 64); err == nil {
				cnt = int(float64(cnt) * f)
			}
		}
		per := cnt / total
		if idx < cnt%total {
			per++
		}
		if per == 0 {
			return
		}
		seed := seedFor(name)
		flag.Set("rapid.checks", strconv.Itoa(per))
		flag.Set("rapid.seed", strconv.FormatUint(seed, 10))
		flag.Set("rapid.nofailfile", "true")
		flag.Set("rapid.shrinktime", "20s")
		st.mu.Lock()
		st.Requested += per
		st.Seeds = append(st.Seeds, seed)
		st.mu.Unlock()
		rapid.Check(t, func(rt *rapid.T) {
			c := gen(rt)
			defer func() {
				if r := recover(); r != nil {
					if isRapidInternal(r) {
						panic(r)
					}
					msg := fmt.Sprintf("panic: %v\n%s", r, debug.Stack())
					writeReplay(name, seed, c, msg)
					panic(r)
				}
			}()
			info, err := run(c)
			if err != nil {
				path := writeReplay(name, seed, c, err.Error())
				rt.Fatalf("property %s/%s violated: %v (replay %s)", propertyID, name, err, path)
			}
			done(name, c, info)
		})
	}
	p.replay = func(raw json.RawMessage) error {
		var c C
		if err := json.Unmarshal(raw, &c); err != nil {
			return fmt.Errorf("bad replay case: %v", err)
		}
		_, err := run(c)
		return err
	}
	props = append(props, p)
}

// rapid signals invalid data / stop with its own panic values; let them through.
func isRapidInternal(r interface{}) bool {
	s := fmt.Sprintf("%T", r)
	return strings.HasPrefix(s, "rapid.") || strings.HasPrefix(s, "*rapid.")
}

func done(name string, c interface{}, info Info) {
	st.mu.Lock()
	defer st.mu.Unlock()
	st.Evaluations++
	st.PerProp[name]++
	for _, cl := range info.Classes {
		st.Classes[name+":"+cl]++
	}
	for _, k := range info.Excluded {
		st.Excluded[k]++
	}
	if info.Inconclusive {
		st.Inconclusive++
		return
	}
	if !info.NonTrivial {
		return
	}
	var raw []byte
	if info.Sample != nil {
		raw, _ = json.Marshal(info.Sample)
	} else {
		raw, _ = json.Marshal(c)
	}
	h := fnv.New64a()
	h.Write([]byte(name))
	h.Write(raw)
	k := h.Sum64()
	if _, ok := st.hashes[k]; ok {
		return
	}
	st.hashes[k] = struct{}{}
	st.NonTrivial++
	// keep up to 2 samples per prop, prefer small ones
	if len(raw) <= 6000 {
		cnt := 0
		for _, s := range st.Samples {
			if s.Prop == name {
				cnt++
			}
		}
		if cnt < 2 {
			cls := append([]string(nil), info.Classes...)
			sort.Strings(cls)
			st.Samples = append(st.Samples, sample{Prop: name, Classes: cls, Case: raw})
		}
	}
}

type replayFile struct {
	Property string          `json:"property"`
	Prop     string          `json:"prop"`
	Seed     uint64          `json:"seed"`
	Error    string          `json:"error"`
	Case     json.RawMessage `json:"case"`
}

func replayDir() string {
	d := os.Getenv("VERIF_REPLAY_DIR")
	if d == "" {
		d = filepath.Join(os.TempDir(), "pdverif-replays")
	}
	os.MkdirAll(d, 0o755)
	return d
}

func writeReplay(name string, seed uint64, c interface{}, msg string) string {
	raw, err := json.Marshal(c)
	if err != nil {
		raw = []byte(fmt.Sprintf("%q", fmt.Sprintf("unmarshalable case: %v", err)))
	}
	idx, _ := shardInfo()
	path := filepath.Join(replayDir(), fmt.Sprintf("%s-%s-s%d-k%d.json", propertyID, name, envInt("VERIF_SEED", 1), idx))
	b, _ := json.MarshalIndent(replayFile{Property: propertyID, Prop: name, Seed: seed, Error: msg, Case: raw}, "", " ")
	os.WriteFile(path, b, 0o644)
	st.mu.Lock()
	found := false
	for _, f := range st.Failures {
		if f == path {
			found = true
		}
	}
	if !found {
		st.Failures = append(st.Failures, path)
	}
	st.mu.Unlock()
	return path
}

// RunAll runs every registered property (optionally filtered by VERIF_PROP).
func RunAll(t *testing.T) {
	only := os.Getenv("VERIF_PROP")
	for _, p := range props {
		if only != "" && only != p.name {
			continue
		}
		p := p
		t.Run(p.name, func(t *testing.T) { p.check(t, p) })
	}
}

// RunReplay re-executes the case stored in $VERIF_REPLAY without the library.
// Repeats it VERIF_REPLAY_REPEAT times (default 1) for order-dependent code.
func RunReplay(t *testing.T) {
	path := os.Getenv("VERIF_REPLAY")
	if path == "" {
		t.Skip("VERIF_REPLAY not set")
	}
	b, err := os.ReadFile(path)
	if err != nil {
		t.Fatalf("cannot read replay: %v", err)
	}
	var rf replayFile
	if err := json.Unmarshal(b, &rf); err != nil {
		t.Fatalf("bad replay file: %v", err)
	}
	for _, p := range props {
		if p.name != rf.Prop {
			continue
		}
		rep := envInt("VERIF_REPLAY_REPEAT", 1)
		for i := 0; i < rep; i++ {
			if err := p.replay(rf.Case); err != nil {
				fmt.Printf("VERIF-REPLAY-FAIL %s\n", path)
				t.Fatalf("replayed case violates %s/%s: %v", propertyID, p.name, err)
			}
		}
		fmt.Printf("VERIF-REPLAY-PASS %s\n", path)
		return
	}
	t.Fatalf("no property %q in this package", rf.Prop)
}

// Finding reports the outcome of a deterministic known-finding probe.
func Finding(t *testing.T, key string, reproduced bool, detail string) {
	detail = strings.ReplaceAll(detail, "\n", " ")
	fmt.Printf("VERIF-FINDING key=%s reproduced=%v detail=%s\n", key, reproduced, detail)
}

// Main is the TestMain body: runs the tests and writes the statistics file.
func Main(m *testing.M, id string) { MainWith(m, id, nil) }

// MainWith is Main with a clean-up function that runs after the tests (e.g. stop etcd).
func MainWith(m *testing.M, id string, cleanup func()) {
	propertyID = id
	start := time.Now()
	code := m.Run()
	st.ElapsedS = time.Since(start).Seconds()
	FlushStats()
	if cleanup != nil {
		cleanup()
	}
	os.Exit(code)
}

// FlushStats writes the statistics of the process (cases, classes, failures found so far) where the driver
// expects them. MainWith calls it at the regular end; a fixture that has to end the process early (a live server
// that cannot be started) calls it first, so that what the properties before it found is not lost.
func FlushStats() {
	pfx := os.Getenv("VERIF_STATS")
	if pfx == "" {
		return
	}
	st.mu.Lock()
	defer st.mu.Unlock()
	b, _ := json.Marshal(st)
	os.WriteFile(pfx+".json", b, 0o644)
	hs := make([]byte, 0, 8*len(st.hashes))
	for k := range st.hashes {
		hs = binary.LittleEndian.AppendUint64(hs, k)
	}
	os.WriteFile(pfx+".nt", hs, 0o644)
}

// Errf is a shorthand for building violation errors.
func Errf(format string, a ...interface{}) error { return fmt.Errorf(format, a...) }

// Known reports whether key is listed as a known (not yet repaired) finding in
// /verif/known_findings.json; generators exclude exactly that trigger class and
// count it with Info.Exclude. A finding marked fixed is not Known.
func Known(key string) bool {
	for _, k := range strings.Split(os.Getenv("VERIF_KNOWN"), ",") {
		if k == key {
			return true
		}
	}
	return false
}

// Quiet raises pd's global log level to error so that shard logs stay small. In every fourth shard process
// (see SilenceLog) the log level is debug instead and the encoded entries are thrown away.
func Quiet() {
	if debugLogShard() {
		SilenceLog()
		return
	}
	pdlog.SetLevel(zapcore.ErrorLevel)
}

func debugLogShard() bool {
	n, err := strconv.Atoi(os.Getenv("VERIF_SHARD"))
	return err == nil && n%4 == 3 && os.Getenv("VERIF_REPLAY") == ""
}

// SilenceLog installs a pd logger that prints nothing. The log level is configuration and must not change
// behaviour: in every fourth shard process (VERIF_SHARD = 3, 7, ...) every entry down to debug level is still
// ENCODED (zap.Stringer fields are evaluated, e.g. core.RegionToHexMeta) and the bytes are discarded, so a log
// line with a side effect on what it prints shows up in the ordinary oracle of the property.
func SilenceLog() {
	if !debugLogShard() {
		pdlog.ReplaceGlobals(zap.NewNop(), &pdlog.ZapProperties{Level: zap.NewAtomicLevel()})
		return
	}
	core := zapcore.NewCore(zapcore.NewJSONEncoder(zap.NewProductionEncoderConfig()), zapcore.AddSync(io.Discard), zapcore.DebugLevel)
	pdlog.ReplaceGlobals(zap.New(core), &pdlog.ZapProperties{Core: core, Level: zap.NewAtomicLevelAt(zapcore.DebugLevel)})
}

// Uni draws an integer in [0,n) uniformly from fair bits. rapid's integer and
// SampledFrom generators are deliberately biased towards small values / early
// elements, which skews weighted choices of operation kinds; shrinking still works
// (all-false bits = 0 = the first alternative).
func Uni(t *rapid.T, n int, label string) int {
	if n <= 1 {
		return 0
	}
	for {
		v := 0
		for b := 1; b < n; b <<= 1 {
			v <<= 1
			if rapid.Bool().Draw(t, label) {
				v |= 1
			}
		}
		if v < n {
			return v
		}
	}
}

// PickU picks an element uniformly.
func PickU[T any](t *rapid.T, xs []T, label string) T { return xs[Uni(t, len(xs), label)] }
