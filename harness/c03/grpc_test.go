package c03

// Property "grpc" — the SERVER layer of "only the current leaseholder serves": gRPC answers of a live PD
// member around a leader change. Quick tier: the live, bootstrapped 1-member server of harness/livesrv
// (the "old leader" is the member during the interval in which it provably is not leader, between its
// step-down and its re-election). Thorough tier: ONE real 3-member cluster per process
// (tests.NewTestCluster(ctx, 3)); the old leader keeps receiving requests after another member took over.
//
// A round: 2-4 callers send a drawn mix of AllocID / GetStore / PutStore(store 1 with a fresh label value) / Tso / GetMembers
// requests over a real grpc connection to the CURRENT leader's client URL; the leader steps down
// (Member.ResetLeader, or TestServer.ResignLeader = ResetLeader + etcd leader hand-over) while they keep
// sending; the harness watches the leader record out of band (raw read-only transactions through the
// member's etcd client) and so measures an interval in which the member provably was not the leader
// (livesrv.NotLeader); after the election has settled the callers go on for a while (3-member cluster:
// against the OLD leader), then leadership is sampled.
//
// Oracle:
//   (1) a request handled entirely inside the proven interval: AllocID, GetStore, PutStore are answered with
//       the not-leader error (gRPC status carrying "not leader") — not with ids, not with store data, not
//       with a response header error such as NOT_BOOTSTRAPPED; Tso is refused; GetMembers is still served
//       and (1-member server) does not name the old leader as leader;
//   (2) a PutStore that was refused wrote nothing: every PutStore carries a label value of its own; at the end of
//       the round neither the store record in etcd (raw read of <root>/raft/s/<id>) nor the record the leader
//       serves carries the value of a refused request;
//   (3) the cluster is bootstrapped: NOT_BOOTSTRAPPED is wrong for every request that does not straddle a
//       step-down (a member that passes its own leader check before its leader set-up is in place);
//   (4) after the election has settled, at every sampled instant exactly one member reports IsLeader(), it
//       is the owner of the leader record, its own GetMembers names it and no other member's GetMembers names
//       that other member itself (a follower's view may lag: counted, not judged).
// Real clock and scheduler: failures carry the request history; timeouts, transport errors and leader
// changes the harness did not ask for are inconclusive.

import (
	"context"
	"fmt"
	"os"
	"path"
	"sort"
	"strconv"
	"strings"
	"sync"
	"testing"
	"time"

	"github.com/pingcap/kvproto/pkg/metapb"
	"github.com/pingcap/kvproto/pkg/pdpb"
	"github.com/tikv/pd/server/election"
	"github.com/tikv/pd/server/tso"
	"pdverif/livesrv"
	"pdverif/vkit"
	"pgregory.net/rapid"
)

func init() {
	vkit.Register("grpc", vkit.N{Quick: 64, Thorough: 960}, genGrpc, runGrpc)
}

// TestPropZZLiveShutdown runs after TestProp (the driver selects ^TestProp): stops the live servers.
func TestPropZZLiveShutdown(t *testing.T) { livesrv.ShutdownAll() }

type LRound struct {
	Resign  bool       `json:"resign"`  // ResignLeader (ResetLeader + etcd leader hand-over) or ResetLeader alone
	Kinds   [][]string `json:"kinds"`   // per caller: the request kinds it cycles through (alloc|getstore|putstore|tso|members)
	Warm    int        `json:"warm"`    // requests per caller before the step-down (the member leads)
	After   int        `json:"after"`   // requests per caller after the election settled (3-member: to the old leader)
	Samples int        `json:"samples"` // leadership samples after the election settled
}

type LCase struct {
	Rounds []LRound `json:"rounds"`
}

var lkinds = []string{"alloc", "alloc", "getstore", "getstore", "putstore", "putstore", "tso", "tso", "members"}

func genGrpc(t *rapid.T) LCase {
	var c LCase
	for r, n := 0, 1+vkit.Uni(t, 3, "rounds"); r < n; r++ {
		rd := LRound{Resign: rapid.Bool().Draw(t, "resign"), Warm: vkit.Uni(t, 4, "warm"), After: 1 + vkit.Uni(t, 6, "after"), Samples: 1 + vkit.Uni(t, 4, "samples")}
		for w, nw := 0, 2+vkit.Uni(t, 3, "callers"); w < nw; w++ {
			var ks []string
			for i, nk := 0, 1+vkit.Uni(t, 4, "nkinds"); i < nk; i++ {
				ks = append(ks, vkit.PickU(t, lkinds, "kind"))
			}
			rd.Kinds = append(rd.Kinds, ks)
		}
		c.Rounds = append(c.Rounds, rd)
	}
	return c
}

// ---------------------------------------------------------------- history

type lev struct {
	No         int
	Round      int
	Caller     int
	Phase      string // warm | during | after
	To         string // member name
	Kind       string
	Send, Recv int64
	OK         bool
	Err        string
	HdrErr     string
	Detail     string // ids / leader named / store id
	StoreID    uint64 // putstore
	LeaderID   uint64 // members
	NotLeader  bool
}

func (e *lev) String() string {
	res := "ok " + e.Detail
	if e.Err != "" {
		res = "error: " + e.Err
	} else if e.HdrErr != "" {
		res = "header error " + e.HdrErr
	}
	nl := ""
	if e.NotLeader {
		nl = " [member provably not leader]"
	}
	extra := ""
	if e.Kind == "putstore" {
		extra = fmt.Sprintf("(store 1, label c03=%d)", e.StoreID)
	}
	return fmt.Sprintf("#%d round %d caller %d %s -> %s %s%s sent@%d received@%d: %s%s", e.No, e.Round, e.Caller, e.Phase, e.To, e.Kind, extra, e.Send, e.Recv, res, nl)
}

type lhist struct {
	mu   sync.Mutex
	evs  []*lev
	note []string
}

func (h *lhist) add(e *lev) {
	h.mu.Lock()
	e.No = len(h.evs) + 1
	h.evs = append(h.evs, e)
	h.mu.Unlock()
}

func (h *lhist) dump(base int64) string {
	h.mu.Lock()
	defer h.mu.Unlock()
	evs := append([]*lev(nil), h.evs...)
	sort.SliceStable(evs, func(i, j int) bool { return evs[i].Send < evs[j].Send })
	var b strings.Builder
	for _, n := range h.note {
		b.WriteString("\n    admin: " + n)
	}
	refusals, from, to := 0, int64(0), int64(0)
	flush := func() {
		if refusals > 0 {
			fmt.Fprintf(&b, "\n    ... %d AllocID/GetStore/PutStore/Tso requests sent@%d..%d were refused as not leader", refusals, from, to)
		}
		refusals = 0
	}
	for _, e := range evs {
		c := *e
		c.Send -= base
		c.Recv -= base
		if c.Phase != "warm" && c.Kind != "members" && strings.Contains(c.Err, "not leader") {
			if refusals == 0 {
				from = c.Send
			}
			refusals, to = refusals+1, c.Send
			continue
		}
		flush()
		b.WriteString("\n    " + c.String())
	}
	flush()
	return b.String()
}

// ---------------------------------------------------------------- process-wide

var (
	lmu       sync.Mutex
	lcaseNo   int
	nextStore uint64 // label values of PutStore requests
)

func freshStoreID() uint64 {
	lmu.Lock()
	defer lmu.Unlock()
	nextStore++
	return nextStore
}

// storeLabelInEtcd reads the record of store 1 raw and returns the value of its "c03" label ("" = none).
func storeLabelInEtcd(n *livesrv.Node) (string, error) {
	cli := n.Svr.GetClient()
	ctx, cancel := context.WithTimeout(context.Background(), 5*time.Second)
	defer cancel()
	resp, err := cli.Get(ctx, path.Join(n.Root(), "raft", "s", fmt.Sprintf("%020d", 1)))
	if err != nil {
		return "", err
	}
	if len(resp.Kvs) != 1 {
		return "", fmt.Errorf("store 1 has no record in etcd")
	}
	st := &metapb.Store{}
	if err := st.Unmarshal(resp.Kvs[0].Value); err != nil {
		return "", err
	}
	for _, l := range st.GetLabels() {
		if l.GetKey() == "c03" {
			return l.GetValue(), nil
		}
	}
	return "", nil
}

// ---------------------------------------------------------------- runner

func runGrpc(c LCase) (info vkit.Info, err error) {
	if os.Getenv("VERIF_REPLAY") != "" {
		defer livesrv.ShutdownAll()
	}
	// the "lease" property of this package installs a virtual clock in server/tso and server/election
	// (once per process, never restored): live servers need the real one
	tso.SetVerifClock(nil, nil)
	election.SetVerifClock(nil, nil)

	inconclusive := func(why string) (vkit.Info, error) {
		info.Inconclusive = true
		info.Class("inconclusive:" + why)
		return info, nil
	}
	var nodes []*livesrv.Node
	multi := vkit.Thorough() && os.Getenv("VERIF_C03_SINGLE") == ""
	if os.Getenv("VERIF_C03_MULTI") != "" {
		multi = true
	}
	var mc *livesrv.Multi
	if multi {
		m, e := livesrv.GetMulti()
		if e != nil {
			fmt.Println("C03 grpc: 3-member cluster not available:", e)
			return inconclusive("no-multi-cluster")
		}
		mc = m
		nodes = m.Nodes
	} else {
		fx := livesrv.MustGet()
		nodes = []*livesrv.Node{fx.Node()}
	}
	findLeader := func(d time.Duration) *livesrv.Node {
		if mc != nil {
			return mc.WaitLeader(d)
		}
		if nodes[0].WaitServing(d) {
			return nodes[0]
		}
		return nil
	}
	leader := findLeader(40 * time.Second)
	if leader == nil {
		if mc == nil {
			livesrv.Fatal("C03 grpc: the live member does not serve as leader")
		}
		return inconclusive("no-leader")
	}
	for _, n := range nodes {
		if _, e := n.PD(); e != nil {
			return inconclusive("no-connection")
		}
	}
	lmu.Lock()
	lcaseNo++
	caseNo := lcaseNo
	lmu.Unlock()
	_ = caseNo

	base := livesrv.Stamp()
	h := &lhist{}
	var vmu sync.Mutex
	var viol []string
	violate := func(format string, a ...interface{}) {
		vmu.Lock()
		viol = append(viol, fmt.Sprintf(format, a...))
		vmu.Unlock()
	}
	incWhy := ""
	var incMu sync.Mutex
	setInc := func(why string) {
		incMu.Lock()
		if incWhy == "" {
			incWhy = why
		}
		incMu.Unlock()
	}

	call := func(round, caller int, phase string, n *livesrv.Node, kind string) *lev {
		ev := &lev{Round: round, Caller: caller, Phase: phase, To: n.Name, Kind: kind}
		cli, _ := n.PD()
		ctx, cancel := context.WithTimeout(context.Background(), 10*time.Second)
		defer cancel()
		hdr := n.Header()
		fail := func(e error) {
			ev.Err = e.Error()
			if strings.Contains(ev.Err, "DeadlineExceeded") || strings.Contains(ev.Err, "transport is closing") || strings.Contains(ev.Err, "connection refused") {
				setInc("rpc-timeout-or-transport")
			}
		}
		switch kind {
		case "alloc":
			ev.Send = livesrv.Stamp()
			resp, e := cli.AllocID(ctx, &pdpb.AllocIDRequest{Header: hdr})
			ev.Recv = livesrv.Stamp()
			if e != nil {
				fail(e)
			} else if he := resp.GetHeader().GetError(); he != nil {
				ev.HdrErr = he.GetType().String()
			} else {
				ev.OK, ev.Detail = true, fmt.Sprintf("id %d", resp.GetId())
			}
		case "getstore":
			ev.Send = livesrv.Stamp()
			resp, e := cli.GetStore(ctx, &pdpb.GetStoreRequest{Header: hdr, StoreId: 1})
			ev.Recv = livesrv.Stamp()
			if e != nil {
				fail(e)
			} else if he := resp.GetHeader().GetError(); he != nil {
				ev.HdrErr = he.GetType().String()
			} else {
				ev.OK, ev.Detail = true, fmt.Sprintf("store %d %s", resp.GetStore().GetId(), resp.GetStore().GetAddress())
			}
		case "putstore":
			// the bootstrap store registers again with another label value (what a restarted TiKV does); no new stores pile up
			ev.StoreID = freshStoreID()
			st := &metapb.Store{Id: 1, Address: "mock://1", Version: "4.0.0", Labels: []*metapb.StoreLabel{{Key: "c03", Value: strconv.FormatUint(ev.StoreID, 10)}}}
			ev.Send = livesrv.Stamp()
			resp, e := cli.PutStore(ctx, &pdpb.PutStoreRequest{Header: hdr, Store: st})
			ev.Recv = livesrv.Stamp()
			if e != nil {
				fail(e)
			} else if he := resp.GetHeader().GetError(); he != nil {
				ev.HdrErr = he.GetType().String()
			} else {
				ev.OK = true
			}
		case "tso":
			sctx, scancel := context.WithCancel(ctx)
			ev.Send = livesrv.Stamp()
			stream, e := cli.Tso(sctx)
			if e == nil {
				e = stream.Send(&pdpb.TsoRequest{Header: hdr, Count: 1, DcLocation: tso.GlobalDCLocation})
			}
			var resp *pdpb.TsoResponse
			if e == nil {
				resp, e = stream.Recv()
			}
			ev.Recv = livesrv.Stamp()
			scancel()
			if e != nil {
				fail(e)
			} else {
				ev.OK, ev.Detail = true, fmt.Sprintf("(physical %d, logical %d)", resp.GetTimestamp().GetPhysical(), resp.GetTimestamp().GetLogical())
			}
		default: // members
			ev.Send = livesrv.Stamp()
			resp, e := cli.GetMembers(ctx, &pdpb.GetMembersRequest{Header: hdr})
			ev.Recv = livesrv.Stamp()
			if e != nil {
				fail(e)
			} else if he := resp.GetHeader().GetError(); he != nil {
				ev.HdrErr = he.GetType().String()
			} else {
				ev.OK, ev.LeaderID = true, resp.GetLeader().GetMemberId()
				ev.Detail = fmt.Sprintf("leader %q (%d), %d members", resp.GetLeader().GetName(), ev.LeaderID, len(resp.GetMembers()))
			}
		}
		h.add(ev)
		return ev
	}

	classes := map[string]bool{}
	type downIv struct{ a, b int64 }
	var downs []downIv
	changes, proven, provenKinds, afterOld := 0, 0, map[string]bool{}, 0
	var expectRev int64

	for ri, rd := range c.Rounds {
		old := leader
		oldID := old.Svr.GetMember().ID()
		// ---- warm-up: the member leads
		var wg sync.WaitGroup
		for w := range rd.Kinds {
			wg.Add(1)
			go func(w int) {
				defer wg.Done()
				for i := 0; i < rd.Warm; i++ {
					call(ri, w, "warm", old, rd.Kinds[w][i%len(rd.Kinds[w])])
				}
			}(w)
		}
		wg.Wait()
		// ---- step-down with callers that keep sending to the old leader
		stopCallers := make(chan struct{})
		var dwg sync.WaitGroup
		afterLeft := make([]int, len(rd.Kinds))
		var afterMu sync.Mutex
		settled := make(chan struct{})
		for w := range afterLeft {
			afterLeft[w] = rd.After
		}
		for w := range rd.Kinds {
			dwg.Add(1)
			go func(w int) {
				defer dwg.Done()
				for i := 0; i < 6000; i++ {
					ph := "during"
					select {
					case <-stopCallers:
						return
					case <-settled:
						ph = "after"
						afterMu.Lock()
						afterLeft[w]--
						left := afterLeft[w]
						afterMu.Unlock()
						if left < 0 {
							return
						}
					default:
					}
					call(ri, w, ph, old, rd.Kinds[w][i%len(rd.Kinds[w])])
					time.Sleep(time.Millisecond)
				}
			}(w)
		}
		time.Sleep(time.Duration(1+ri) * time.Millisecond)
		stopWatch := make(chan struct{})
		type sdRes struct {
			w livesrv.NotLeader
			e error
		}
		sdc := make(chan sdRes, 1)
		a := livesrv.Stamp()
		go func() {
			w, e := old.StepDown(rd.Resign, stopWatch, 40*time.Second)
			sdc <- sdRes{w, e}
		}()
		// wait for the election to settle
		time.Sleep(2 * time.Millisecond)
		var newLeader *livesrv.Node
		if mc != nil {
			// the step-down itself must have happened before we look for "a" leader (the old one still serves until then)
			deadline := time.Now().Add(10 * time.Second)
			for old.Svr.GetMember().IsLeader() && time.Now().Before(deadline) {
				rec, e := old.ReadRecord()
				if e == nil && rec.Holder != oldID {
					break
				}
				time.Sleep(time.Millisecond)
			}
		}
		if mc == nil {
			// single member: StepDown returns when the member owns the record again
			res := <-sdc
			sdc <- res
		}
		newLeader = findLeader(40 * time.Second)
		close(settled)
		// callers finish their "after" requests; in the 3-member cluster the old leader (now a follower) still gets them
		done := make(chan struct{})
		go func() { dwg.Wait(); close(done) }()
		select {
		case <-done:
		case <-time.After(60 * time.Second):
			close(stopCallers)
			<-done
			setInc("callers-stuck")
		}
		close(stopWatch)
		res := <-sdc
		win := res.w
		downs = append(downs, downIv{a, win.From})
		if res.e != nil {
			fmt.Println("C03 grpc: step-down failed:", res.e)
			return inconclusive("step-down-failed")
		}
		if newLeader == nil {
			if mc == nil {
				livesrv.Fatal("C03 grpc: the member did not serve again after a step-down")
			}
			return inconclusive("no-leader-after-step-down")
		}
		rec, e := newLeader.ReadRecord()
		if e != nil || rec.Holder != newLeader.Svr.GetMember().ID() {
			return inconclusive("no-leader-record")
		}
		expectRev = rec.CreateRev
		changes++
		if os.Getenv("VERIF_GRPC_DEBUG") != "" {
			h.mu.Lock()
			fmt.Printf("  round %d: step-down..settled+after %.1f ms, window %.1f ms, %d events so far\n", ri, float64(livesrv.Stamp()-a)/1e6, float64(win.Until-win.From)/1e6, len(h.evs))
			h.mu.Unlock()
		}
		if newLeader != old {
			classes["leadership-moved-to-another-member"] = true
		}
		h.mu.Lock()
		h.note = append(h.note, fmt.Sprintf("round %d: %s steps down (resign=%v): ResetLeader returned @%d, record not owned by it until at least @%d (%d raw reads); leader afterwards: %s",
			ri, old.Name, rd.Resign, win.From-base, win.Until-base, win.Polls, newLeader.Name))
		h.mu.Unlock()

		// (1) requests handled entirely while the old leader was not leader
		h.mu.Lock()
		for _, ev := range h.evs {
			if ev.Round != ri || ev.Phase == "warm" || ev.To != old.Name || !win.Covers(ev.Send, ev.Recv) {
				continue
			}
			ev.NotLeader = true
			if ev.Phase == "after" && newLeader != old {
				afterOld++
			}
			switch ev.Kind {
			case "alloc", "getstore", "putstore":
				switch {
				case ev.OK:
					violate("#%d %s was served by %s (%s) while that member was not leader", ev.No, ev.Kind, ev.To, ev.Detail)
				case ev.HdrErr != "":
					violate("#%d %s was answered by %s with header error %s while that member was not leader, want the not-leader error", ev.No, ev.Kind, ev.To, ev.HdrErr)
				case !strings.Contains(ev.Err, "not leader"):
					if !strings.Contains(ev.Err, "DeadlineExceeded") {
						violate("#%d %s was answered by %s with %q while that member was not leader, want the not-leader error", ev.No, ev.Kind, ev.To, ev.Err)
					}
				default:
					proven++
					provenKinds[ev.Kind] = true
				}
			case "tso":
				if ev.OK {
					violate("#%d Tso was granted %s by %s while that member was not leader", ev.No, ev.Detail, ev.To)
				} else {
					proven++
					provenKinds[ev.Kind] = true
				}
			case "members":
				if !ev.OK {
					if mc != nil && rd.Resign {
						// the etcd leadership is being handed over: the member list may be unavailable for a moment
						classes["members-unavailable-during-etcd-hand-over"] = true
					} else if !strings.Contains(ev.Err, "DeadlineExceeded") {
						violate("#%d GetMembers was not served by %s while it was not leader: %s%s", ev.No, ev.To, ev.Err, ev.HdrErr)
					}
				} else if ev.LeaderID == oldID {
					if mc == nil {
						// 1-member server: the only step-down is the harness' ResetLeader, which has returned (cached leader unset)
						violate("#%d GetMembers of %s named %s itself as leader while it was not leader", ev.No, ev.To, ev.To)
					} else {
						// 3-member cluster: between ResetLeader and the etcd hand-over of ResignLeader the member may win again and
						// then step down on its own; Member.ResetLeader closes the lease (revoke, slow while etcd changes its
						// leader) BEFORE it unsets the cached leader, so the member names itself for that long. Not a clause
						// of the property (no request is served): counted.
						classes["old-leader-names-itself-during-slow-revoke"] = true
					}
				} else {
					provenKinds[ev.Kind] = true
				}
			}
		}
		var refusedStores []uint64
		for _, ev := range h.evs {
			if ev.Round == ri && ev.Kind == "putstore" && !ev.OK && ev.Recv != 0 && !strings.Contains(ev.Err, "DeadlineExceeded") {
				refusedStores = append(refusedStores, ev.StoreID)
			}
		}
		h.mu.Unlock()

		// (2) refused PutStores wrote nothing
		if len(refusedStores) > 0 {
			stored, e := storeLabelInEtcd(newLeader)
			if e != nil {
				setInc("raw-read-failed")
			} else {
				served := ""
				if rc := newLeader.Svr.GetRaftCluster(); rc != nil {
					if st := rc.GetStore(1); st != nil {
						served = st.GetLabelValue("c03")
					}
				}
				for _, id := range refusedStores {
					v := strconv.FormatUint(id, 10)
					if stored == v {
						violate("round %d: the PutStore carrying label c03=%s was refused, yet the store record in etcd carries that value", ri, v)
					} else if served == v {
						violate("round %d: the PutStore carrying label c03=%s was refused, yet the leader serves the store with that value", ri, v)
					}
				}
				classes["refused-putstore-left-no-trace"] = true
			}
		}

		// (4) leadership samples after the election settled
		for k := 0; k < rd.Samples; k++ {
			var who []string
			var lead *livesrv.Node
			for _, n := range nodes {
				if n.Svr.GetMember().IsLeader() {
					who = append(who, n.Name)
					lead = n
				}
			}
			rec, e := nodes[0].ReadRecord()
			if e != nil {
				setInc("raw-read-failed")
				break
			}
			if rec.CreateRev != expectRev {
				setInc("unexpected-election")
				break
			}
			if len(who) != 1 {
				violate("round %d sample %d after the election settled: %d members report IsLeader(): %v (leader record: member %d)", ri, k, len(who), who, rec.Holder)
				break
			}
			if lead.Svr.GetMember().ID() != rec.Holder {
				violate("round %d sample %d: %s reports IsLeader() but the leader record is owned by member %d", ri, k, lead.Name, rec.Holder)
			}
			for _, n := range nodes {
				ev := call(ri, -1, "sample", n, "members")
				if !ev.OK {
					continue
				}
				switch {
				case n == lead && ev.LeaderID != rec.Holder:
					violate("round %d sample %d: GetMembers of the leader %s names member %d as leader, the leader record is owned by member %d", ri, k, n.Name, ev.LeaderID, rec.Holder)
				case n != lead && ev.LeaderID == n.Svr.GetMember().ID():
					violate("round %d sample %d: GetMembers of %s names %s itself as leader, the leader record is owned by member %d", ri, k, n.Name, n.Name, rec.Holder)
				case n != lead && ev.LeaderID != rec.Holder:
					// a follower learns the leader through its own watch / 200 ms poll: lagging is not claimed to be wrong
					classes["follower-view-lags"] = true
				}
			}
			time.Sleep(time.Duration(200+300*k) * time.Microsecond)
		}
		leader = newLeader
	}

	// (3) NOT_BOOTSTRAPPED on a bootstrapped cluster
	h.mu.Lock()
	served := map[string]bool{}
	for _, ev := range h.evs {
		if ev.OK {
			served[ev.Kind] = true
		}
		if ev.HdrErr == pdpb.ErrorType_NOT_BOOTSTRAPPED.String() {
			straddles := false
			for _, d := range downs {
				if ev.Send <= d.b && ev.Recv >= d.a {
					straddles = true
				}
			}
			if !straddles {
				violate("#%d %s was answered NOT_BOOTSTRAPPED by %s, a member of a bootstrapped cluster: it passed the member's own leader check while its leader set-up was not in place", ev.No, ev.Kind, ev.To)
			}
		}
	}
	h.mu.Unlock()

	if len(viol) > 0 {
		rec, e := nodes[0].ReadRecord()
		if e != nil || (expectRev != 0 && rec.CreateRev != expectRev) {
			return inconclusive("unexpected-election")
		}
		if incWhy != "" {
			return inconclusive(incWhy)
		}
		sort.Strings(viol)
		return info, fmt.Errorf("%s (+%d more)\n  history (stamps in ns since case start):%s", viol[0], len(viol)-1, h.dump(base))
	}
	if incWhy != "" {
		return inconclusive(incWhy)
	}
	if os.Getenv("VERIF_GRPC_DEBUG") != "" {
		fmt.Printf("case history:%s\n", h.dump(base))
	}
	if mc != nil {
		info.Class("3-member-cluster")
	} else {
		info.Class("1-member-server")
	}
	info.Class(fmt.Sprintf("leader-changes-%d", changes))
	for k := range provenKinds {
		classes["old-leader-proven-"+k] = true
	}
	for k := range served {
		classes["leader-served-"+k] = true
	}
	var cl []string
	for k := range classes {
		cl = append(cl, k)
	}
	sort.Strings(cl)
	for _, k := range cl {
		info.Class(k)
	}
	info.ClassIf(afterOld > 0, "old-leader-refused-after-take-over")
	info.NonTrivial = changes >= 1 && proven >= 1
	return info, nil
}
