package c03

// Property "grpc" — the SERVER layer of "only the current leaseholder serves": gRPC answers of a live PD
// member around a leader change. Quick tier: the live, bootstrapped 1-member server of harness/livesrv
// (the "old leader" is the member during the interval in which it provably is not leader, between its
// step-down and its re-election). Thorough tier: ONE real 3-member cluster per process
// (tests.NewTestCluster(ctx, 3)); the old leader keeps receiving requests after another member took over.
//
// A round: 2-4 callers send a drawn mix of AllocID / GetStore / PutStore(new store) / Tso / GetMembers
// requests over a real grpc connection to the CURRENT leader's client URL; the leader steps down
// (Member.ResetLeader, or TestServer.ResignLeader = ResetLeader + etcd leader hand-over) while they keep
// sending; the harness watches the leader record out of band (raw read-only transactions through the
// member's etcd client) and so measures an interval in which the member provably was not the leader
// (livesrv.NotLeader); after the election has settled the callers go on for a while (3-member cluster:
// against the OLD leader), then leadership is sampled.
//
// Oracle:
//   (1) a request handled entirely inside the proven interval: AllocID, GetStore, PutStore are answered with
//       the not-leader error (gRPC status carrying "not leader") — not with ids, not with store data, not
//       with a response header error such as NOT_BOOTSTRAPPED; Tso is refused; GetMembers is still served
//       and does not name the old leader as leader;
//   (2) a PutStore that was refused wrote nothing: the store's key is absent from etcd (raw prefix read of
//       <root>/raft/s/) at the end of the round, and the serving leader does not know the store;
//   (3) the cluster is bootstrapped: NOT_BOOTSTRAPPED is wrong for every request that does not straddle a
//       step-down (a member that passes its own leader check before its leader set-up is in place);
//   (4) after the election has settled, at every sampled instant exactly one member reports IsLeader(), it
//       is the owner of the leader record, and GetMembers of every member names it.
// Real clock and scheduler: failures carry the request history; timeouts, transport errors and leader
// changes the harness did not ask for are inconclusive.

import (
	"context"
	"fmt"
	"os"
	"path"
	"sort"
	"strconv"
	"strings"
	"sync"
	"testing"
	"time"

	"github.com/pingcap/kvproto/pkg/metapb"
	"github.com/pingcap/kvproto/pkg/pdpb"
	"github.com/tikv/pd/server/election"
	"github.com/tikv/pd/server/tso"
	"go.etcd.io/etcd/clientv3"
	"pdverif/livesrv"
	"pdverif/vkit"
	"pgregory.net/rapid"
)

func init() {
	vkit.Register("grpc", vkit.N{Quick: 100, Thorough: 1600}, genGrpc, runGrpc)
}

// TestPropZZLiveShutdown runs after TestProp (the driver selects ^TestProp): stops the live servers.
func TestPropZZLiveShutdown(t *testing.T) { livesrv.ShutdownAll() }

type LRound struct {
	Resign  bool       `json:"resign"`  // ResignLeader (ResetLeader + etcd leader hand-over) or ResetLeader alone
	Kinds   [][]string `json:"kinds"`   // per caller: the request kinds it cycles through (alloc|getstore|putstore|tso|members)
	Warm    int        `json:"warm"`    // requests per caller before the step-down (the member leads)
	After   int        `json:"after"`   // requests per caller after the election settled (3-member: to the old leader)
	Samples int        `json:"samples"` // leadership samples after the election settled
}

type LCase struct {
	Rounds []LRound `json:"rounds"`
}

var lkinds = []string{"alloc", "alloc", "getstore", "getstore", "putstore", "putstore", "tso", "tso", "members"}

func genGrpc(t *rapid.T) LCase {
	var c LCase
	for r, n := 0, 1+vkit.Uni(t, 3, "rounds"); r < n; r++ {
		rd := LRound{Resign: rapid.Bool().Draw(t, "resign"), Warm: vkit.Uni(t, 4, "warm"), After: 1 + vkit.Uni(t, 6, "after"), Samples: 1 + vkit.Uni(t, 4, "samples")}
		for w, nw := 0, 2+vkit.Uni(t, 3, "callers"); w < nw; w++ {
			var ks []string
			for i, nk := 0, 1+vkit.Uni(t, 4, "nkinds"); i < nk; i++ {
				ks = append(ks, vkit.PickU(t, lkinds, "kind"))
			}
			rd.Kinds = append(rd.Kinds, ks)
		}
		c.Rounds = append(c.Rounds, rd)
	}
	return c
}

// ---------------------------------------------------------------- history

type lev struct {
	No         int
	Round      int
	Caller     int
	Phase      string // warm | during | after
	To         string // member name
	Kind       string
	Send, Recv int64
	OK         bool
	Err        string
	HdrErr     string
	Detail     string // ids / leader named / store id
	StoreID    uint64 // putstore
	LeaderID   uint64 // members
	NotLeader  bool
}

func (e *lev) String() string {
	res := "ok " + e.Detail
	if e.Err != "" {
		res = "error: " + e.Err
	} else if e.HdrErr != "" {
		res = "header error " + e.HdrErr
	}
	nl := ""
	if e.NotLeader {
		nl = " [member provably not leader]"
	}
	extra := ""
	if e.Kind == "putstore" {
		extra = fmt.Sprintf("(store %d)", e.StoreID)
	}
	return fmt.Sprintf("#%d round %d caller %d %s -> %s %s%s sent@%d received@%d: %s%s", e.No, e.Round, e.Caller, e.Phase, e.To, e.Kind, extra, e.Send, e.Recv, res, nl)
}

type lhist struct {
	mu   sync.Mutex
	evs  []*lev
	note []string
}

func (h *lhist) add(e *lev) {
	h.mu.Lock()
	e.No = len(h.evs) + 1
	h.evs = append(h.evs, e)
	h.mu.Unlock()
}

func (h *lhist) dump(base int64) string {
	h.mu.Lock()
	defer h.mu.Unlock()
	evs := append([]*lev(nil), h.evs...)
	sort.SliceStable(evs, func(i, j int) bool { return evs[i].Send < evs[j].Send })
	var b strings.Builder
	for _, n := range h.note {
		b.WriteString("\n    admin: " + n)
	}
	refusals, from, to := 0, int64(0), int64(0)
	flush := func() {
		if refusals > 0 {
			fmt.Fprintf(&b, "\n    ... %d AllocID/GetStore/PutStore/Tso requests sent@%d..%d were refused as not leader", refusals, from, to)
		}
		refusals = 0
	}
	for _, e := range evs {
		c := *e
		c.Send -= base
		c.Recv -= base
		if c.Phase != "warm" && c.Kind != "members" && strings.Contains(c.Err, "not leader") {
			if refusals == 0 {
				from = c.Send
			}
			refusals, to = refusals+1, c.Send
			continue
		}
		flush()
		b.WriteString("\n    " + c.String())
	}
	flush()
	return b.String()
}

// ---------------------------------------------------------------- process-wide

var (
	lmu       sync.Mutex
	lcaseNo   int
	nextStore uint64 = 1 << 32 // store ids of PutStore requests: far above anything the allocator hands out in a run
)

func freshStoreID() uint64 {
	lmu.Lock()
	defer lmu.Unlock()
	nextStore++
	return nextStore
}

// storesInEtcd reads <root>/raft/s/ raw and returns the store ids that have a record.
func storesInEtcd(n *livesrv.Node) (map[uint64]bool, error) {
	cli := n.Svr.GetClient()
	ctx, cancel := context.WithTimeout(context.Background(), 5*time.Second)
	defer cancel()
	pfx := path.Join(n.Root(), "raft", "s") + "/"
	resp, err := cli.Get(ctx, pfx, clientv3.WithPrefix(), clientv3.WithKeysOnly())
	if err != nil {
		return nil, err
	}
	m := map[uint64]bool{}
	for _, kv := range resp.Kvs {
		if id, err := strconv.ParseUint(strings.TrimPrefix(string(kv.Key), pfx), 10, 64); err == nil {
			m[id] = true
		}
	}
	return m, nil
}

// ---------------------------------------------------------------- runner

func runGrpc(c LCase) (info vkit.Info, err error) {
	if os.Getenv("VERIF_REPLAY") != "" {
		defer livesrv.ShutdownAll()
	}
	// the "lease" property of this package installs a virtual clock in server/tso and server/election
	// (once per process, never restored): live servers need the real one
	tso.SetVerifClock(nil, nil)
	election.SetVerifClock(nil, nil)

	inconclusive := func(why string) (vkit.Info, error) {
		info.Inconclusive = true
		info.Class("inconclusive:" + why)
		return info, nil
	}
	var nodes []*livesrv.Node
	multi := vkit.Thorough() && os.Getenv("VERIF_C03_SINGLE") == ""
	if os.Getenv("VERIF_C03_MULTI") != "" {
		multi = true
	}
	var mc *livesrv.Multi
	if multi {
		m, e := livesrv.GetMulti()
		if e != nil {
			fmt.Println("C03 grpc: 3-member cluster not available:", e)
			return inconclusive("no-multi-cluster")
		}
		mc = m
		nodes = m.Nodes
	} else {
		fx := livesrv.MustGet()
		nodes = []*livesrv.Node{fx.Node()}
	}
	findLeader := func(d time.Duration) *livesrv.Node {
		if mc != nil {
			return mc.WaitLeader(d)
		}
		if nodes[0].WaitServing(d) {
			return nodes[0]
		}
		return nil
	}
	leader := findLeader(40 * time.Second)
	if leader == nil {
		if mc == nil {
			livesrv.Fatal("C03 grpc: the live member does not serve as leader")
		}
		return inconclusive("no-leader")
	}
	for _, n := range nodes {
		if _, e := n.PD(); e != nil {
			return inconclusive("no-connection")
		}
	}
	lmu.Lock()
	lcaseNo++
	caseNo := lcaseNo
	lmu.Unlock()
	_ = caseNo

	base := livesrv.Stamp()
	h := &lhist{}
	var vmu sync.Mutex
	var viol []string
	violate := func(format string, a ...interface{}) {
		vmu.Lock()
		viol = append(viol, fmt.Sprintf(format, a...))
		vmu.Unlock()
	}
	incWhy := ""
	var incMu sync.Mutex
	setInc := func(why string) {
		incMu.Lock()
		if incWhy == "" {
			incWhy = why
		}
		incMu.Unlock()
	}

	call := func(round, caller int, phase string, n *livesrv.Node, kind string) *lev {
		ev := &lev{Round: round, Caller: caller, Phase: phase, To: n.Name, Kind: kind}
		cli, _ := n.PD()
		ctx, cancel := context.WithTimeout(context.Background(), 10*time.Second)
		defer cancel()
		hdr := n.Header()
		fail := func(e error) {
			ev.Err = e.Error()
			if strings.Contains(ev.Err, "DeadlineExceeded") || strings.Contains(ev.Err, "transport is closing") || strings.Contains(ev.Err, "connection refused") {
				setInc("rpc-timeout-or-transport")
			}
		}
		switch kind {
		case "alloc":
			ev.Send = livesrv.Stamp()
			resp, e := cli.AllocID(ctx, &pdpb.AllocIDRequest{Header: hdr})
			ev.Recv = livesrv.Stamp()
			if e != nil {
				fail(e)
			} else if he := resp.GetHeader().GetError(); he != nil {
				ev.HdrErr = he.GetType().String()
			} else {
				ev.OK, ev.Detail = true, fmt.Sprintf("id %d", resp.GetId())
			}
		case "getstore":
			ev.Send = livesrv.Stamp()
			resp, e := cli.GetStore(ctx, &pdpb.GetStoreRequest{Header: hdr, StoreId: 1})
			ev.Recv = livesrv.Stamp()
			if e != nil {
				fail(e)
			} else if he := resp.GetHeader().GetError(); he != nil {
				ev.HdrErr = he.GetType().String()
			} else {
				ev.OK, ev.Detail = true, fmt.Sprintf("store %d %s", resp.GetStore().GetId(), resp.GetStore().GetAddress())
			}
		case "putstore":
			ev.StoreID = freshStoreID()
			st := &metapb.Store{Id: ev.StoreID, Address: fmt.Sprintf("c03-%d:20160", ev.StoreID), Version: "4.0.0"}
			ev.Send = livesrv.Stamp()
			resp, e := cli.PutStore(ctx, &pdpb.PutStoreRequest{Header: hdr, Store: st})
			ev.Recv = livesrv.Stamp()
			if e != nil {
				fail(e)
			} else if he := resp.GetHeader().GetError(); he != nil {
				ev.HdrErr = he.GetType().String()
			} else {
				ev.OK = true
			}
		case "tso":
			sctx, scancel := context.WithCancel(ctx)
			ev.Send = livesrv.Stamp()
			stream, e := cli.Tso(sctx)
			if e == nil {
				e = stream.Send(&pdpb.TsoRequest{Header: hdr, Count: 1, DcLocation: tso.GlobalDCLocation})
			}
			var resp *pdpb.TsoResponse
			if e == nil {
				resp, e = stream.Recv()
			}
			ev.Recv = livesrv.Stamp()
			scancel()
			if e != nil {
				fail(e)
			} else {
				ev.OK, ev.Detail = true, fmt.Sprintf("(physical %d, logical %d)", resp.GetTimestamp().GetPhysical(), resp.GetTimestamp().GetLogical())
			}
		default: // members
			ev.Send = livesrv.Stamp()
			resp, e := cli.GetMembers(ctx, &pdpb.GetMembersRequest{Header: hdr})
			ev.Recv = livesrv.Stamp()
			if e != nil {
				fail(e)
			} else if he := resp.GetHeader().GetError(); he != nil {
				ev.HdrErr = he.GetType().String()
			} else {
				ev.OK, ev.LeaderID = true, resp.GetLeader().GetMemberId()
				ev.Detail = fmt.Sprintf("leader %q (%d), %d members", resp.GetLeader().GetName(), ev.LeaderID, len(resp.GetMembers()))
			}
		}
		h.add(ev)
		return ev
	}

	type downIv struct{ a, b int64 }
	var downs []downIv
	changes, proven, provenKinds, afterOld := 0, 0, map[string]bool{}, 0
	var expectRev int64

	for ri, rd := range c.Rounds {
		old := leader
		oldID := old.Svr.GetMember().ID()
		// ---- warm-up: the member leads
		var wg sync.WaitGroup
		for w := range rd.Kinds {
			wg.Add(1)
			go func(w int) {
				defer wg.Done()
				for i := 0; i < rd.Warm; i++ {
					call(ri, w, "warm", old, rd.Kinds[w][i%len(rd.Kinds[w])])
				}
			}(w)
		}
		wg.Wait()
		// ---- step-down with callers that keep sending to the old leader
		stopCallers := make(chan struct{})
		var phase sync.Map // caller -> "during"/"after"
		var dwg sync.WaitGroup
		afterLeft := make([]int, len(rd.Kinds))
		var afterMu sync.Mutex
		settled := make(chan struct{})
		for w := range rd.Kinds {
			dwg.Add(1)
			phase.Store(w, "during")
			go func(w int) {
				defer dwg.Done()
				for i := 0; i < 6000; i++ {
					ph := "during"
					select {
					case <-stopCallers:
						return
					case <-settled:
						ph = "after"
						afterMu.Lock()
						afterLeft[w]--
						left := afterLeft[w]
						afterMu.Unlock()
						if left < 0 {
							return
						}
					default:
					}
					call(ri, w, ph, old, rd.Kinds[w][i%len(rd.Kinds[w])])
					time.Sleep(500 * time.Microsecond)
				}
			}(w)
		}
		for w := range afterLeft {
			afterLeft[w] = rd.After
		}
		time.Sleep(time.Duration(1+ri) * time.Millisecond)
		stopWatch := make(chan struct{})
		type sdRes struct {
			w livesrv.NotLeader
			e error
		}
		sdc := make(chan sdRes, 1)
		a := livesrv.Stamp()
		go func() {
			w, e := old.StepDown(rd.Resign, stopWatch, 40*time.Second)
			sdc <- sdRes{w, e}
		}()
		// wait for the election to settle
		time.Sleep(2 * time.Millisecond)
		var newLeader *livesrv.Node
		if mc != nil {
			// the step-down itself must have happened before we look for "a" leader (the old one still serves until then)
			deadline := time.Now().Add(10 * time.Second)
			for old.Svr.GetMember().IsLeader() && time.Now().Before(deadline) {
				rec, e := old.ReadRecord()
				if e == nil && rec.Holder != oldID {
					break
				}
				time.Sleep(time.Millisecond)
			}
		}
		if mc == nil {
			// single member: StepDown returns when the member owns the record again
			res := <-sdc
			sdc <- res
		}
		newLeader = findLeader(40 * time.Second)
		close(settled)
		// callers finish their "after" requests; in the 3-member cluster the old leader (now a follower) still gets them
		done := make(chan struct{})
		go func() { dwg.Wait(); close(done) }()
		select {
		case <-done:
		case <-time.After(60 * time.Second):
			close(stopCallers)
			<-done
			setInc("callers-stuck")
		}
		close(stopWatch)
		res := <-sdc
		win := res.w
		downs = append(downs, downIv{a, win.From})
		if res.e != nil {
			fmt.Println("C03 grpc: step-down failed:", res.e)
			return inconclusive("step-down-failed")
		}
		if newLeader == nil {
			if mc == nil {
				livesrv.Fatal("C03 grpc: the member did not serve again after a step-down")
			}
			return inconclusive("no-leader-after-step-down")
		}
		rec, e := newLeader.ReadRecord()
		if e != nil || rec.Holder != newLeader.Svr.GetMember().ID() {
			return inconclusive("no-leader-record")
		}
		expectRev = rec.CreateRev
		changes++
		info.ClassIf(newLeader != old, "leadership-moved-to-another-member")
		h.mu.Lock()
		h.note = append(h.note, fmt.Sprintf("round %d: %s steps down (resign=%v): ResetLeader returned @%d, record not owned by it until at least @%d (%d raw reads); leader afterwards: %s",
			ri, old.Name, rd.Resign, win.From-base, win.Until-base, win.Polls, newLeader.Name))
		h.mu.Unlock()

		// (1) requests handled entirely while the old leader was not leader
		h.mu.Lock()
		for _, ev := range h.evs {
			if ev.Round != ri || ev.Phase == "warm" || ev.To != old.Name || !win.Covers(ev.Send, ev.Recv) {
				continue
			}
			ev.NotLeader = true
			if ev.Phase == "after" && newLeader != old {
				afterOld++
			}
			switch ev.Kind {
			case "alloc", "getstore", "putstore":
				switch {
				case ev.OK:
					violate("#%d %s was served by %s (%s) while that member was not leader", ev.No, ev.Kind, ev.To, ev.Detail)
				case ev.HdrErr != "":
					violate("#%d %s was answered by %s with header error %s while that member was not leader, want the not-leader error", ev.No, ev.Kind, ev.To, ev.HdrErr)
				case !strings.Contains(ev.Err, "not leader"):
					if !strings.Contains(ev.Err, "DeadlineExceeded") {
						violate("#%d %s was answered by %s with %q while that member was not leader, want the not-leader error", ev.No, ev.Kind, ev.To, ev.Err)
					}
				default:
					proven++
					provenKinds[ev.Kind] = true
				}
			case "tso":
				if ev.OK {
					violate("#%d Tso was granted %s by %s while that member was not leader", ev.No, ev.Detail, ev.To)
				} else {
					proven++
					provenKinds[ev.Kind] = true
				}
			case "members":
				if !ev.OK {
					if !strings.Contains(ev.Err, "DeadlineExceeded") {
						violate("#%d GetMembers was not served by %s while it was not leader: %s%s", ev.No, ev.To, ev.Err, ev.HdrErr)
					}
				} else if ev.LeaderID == oldID {
					violate("#%d GetMembers of %s named %s itself as leader while it was not leader", ev.No, ev.To, ev.To)
				} else {
					provenKinds[ev.Kind] = true
				}
			}
		}
		var refusedStores []uint64
		for _, ev := range h.evs {
			if ev.Round == ri && ev.Kind == "putstore" && !ev.OK && ev.Recv != 0 && !strings.Contains(ev.Err, "DeadlineExceeded") {
				refusedStores = append(refusedStores, ev.StoreID)
			}
		}
		h.mu.Unlock()

		// (2) refused PutStores wrote nothing
		if len(refusedStores) > 0 {
			inEtcd, e := storesInEtcd(newLeader)
			if e != nil {
				setInc("raw-read-failed")
			} else {
				rc := newLeader.Svr.GetRaftCluster()
				for _, id := range refusedStores {
					if inEtcd[id] {
						violate("round %d: PutStore of store %d was refused, yet etcd holds a record of that store", ri, id)
					} else if rc != nil && rc.GetStore(id) != nil {
						violate("round %d: PutStore of store %d was refused, yet the leader serves that store", ri, id)
					}
				}
				info.Class("refused-putstore-left-no-record")
			}
		}

		// (4) leadership samples after the election settled
		for k := 0; k < rd.Samples; k++ {
			var who []string
			var lead *livesrv.Node
			for _, n := range nodes {
				if n.Svr.GetMember().IsLeader() {
					who = append(who, n.Name)
					lead = n
				}
			}
			rec, e := nodes[0].ReadRecord()
			if e != nil {
				setInc("raw-read-failed")
				break
			}
			if rec.CreateRev != expectRev {
				setInc("unexpected-election")
				break
			}
			if len(who) != 1 {
				violate("round %d sample %d after the election settled: %d members report IsLeader(): %v (leader record: member %d)", ri, k, len(who), who, rec.Holder)
				break
			}
			if lead.Svr.GetMember().ID() != rec.Holder {
				violate("round %d sample %d: %s reports IsLeader() but the leader record is owned by member %d", ri, k, lead.Name, rec.Holder)
			}
			for _, n := range nodes {
				ev := call(ri, -1, "sample", n, "members")
				if ev.OK && ev.LeaderID != rec.Holder {
					// a follower learns the leader through its watch; give it the time the settle wait already gave
					if n == lead || k > 0 {
						violate("round %d sample %d: GetMembers of %s names member %d as leader, the leader record is owned by member %d", ri, k, n.Name, ev.LeaderID, rec.Holder)
					}
				}
			}
			time.Sleep(time.Duration(200+300*k) * time.Microsecond)
		}
		leader = newLeader
	}

	// (3) NOT_BOOTSTRAPPED on a bootstrapped cluster
	h.mu.Lock()
	served := map[string]bool{}
	for _, ev := range h.evs {
		if ev.OK {
			served[ev.Kind] = true
		}
		if ev.HdrErr == pdpb.ErrorType_NOT_BOOTSTRAPPED.String() {
			straddles := false
			for _, d := range downs {
				if ev.Send <= d.b && ev.Recv >= d.a {
					straddles = true
				}
			}
			if !straddles {
				violate("#%d %s was answered NOT_BOOTSTRAPPED by %s, a member of a bootstrapped cluster: it passed the member's own leader check while its leader set-up was not in place", ev.No, ev.Kind, ev.To)
			}
		}
	}
	h.mu.Unlock()

	if len(viol) > 0 {
		rec, e := nodes[0].ReadRecord()
		if e != nil || (expectRev != 0 && rec.CreateRev != expectRev) {
			return inconclusive("unexpected-election")
		}
		if incWhy != "" {
			return inconclusive(incWhy)
		}
		sort.Strings(viol)
		return info, fmt.Errorf("%s (+%d more)\n  history (stamps in ns since case start):%s", viol[0], len(viol)-1, h.dump(base))
	}
	if incWhy != "" {
		return inconclusive(incWhy)
	}
	if os.Getenv("VERIF_GRPC_DEBUG") != "" {
		fmt.Printf("case history:%s\n", h.dump(base))
	}
	if mc != nil {
		info.Class("3-member-cluster")
	} else {
		info.Class("1-member-server")
	}
	info.Class(fmt.Sprintf("leader-changes-%d", changes))
	for k := range provenKinds {
		info.Class("old-leader-proven-" + k)
	}
	for k := range served {
		info.Class("leader-served-" + k)
	}
	info.ClassIf(afterOld > 0, "old-leader-refused-after-take-over")
	info.NonTrivial = changes >= 1 && proven >= 1
	return info, nil
}
